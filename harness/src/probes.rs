//! Probes implemented on kira's public traits: a scripted decoder, probe sounds / effects /
//! modulators that log what the mixer does with them, and a uniform handle trait for
//! static and streaming sounds.

use kira::sound::static_sound::StaticSoundHandle;
use kira::sound::streaming::{Decoder, StreamingSoundHandle};
use kira::sound::{IntoOptionalRegion, PlaybackState};
use kira::{Decibels, Frame, Panning, PlaybackRate, StartTime, Tween, Value};
use std::sync::atomic::{AtomicBool, AtomicU64, Ordering};
use std::sync::Arc;

// ---------------------------------------------------------------------------------------------
// scripted decoder

#[derive(Debug, Clone, PartialEq, Eq)]
pub enum DecErr {
	ScriptedDecodeFailure(u64),
	ScriptedSeekFailure(u64),
	ReadPastEnd,
}

#[derive(Debug, Default)]
pub struct DecStats {
	pub decode_calls: AtomicU64,
	pub seek_calls: AtomicU64,
	pub dropped: AtomicBool,
	pub failures_returned: AtomicU64,
	/// set by the harness to make a leaked decoder thread die the next time it touches the decoder
	pub abort: AtomicBool,
}

pub struct ScriptedDecoder {
	pub frames: Vec<Frame>,
	pub sample_rate: u32,
	/// cyclic packet sizes
	pub packets: Vec<usize>,
	pub seek_granularity: usize,
	/// the k-th decode call (1-based) fails; with `fail_forever` every later one too
	pub fail_decode_at: Option<u64>,
	pub fail_seek_at: Option<u64>,
	pub fail_forever: bool,
	pub stats: Arc<DecStats>,
	pkt_i: usize,
	pos: usize,
}

impl ScriptedDecoder {
	pub fn new(frames: Vec<Frame>, sample_rate: u32, packets: Vec<usize>, seek_granularity: usize) -> (Self, Arc<DecStats>) {
		let stats = Arc::new(DecStats::default());
		(
			Self {
				frames,
				sample_rate,
				packets,
				seek_granularity: seek_granularity.max(1),
				fail_decode_at: None,
				fail_seek_at: None,
				fail_forever: false,
				stats: stats.clone(),
				pkt_i: 0,
				pos: 0,
			},
			stats,
		)
	}
}

impl Drop for ScriptedDecoder {
	fn drop(&mut self) {
		self.stats.dropped.store(true, Ordering::SeqCst);
	}
}

impl Decoder for ScriptedDecoder {
	type Error = DecErr;
	fn sample_rate(&self) -> u32 {
		self.sample_rate
	}
	fn num_frames(&self) -> usize {
		self.frames.len()
	}
	fn decode(&mut self) -> Result<Vec<Frame>, Self::Error> {
		if self.stats.abort.load(Ordering::SeqCst) {
			panic!("scripted decoder aborted by the harness");
		}
		let n = self.stats.decode_calls.fetch_add(1, Ordering::SeqCst) + 1;
		if let Some(k) = self.fail_decode_at {
			if n == k || (self.fail_forever && n > k) {
				self.stats.failures_returned.fetch_add(1, Ordering::SeqCst);
				return Err(DecErr::ScriptedDecodeFailure(n));
			}
		}
		if self.pos >= self.frames.len() {
			self.stats.failures_returned.fetch_add(1, Ordering::SeqCst);
			return Err(DecErr::ReadPastEnd);
		}
		// a packet size of 0 is an empty chunk (legitimate: symphonia's Vorbis decoder returns one for the first packet)
		let size = if self.packets.iter().all(|p| *p == 0) { 1 } else { self.packets[self.pkt_i % self.packets.len()] };
		self.pkt_i += 1;
		let end = (self.pos + size).min(self.frames.len());
		let out = self.frames[self.pos..end].to_vec();
		self.pos = end;
		Ok(out)
	}
	fn seek(&mut self, index: usize) -> Result<usize, Self::Error> {
		if self.stats.abort.load(Ordering::SeqCst) {
			panic!("scripted decoder aborted by the harness");
		}
		let n = self.stats.seek_calls.fetch_add(1, Ordering::SeqCst) + 1;
		if let Some(k) = self.fail_seek_at {
			if n == k || (self.fail_forever && n > k) {
				self.stats.failures_returned.fetch_add(1, Ordering::SeqCst);
				return Err(DecErr::ScriptedSeekFailure(n));
			}
		}
		let landed = (index.min(self.frames.len()) / self.seek_granularity) * self.seek_granularity;
		self.pos = landed;
		Ok(landed)
	}
}

// ---------------------------------------------------------------------------------------------
// uniform sound handle

pub trait SoundHandle {
	fn state(&self) -> PlaybackState;
	fn position(&self) -> f64;
	fn set_volume(&mut self, v: Value<Decibels>, t: Tween);
	fn set_panning(&mut self, v: Value<Panning>, t: Tween);
	fn set_playback_rate(&mut self, v: Value<PlaybackRate>, t: Tween);
	fn pause(&mut self, t: Tween);
	fn resume(&mut self, t: Tween);
	fn resume_at(&mut self, s: StartTime, t: Tween);
	fn stop(&mut self, t: Tween);
	fn seek_to(&mut self, p: f64);
	fn seek_by(&mut self, p: f64);
	fn set_loop_region_opt(&mut self, r: Option<kira::sound::Region>);
}

macro_rules! impl_handle {
	($t:ty) => {
		fn state(&self) -> PlaybackState {
			<$t>::state(self)
		}
		fn position(&self) -> f64 {
			<$t>::position(self)
		}
		fn set_volume(&mut self, v: Value<Decibels>, t: Tween) {
			<$t>::set_volume(self, v, t)
		}
		fn set_panning(&mut self, v: Value<Panning>, t: Tween) {
			<$t>::set_panning(self, v, t)
		}
		fn set_playback_rate(&mut self, v: Value<PlaybackRate>, t: Tween) {
			<$t>::set_playback_rate(self, v, t)
		}
		fn pause(&mut self, t: Tween) {
			<$t>::pause(self, t)
		}
		fn resume(&mut self, t: Tween) {
			<$t>::resume(self, t)
		}
		fn resume_at(&mut self, s: StartTime, t: Tween) {
			<$t>::resume_at(self, s, t)
		}
		fn stop(&mut self, t: Tween) {
			<$t>::stop(self, t)
		}
		fn seek_to(&mut self, p: f64) {
			<$t>::seek_to(self, p)
		}
		fn seek_by(&mut self, p: f64) {
			<$t>::seek_by(self, p)
		}
		fn set_loop_region_opt(&mut self, r: Option<kira::sound::Region>) {
			<$t>::set_loop_region(self, r.into_optional_region())
		}
	};
}

impl SoundHandle for StaticSoundHandle {
	impl_handle!(StaticSoundHandle);
}
impl<E> SoundHandle for StreamingSoundHandle<E> {
	impl_handle!(StreamingSoundHandle<E>);
}

pub fn state_name(s: PlaybackState) -> &'static str {
	match s {
		PlaybackState::Playing => "Playing",
		PlaybackState::Pausing => "Pausing",
		PlaybackState::Paused => "Paused",
		PlaybackState::WaitingToResume => "WaitingToResume",
		PlaybackState::Resuming => "Resuming",
		PlaybackState::Stopping => "Stopping",
		PlaybackState::Stopped => "Stopped",
	}
}

/// Teardown of a streaming sound's decoder thread under the pacer: let it notice a stop; if it
/// does not end (that is a finding of C10, or a consequence of a broken life cycle), make it
/// die so that parked threads do not pile up in the worker (the sandbox allows ~32k threads).
/// Returns true when the thread ended by itself.
pub fn reap_decoder(id: usize, stats: &Arc<DecStats>) -> bool {
	use crate::pacer;
	pacer::step(id, 3);
	if pacer::exited(id) {
		wait_dropped(stats);
		return true;
	}
	stats.abort.store(true, Ordering::SeqCst);
	let st = stats.clone();
	pacer::step_or(id, 40, &move || st.dropped.load(Ordering::SeqCst));
	false
}

pub fn wait_dropped(stats: &Arc<DecStats>) -> bool {
	let mut spins = 0;
	while !stats.dropped.load(Ordering::SeqCst) && spins < 4000 {
		std::thread::sleep(std::time::Duration::from_micros(50));
		spins += 1;
	}
	stats.dropped.load(Ordering::SeqCst)
}

// ---------------------------------------------------------------------------------------------
// probe sound: emits known per-frame codes, logs every process call, records where it is dropped

use kira::info::Info;
use kira::sound::{Sound, SoundData};
use std::sync::Mutex;

pub struct ProbeShared {
	pub finished: AtomicBool,
	pub dropped: AtomicBool,
	pub dropped_in_callback: AtomicBool,
	/// (len, dt) of every process call; capacity reserved up front so logging never allocates
	pub calls: Mutex<Vec<(u32, f64)>>,
	pub on_start_calls: AtomicU64,
	pub frames_emitted: AtomicU64,
}

impl ProbeShared {
	pub fn new() -> Arc<Self> {
		Arc::new(Self {
			finished: AtomicBool::new(false),
			dropped: AtomicBool::new(false),
			dropped_in_callback: AtomicBool::new(false),
			calls: Mutex::new(Vec::with_capacity(4096)),
			on_start_calls: AtomicU64::new(0),
			frames_emitted: AtomicU64::new(0),
		})
	}
}

/// frame number n (0-based, counted over the sound's life) -> (left,right) = (a0 + n*da, b0 + n*db)
#[derive(Clone)]
pub struct ProbeSoundData {
	pub shared: Arc<ProbeShared>,
	pub left: (f32, f32),
	pub right: (f32, f32),
	/// fail in into_sound (a fallible SoundData)
	pub fail: bool,
}

impl ProbeSoundData {
	pub fn new(left: (f32, f32), right: (f32, f32)) -> Self {
		Self {
			shared: ProbeShared::new(),
			left,
			right,
			fail: false,
		}
	}
	pub fn frame(&self, n: u64) -> Frame {
		Frame::new(self.left.0 + n as f32 * self.left.1, self.right.0 + n as f32 * self.right.1)
	}
}

pub struct ProbeSound {
	data: ProbeSoundData,
	n: u64,
}

impl SoundData for ProbeSoundData {
	type Error = ();
	type Handle = Arc<ProbeShared>;
	fn into_sound(self) -> Result<(Box<dyn Sound>, Self::Handle), Self::Error> {
		if self.fail {
			return Err(());
		}
		let shared = self.shared.clone();
		Ok((Box::new(ProbeSound { data: self, n: 0 }), shared))
	}
}

impl Sound for ProbeSound {
	fn on_start_processing(&mut self) {
		self.data.shared.on_start_calls.fetch_add(1, Ordering::SeqCst);
	}
	fn process(&mut self, out: &mut [Frame], dt: f64, _info: &Info) {
		{
			let mut c = self.data.shared.calls.lock().unwrap();
			if c.len() < c.capacity() {
				c.push((out.len() as u32, dt));
			}
		}
		for f in out.iter_mut() {
			*f = self.data.frame(self.n);
			self.n += 1;
		}
		self.data.shared.frames_emitted.store(self.n, Ordering::SeqCst);
	}
	fn finished(&self) -> bool {
		self.data.shared.finished.load(Ordering::SeqCst)
	}
}

impl Drop for ProbeSound {
	fn drop(&mut self) {
		self.data.shared.dropped.store(true, Ordering::SeqCst);
		if crate::rig::in_callback() {
			self.data.shared.dropped_in_callback.store(true, Ordering::SeqCst);
		}
	}
}

// ---------------------------------------------------------------------------------------------
// probe effect: a non-commuting per-frame operation; logs every call and every rate it is told

use kira::effect::{Effect, EffectBuilder};

#[derive(Debug, Clone, Copy, PartialEq)]
pub enum FxOp {
	Add(f32),
	Mul(f32),
}

pub struct ProbeFxShared {
	pub calls: Mutex<Vec<(u32, f64)>>,
	pub init_rate: AtomicU64,
	pub last_rate: AtomicU64,
	pub rate_mismatches: AtomicU64,
	pub on_start_calls: AtomicU64,
}

#[derive(Clone)]
pub struct ProbeFxBuilder {
	pub op: FxOp,
	pub shared: Arc<ProbeFxShared>,
}

impl ProbeFxBuilder {
	pub fn new(op: FxOp) -> Self {
		Self {
			op,
			shared: Arc::new(ProbeFxShared {
				calls: Mutex::new(Vec::with_capacity(4096)),
				init_rate: AtomicU64::new(0),
				last_rate: AtomicU64::new(0),
				rate_mismatches: AtomicU64::new(0),
				on_start_calls: AtomicU64::new(0),
			}),
		}
	}
}

struct ProbeFx {
	op: FxOp,
	shared: Arc<ProbeFxShared>,
}

impl EffectBuilder for ProbeFxBuilder {
	type Handle = Arc<ProbeFxShared>;
	fn build(self) -> (Box<dyn Effect>, Self::Handle) {
		let sh = self.shared.clone();
		(Box::new(ProbeFx { op: self.op, shared: self.shared }), sh)
	}
}

impl Effect for ProbeFx {
	fn init(&mut self, sample_rate: u32, _internal_buffer_size: usize) {
		self.shared.init_rate.store(sample_rate as u64, Ordering::SeqCst);
		self.shared.last_rate.store(sample_rate as u64, Ordering::SeqCst);
	}
	fn on_change_sample_rate(&mut self, sample_rate: u32) {
		self.shared.last_rate.store(sample_rate as u64, Ordering::SeqCst);
	}
	fn on_start_processing(&mut self) {
		self.shared.on_start_calls.fetch_add(1, Ordering::SeqCst);
	}
	fn process(&mut self, input: &mut [Frame], dt: f64, _info: &Info) {
		{
			let mut c = self.shared.calls.lock().unwrap();
			if c.len() < c.capacity() {
				c.push((input.len() as u32, dt));
			}
		}
		let told = self.shared.last_rate.load(Ordering::SeqCst) as f64;
		if told > 0.0 && ((1.0 / dt) - told).abs() > 1e-6 * told {
			self.shared.rate_mismatches.fetch_add(1, Ordering::SeqCst);
		}
		for f in input.iter_mut() {
			match self.op {
				FxOp::Add(c) => {
					f.left += c;
					f.right += c;
				}
				FxOp::Mul(k) => {
					f.left *= k;
					f.right *= k;
				}
			}
		}
	}
}
