//! `MixWorld`: a real kira mixer (manager, tracks, sends, probe sounds, probe effects) and the
//! reference evaluation of the documented signal flow, driven in lock-step.
//!
//! Documented flow: each sub-track = sum of its child tracks + sum of its sounds -> its effects in
//! order -> x track volume x pause fade -> (post-fader) into its send routes x route volume; send
//! track = sum of routed inputs -> effects -> x volume; main = sum of top-level tracks + send
//! tracks + main sounds -> effects -> x main volume. A paused track and everything beneath it is
//! frozen and silent. A track is removed at the first callback after its handle is dropped (the one
//! after if it had not been adopted yet), never while a descendant track is alive, and - if built to
//! persist - not before its sounds have finished.

use crate::models::playback::{db_amp, lerp_db, PlaybackModel, StartM, PS};
use crate::probes::{FxOp, ProbeFxBuilder, ProbeFxShared, ProbeShared, ProbeSoundData};
use crate::props::c06::{ClockNow, ParamModel, SM};
use crate::rig::{self, Manager};
use kira::track::{MainTrackBuilder, SendTrackBuilder, SendTrackHandle, TrackBuilder, TrackHandle};
use kira::{Decibels, Easing, StartTime, Tween};
use std::sync::atomic::Ordering;
use std::sync::Arc;
use std::time::Duration;

#[derive(Debug, Clone, Copy, PartialEq)]
pub enum Target {
	Main,
	Node(usize),
}

pub struct FxM {
	pub op: FxOp,
	pub shared: Arc<ProbeFxShared>,
	/// chunk lengths the model expects this effect to have been asked for in the current callback
	pub expect_calls: Vec<u32>,
}

pub struct SoundM {
	pub on: Target,
	pub data: ProbeSoundData,
	pub shared: Arc<ProbeShared>,
	pub n: u64,
	pub adopted: bool,
	pub removed: bool,
	pub expect_calls: Vec<u32>,
}

pub struct NodeM {
	pub handle: Option<TrackHandle>,
	pub parent: Option<usize>,
	pub adopted: bool,
	pub marked: bool,
	pub removed: bool,
	pub persist: bool,
	pub volume: ParamModel<Decibels>,
	pub psm: PlaybackModel,
	pub fx: Vec<FxM>,
	pub routes: Vec<(usize, ParamModel<Decibels>)>,
}

pub struct SendM {
	pub handle: Option<SendTrackHandle>,
	pub adopted: bool,
	pub marked: bool,
	pub removed: bool,
	pub volume: ParamModel<Decibels>,
	pub fx: Vec<FxM>,
	input: Vec<(f64, f64)>,
}

#[derive(Clone)]
pub struct NodeCfg {
	pub volume_db: f32,
	pub fx: Vec<FxOp>,
	pub routes: Vec<(usize, f32)>,
	pub persist: bool,
}
impl Default for NodeCfg {
	fn default() -> Self {
		Self {
			volume_db: 0.0,
			fx: vec![],
			routes: vec![],
			persist: false,
		}
	}
}

pub struct MixWorld {
	pub m: Manager,
	pub sr: u32,
	pub ibs: usize,
	pub nodes: Vec<NodeM>,
	pub sends: Vec<SendM>,
	pub sounds: Vec<SoundM>,
	pub main_volume: ParamModel<Decibels>,
	pub main_fx: Vec<FxM>,
	pub frames_rendered: u64,
	/// model clock for resume_at(clock) scenarios (None = clock does not exist)
	pub clock: Option<ClockNow>,
	pub clock_handle: Option<kira::clock::ClockHandle>,
	pub clock_id: Option<kira::clock::ClockId>,
}

pub fn tween(dur: f64) -> Tween {
	Tween {
		start_time: StartTime::Immediate,
		duration: Duration::from_secs_f64(dur),
		easing: Easing::Linear,
	}
}

fn mk_fx(ops: &[FxOp]) -> (Vec<ProbeFxBuilder>, Vec<FxM>) {
	let mut b = vec![];
	let mut m = vec![];
	for op in ops {
		let pb = ProbeFxBuilder::new(*op);
		m.push(FxM {
			op: *op,
			shared: pb.shared.clone(),
			expect_calls: vec![],
		});
		b.push(pb);
	}
	(b, m)
}

fn apply_fx(fx: &mut [FxM], buf: &mut [(f64, f64)]) {
	for f in fx.iter_mut() {
		f.expect_calls.push(buf.len() as u32);
		for s in buf.iter_mut() {
			match f.op {
				FxOp::Add(c) => {
					s.0 = (s.0 as f32 + c) as f64;
					s.1 = (s.1 as f32 + c) as f64;
				}
				FxOp::Mul(k) => {
					s.0 = (s.0 as f32 * k) as f64;
					s.1 = (s.1 as f32 * k) as f64;
				}
			}
		}
	}
}

impl MixWorld {
	pub fn new(sr: u32, ibs: usize, main_volume_db: f32, main_fx: &[FxOp], cap: usize) -> Self {
		let (builders, fxm) = mk_fx(main_fx);
		let mut mb = MainTrackBuilder::new().volume(main_volume_db).sound_capacity(cap);
		for b in builders {
			mb = mb.with_effect(b);
		}
		let m = rig::manager(sr, ibs, rig::caps(cap), mb);
		Self {
			m,
			sr,
			ibs,
			nodes: vec![],
			sends: vec![],
			sounds: vec![],
			main_volume: ParamModel::new(Decibels(main_volume_db)),
			main_fx: fxm,
			frames_rendered: 0,
			clock: None,
			clock_handle: None,
			clock_id: None,
		}
	}

	/// a clock that exists but is not ticking yet
	pub fn add_clock(&mut self) {
		let h = self.m.add_clock(kira::clock::ClockSpeed::TicksPerSecond(1.0)).expect("clock");
		self.clock_id = Some(h.id());
		self.clock_handle = Some(h);
		self.clock = Some(ClockNow {
			ticking: false,
			ticks: 0,
			fraction: 0.0,
		});
	}
	pub fn start_clock(&mut self) {
		if let Some(h) = self.clock_handle.as_mut() {
			h.start();
			if let Some(c) = self.clock.as_mut() {
				c.ticking = true;
			}
		}
	}
	pub fn drop_clock(&mut self) {
		if self.clock_handle.take().is_some() {
			self.clock = None;
		}
	}

	pub fn add_send(&mut self, volume_db: f32, fx: &[FxOp]) -> Result<usize, String> {
		let (builders, fxm) = mk_fx(fx);
		let mut sb = SendTrackBuilder::new().volume(volume_db);
		for b in builders {
			sb = sb.with_effect(b);
		}
		let h = self.m.add_send_track(sb).map_err(|e| format!("{:?}", e))?;
		self.sends.push(SendM {
			handle: Some(h),
			adopted: false,
			marked: false,
			removed: false,
			volume: ParamModel::new(Decibels(volume_db)),
			fx: fxm,
			input: vec![],
		});
		Ok(self.sends.len() - 1)
	}

	pub fn add_node(&mut self, parent: Option<usize>, cfg: &NodeCfg) -> Result<usize, String> {
		let (builders, fxm) = mk_fx(&cfg.fx);
		let mut tb = TrackBuilder::new().volume(cfg.volume_db).persist_until_sounds_finish(cfg.persist);
		for b in builders {
			tb = tb.with_effect(b);
		}
		let mut routes = vec![];
		for (s, db) in &cfg.routes {
			// a route needs the id of the send track, which only a live handle provides
			if let Some(h) = self.sends[*s].handle.as_ref() {
				tb = tb.with_send(h, *db);
				// a route is identified by its send track: declaring it again replaces the earlier declaration
				routes.retain(|(rs, _): &(usize, ParamModel<Decibels>)| rs != s);
				routes.push((*s, ParamModel::new(Decibels(*db))));
			}
		}
		let h = match parent {
			None => self.m.add_sub_track(tb).map_err(|e| format!("{:?}", e))?,
			Some(p) => match self.nodes[p].handle.as_mut() {
				Some(ph) => ph.add_sub_track(tb).map_err(|e| format!("{:?}", e))?,
				None => return Err("parent handle already dropped".into()),
			},
		};
		self.nodes.push(NodeM {
			handle: Some(h),
			parent,
			adopted: false,
			marked: false,
			removed: false,
			persist: cfg.persist,
			volume: ParamModel::new(Decibels(cfg.volume_db)),
			psm: PlaybackModel::new_track(),
			fx: fxm,
			routes,
		});
		Ok(self.nodes.len() - 1)
	}

	/// play a probe sound whose frame k is (l0 + k*dl, r0 + k*dr)
	pub fn play(&mut self, on: Target, left: (f32, f32), right: (f32, f32)) -> Result<usize, String> {
		let data = ProbeSoundData::new(left, right);
		let shared = match on {
			Target::Main => self.m.play(data.clone()).map_err(|_| "limit".to_string())?,
			Target::Node(i) => match self.nodes[i].handle.as_mut() {
				Some(h) => h.play(data.clone()).map_err(|_| "limit".to_string())?,
				None => return Err("track handle already dropped".into()),
			},
		};
		self.sounds.push(SoundM {
			on,
			data,
			shared,
			n: 0,
			adopted: false,
			removed: false,
			expect_calls: vec![],
		});
		Ok(self.sounds.len() - 1)
	}

	pub fn finish_sound(&mut self, i: usize) {
		self.sounds[i].shared.finished.store(true, Ordering::SeqCst);
	}
	pub fn drop_node_handle(&mut self, i: usize) {
		if self.nodes[i].handle.take().is_some() {
			self.nodes[i].marked = true;
		}
	}
	pub fn drop_send_handle(&mut self, i: usize) {
		if self.sends[i].handle.take().is_some() {
			self.sends[i].marked = true;
		}
	}
	pub fn pause_node(&mut self, i: usize, dur: f64) {
		if let Some(h) = self.nodes[i].handle.as_mut() {
			h.pause(tween(dur));
			self.nodes[i].psm.pause(dur, Easing::Linear);
		}
	}
	pub fn resume_node(&mut self, i: usize, dur: f64) {
		if let Some(h) = self.nodes[i].handle.as_mut() {
			h.resume(tween(dur));
			self.nodes[i].psm.resume(StartM::Imm, dur, Easing::Linear);
		}
	}
	pub fn resume_node_at(&mut self, i: usize, start: StartTime, start_m: StartM, dur: f64) {
		if let Some(h) = self.nodes[i].handle.as_mut() {
			h.resume_at(start, tween(dur));
			self.nodes[i].psm.resume(start_m, dur, Easing::Linear);
		}
	}
	pub fn set_node_volume(&mut self, i: usize, db: f32, dur: f64) {
		if let Some(h) = self.nodes[i].handle.as_mut() {
			h.set_volume(db, tween(dur));
			self.nodes[i].volume.set(Decibels(db), dur, Easing::Linear, SM::Imm);
		}
	}

	pub fn set_send_volume(&mut self, i: usize, db: f32, dur: f64) {
		if i >= self.sends.len() {
			return;
		}
		if let Some(h) = self.sends[i].handle.as_mut() {
			h.set_volume(db, tween(dur));
			self.sends[i].volume.set(Decibels(db), dur, Easing::Linear, SM::Imm);
		}
	}

	/// change the volume of route `r` (index into the node's route table) of node i
	pub fn set_node_route(&mut self, i: usize, r: usize, db: f32, dur: f64) {
		if r >= self.nodes[i].routes.len() {
			return;
		}
		let s = self.nodes[i].routes[r].0;
		let Some(id) = self.sends[s].handle.as_ref().map(|h| h.id()) else { return };
		if let Some(h) = self.nodes[i].handle.as_mut() {
			if h.set_send(id, db, tween(dur)).is_ok() {
				self.nodes[i].routes[r].1.set(Decibels(db), dur, Easing::Linear, SM::Imm);
			}
		}
	}

	fn children(&self, p: Option<usize>) -> Vec<usize> {
		(0..self.nodes.len()).filter(|i| self.nodes[*i].parent == p && !self.nodes[*i].removed).collect()
	}

	/// documented removal rule
	fn removable(&self, i: usize) -> bool {
		let n = &self.nodes[i];
		if !n.marked {
			return false;
		}
		// never while a descendant track is alive (adopted or not)
		for c in self.children(Some(i)) {
			if !self.removable(c) {
				return false;
			}
		}
		if n.persist {
			let has_sounds = self
				.sounds
				.iter()
				.any(|s| s.on == Target::Node(i) && !s.removed);
			if has_sounds {
				return false;
			}
		}
		true
	}

	fn remove_subtree(&mut self, i: usize) {
		self.nodes[i].removed = true;
		for s in self.sounds.iter_mut() {
			if s.on == Target::Node(i) {
				s.removed = true;
			}
		}
		let kids: Vec<usize> = (0..self.nodes.len()).filter(|c| self.nodes[*c].parent == Some(i) && !self.nodes[*c].removed).collect();
		for c in kids {
			self.remove_subtree(c);
		}
	}

	fn sounds_on_start(&mut self, on: Target) {
		for s in self.sounds.iter_mut() {
			if s.on == on && !s.removed {
				if s.adopted && s.shared.finished.load(Ordering::SeqCst) {
					s.removed = true;
				}
			}
		}
		for s in self.sounds.iter_mut() {
			if s.on == on && !s.removed && !s.adopted {
				s.adopted = true;
			}
		}
	}

	fn node_on_start(&mut self, i: usize) {
		self.sounds_on_start(Target::Node(i));
		for c in self.children(Some(i)) {
			if self.nodes[c].adopted && self.removable(c) {
				self.remove_subtree(c);
			}
		}
		for c in self.children(Some(i)) {
			self.nodes[c].adopted = true;
			self.node_on_start(c);
		}
	}

	fn node_chunk(&mut self, i: usize, n: usize, dt: f64) -> Vec<(f64, f64)> {
		let step = dt * n as f64;
		let clock = self.clock;
		{
			let nd = &mut self.nodes[i];
			nd.volume.update(step, clock);
			for (_, r) in nd.routes.iter_mut() {
				r.update(step, clock);
			}
			nd.psm.update(step, clock);
		}
		if !self.nodes[i].psm.state.advancing() {
			return vec![(0.0, 0.0); n];
		}
		let mut out = vec![(0.0f64, 0.0f64); n];
		for c in self.children(Some(i)) {
			if self.nodes[c].adopted {
				let sub = self.node_chunk(c, n, dt);
				for k in 0..n {
					out[k].0 = (out[k].0 as f32 + sub[k].0 as f32) as f64;
					out[k].1 = (out[k].1 as f32 + sub[k].1 as f32) as f64;
				}
			}
		}
		self.sounds_chunk(Target::Node(i), &mut out);
		apply_fx(&mut self.nodes[i].fx, &mut out);
		let nd = &self.nodes[i];
		for (k, s) in out.iter_mut().enumerate() {
			let t = (k + 1) as f64 / n as f64;
			let g = (db_amp(lerp_db(nd.volume.prev, nd.volume.value, t)) as f32) * (nd.psm.fade_amp(t) as f32);
			s.0 = (s.0 as f32 * g) as f64;
			s.1 = (s.1 as f32 * g) as f64;
		}
		let routes: Vec<(usize, f32)> = nd.routes.iter().map(|(s, p)| (*s, db_amp(p.value.0) as f32)).collect();
		for (s, g) in routes {
			let send = &mut self.sends[s];
			if send.adopted && !send.removed {
				if send.input.len() < n {
					send.input.resize(n, (0.0, 0.0));
				}
				for k in 0..n {
					send.input[k].0 = (send.input[k].0 as f32 + out[k].0 as f32 * g) as f64;
					send.input[k].1 = (send.input[k].1 as f32 + out[k].1 as f32 * g) as f64;
				}
			}
		}
		out
	}

	fn sounds_chunk(&mut self, on: Target, out: &mut [(f64, f64)]) {
		let n = out.len();
		for s in self.sounds.iter_mut() {
			if s.on == on && s.adopted && !s.removed {
				s.expect_calls.push(n as u32);
				for k in 0..n {
					let f = s.data.frame(s.n);
					s.n += 1;
					out[k].0 = (out[k].0 as f32 + f.left) as f64;
					out[k].1 = (out[k].1 as f32 + f.right) as f64;
				}
			}
		}
	}

	/// the reference rendering of one callback of `nframes` frames
	fn model_callback(&mut self, nframes: usize) -> Vec<(f64, f64)> {
		for s in self.sounds.iter_mut() {
			s.expect_calls.clear();
		}
		for nd in self.nodes.iter_mut() {
			for f in nd.fx.iter_mut() {
				f.expect_calls.clear();
			}
		}
		for sd in self.sends.iter_mut() {
			for f in sd.fx.iter_mut() {
				f.expect_calls.clear();
			}
		}
		for f in self.main_fx.iter_mut() {
			f.expect_calls.clear();
		}
		// ---- start of the callback: removal, adoption
		for i in self.children(None) {
			if self.nodes[i].adopted && self.removable(i) {
				self.remove_subtree(i);
			}
		}
		for i in self.children(None) {
			self.nodes[i].adopted = true;
			self.node_on_start(i);
		}
		for s in self.sends.iter_mut() {
			if s.adopted && s.marked && !s.removed {
				s.removed = true;
			}
		}
		for s in self.sends.iter_mut() {
			if !s.removed {
				s.adopted = true;
			}
		}
		self.sounds_on_start(Target::Main);
		// ---- chunks
		let dt = 1.0 / self.sr as f64;
		let mut all = vec![];
		let mut left = nframes;
		while left > 0 {
			let n = left.min(self.ibs);
			left -= n;
			let mut out = vec![(0.0f64, 0.0f64); n];
			for i in self.children(None) {
				if self.nodes[i].adopted {
					let sub = self.node_chunk(i, n, dt);
					for k in 0..n {
						out[k].0 = (out[k].0 as f32 + sub[k].0 as f32) as f64;
						out[k].1 = (out[k].1 as f32 + sub[k].1 as f32) as f64;
					}
				}
			}
			for si in 0..self.sends.len() {
				if !self.sends[si].adopted || self.sends[si].removed {
					continue;
				}
				let step = dt * n as f64;
				let clock = self.clock;
				self.sends[si].volume.update(step, clock);
				let mut buf = vec![(0.0f64, 0.0f64); n];
				for k in 0..n.min(self.sends[si].input.len()) {
					buf[k] = self.sends[si].input[k];
				}
				self.sends[si].input.clear();
				apply_fx(&mut self.sends[si].fx, &mut buf);
				let v = &self.sends[si].volume;
				for (k, s) in buf.iter_mut().enumerate() {
					let t = (k + 1) as f64 / n as f64;
					let g = db_amp(lerp_db(v.prev, v.value, t)) as f32;
					out[k].0 = (out[k].0 as f32 + s.0 as f32 * g) as f64;
					out[k].1 = (out[k].1 as f32 + s.1 as f32 * g) as f64;
				}
			}
			let step = dt * n as f64;
			let clock = self.clock;
			self.main_volume.update(step, clock);
			self.sounds_chunk(Target::Main, &mut out);
			apply_fx(&mut self.main_fx, &mut out);
			for (k, s) in out.iter_mut().enumerate() {
				let t = (k + 1) as f64 / n as f64;
				let g = db_amp(lerp_db(self.main_volume.prev, self.main_volume.value, t)) as f32;
				s.0 = ((s.0 as f32 * g).clamp(-1.0, 1.0)) as f64;
				s.1 = ((s.1 as f32 * g).clamp(-1.0, 1.0)) as f64;
			}
			all.extend(out);
		}
		all
	}

	/// one callback on both sides; returns a list of (signature, detail) disagreements
	pub fn callback(&mut self, nframes: usize) -> Vec<(String, String)> {
		let mut fails = vec![];
		// clear probe logs
		for s in &self.sounds {
			s.shared.calls.lock().unwrap().clear();
		}
		for f in self.all_fx() {
			f.calls.lock().unwrap().clear();
		}
		let mut buf = vec![0.0f32; nframes * 2];
		let rep = rig::callback(&mut self.m, &mut buf, nframes, 2);
		if let Some(p) = &rep.panic {
			fails.push((format!("callback panic: {}", p), String::new()));
			return fails;
		}
		if rep.allocs + rep.frees > 0 {
			fails.push(("callback allocates/frees on the audio thread".into(), format!("allocs {} frees {}", rep.allocs, rep.frees)));
		}
		if let Some(b) = &rep.bad_sample {
			fails.push((format!("callback output ill-formed: {}", b), String::new()));
		}
		let want = self.model_callback(nframes);
		let dt = 1.0 / self.sr as f64;
		for k in 0..nframes {
			let (l, r) = (buf[2 * k] as f64, buf[2 * k + 1] as f64);
			let tol = 4e-6;
			let bad = (l - want[k].0).abs() > tol || (r - want[k].1).abs() > tol;
			if bad {
				let kind = if want[k].0 == 0.0 && want[k].1 == 0.0 {
					"audio where the documented signal flow yields exact silence (leak)"
				} else if l == 0.0 && r == 0.0 {
					"silence where the documented signal flow yields audio (signal lost)"
				} else {
					"output differs from the documented signal-flow sum"
				};
				fails.push((
					kind.to_string(),
					format!(
						"frame {} of the callback (absolute frame {}): got ({:e}, {:e}) expected ({:e}, {:e})",
						k,
						self.frames_rendered + k as u64,
						l,
						r,
						want[k].0,
						want[k].1
					),
				));
				break;
			}
		}
		// every live sound / effect is asked for every output frame exactly once, in order, in slices <= internal buffer size
		for (i, s) in self.sounds.iter().enumerate() {
			let calls: Vec<(u32, f64)> = s.shared.calls.lock().unwrap().clone();
			let got: Vec<u32> = calls.iter().map(|c| c.0).collect();
			if got != s.expect_calls {
				fails.push((
					"a sound is not asked for every output frame exactly once, in order, in slices no longer than the internal buffer".into(),
					format!("sound #{} on {:?}: process lens {:?} expected {:?} (callback of {} frames, internal buffer {})", i, s.on, got, s.expect_calls, nframes, self.ibs),
				));
				break;
			}
			if calls.iter().any(|c| (c.1 - dt).abs() > 1e-12 || c.0 as usize > self.ibs) {
				fails.push(("a sound is processed with the wrong dt / an oversized slice".into(), format!("sound #{}: {:?}", i, calls)));
				break;
			}
		}
		let mut fx_fail = None;
		for (name, fx) in self.fx_named() {
			let calls: Vec<(u32, f64)> = fx.shared.calls.lock().unwrap().clone();
			let got: Vec<u32> = calls.iter().map(|c| c.0).collect();
			if got != fx.expect_calls {
				fx_fail = Some((
					"an effect is not asked for every output frame exactly once, in order, in slices no longer than the internal buffer".to_string(),
					format!("{}: process lens {:?} expected {:?}", name, got, fx.expect_calls),
				));
				break;
			}
			if calls.iter().any(|c| (c.1 - dt).abs() > 1e-12) {
				fx_fail = Some(("an effect is processed with the wrong dt".to_string(), format!("{}: {:?}", name, calls)));
				break;
			}
		}
		if let Some(f) = fx_fail {
			fails.push(f);
		}
		for (i, s) in self.sounds.iter().enumerate() {
			if s.shared.dropped_in_callback.load(Ordering::SeqCst) {
				fails.push(("a sound is destroyed on the audio thread".into(), format!("sound #{}", i)));
			}
		}
		self.frames_rendered += nframes as u64;
		fails
	}

	fn all_fx(&self) -> Vec<Arc<ProbeFxShared>> {
		let mut v = vec![];
		for n in &self.nodes {
			for f in &n.fx {
				v.push(f.shared.clone());
			}
		}
		for s in &self.sends {
			for f in &s.fx {
				v.push(f.shared.clone());
			}
		}
		for f in &self.main_fx {
			v.push(f.shared.clone());
		}
		v
	}

	fn fx_named(&self) -> Vec<(String, &FxM)> {
		let mut v = vec![];
		for (i, n) in self.nodes.iter().enumerate() {
			if n.removed {
				continue;
			}
			for (j, f) in n.fx.iter().enumerate() {
				v.push((format!("effect #{} of track {}", j, i), f));
			}
		}
		for (i, s) in self.sends.iter().enumerate() {
			if s.removed {
				continue;
			}
			for (j, f) in s.fx.iter().enumerate() {
				v.push((format!("effect #{} of send track {}", j, i), f));
			}
		}
		for (j, f) in self.main_fx.iter().enumerate() {
			v.push((format!("effect #{} of the main track", j), f));
		}
		v
	}

	/// hash of the model state (for the evidence's state count)
	pub fn state_hash(&self) -> u64 {
		let mut v: Vec<(bool, bool, bool, &'static str)> = vec![];
		for n in &self.nodes {
			v.push((n.adopted, n.marked, n.removed, n.psm.state.name()));
		}
		let s: Vec<(bool, bool)> = self.sounds.iter().map(|s| (s.adopted, s.removed)).collect();
		let sd: Vec<(bool, bool)> = self.sends.iter().map(|s| (s.adopted, s.removed)).collect();
		crate::engine::hash64(&(v, s, sd))
	}

	pub fn node_state_name(&self, i: usize) -> &'static str {
		match self.nodes[i].psm.state {
			PS::Playing => "Playing",
			PS::Pausing => "Pausing",
			PS::Paused => "Paused",
			PS::Waiting { .. } => "WaitingToResume",
			PS::Resuming => "Resuming",
			PS::Stopping => "Stopping",
			PS::Stopped => "Stopped",
		}
	}
}
