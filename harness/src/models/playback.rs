//! Reference model of the documented sound / track playback life cycle:
//! pause -> Pausing -> Paused, resume -> Resuming -> Playing, resume_at -> WaitingToResume -> ...,
//! stop -> Stopping -> Stopped (final). Fades are `ParamModel<Decibels>` tweens.

use crate::props::c06::{ClockNow, ParamModel, SM};
use kira::{Decibels, Easing};

#[derive(Debug, Clone, Copy, PartialEq)]
pub enum StartM {
	Imm,
	Delayed(f64),
	Clock(u64, f64),
}

impl StartM {
	/// returns true when the start can never happen (the clock does not exist)
	pub fn update(&mut self, dt: f64, clock: Option<ClockNow>) -> bool {
		match self {
			StartM::Imm => {}
			StartM::Delayed(rem) => {
				*rem = (*rem - dt).max(0.0);
				if *rem <= 0.0 {
					*self = StartM::Imm;
				}
			}
			StartM::Clock(t, f) => match clock {
				None => return true,
				Some(c) => {
					if c.ticking && (c.ticks, c.fraction) >= (*t, *f) {
						*self = StartM::Imm;
					}
				}
			},
		}
		false
	}
}

#[derive(Debug, Clone, Copy, PartialEq)]
pub enum PS {
	Playing,
	Pausing,
	Paused,
	Waiting { start: StartM, dur: f64, easing: Easing },
	Resuming,
	Stopping,
	Stopped,
}

impl PS {
	pub fn name(&self) -> &'static str {
		match self {
			PS::Playing => "Playing",
			PS::Pausing => "Pausing",
			PS::Paused => "Paused",
			PS::Waiting { .. } => "WaitingToResume",
			PS::Resuming => "Resuming",
			PS::Stopping => "Stopping",
			PS::Stopped => "Stopped",
		}
	}
	pub fn advancing(&self) -> bool {
		matches!(self, PS::Playing | PS::Pausing | PS::Resuming | PS::Stopping)
	}
}

#[derive(Debug, Clone)]
pub struct PlaybackModel {
	pub state: PS,
	pub fade: ParamModel<Decibels>,
	/// a track has no Stopped state: a resume scheduled on a clock that no longer exists leaves it Paused
	pub is_track: bool,
}

impl PlaybackModel {
	pub fn new() -> Self {
		Self {
			state: PS::Playing,
			fade: ParamModel::new(Decibels::IDENTITY),
			is_track: false,
		}
	}
	pub fn new_track() -> Self {
		Self {
			is_track: true,
			..Self::new()
		}
	}
	pub fn pause(&mut self, dur: f64, easing: Easing) {
		if self.state == PS::Stopped {
			return;
		}
		self.state = PS::Pausing;
		self.fade.set(Decibels::SILENCE, dur, easing, SM::Imm);
	}
	pub fn resume(&mut self, start: StartM, dur: f64, easing: Easing) {
		if self.state == PS::Stopped {
			return;
		}
		if start == StartM::Imm {
			self.state = PS::Resuming;
			self.fade.set(Decibels::IDENTITY, dur, easing, SM::Imm);
		} else {
			self.state = PS::Waiting { start, dur, easing };
		}
	}
	pub fn stop(&mut self, dur: f64, easing: Easing) {
		if self.state == PS::Stopped {
			return;
		}
		self.state = PS::Stopping;
		self.fade.set(Decibels::SILENCE, dur, easing, SM::Imm);
	}
	pub fn mark_stopped(&mut self) {
		self.state = PS::Stopped;
	}
	pub fn update(&mut self, dt: f64, clock: Option<ClockNow>) {
		let finished = self.fade.update(dt, clock);
		match &mut self.state {
			PS::Playing | PS::Paused | PS::Stopped => {}
			PS::Pausing => {
				if finished {
					self.state = PS::Paused;
				}
			}
			PS::Waiting { start, dur, easing } => {
				let never = start.update(dt, clock);
				if never {
					self.state = if self.is_track { PS::Paused } else { PS::Stopped };
				} else if *start == StartM::Imm {
					let (d, e) = (*dur, *easing);
					self.resume(StartM::Imm, d, e);
				}
			}
			PS::Resuming => {
				if finished {
					self.state = PS::Playing;
				}
			}
			PS::Stopping => {
				if finished {
					self.state = PS::Stopped;
				}
			}
		}
	}
	/// fade gain (amplitude) at relative position t in (0,1] of the chunk just updated
	pub fn fade_amp(&self, t: f64) -> f64 {
		db_amp(lerp_db(self.fade.prev, self.fade.value, t))
	}
}

pub fn lerp_db(a: Decibels, b: Decibels, t: f64) -> f32 {
	a.0 + (b.0 - a.0) * t as f32
}

/// the documented decibel law, in f64
pub fn db_amp(db: f32) -> f64 {
	if db == 0.0 {
		1.0
	} else if db <= -60.0 {
		0.0
	} else {
		10f64.powf(db as f64 / 20.0)
	}
}
