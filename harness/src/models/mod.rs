//! reference models (independent of kira's code)
pub mod mix;
pub mod playback;
