//! reference models (independent of kira's code)
pub mod playback;
