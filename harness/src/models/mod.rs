//! reference models (independent of kira's code)
