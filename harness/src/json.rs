//! Minimal JSON value, writer and parser (no external crates are available offline
//! beyond the repository's own lock file).

use std::collections::BTreeMap;
use std::fmt::Write;

#[derive(Debug, Clone, PartialEq)]
pub enum J {
	Null,
	Bool(bool),
	Int(i64),
	Num(f64),
	Str(String),
	Arr(Vec<J>),
	Obj(Vec<(String, J)>),
}

impl J {
	pub fn s(s: impl Into<String>) -> J {
		J::Str(s.into())
	}
	pub fn u(v: u64) -> J {
		J::Int(v as i64)
	}
	pub fn obj(items: Vec<(&str, J)>) -> J {
		J::Obj(items.into_iter().map(|(k, v)| (k.to_string(), v)).collect())
	}
	pub fn arr_str<I: IntoIterator<Item = String>>(it: I) -> J {
		J::Arr(it.into_iter().map(J::Str).collect())
	}
	pub fn get(&self, key: &str) -> Option<&J> {
		match self {
			J::Obj(items) => items.iter().find(|(k, _)| k == key).map(|(_, v)| v),
			_ => None,
		}
	}
	pub fn as_str(&self) -> Option<&str> {
		match self {
			J::Str(s) => Some(s),
			_ => None,
		}
	}
	pub fn as_i64(&self) -> Option<i64> {
		match self {
			J::Int(i) => Some(*i),
			J::Num(n) => Some(*n as i64),
			_ => None,
		}
	}
	pub fn as_arr(&self) -> Option<&[J]> {
		match self {
			J::Arr(a) => Some(a),
			_ => None,
		}
	}

	pub fn to_string_pretty(&self) -> String {
		let mut out = String::new();
		self.write(&mut out, 0, true);
		out.push('\n');
		out
	}
	pub fn to_string_compact(&self) -> String {
		let mut out = String::new();
		self.write(&mut out, 0, false);
		out
	}

	fn write(&self, out: &mut String, ind: usize, pretty: bool) {
		match self {
			J::Null => out.push_str("null"),
			J::Bool(b) => out.push_str(if *b { "true" } else { "false" }),
			J::Int(i) => {
				let _ = write!(out, "{}", i);
			}
			J::Num(n) => {
				if n.is_finite() {
					let _ = write!(out, "{}", n);
				} else {
					let _ = write!(out, "\"{}\"", n);
				}
			}
			J::Str(s) => write_str(out, s),
			J::Arr(a) => {
				if a.is_empty() {
					out.push_str("[]");
					return;
				}
				let simple = a
					.iter()
					.all(|v| !matches!(v, J::Arr(_) | J::Obj(_)));
				out.push('[');
				for (i, v) in a.iter().enumerate() {
					if i > 0 {
						out.push(',');
					}
					if pretty && !simple {
						out.push('\n');
						out.push_str(&" ".repeat(ind + 1));
					} else if i > 0 && pretty {
						out.push(' ');
					}
					v.write(out, ind + 1, pretty);
				}
				if pretty && !simple {
					out.push('\n');
					out.push_str(&" ".repeat(ind));
				}
				out.push(']');
			}
			J::Obj(o) => {
				if o.is_empty() {
					out.push_str("{}");
					return;
				}
				out.push('{');
				for (i, (k, v)) in o.iter().enumerate() {
					if i > 0 {
						out.push(',');
					}
					if pretty {
						out.push('\n');
						out.push_str(&" ".repeat(ind + 1));
					}
					write_str(out, k);
					out.push(':');
					if pretty {
						out.push(' ');
					}
					v.write(out, ind + 1, pretty);
				}
				if pretty {
					out.push('\n');
					out.push_str(&" ".repeat(ind));
				}
				out.push('}');
			}
		}
	}
}

fn write_str(out: &mut String, s: &str) {
	out.push('"');
	for c in s.chars() {
		match c {
			'"' => out.push_str("\\\""),
			'\\' => out.push_str("\\\\"),
			'\n' => out.push_str("\\n"),
			'\r' => out.push_str("\\r"),
			'\t' => out.push_str("\\t"),
			c if (c as u32) < 0x20 => {
				let _ = write!(out, "\\u{:04x}", c as u32);
			}
			c => out.push(c),
		}
	}
	out.push('"');
}

pub fn parse(src: &str) -> Result<J, String> {
	let mut p = Parser {
		b: src.as_bytes(),
		i: 0,
	};
	let v = p.value()?;
	p.ws();
	if p.i != p.b.len() {
		return Err(format!("trailing data at {}", p.i));
	}
	Ok(v)
}

struct Parser<'a> {
	b: &'a [u8],
	i: usize,
}

impl<'a> Parser<'a> {
	fn ws(&mut self) {
		while self.i < self.b.len() && (self.b[self.i] as char).is_whitespace() {
			self.i += 1;
		}
	}
	fn value(&mut self) -> Result<J, String> {
		self.ws();
		if self.i >= self.b.len() {
			return Err("eof".into());
		}
		match self.b[self.i] {
			b'{' => {
				self.i += 1;
				let mut items = vec![];
				loop {
					self.ws();
					if self.peek() == Some(b'}') {
						self.i += 1;
						break;
					}
					let k = match self.value()? {
						J::Str(s) => s,
						_ => return Err("key".into()),
					};
					self.ws();
					if self.peek() != Some(b':') {
						return Err(format!("expected : at {}", self.i));
					}
					self.i += 1;
					let v = self.value()?;
					items.push((k, v));
					self.ws();
					match self.peek() {
						Some(b',') => self.i += 1,
						Some(b'}') => {
							self.i += 1;
							break;
						}
						_ => return Err(format!("expected , or }} at {}", self.i)),
					}
				}
				Ok(J::Obj(items))
			}
			b'[' => {
				self.i += 1;
				let mut items = vec![];
				loop {
					self.ws();
					if self.peek() == Some(b']') {
						self.i += 1;
						break;
					}
					items.push(self.value()?);
					self.ws();
					match self.peek() {
						Some(b',') => self.i += 1,
						Some(b']') => {
							self.i += 1;
							break;
						}
						_ => return Err(format!("expected , or ] at {}", self.i)),
					}
				}
				Ok(J::Arr(items))
			}
			b'"' => {
				self.i += 1;
				let mut s = String::new();
				loop {
					if self.i >= self.b.len() {
						return Err("eof in string".into());
					}
					let c = self.b[self.i];
					self.i += 1;
					match c {
						b'"' => break,
						b'\\' => {
							let e = self.b[self.i];
							self.i += 1;
							match e {
								b'n' => s.push('\n'),
								b't' => s.push('\t'),
								b'r' => s.push('\r'),
								b'u' => {
									let h = std::str::from_utf8(&self.b[self.i..self.i + 4])
										.map_err(|e| e.to_string())?;
									let cp = u32::from_str_radix(h, 16).map_err(|e| e.to_string())?;
									s.push(char::from_u32(cp).unwrap_or('?'));
									self.i += 4;
								}
								other => s.push(other as char),
							}
						}
						_ => {
							// copy raw utf8 bytes
							let start = self.i - 1;
							let mut end = self.i;
							while end < self.b.len() && self.b[end] != b'"' && self.b[end] != b'\\' {
								end += 1;
							}
							s.push_str(
								std::str::from_utf8(&self.b[start..end]).map_err(|e| e.to_string())?,
							);
							self.i = end;
						}
					}
				}
				Ok(J::Str(s))
			}
			b't' => {
				self.i += 4;
				Ok(J::Bool(true))
			}
			b'f' => {
				self.i += 5;
				Ok(J::Bool(false))
			}
			b'n' => {
				self.i += 4;
				Ok(J::Null)
			}
			_ => {
				let start = self.i;
				while self.i < self.b.len()
					&& matches!(self.b[self.i], b'0'..=b'9' | b'-' | b'+' | b'.' | b'e' | b'E')
				{
					self.i += 1;
				}
				let t = std::str::from_utf8(&self.b[start..self.i]).unwrap();
				if let Ok(i) = t.parse::<i64>() {
					Ok(J::Int(i))
				} else {
					t.parse::<f64>()
						.map(J::Num)
						.map_err(|e| format!("bad number {:?}: {}", t, e))
				}
			}
		}
	}
	fn peek(&self) -> Option<u8> {
		self.b.get(self.i).copied()
	}
}

#[allow(dead_code)]
pub fn obj_from_map(m: &BTreeMap<String, u64>) -> J {
	J::Obj(m.iter().map(|(k, v)| (k.clone(), J::u(*v))).collect())
}
