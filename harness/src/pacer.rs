//! deterministic pacing of kira's decoder threads (E1)
