//! Deterministic pacing of kira's decoder threads for the sequential engines (E1/E3).
//!
//! kira spawns one real OS thread per streaming sound. Through the `verif-hooks` feature
//! that thread announces itself at the top of every iteration of its decode loop
//! ("decoder.gate"). In pacer mode the thread parks there until the harness grants it
//! steps, so that "how far ahead the decoder is" is decided by the harness and every run is
//! reproducible. A decoder that is never granted steps again simply stays parked (zero CPU).

use kira::verif::Event;
use std::cell::Cell;
use std::sync::atomic::{AtomicU8, Ordering};
use std::sync::{Condvar, Mutex};
use std::time::Duration;

#[derive(Debug, Clone, Copy, PartialEq, Eq)]
#[repr(u8)]
pub enum Mode {
	Off = 0,
	Pacer = 1,
	Sched = 2,
}

static MODE: AtomicU8 = AtomicU8::new(0);

pub fn mode() -> Mode {
	match MODE.load(Ordering::SeqCst) {
		1 => Mode::Pacer,
		2 => Mode::Sched,
		_ => Mode::Off,
	}
}

pub fn set_mode(m: Mode) {
	MODE.store(m as u8, Ordering::SeqCst);
	kira::verif::set_hook(if m == Mode::Off { None } else { Some(hook) });
}

fn hook(ev: Event) {
	match mode() {
		Mode::Off => {}
		Mode::Pacer => pacer_hook(ev),
		Mode::Sched => crate::sched::sched_hook(ev),
	}
}

#[derive(Debug, Default, Clone)]
pub struct Dec {
	pub permits: u64,
	pub at_gate: bool,
	pub exited: bool,
	/// gate passes so far
	pub steps: u64,
	/// consecutive Wait (ring full) iterations
	pub waits: u64,
	/// parked in the middle of a loop iteration by `arm_decoder_park`
	pub parked: bool,
}

#[derive(Default)]
struct PState {
	decs: Vec<Dec>,
	spawned: u64,
	registered: u64,
}

static P: Mutex<PState> = Mutex::new(PState {
	decs: Vec::new(),
	spawned: 0,
	registered: 0,
});
static CV: Condvar = Condvar::new();

thread_local! {
	static DEC_ID: Cell<Option<usize>> = const { Cell::new(None) };
}

fn lock() -> std::sync::MutexGuard<'static, PState> {
	P.lock().unwrap_or_else(|e| e.into_inner())
}

fn pacer_hook(ev: Event) {
	match ev {
		Event::Sync("decoder.gate") => {
			let mut st = lock();
			let id = match DEC_ID.with(|d| d.get()) {
				Some(id) => id,
				None => {
					st.decs.push(Dec::default());
					st.registered += 1;
					let id = st.decs.len() - 1;
					DEC_ID.with(|d| d.set(Some(id)));
					id
				}
			};
			st.decs[id].at_gate = true;
			CV.notify_all();
			while st.decs[id].permits == 0 {
				st = CV.wait(st).unwrap_or_else(|e| e.into_inner());
			}
			st.decs[id].permits -= 1;
			st.decs[id].at_gate = false;
			st.decs[id].steps += 1;
		}
		Event::Sync("yield:decoder.wait") => {
			if let Some(id) = DEC_ID.with(|d| d.get()) {
				lock().decs[id].waits += 1;
			}
		}
		Event::Sync(site) => {
			// mid-callback injection (one deviation from "the decoder only runs between callbacks"): at the n-th pass of
			// a non-decoder thread through a stream.* site, the decoder `dec` is granted `steps` iterations and the
			// passing thread waits until they are done
			if let Some(id) = DEC_ID.with(|d| d.get()) {
				// decoder-side deviation: park this decoder at its n-th pass through a stream.* sync point (in the middle of a
				// loop iteration) until the harness releases it - an audio callback can then be placed inside the iteration
				if !site.starts_with("stream.") {
					return;
				}
				let hit = {
					let mut pk = PARK.lock().unwrap_or_else(|e| e.into_inner());
					match pk.as_mut() {
						Some(p) if p.dec == id && !p.fired => {
							p.seen += 1;
							if p.seen == p.nth {
								p.fired = true;
								p.site_hit = Some(site);
								true
							} else {
								false
							}
						}
						_ => false,
					}
				};
				if hit {
					let mut st = lock();
					st.decs[id].parked = true;
					CV.notify_all();
					while st.decs[id].parked {
						st = CV.wait(st).unwrap_or_else(|e| e.into_inner());
					}
				}
				return;
			}
			if !site.starts_with("stream.") || !crate::rig::in_callback() {
				return;
			}
			let fire = {
				let mut inj = INJECT.lock().unwrap_or_else(|e| e.into_inner());
				match inj.as_mut() {
					Some(i) if !i.fired => {
						i.seen += 1;
						if i.seen == i.nth {
							i.fired = true;
							i.site_hit = Some(site);
							Some((i.dec, i.steps))
						} else {
							None
						}
					}
					_ => None,
				}
			};
			if let Some((dec, steps)) = fire {
				let _pause = crate::rig::PauseAllocCount::new();
				step(dec, steps);
			}
		}
		Event::ThreadSpawned => {
			// the spawner waits until the child has parked at its first gate, so that the
			// set of decoder threads is the same in every run
			let mut st = lock();
			st.spawned += 1;
			let want = st.spawned;
			let mut spins = 0;
			while st.registered < want {
				let (g, _) = CV
					.wait_timeout(st, Duration::from_millis(100))
					.unwrap_or_else(|e| e.into_inner());
				st = g;
				spins += 1;
				if spins > 100 {
					panic!("pacer: spawned decoder thread never reached its gate");
				}
			}
		}
		Event::ThreadExit => {
			if let Some(id) = DEC_ID.with(|d| d.get()) {
				let mut st = lock();
				st.decs[id].exited = true;
				st.decs[id].at_gate = false;
				CV.notify_all();
			}
		}
	}
}

pub struct Inject {
	pub dec: usize,
	/// the injection happens at the nth pass (1-based) of the audio thread through any stream.* sync point
	pub nth: u64,
	pub steps: u64,
	seen: u64,
	fired: bool,
	pub site_hit: Option<&'static str>,
}
static INJECT: Mutex<Option<Inject>> = Mutex::new(None);

/// arm one mid-callback injection (see the hook); returns nothing - query `injection_site()` afterwards
pub fn arm_injection(dec: usize, nth: u64, steps: u64) {
	*INJECT.lock().unwrap_or_else(|e| e.into_inner()) = Some(Inject { dec, nth, steps, seen: 0, fired: false, site_hit: None });
}
/// disarm; returns (site at which it fired, passes seen so far)
pub fn disarm_injection() -> (Option<&'static str>, u64) {
	let i = INJECT.lock().unwrap_or_else(|e| e.into_inner()).take();
	match i {
		Some(i) => (i.site_hit, i.seen),
		None => (None, 0),
	}
}

pub struct Park {
	dec: usize,
	nth: u64,
	seen: u64,
	fired: bool,
	site_hit: Option<&'static str>,
}
static PARK: Mutex<Option<Park>> = Mutex::new(None);

/// the next `step` of decoder `dec` stops at its nth pass (1-based) through a stream.* sync point, in the middle of a loop
/// iteration, and returns; `release_decoder_park` lets it go on
pub fn arm_decoder_park(dec: usize, nth: u64) {
	*PARK.lock().unwrap_or_else(|e| e.into_inner()) = Some(Park { dec, nth, seen: 0, fired: false, site_hit: None });
}
/// release a parked decoder (it finishes its iteration and the permits it still holds); returns (site where it parked, passes seen)
pub fn release_decoder_park(dec: usize) -> (Option<&'static str>, u64) {
	let p = PARK.lock().unwrap_or_else(|e| e.into_inner()).take();
	{
		let mut st = lock();
		if dec < st.decs.len() {
			st.decs[dec].parked = false;
		}
		CV.notify_all();
	}
	// let it reach its gate (or exit)
	step(dec, 0);
	match p {
		Some(p) => (p.site_hit, p.seen),
		None => (None, 0),
	}
}

/// ids of decoders registered so far
pub fn count() -> usize {
	lock().decs.len()
}

pub fn info(id: usize) -> Dec {
	lock().decs[id].clone()
}

pub fn live() -> Vec<usize> {
	lock()
		.decs
		.iter()
		.enumerate()
		.filter(|(_, d)| !d.exited)
		.map(|(i, _)| i)
		.collect()
}

/// let decoder `id` perform up to `k` loop iterations; returns when it is parked again or has exited.
/// Returns the number of iterations actually started.
pub fn step(id: usize, k: u64) -> u64 {
	step_or(id, k, &|| false)
}

/// like `step`, but also returns (and marks the decoder as gone) as soon as `gone()` is true —
/// used when the harness makes a leaked decoder thread die (its `Drop` is the signal)
pub fn step_or(id: usize, k: u64, gone: &dyn Fn() -> bool) -> u64 {
	let mut st = lock();
	if st.decs[id].exited {
		return 0;
	}
	let before = st.decs[id].steps;
	st.decs[id].permits += k;
	CV.notify_all();
	let mut idle = 0;
	loop {
		let d = &st.decs[id];
		if d.exited || (d.permits == 0 && d.at_gate) || d.parked {
			break;
		}
		if gone() {
			st.decs[id].exited = true;
			break;
		}
		let (g, t) = CV
			.wait_timeout(st, Duration::from_millis(2))
			.unwrap_or_else(|e| e.into_inner());
		st = g;
		if t.timed_out() {
			idle += 1;
			if idle > 2500 {
				// a decoder that neither returns to its gate nor exits: leave it alone
				break;
			}
		} else {
			idle = 0;
		}
	}
	if !st.decs[id].parked {
		st.decs[id].permits = 0;
	}
	st.decs[id].steps - before
}

/// step every live decoder registered at or after `from`
pub fn step_all_from(from: usize, k: u64) {
	let n = count();
	for id in from..n {
		step(id, k);
	}
}

/// wait (bounded real time) until decoder `id` has exited
pub fn exited(id: usize) -> bool {
	lock().decs[id].exited
}
