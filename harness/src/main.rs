//! kvcheck — model-checking harness for the kira properties C01..C19.
//!
//!   kvcheck <ID> [quick|thorough]         run a check (parent: shards cases over worker processes)
//!   kvcheck <ID> --replay <file>          re-execute one recorded case, verbosely, twice
//!   kvcheck --worker ...                  (internal)
//!   kvcheck --list

mod engine;
mod json;
mod models;
mod pacer;
mod probes;
mod props;
mod rig;
mod sched;

#[global_allocator]
static ALLOC: rig::CountingAlloc = rig::CountingAlloc;

use engine::{Check, Tier};

fn main() {
	let args: Vec<String> = std::env::args().collect();
	if args.len() < 2 {
		eprintln!("usage: kvcheck <ID> [quick|thorough] | <ID> --replay <file> | --list");
		std::process::exit(2);
	}
	if args[1] == "--list" {
		for c in props::all() {
			println!("{}", c.id());
		}
		return;
	}
	if args[1] == "--worker" {
		// --worker ID tier shard nshards skip resfile
		let check = find(&args[2]);
		let tier = Tier::parse(&args[3]).expect("tier");
		let shard: u64 = args[4].parse().expect("shard");
		let nshards: u64 = args[5].parse().expect("nshards");
		let skip: Vec<u64> = if args[6] == "-" {
			vec![]
		} else {
			args[6].split(',').filter_map(|s| s.parse().ok()).collect()
		};
		if let Ok(lim) = std::env::var("KVH_MEM_LIMIT") {
			if let Ok(bytes) = lim.parse::<u64>() {
				set_mem_limit(bytes);
			}
		}
		engine::worker_main(check.as_ref(), tier, shard, nshards, &skip, &args[7]);
		return;
	}
	let check = find(&args[1]);
	if args.len() >= 4 && args[2] == "--replay" {
		std::process::exit(engine::replay_main(check.as_ref(), &args[3]));
	}
	let tier = args
		.get(2)
		.and_then(|s| Tier::parse(s))
		.or_else(|| std::env::var("VERIF_TIER").ok().and_then(|s| Tier::parse(&s)))
		.unwrap_or(Tier::Quick);
	std::process::exit(engine::parent_main(check.as_ref(), tier));
}

fn find(id: &str) -> Box<dyn Check> {
	for c in props::all() {
		if c.id() == id {
			return c;
		}
	}
	eprintln!("MACHINERY: unknown check {}", id);
	std::process::exit(2);
}

fn set_mem_limit(bytes: u64) {
	// RLIMIT_AS = 9 on linux
	#[repr(C)]
	struct RLimit {
		cur: u64,
		max: u64,
	}
	extern "C" {
		fn setrlimit(resource: i32, rlim: *const RLimit) -> i32;
	}
	let r = RLimit { cur: bytes, max: bytes };
	unsafe {
		setrlimit(9, &r);
	}
}
