//! The rig: a custom kira backend that hands the `Renderer` to the harness, the audio
//! callback exactly as the cpal backend performs it, and the always-on monitors
//! (panic, hang, allocation inside the callback, output well-formedness).

use kira::backend::{Backend, Renderer};
use kira::{AudioManager, AudioManagerSettings, Capacities};
use std::alloc::{GlobalAlloc, Layout, System};
use std::cell::{Cell, RefCell};
use std::sync::atomic::AtomicU64;

// ---------------------------------------------------------------------------------------------
// allocation monitor

pub struct CountingAlloc;

thread_local! {
	static IN_CALLBACK: Cell<bool> = const { Cell::new(false) };
	static CB_ALLOCS: Cell<u64> = const { Cell::new(0) };
	static CB_FREES: Cell<u64> = const { Cell::new(0) };
}
pub static TOTAL_ALLOCS: AtomicU64 = AtomicU64::new(0);

unsafe impl GlobalAlloc for CountingAlloc {
	unsafe fn alloc(&self, layout: Layout) -> *mut u8 {
		note_alloc();
		System.alloc(layout)
	}
	unsafe fn dealloc(&self, ptr: *mut u8, layout: Layout) {
		note_free();
		System.dealloc(ptr, layout)
	}
	unsafe fn alloc_zeroed(&self, layout: Layout) -> *mut u8 {
		note_alloc();
		System.alloc_zeroed(layout)
	}
	unsafe fn realloc(&self, ptr: *mut u8, layout: Layout, new_size: usize) -> *mut u8 {
		note_alloc();
		System.realloc(ptr, layout, new_size)
	}
}
#[inline]
fn note_alloc() {
	let _ = IN_CALLBACK.try_with(|f| {
		if f.get() {
			let _ = CB_ALLOCS.try_with(|c| c.set(c.get() + 1));
		}
	});
}
#[inline]
fn note_free() {
	let _ = IN_CALLBACK.try_with(|f| {
		if f.get() {
			let _ = CB_FREES.try_with(|c| c.set(c.get() + 1));
		}
	});
}

/// suspends the audio-thread allocation monitor on this thread for the guard's lifetime (used by the harness's own hooks)
pub struct PauseAllocCount(bool);
impl PauseAllocCount {
	pub fn new() -> Self {
		let was = IN_CALLBACK.try_with(|f| f.replace(false)).unwrap_or(false);
		PauseAllocCount(was)
	}
}
impl Drop for PauseAllocCount {
	fn drop(&mut self) {
		if self.0 {
			let _ = IN_CALLBACK.try_with(|f| f.set(true));
		}
	}
}

pub fn in_callback() -> bool {
	IN_CALLBACK.with(|f| f.get())
}
/// mark the current thread as "inside the audio callback" (allocation counting on)
pub fn set_in_callback(on: bool) {
	IN_CALLBACK.with(|f| f.set(on));
}
pub fn take_cb_alloc_counts() -> (u64, u64) {
	let a = CB_ALLOCS.with(|c| c.replace(0));
	let f = CB_FREES.with(|c| c.replace(0));
	(a, f)
}

// ---------------------------------------------------------------------------------------------
// panic monitor

thread_local! {
	static LAST_PANIC: RefCell<Option<String>> = const { RefCell::new(None) };
}

pub fn install_panic_hook() {
	std::panic::set_hook(Box::new(|info| {
		// no allocation accounting while formatting the message
		let was = IN_CALLBACK.with(|f| f.replace(false));
		let msg = if let Some(s) = info.payload().downcast_ref::<&str>() {
			s.to_string()
		} else if let Some(s) = info.payload().downcast_ref::<String>() {
			s.clone()
		} else {
			"<non-string panic>".to_string()
		};
		let loc = info
			.location()
			.map(|l| {
				let f = l.file();
				// keep the path relative to the crate so signatures survive checkouts elsewhere
				let f = f.rsplit_once("/src/").map(|(_, b)| b).unwrap_or(f);
				format!("{}", f)
			})
			.unwrap_or_default();
		LAST_PANIC.with(|p| *p.borrow_mut() = Some(format!("{} @ {}", normalize_panic(&msg), loc)));
		IN_CALLBACK.with(|f| f.set(was));
	}));
}

/// strip run-specific numbers from a panic message so it can serve as a signature
pub fn normalize_panic(msg: &str) -> String {
	let mut out = String::new();
	let mut prev_digit = false;
	for c in msg.chars() {
		if c.is_ascii_digit() {
			if !prev_digit {
				out.push('N');
			}
			prev_digit = true;
		} else {
			prev_digit = false;
			out.push(c);
		}
	}
	if out.len() > 160 {
		out.truncate(160);
	}
	out
}

pub fn take_last_panic() -> Option<String> {
	LAST_PANIC.with(|p| p.borrow_mut().take())
}

/// run `f`, converting a panic into `Err(normalized message @ file)`
pub fn catch<R>(f: impl FnOnce() -> R) -> Result<R, String> {
	let r = std::panic::catch_unwind(std::panic::AssertUnwindSafe(f));
	match r {
		Ok(v) => Ok(v),
		Err(_) => Err(take_last_panic().unwrap_or_else(|| "panic".into())),
	}
}

// ---------------------------------------------------------------------------------------------
// backend

pub struct VBackend {
	pub renderer: Option<Renderer>,
	pub sample_rate: u32,
}

#[derive(Clone, Copy)]
pub struct VSettings {
	pub sample_rate: u32,
}
impl Default for VSettings {
	fn default() -> Self {
		Self { sample_rate: 8 }
	}
}

impl Backend for VBackend {
	type Settings = VSettings;
	type Error = ();
	fn setup(settings: Self::Settings, _internal_buffer_size: usize) -> Result<(Self, u32), Self::Error> {
		Ok((
			Self {
				renderer: None,
				sample_rate: settings.sample_rate,
			},
			settings.sample_rate,
		))
	}
	fn start(&mut self, renderer: Renderer) -> Result<(), Self::Error> {
		self.renderer = Some(renderer);
		Ok(())
	}
}

pub type Manager = AudioManager<VBackend>;

pub fn caps(n: usize) -> Capacities {
	Capacities {
		sub_track_capacity: n,
		send_track_capacity: n,
		clock_capacity: n,
		modulator_capacity: n,
		listener_capacity: n,
	}
}

pub fn manager(sample_rate: u32, ibs: usize, capacities: Capacities, main: kira::track::MainTrackBuilder) -> Manager {
	AudioManager::<VBackend>::new(AudioManagerSettings {
		capacities,
		main_track_builder: main,
		internal_buffer_size: ibs,
		backend_settings: VSettings { sample_rate },
	})
	.expect("VBackend never fails")
}

pub fn simple_manager(sample_rate: u32, ibs: usize) -> Manager {
	manager(sample_rate, ibs, Capacities::default(), kira::track::MainTrackBuilder::new())
}

#[derive(Debug, Default, Clone)]
pub struct CbReport {
	pub panic: Option<String>,
	pub allocs: u64,
	pub frees: u64,
	/// first ill-formed sample, if any: (index, value description)
	pub bad_sample: Option<String>,
}

impl CbReport {
	pub fn ok(&self) -> bool {
		self.panic.is_none() && self.allocs == 0 && self.frees == 0 && self.bad_sample.is_none()
	}
}

/// One device callback of `nframes` frames with `channels` channels, performed exactly like
/// the cpal backend does (`on_start_processing` then `process`), under all monitors.
/// `out` must have room for nframes*channels samples; it is pre-filled with NaN so that a
/// sample the renderer did not write is detected.
pub fn callback_on(renderer: &mut Renderer, out: &mut [f32], nframes: usize, channels: u16) -> CbReport {
	let n = nframes * channels as usize;
	let out = &mut out[..n];
	out.fill(f32::NAN);
	let mut rep = CbReport::default();
	let _ = take_cb_alloc_counts();
	crate::engine::watch_cb_begin(4000);
	set_in_callback(true);
	let r = std::panic::catch_unwind(std::panic::AssertUnwindSafe(|| {
		renderer.on_start_processing();
		renderer.process(out, channels);
	}));
	set_in_callback(false);
	crate::engine::watch_cb_end();
	let (a, f) = take_cb_alloc_counts();
	if r.is_err() {
		rep.panic = Some(take_last_panic().unwrap_or_else(|| "panic".into()));
		// allocation while unwinding is the panic machinery's, not kira's
		return rep;
	}
	rep.allocs = a;
	rep.frees = f;
	for (i, s) in out.iter().enumerate() {
		let ch = i % channels as usize;
		let bad = if !s.is_finite() {
			Some(if s.is_nan() { "NaN".to_string() } else { "inf".to_string() })
		} else if *s < -1.0 || *s > 1.0 {
			Some("out of [-1,1]".to_string())
		} else if channels > 2 && ch >= 2 && *s != 0.0 {
			Some("extra channel not silent".to_string())
		} else {
			None
		};
		if let Some(b) = bad {
			rep.bad_sample = Some(format!("{} (channel {})", b, ch));
			break;
		}
	}
	rep
}

pub fn callback(m: &mut Manager, out: &mut [f32], nframes: usize, channels: u16) -> CbReport {
	let r = m.backend_mut().renderer.as_mut().expect("renderer present");
	callback_on(r, out, nframes, channels)
}

/// stereo callback returning the frames as (left,right) pairs appended to `sink`
pub fn render_stereo(m: &mut Manager, nframes: usize, sink: &mut Vec<(f32, f32)>) -> CbReport {
	let mut buf = vec![0.0f32; nframes * 2];
	let rep = callback(m, &mut buf, nframes, 2);
	for i in 0..nframes {
		sink.push((buf[2 * i], buf[2 * i + 1]));
	}
	rep
}

/// report the monitor verdicts of one callback into the context under property `C01`-style signatures
pub fn report_cb(ctx: &mut crate::engine::Ctx, rep: &CbReport, feature: &str, detail: &dyn Fn() -> String) {
	if let Some(p) = &rep.panic {
		ctx.fail(format!("callback panic: {} :: {}", p, feature), detail());
	}
	if rep.allocs > 0 || rep.frees > 0 {
		ctx.fail(
			format!("callback allocates/frees on the audio thread :: {}", feature),
			format!("allocs={} frees={} {}", rep.allocs, rep.frees, detail()),
		);
	}
	if let Some(b) = &rep.bad_sample {
		ctx.fail(format!("callback output ill-formed: {} :: {}", b, feature), detail());
	}
}

// ---------------------------------------------------------------------------------------------
// helpers for building sounds

use kira::sound::static_sound::{StaticSoundData, StaticSoundSettings};
use kira::Frame;
use std::sync::Arc;

pub fn static_data(sample_rate: u32, frames: Vec<Frame>) -> StaticSoundData {
	StaticSoundData {
		sample_rate,
		frames: Arc::from(frames.into_boxed_slice()),
		settings: StaticSoundSettings::default(),
		slice: None,
	}
}

/// index-coded mono frames: frame i carries (i+1) * scale
pub fn coded_frames(n: usize, scale: f32) -> Vec<Frame> {
	(0..n).map(|i| Frame::from_mono((i + 1) as f32 * scale)).collect()
}

pub fn dc_frames(n: usize, v: f32) -> Vec<Frame> {
	vec![Frame::from_mono(v); n]
}
