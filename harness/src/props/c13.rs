//! C13 — effect laws: dry mix is identity, silence stays silent, finite output, linearity, chunk-free.
//!
//! E1: full corner lattice of every built-in effect (plus a filter / a delay nested in a delay's
//! feedback loop) x 4 (thorough: 6) sample rates. Every lattice point is driven through the public
//! `EffectBuilder::build()` -> `Box<dyn Effect>` -> `init` / `on_start_processing` / `process`
//! path and judged by laws that need no reference implementation:
//!   finite   : long runs of 7 input signals stay finite
//!   identity : fully dry / 0 dB volume / centre pan / 0 dB EQ gain / hard clip at 0 dB  => out == in
//!   silence  : zero input into a fresh effect => exactly zero output
//!   linearity: f(a*x + b*y) == a*f(x) + b*f(y) within 1e-4 * peak (filter, EQ, delay, reverb, volume, pan)
//!   partition: the output does not depend on how the input is split into process calls
//!              (ALL 128 compositions of an 8-frame block, both from a fresh effect and in a warm
//!              stream, and 6 fixed partitions of 256-frame blocks), demanded bit-exactly.
//! A failing lattice point is minimised (each parameter moved to its interior default, the sample
//! rate to 48 kHz, the input to the noise table) so that the signature names only what matters.

use crate::engine::{hash64, Check, Ctx, Level, Tier};
use crate::json::J;
use crate::rig::catch;
use kira::effect::compressor::CompressorBuilder;
use kira::effect::delay::DelayBuilder;
use kira::effect::distortion::{DistortionBuilder, DistortionKind};
use kira::effect::eq_filter::{EqFilterBuilder, EqFilterKind};
use kira::effect::filter::{FilterBuilder, FilterMode};
use kira::effect::panning_control::PanningControlBuilder;
use kira::effect::reverb::ReverbBuilder;
use kira::effect::volume_control::VolumeControlBuilder;
use kira::effect::{Effect, EffectBuilder};
use kira::info::MockInfoBuilder;
use kira::{Decibels, Easing, Frame, Mix, Panning, Value};
use std::time::Duration;

pub struct C13;

const IBS: usize = 128;
const SRS_QUICK: [u32; 4] = [8000, 44100, 48000, 192000];
const SRS_THOROUGH: [u32; 6] = [8000, 22050, 44100, 48000, 96000, 192000];
fn srs(tier: Tier) -> &'static [u32] {
	match tier {
		Tier::Quick => &SRS_QUICK,
		Tier::Thorough => &SRS_THOROUGH,
	}
}
const DEF_SR: u32 = 48000;

// ---------------------------------------------------------------------------------------------
// the parameter lattice

struct P {
	name: &'static str,
	labels: &'static [&'static str],
	/// interior value used when minimising a failing point
	def: usize,
	/// categorical: always part of the signature
	always: bool,
}
struct Fam {
	name: &'static str,
	linear: bool,
	params: &'static [P],
}

const FREQ_L: &[&str] = &["0Hz(<=clamp 1e-4*sr)", "20Hz", "1kHz", "sr/2(>=nyquist)", "2*sr(>=nyquist)", "0.75*sr(>=nyquist)"];
const MIX_L: &[&str] = &["-0.5(<0)", "0(dry)", "0.5", "1(wet)", "1.5(>1)"];

static FAMS: [Fam; 8] = [
	Fam {
		name: "filter",
		linear: true,
		params: &[
			P { name: "mode", labels: &["LowPass", "BandPass", "HighPass", "Notch"], def: 0, always: true },
			P { name: "cutoff", labels: FREQ_L, def: 2, always: false },
			P { name: "resonance", labels: &["0", "0.5", "1", "1.5(>1)"], def: 1, always: false },
			P { name: "mix", labels: MIX_L, def: 3, always: false },
		],
	},
	Fam {
		name: "eq",
		linear: true,
		params: &[
			P { name: "kind", labels: &["Bell", "LowShelf", "HighShelf"], def: 0, always: true },
			P { name: "frequency", labels: FREQ_L, def: 2, always: false },
			P { name: "gain", labels: &["-60dB(<=-60dB)", "-12dB", "0dB", "+24dB"], def: 1, always: false },
			P { name: "q", labels: &["0(<=MIN_Q)", "0.7", "8", "100"], def: 1, always: false },
		],
	},
	Fam {
		name: "delay",
		linear: true,
		params: &[
			P { name: "delay_time", labels: &["100us", "2.5ms", "30ms"], def: 1, always: false },
			P { name: "feedback", labels: &["-60dB", "-6dB", "max(0dB plain/-3dB nested)"], def: 1, always: false },
			P { name: "mix", labels: MIX_L, def: 2, always: false },
			P { name: "nest", labels: &["none", "filter", "delay"], def: 0, always: true },
		],
	},
	Fam {
		name: "reverb",
		linear: true,
		params: &[
			P { name: "feedback", labels: &["0", "0.9", "1.0"], def: 1, always: false },
			P { name: "damping", labels: &["0", "0.5", "1"], def: 1, always: false },
			P { name: "stereo_width", labels: &["0", "0.5", "1"], def: 2, always: false },
			P { name: "mix", labels: MIX_L, def: 2, always: false },
		],
	},
	Fam {
		name: "compressor",
		linear: false,
		params: &[
			P { name: "threshold", labels: &["-48dB", "-24dB", "0dB"], def: 1, always: false },
			P { name: "ratio", labels: &["0.5(expand)", "4", "1000"], def: 1, always: false },
			P { name: "attack", labels: &["0s", "10ms", "1s"], def: 1, always: false },
			P { name: "release", labels: &["0s", "100ms", "1s"], def: 1, always: false },
			P { name: "makeup", labels: &["0dB", "+12dB"], def: 0, always: false },
			P { name: "mix", labels: &["0(dry)", "1(wet)"], def: 1, always: false },
		],
	},
	Fam {
		name: "distortion",
		linear: false,
		params: &[
			P { name: "kind", labels: &["HardClip", "SoftClip"], def: 0, always: true },
			P { name: "drive", labels: &["-60dB(<=-60dB)", "-12dB", "0dB", "+24dB", "+60dB"], def: 3, always: false },
			P { name: "mix", labels: MIX_L, def: 3, always: false },
		],
	},
	Fam {
		name: "volume",
		linear: true,
		params: &[P { name: "volume", labels: &["-120dB", "-60dB", "-6dB", "0dB", "+12dB"], def: 2, always: false }],
	},
	Fam {
		name: "panning",
		linear: true,
		params: &[P {
			name: "panning",
			labels: &["-2(<-1)", "-1", "-0.5", "0(centre)", "0.5", "1", "2(>1)"],
			def: 2,
			always: false,
		}],
	},
];

fn fam_size(f: usize) -> u64 {
	FAMS[f].params.iter().map(|p| p.labels.len() as u64).product()
}
fn num_cfgs() -> u64 {
	(0..FAMS.len()).map(fam_size).sum()
}
fn decode_cfg(mut c: u64) -> (usize, Vec<usize>) {
	for f in 0..FAMS.len() {
		let n = fam_size(f);
		if c < n {
			let mut ix = vec![];
			for p in FAMS[f].params {
				ix.push((c % p.labels.len() as u64) as usize);
				c /= p.labels.len() as u64;
			}
			return (f, ix);
		}
		c -= n;
	}
	unreachable!()
}

fn freq(i: usize, sr: u32) -> f64 {
	[0.0, 20.0, 1000.0, sr as f64 * 0.5, sr as f64 * 2.0, sr as f64 * 0.75][i]
}
const MIX5: [f32; 5] = [-0.5, 0.0, 0.5, 1.0, 1.5];
const DELAY_US: [u64; 3] = [100, 2500, 30000];
const INNER_DELAY_US: u64 = 1000;

fn build(f: usize, ix: &[usize], sr: u32) -> Box<dyn Effect> {
	let mut fx: Box<dyn Effect> = match f {
		0 => FilterBuilder::new()
			.mode([FilterMode::LowPass, FilterMode::BandPass, FilterMode::HighPass, FilterMode::Notch][ix[0]])
			.cutoff(freq(ix[1], sr))
			.resonance([0.0, 0.5, 1.0, 1.5][ix[2]])
			.mix(Mix(MIX5[ix[3]]))
			.build()
			.0,
		1 => EqFilterBuilder::new(
			[EqFilterKind::Bell, EqFilterKind::LowShelf, EqFilterKind::HighShelf][ix[0]],
			freq(ix[1], sr),
			Decibels([-60.0, -12.0, 0.0, 24.0][ix[2]]),
			[0.0, 0.7, 8.0, 100.0][ix[3]],
		)
		.build()
		.0,
		2 => {
			let nested = ix[3] != 0;
			let fb = [-60.0, -6.0, if nested { -3.0 } else { 0.0 }][ix[1]];
			let b = DelayBuilder::new()
				.delay_time(Duration::from_micros(DELAY_US[ix[0]]))
				.feedback(Decibels(fb))
				.mix(Mix(MIX5[ix[2]]));
			match ix[3] {
				0 => b.build().0,
				// band-pass with peak gain 1/k = 0.95 < 1: the loop gain stays below one
				1 => b
					.with_feedback_effect(FilterBuilder::new().mode(FilterMode::BandPass).cutoff(1500.0).resonance(0.5))
					.build()
					.0,
				// inner comb has peak gain 1/(1-0.251) = 1.34; 1.34 * 0.708 < 1
				_ => b
					.with_feedback_effect(
						DelayBuilder::new()
							.delay_time(Duration::from_micros(INNER_DELAY_US))
							.feedback(Decibels(-12.0))
							.mix(Mix::WET),
					)
					.build()
					.0,
			}
		}
		3 => ReverbBuilder::new()
			.feedback([0.0, 0.9, 1.0][ix[0]])
			.damping([0.0, 0.5, 1.0][ix[1]])
			.stereo_width([0.0, 0.5, 1.0][ix[2]])
			.mix(Mix(MIX5[ix[3]]))
			.build()
			.0,
		4 => CompressorBuilder::new()
			.threshold([-48.0, -24.0, 0.0][ix[0]])
			.ratio([0.5, 4.0, 1000.0][ix[1]])
			.attack_duration([Duration::ZERO, Duration::from_millis(10), Duration::from_secs(1)][ix[2]])
			.release_duration([Duration::ZERO, Duration::from_millis(100), Duration::from_secs(1)][ix[3]])
			.makeup_gain(Decibels([0.0, 12.0][ix[4]]))
			.mix(Mix([0.0, 1.0][ix[5]]))
			.build()
			.0,
		5 => DistortionBuilder::new()
			.kind([DistortionKind::HardClip, DistortionKind::SoftClip][ix[0]])
			.drive(Decibels([-60.0, -12.0, 0.0, 24.0, 60.0][ix[1]]))
			.mix(Mix(MIX5[ix[2]]))
			.build()
			.0,
		6 => VolumeControlBuilder::new(Decibels([-120.0, -60.0, -6.0, 0.0, 12.0][ix[0]])).build().0,
		_ => PanningControlBuilder(Panning([-2.0, -1.0, -0.5, 0.0, 0.5, 1.0, 2.0][ix[0]]).into()).build().0,
	};
	fx.init(sr, IBS);
	fx
}

/// which identity clause of the statement applies to this lattice point
fn identity_clause(f: usize, ix: &[usize]) -> Option<&'static str> {
	match f {
		0 if ix[3] <= 1 => Some("mix<=0 (fully dry)"),
		1 if ix[2] == 2 => Some("0 dB EQ gain"),
		2 if ix[2] <= 1 => Some("mix<=0 (fully dry)"),
		3 if ix[3] <= 1 => Some("mix<=0 (fully dry)"),
		4 if ix[5] == 0 => Some("mix=0"),
		5 if ix[2] <= 1 => Some("mix<=0 (fully dry)"),
		5 if ix[0] == 0 && ix[1] == 2 && ix[2] >= 3 => Some("hard clip at 0 dB drive, input within full scale"),
		6 if ix[0] == 3 => Some("0 dB volume"),
		7 if ix[0] == 3 => Some("centre panning"),
		_ => None,
	}
}

/// frames to feed before the wet path of the effect carries signal
fn preroll(f: usize, ix: &[usize], sr: u32) -> usize {
	match f {
		2 => (DELAY_US[ix[0]] as f64 * 1e-6 * sr as f64).ceil() as usize + (INNER_DELAY_US as f64 * 1e-6 * sr as f64) as usize + 64,
		3 => (2300.0 * sr as f64 / 44100.0) as usize,
		_ => 0,
	}
}

fn cfg_desc(f: usize, ix: &[usize], sr: u32) -> String {
	let fam = &FAMS[f];
	let ps: Vec<String> = fam.params.iter().zip(ix).map(|(p, &i)| format!("{}={}", p.name, p.labels[i])).collect();
	format!("{}{{{}}} sample_rate={} init(sr,{}) dt=1/sr", fam.name, ps.join(" "), sr, IBS)
}

// ---------------------------------------------------------------------------------------------
// input signals (pure functions of the frame index, so that streams of any length can be generated)

const NSIG: usize = 7;
const SIG_NAMES: [&str; NSIG] = ["impulse", "step", "dc", "alternating", "ramp", "denormal", "noise"];
const SIG_DESC: [&str; NSIG] = [
	"impulse: L=1 when i%61==0, R=-0.5 when i%61==1, else 0",
	"step: L=1,R=0.25 while ((i+92)/97) is odd (first edge at i=5), else 0",
	"dc: L=0.5 R=-0.25",
	"alternating full scale: L=R=(-1)^i",
	"ramp: L=(i%64)/32-1, R=1-(i%50)/25",
	"denormal: L=1e-40 R=3e-41",
	"noise: L=T[i%64] R=T[(7i+13)%64], T = 64-entry LCG table in [-1,1)",
];
const NOISE: usize = 6;
const DENORMAL: usize = 5;

fn noise_table() -> [f32; 64] {
	let mut t = [0.0f32; 64];
	let mut s: u32 = 0x1234_5678;
	for v in t.iter_mut() {
		s = s.wrapping_mul(1664525).wrapping_add(1013904223);
		*v = ((s >> 8) as f32 / (1u32 << 23) as f32) - 1.0;
	}
	t
}

fn gen(sig: usize, n: usize) -> Vec<Frame> {
	let t = noise_table();
	(0..n)
		.map(|i| match sig {
			0 => Frame::new(if i % 61 == 0 { 1.0 } else { 0.0 }, if i % 61 == 1 { -0.5 } else { 0.0 }),
			1 => {
				if ((i + 92) / 97) % 2 == 1 {
					Frame::new(1.0, 0.25)
				} else {
					Frame::ZERO
				}
			}
			2 => Frame::new(0.5, -0.25),
			3 => Frame::from_mono(if i % 2 == 0 { 1.0 } else { -1.0 }),
			4 => Frame::new((i % 64) as f32 / 32.0 - 1.0, 1.0 - (i % 50) as f32 / 25.0),
			5 => Frame::new(1e-40, 3e-41),
			_ => Frame::new(t[i % 64], t[(7 * i + 13) % 64]),
		})
		.collect()
}

// ---------------------------------------------------------------------------------------------
// driving an effect

struct Drv {
	fx: Box<dyn Effect>,
	dt: f64,
	info: kira::info::Info<'static>,
}
impl Drv {
	fn new(f: usize, ix: &[usize], sr: u32) -> Self {
		Drv { fx: build(f, ix, sr), dt: 1.0 / sr as f64, info: MockInfoBuilder::new().build() }
	}
	/// the device sample rate changes under the effect
	fn retune(&mut self, sr: u32) {
		self.fx.on_change_sample_rate(sr);
		self.dt = 1.0 / sr as f64;
	}
	fn call(&mut self, buf: &mut [Frame]) {
		self.fx.on_start_processing();
		self.fx.process(buf, self.dt, &self.info);
	}
	/// process `buf` in calls of at most `chunk` frames
	fn feed(&mut self, buf: &mut [Frame], chunk: usize) {
		for c in buf.chunks_mut(chunk) {
			self.call(c);
		}
	}
	/// `grouped`: the parts are the process calls of ONE device callback (the renderer's pattern when a callback is longer than the
	/// internal buffer: `on_start_processing` once, then one `process` per internal buffer); otherwise every part is a callback
	fn feed_parts(&mut self, buf: &mut [Frame], parts: &[usize], grouped: bool) {
		let mut at = 0;
		for (n, &p) in parts.iter().enumerate() {
			if grouped && n > 0 {
				self.fx.process(&mut buf[at..at + p], self.dt, &self.info);
			} else {
				self.call(&mut buf[at..at + p]);
			}
			at += p;
		}
		debug_assert_eq!(at, buf.len());
	}
}

/// the k-th composition of 8: bit j of k set = a cut after frame j+1
fn composition(k: usize) -> Vec<usize> {
	let mut parts = vec![];
	let mut run = 0;
	for j in 0..8 {
		run += 1;
		if j == 7 || (k >> j) & 1 == 1 {
			parts.push(run);
			run = 0;
		}
	}
	parts
}

fn fixed_partitions() -> Vec<Vec<usize>> {
	vec![
		vec![1; 256],
		vec![64; 4],
		vec![57, 128, 71],
		vec![1, 127, 33, 95],
		(0..64).map(|i| if i % 2 == 0 { 3 } else { 5 }).collect(),
		vec![128, 127, 1],
	]
}

fn same(a: Frame, b: Frame) -> bool {
	// value equality; two NaNs count as the same observation (non-finiteness is judged by its own law)
	let eq = |x: f32, y: f32| x == y || (x.is_nan() && y.is_nan());
	eq(a.left, b.left) && eq(a.right, b.right)
}
fn finite(a: Frame) -> bool {
	a.left.is_finite() && a.right.is_finite()
}
fn digest(out: &[Frame]) -> u64 {
	let n = out.len();
	let bits: Vec<(u32, u32)> = out[..n.min(64)]
		.iter()
		.chain(out[n.saturating_sub(64)..].iter())
		.map(|f| (f.left.to_bits(), f.right.to_bits()))
		.collect();
	hash64(&bits)
}

// ---------------------------------------------------------------------------------------------
// the laws. Each returns (symptom, detail) pairs, at most one per symptom.

#[derive(Default)]
struct Ev {
	evals: u64,
	nontrivial: u64,
	outcomes: Vec<u64>,
	frames: u64,
}
impl Ev {
	fn run(&mut self, out: &[Frame]) {
		self.evals += 1;
		self.frames += out.len() as u64;
		if out.iter().any(|f| f.left != 0.0 || f.right != 0.0) {
			self.nontrivial += 1;
		}
		self.outcomes.push(digest(out));
	}
}

#[derive(Clone, Copy, PartialEq, Debug)]
enum Law {
	LongRun,
	Silence,
	Linearity,
	PartitionWarm,
	PartitionFresh,
}
const LAWS: [Law; 5] = [Law::LongRun, Law::Silence, Law::Linearity, Law::PartitionWarm, Law::PartitionFresh];

const S_FINITE: &str = "finite: output not finite for finite input";
const S_IDENT: &str = "identity: output differs from input";
const S_SILENCE: &str = "silence: silent input into a fresh effect gives non-silent output";
const S_LINEAR: &str = "linearity: f(a*x+b*y) != a*f(x)+b*f(y) beyond 1e-4*peak";
const S_PART: &str = "partition: output depends on how the input is split into process calls";

type Fails = Vec<(String, String)>;
fn push(fails: &mut Fails, sym: &str, detail: impl FnOnce() -> String) {
	if !fails.iter().any(|(s, _)| s == sym) {
		fails.push((sym.to_string(), detail()));
	}
}

fn law_long_run(tier: Tier, f: usize, ix: &[usize], sr: u32, sigs: &[usize], ev: &mut Ev) -> Fails {
	let n = tier.pick(1 << 12, 1 << 16);
	let ident = identity_clause(f, ix);
	let mut fails = vec![];
	for &s in sigs {
		let x = gen(s, n);
		let mut y = x.clone();
		Drv::new(f, ix, sr).feed(&mut y, IBS);
		ev.run(&y);
		if let Some(i) = y.iter().position(|v| !finite(*v)) {
			push(&mut fails, S_FINITE, || {
				format!(
					"{}; input {} ({} frames in calls of {}); output frame {} = {:?} (input {:?})",
					cfg_desc(f, ix, sr), SIG_DESC[s], n, IBS, i, y[i], x[i]
				)
			});
		}
		// the device rate changes under the effect (to every other rate of the tier, up and down): still finite, and
		// still independent of how the input is split into process calls
		if s == sigs[0] || s == sigs[sigs.len() - 1] {
			for &sr2 in srs(tier) {
				if sr2 == sr {
					continue;
				}
				let mut a = Drv::new(f, ix, sr);
				let mut b = Drv::new(f, ix, sr);
				// (delay lines and reverb combs: long enough for their cursors to have travelled past the shorter lengths)
				let mut warm = gen(s, if f == 2 || f == 3 { 9000 } else { 96 });
				let mut warm2 = warm.clone();
				a.feed(&mut warm, IBS);
				b.feed(&mut warm2, IBS);
				a.retune(sr2);
				b.retune(sr2);
				let x2 = gen(s, 512);
				let (mut ya, mut yb) = (x2.clone(), x2.clone());
				a.feed(&mut ya, IBS);
				b.feed(&mut yb, 7);
				ev.run(&ya);
				ev.run(&yb);
				if let Some(i) = ya.iter().position(|v| !finite(*v)) {
					push(&mut fails, S_FINITE, || format!("{}; after on_change_sample_rate({}); input {}; output frame {} = {:?}", cfg_desc(f, ix, sr), sr2, SIG_DESC[s], i, ya[i]));
				} else if let Some(i) = (0..512).find(|&i| finite(yb[i]) && ((ya[i].left - yb[i].left).abs() > 1e-6 * (1.0 + ya[i].left.abs()) || (ya[i].right - yb[i].right).abs() > 1e-6 * (1.0 + ya[i].right.abs()))) {
					push(&mut fails, S_PART, || format!("{}; after on_change_sample_rate({}); input {}; frame {}: calls of {} give {:?}, calls of 7 give {:?}", cfg_desc(f, ix, sr), sr2, SIG_DESC[s], i, IBS, ya[i], yb[i]));
				}
			}
		}
		if let Some(clause) = ident {
			// non-finite frames are the finite law's business
			if let Some(i) = (0..n).find(|&i| finite(y[i]) && !same(x[i], y[i])) {
				push(&mut fails, S_IDENT, || {
					format!(
						"{}; identity clause '{}'; input {} ({} frames in calls of {}); frame {}: input {:?} output {:?}",
						cfg_desc(f, ix, sr), clause, SIG_DESC[s], n, IBS, i, x[i], y[i]
					)
				});
			}
		}
	}
	fails
}

fn law_silence(tier: Tier, f: usize, ix: &[usize], sr: u32, ev: &mut Ev) -> Fails {
	let n = tier.pick(1 << 11, 1 << 14).max(preroll(f, ix, sr) + 1024);
	let mut y = vec![Frame::ZERO; n];
	Drv::new(f, ix, sr).feed(&mut y, IBS);
	ev.evals += 1;
	ev.frames += n as u64;
	ev.outcomes.push(digest(&y));
	let mut fails = vec![];
	if let Some(i) = y.iter().position(|v| !(v.left == 0.0 && v.right == 0.0)) {
		push(&mut fails, S_SILENCE, || {
			format!("{}; {} zero frames in calls of {} into a freshly built effect; output frame {} = {:?}", cfg_desc(f, ix, sr), n, IBS, i, y[i])
		});
	}
	fails
}

/// Window (after the preroll) over which superposition is compared. f32 recursions accumulate round-off with
/// the run length (measured on kira 0.10.5: every lattice point outside the >=nyquist clamp edge stays below
/// 3e-5 * peak over this window), so the design's 1e-4 * peak tolerance is tied to this window.
const LIN_FRAMES: usize = 512;
const COEFS: [(f32, f32); 3] = [(1.0, 1.0), (-0.75, 0.0), (0.5, -1.7)];

fn law_linearity(tier: Tier, f: usize, ix: &[usize], sr: u32, sigs: &[usize], ev: &mut Ev) -> Fails {
	let mut fails = vec![];
	if !FAMS[f].linear {
		return fails;
	}
	let n = preroll(f, ix, sr) + LIN_FRAMES;
	let sigs: Vec<usize> = sigs.iter().copied().filter(|&s| s != DENORMAL).collect();
	let mut outs: Vec<(usize, Vec<Frame>, Vec<Frame>)> = vec![];
	for &s in &sigs {
		let x = gen(s, n);
		let mut y = x.clone();
		Drv::new(f, ix, sr).feed(&mut y, IBS);
		ev.run(&y);
		outs.push((s, x, y));
	}
	// pairs: thorough = every unordered pair (and each signal with itself for pure scaling); quick = a ring
	let mut pairs = vec![];
	for i in 0..outs.len() {
		for j in i..outs.len() {
			if tier == Tier::Thorough || j == i || j == i + 1 || (i == 0 && j + 1 == outs.len()) {
				pairs.push((i, j));
			}
		}
	}
	let ncoef = tier.pick(2, 3);
	// pure scaling also far below full scale (powers of two: exact in f32 as long as nothing underflows)
	let mut coefs: Vec<(f32, f32)> = COEFS[..ncoef].to_vec();
	coefs.push((1.0 / 4096.0, 0.0));
	coefs.push((1.0 / 1048576.0, 0.0));
	for (i, j) in pairs {
		for &(a, b) in &coefs {
			if i != j && a.abs() < 0.01 {
				continue; // the quiet scalings: once per signal
			}
			if i == j && b != 0.0 {
				continue; // x with itself: scaling only
			}
			if i != j && b == 0.0 && j != i + 1 {
				continue; // scaling of x is independent of y: evaluate once per i
			}
			let (sx, x, fx) = &outs[i];
			let (sy, yy, fy) = &outs[j];
			let mut z: Vec<Frame> = (0..n).map(|k| x[k] * a + yy[k] * b).collect();
			let zin = z.clone();
			Drv::new(f, ix, sr).feed(&mut z, IBS);
			ev.run(&z);
			// peak over everything that enters the comparison, inputs included (the recursion states scale with them)
			let mut peak = 0.0f64;
			for k in 0..n {
				for v in [zin[k].left, zin[k].right, z[k].left, z[k].right] {
					peak = peak.max(v.abs() as f64);
				}
				peak = peak.max(a.abs() as f64 * fx[k].left.abs() as f64 + b.abs() as f64 * fy[k].left.abs() as f64);
				peak = peak.max(a.abs() as f64 * fx[k].right.abs() as f64 + b.abs() as f64 * fy[k].right.abs() as f64);
			}
			let tol = 1e-4 * peak;
			for k in 0..n {
				let el = a as f64 * fx[k].left as f64 + b as f64 * fy[k].left as f64;
				let er = a as f64 * fx[k].right as f64 + b as f64 * fy[k].right as f64;
				let dl = (z[k].left as f64 - el).abs();
				let dr = (z[k].right as f64 - er).abs();
				// non-finite frames are the finite law's business
				if z[k].left.is_finite() && z[k].right.is_finite() && el.is_finite() && er.is_finite() && !(dl <= tol && dr <= tol) {
					push(&mut fails, S_LINEAR, || {
						format!(
							"{}; x = {}; y = {}; a={} b={}; {} frames in calls of {}; frame {}: f(a*x+b*y) = {:?} but a*f(x)+b*f(y) = ({:e}, {:e}); tolerance {:e} (peak {:e})",
							cfg_desc(f, ix, sr), SIG_DESC[*sx], SIG_DESC[*sy], a, b, n, IBS, k, z[k], el, er, tol, peak
						)
					});
					break;
				}
			}
		}
	}
	fails
}

/// one stream per signal: preroll, then 128 blocks of 8 frames (reference: one call per block; test: block k
/// split by composition k), then 6 blocks of 256 frames (reference 128+128; test: the fixed partitions).
fn law_partition_warm(f: usize, ix: &[usize], sr: u32, sigs: &[usize], ev: &mut Ev) -> Fails {
	let mut fails = vec![];
	let pre = preroll(f, ix, sr);
	let fixed = fixed_partitions();
	let n = pre + 128 * 8 + fixed.len() * 256;
	for &s in sigs {
		let x = gen(s, n);
		let mut a = x.clone();
		let mut b = x.clone();
		let mut da = Drv::new(f, ix, sr);
		let mut db = Drv::new(f, ix, sr);
		da.feed(&mut a[..pre], IBS);
		db.feed(&mut b[..pre], IBS);
		for k in 0..128 {
			let r = pre + 8 * k..pre + 8 * k + 8;
			da.call(&mut a[r.clone()]);
			db.feed_parts(&mut b[r], &composition(k), k % 2 == 1);
		}
		for (j, parts) in fixed.iter().enumerate() {
			let r = pre + 1024 + 256 * j..pre + 1024 + 256 * (j + 1);
			da.feed(&mut a[r.clone()], IBS);
			db.feed_parts(&mut b[r], parts, j % 2 == 1);
		}
		ev.run(&a);
		ev.run(&b);
		if let Some(i) = (0..n).find(|&i| !same(a[i], b[i])) {
			push(&mut fails, S_PART, || {
				let at = if i < pre {
					"preroll (identical calls!)".to_string()
				} else if i < pre + 1024 {
					let k = (i - pre) / 8;
					format!("8-frame block {} split as {:?}{} (reference: one call of 8)", k, composition(k), if k % 2 == 1 { " inside one callback (on_start_processing once, then one process call per part)" } else { "" })
				} else {
					let j = (i - pre - 1024) / 256;
					let p = &fixed[j];
					format!("256-frame block {} split as {:?}{}{} (reference: 128+128)", j, &p[..p.len().min(8)], if p.len() > 8 { "..." } else { "" }, if j % 2 == 1 { " inside one callback" } else { "" })
				};
				format!(
					"{}; input {}; stream = {} preroll frames in calls of {}, then 128 blocks of 8 frames (block k split by the k-th composition of 8), then 6 blocks of 256; two fresh effects fed the same stream first differ at frame {} in {}: reference {:?}, split {:?}",
					cfg_desc(f, ix, sr), SIG_DESC[s], pre, IBS, i, at, a[i], b[i]
				)
			});
		}
	}
	fails
}

/// all 128 compositions of the first 8 frames, each on a freshly built effect
fn law_partition_fresh(tier: Tier, f: usize, ix: &[usize], sr: u32, sigs: &[usize], ev: &mut Ev) -> Fails {
	let mut fails = vec![];
	for &s in sigs {
		if f == 3 && (tier == Tier::Quick || s != NOISE) {
			continue; // building a reverb costs ~0.5 MB of ring buffers; its first 8 frames are dry
		}
		if tier == Tier::Quick && !(s == NOISE || s == 0 || s == 3) {
			continue;
		}
		let x = gen(s, 8);
		let mut r = x.clone();
		Drv::new(f, ix, sr).call(&mut r);
		ev.run(&r);
		for k in 1..128 {
			let mut y = x.clone();
			Drv::new(f, ix, sr).feed_parts(&mut y, &composition(k), k % 4 >= 2);
			ev.run(&y);
			if let Some(i) = (0..8).find(|&i| !same(r[i], y[i])) {
				push(&mut fails, S_PART, || {
					format!(
						"{}; input {}; first 8 frames on a fresh effect split as {:?} vs one call of 8: frame {}: {:?} vs {:?}",
						cfg_desc(f, ix, sr), SIG_DESC[s], composition(k), i, y[i], r[i]
					)
				});
			}
		}
	}
	fails
}

fn run_law(law: Law, tier: Tier, f: usize, ix: &[usize], sr: u32, sigs: &[usize], ev: &mut Ev) -> Fails {
	let r = catch(|| match law {
		Law::LongRun => law_long_run(tier, f, ix, sr, sigs, ev),
		Law::Silence => law_silence(tier, f, ix, sr, ev),
		Law::Linearity => law_linearity(tier, f, ix, sr, sigs, ev),
		Law::PartitionWarm => law_partition_warm(f, ix, sr, sigs, ev),
		Law::PartitionFresh => law_partition_fresh(tier, f, ix, sr, sigs, ev),
	});
	match r {
		Ok(v) => v,
		Err(p) => vec![(format!("panic: {}", p), format!("{}; during law {:?}", cfg_desc(f, ix, sr), law))],
	}
}

// ---------------------------------------------------------------------------------------------
// minimisation of a failing lattice point => signature

const ALL_SIGS: [usize; NSIG] = [0, 1, 2, 3, 4, 5, 6];

fn minimise(law: Law, tier: Tier, f: usize, ix: &[usize], sr: u32, sym: &str) -> String {
	// re-run the law (same tier, hence same run lengths) on the modified point; evidence is not counted.
	// Both partition laws report the same symptom, so either of them may witness it.
	let laws: &[Law] = if sym == S_PART { &[Law::PartitionWarm, Law::PartitionFresh] } else { std::slice::from_ref(&law) };
	let still = |ix: &[usize], sr: u32, sigs: &[usize]| {
		laws.iter().any(|&l| {
			let mut ev = Ev::default();
			run_law(l, tier, f, ix, sr, sigs, &mut ev).iter().any(|(s, _)| s == sym)
		})
	};
	let mut ix = ix.to_vec();
	let mut sr = sr;
	// the input: does the noise table alone show it? else name the first signal that does
	let mut sig_feat = String::new();
	let mut sigs: Vec<usize> = ALL_SIGS.to_vec();
	let all_def: Vec<usize> = FAMS[f].params.iter().zip(&ix).map(|(p, &i)| if p.always { i } else { p.def }).collect();
	if still(&all_def, DEF_SR, &[NOISE]) {
		// the interior point of the same variant shows it too: nothing but the variant matters
		ix = all_def;
		sr = DEF_SR;
		sigs = vec![NOISE];
	} else if law != Law::Silence {
		if still(&ix, sr, &[NOISE]) {
			sigs = vec![NOISE];
		} else if let Some(&s) = ALL_SIGS.iter().find(|&&s| still(&ix, sr, &[s])) {
			sigs = vec![s];
			sig_feat = format!(" input={}", SIG_NAMES[s]);
		}
	}
	for p in (0..ix.len()).rev() {
		let def = FAMS[f].params[p].def;
		if ix[p] != def && !FAMS[f].params[p].always {
			let mut t = ix.clone();
			t[p] = def;
			if still(&t, sr, &sigs) {
				ix = t;
			}
		}
	}
	if sr != DEF_SR && still(&ix, DEF_SR, &sigs) {
		sr = DEF_SR;
	}
	// a variant (mode / kind / nesting) is named only when some other variant passes at the minimised point
	let mut variant_matters = vec![false; ix.len()];
	for (pi, p) in FAMS[f].params.iter().enumerate() {
		if p.always {
			variant_matters[pi] = (0..p.labels.len()).filter(|&v| v != ix[pi]).any(|v| {
				let mut t = ix.clone();
				t[pi] = v;
				!still(&t, sr, &sigs)
			});
		}
	}
	let mut feat = FAMS[f].name.to_string();
	// a delay line of zero frames is a class of its own (delay_time and sample rate only matter through it)
	let zero_line = f == 2 && ((DELAY_US[ix[0]] as f64 * 1e-6 * sr as f64) as usize) == 0;
	if zero_line {
		feat.push_str(" delay_time*sr<1frame");
	}
	for (pi, (p, &i)) in FAMS[f].params.iter().zip(&ix).enumerate() {
		if zero_line && pi == 0 {
			continue;
		}
		if (p.always && variant_matters[pi]) || (!p.always && i != p.def) {
			// a label "value(class)" contributes its class: lattice values that kira clamps to the same number share it
			let l = p.labels[i];
			match l.split_once('(') {
				Some((_, c)) if c.starts_with(['<', '>']) => feat.push_str(&format!(" {}{}", p.name, c.trim_end_matches(')'))),
				Some((_, c)) => feat.push_str(&format!(" {}={}", p.name, c.trim_end_matches(')'))),
				None => feat.push_str(&format!(" {}={}", p.name, l)),
			}
		}
	}
	if sr != DEF_SR && !zero_line {
		feat.push_str(&format!(" sr={}", sr));
	}
	feat.push_str(&sig_feat);
	feat
}

// ---------------------------------------------------------------------------------------------

impl C13 {
	fn decode(&self, tier: Tier, idx: u64) -> (usize, Vec<usize>, u32) {
		let nc = num_cfgs();
		let (f, ix) = decode_cfg(idx % nc);
		(f, ix, srs(tier)[(idx / nc) as usize])
	}
}

impl Check for C13 {
	fn id(&self) -> &'static str {
		"C13"
	}
	fn level(&self) -> Level {
		Level::Exploration
	}
	fn num_cases(&self, tier: Tier) -> u64 {
		num_cfgs() * srs(tier).len() as u64 + TWEEN_EFFECTS.len() as u64
	}
	fn describe(&self, tier: Tier, idx: u64) -> String {
		if idx >= num_cfgs() * srs(tier).len() as u64 {
			return format!("moving parameters: {} - every handle setter tweened between every ordered pair of its lattice values (tweens of 0, 0.6, 1.5 and 6 process calls) while noise is processed: finite output", TWEEN_EFFECTS[(idx - num_cfgs() * srs(tier).len() as u64) as usize]);
		}
		let (f, ix, sr) = self.decode(tier, idx);
		format!(
			"{}; laws: long run of {} frames x 7 signals (finite, identity), silence, linearity over signal pairs, all 128 compositions of 8 frames (fresh and warm) + 6 partitions of 256",
			cfg_desc(f, &ix, sr),
			tier.pick(1 << 12, 1 << 16)
		)
	}
	fn sig_hint(&self, tier: Tier, idx: u64) -> String {
		let (f, ix, sr) = self.decode(tier, idx);
		cfg_desc(f, &ix, sr)
	}
	fn rule(&self) -> String {
		format!(
			"full product lattice of every built-in effect ({} points: filter 4 modes x 6 cutoffs x 4 resonances x 5 mixes; EQ 3 kinds x 6 frequencies x 4 gains x 4 q; delay 3 times x 3 feedbacks x 5 mixes x {{plain, band-pass filter in the feedback loop, delay in the feedback loop}}; reverb 3 feedbacks x 3 dampings x 3 widths x 5 mixes; compressor 3 thresholds x 3 ratios x 3 attacks x 3 releases x 2 make-up gains x 2 mixes; distortion 2 kinds x 5 drives x 5 mixes; volume 5; panning 7; the values are the documented edges, one interior value and one value beyond every internal clamp) x sample rates (quick {{8000,44100,48000,192000}}, thorough + {{22050,96000}}) = one case each; per case: 7 input signals (impulse, step, DC, full-scale alternating, ramp, 1e-40 denormal, 64-entry noise table; left != right) x long run in 128-frame calls (quick 2^12, thorough 2^16 frames: finite + identity clauses), zero input into a fresh effect, superposition/scaling over signal pairs x coefficient pairs for the linear effects (quick: ring of 6 pairs x 2 coefficient pairs, thorough: all 15 pairs x 3; plus pure scaling of every signal by 2^-12 and 2^-20, tolerance relative to the scaled peak), all 128 compositions of 8 frames on a fresh effect and of 128 consecutive 8-frame blocks inside a warm stream, 6 partitions of 256-frame blocks. An evaluation = one complete run of one effect instance over one input; it is non-trivial when its output contains a non-zero sample",
			num_cfgs()
		)
	}
	fn assumptions(&self) -> Vec<String> {
		vec![
			"parameters are Value::Fixed (the statement's linearity and chunk-freeness are for fixed parameters)".into(),
			"internal_buffer_size = 128; every process call is <= 128 frames".into(),
			"delay feedback is kept at or below 0 dB and the gain of the nested feedback effect times the feedback below 1: a loop gain above one diverges by design, not by defect".into(),
			"compressor ratio 0 (infinite expansion) is not part of the lattice".into(),
			"partition independence is demanded bit-exactly (== on f32) for every effect: all recursions are per frame".into(),
			"linearity tolerance 1e-4 x max(|input|, |outputs|) over the run".into(),
		]
	}
	fn extra_evidence(&self, tier: Tier) -> Vec<(String, J)> {
		vec![
			("lattice_points".into(), J::u(num_cfgs())),
			("sample_rates".into(), J::u(srs(tier).len() as u64)),
			("long_run_frames".into(), J::u(tier.pick(1 << 12, 1 << 16))),
			("compositions_of_8".into(), J::u(128)),
			("fixed_partitions_of_256".into(), J::u(fixed_partitions().len() as u64)),
		]
	}
	fn run_case(&self, tier: Tier, idx: u64, ctx: &mut Ctx) {
		if idx >= num_cfgs() * srs(tier).len() as u64 {
			let w = (idx - num_cfgs() * srs(tier).len() as u64) as usize;
			if let Err(p) = crate::rig::catch(|| tween_laws(w, ctx)) {
				ctx.fail(format!("panic: {} :: moving parameters of {}", p, TWEEN_EFFECTS[w]), "");
			}
			return;
		}
		let (f, ix, sr) = self.decode(tier, idx);
		ctx.sample(idx, || cfg_desc(f, &ix, sr));
		for law in LAWS {
			let mut ev = Ev::default();
			let fails = run_law(law, tier, f, &ix, sr, &ALL_SIGS, &mut ev);
			ctx.evals += ev.evals;
			ctx.nontrivial_extra += ev.nontrivial;
			ctx.count("frames_processed", ev.frames);
			ctx.count(&format!("runs_{:?}", law), ev.evals);
			for o in ev.outcomes {
				ctx.outcome(o);
			}
			for (sym, detail) in fails {
				let feat = minimise(law, tier, f, &ix, sr, &sym);
				ctx.fail(format!("{} :: {}", sym, feat), format!("{} [law {:?}]", detail, law));
			}
		}
	}
}

// ---------------------------------------------------------------------------------------------
// moving parameters: the laws "finite output" and "independent of how the input is split" while a handle setter
// moves one parameter between two lattice values (up and down, across every internal special case such as -60 dB)

const TWEEN_EFFECTS: [&str; 8] = ["filter", "eq", "delay", "reverb", "compressor", "distortion", "volume", "panning"];

fn tween_laws(which: usize, ctx: &mut Ctx) {
	use kira::effect::EffectBuilder;
	use kira::{StartTime, Tween};
	const SRT: u32 = 48000;
	let dt = 1.0 / SRT as f64;
	// one scene = a fresh effect + a closure that issues the setter
	type Scene = Box<dyn Fn(usize, usize) -> (Box<dyn Effect>, Box<dyn FnMut(Tween)>)>;
	let mut params: Vec<(String, usize, Scene)> = vec![];
	macro_rules! p {
		($name:expr, $vals:expr, $mk:expr, $set:expr) => {{
			let vals = $vals;
			params.push((
				$name.to_string(),
				vals.len(),
				Box::new(move |a: usize, b: usize| {
					let (e, mut h) = ($mk)(vals[a]).build();
					let target = vals[b];
					(e as Box<dyn Effect>, Box::new(move |tw: Tween| ($set)(&mut h, target, tw)) as Box<dyn FnMut(Tween)>)
				}),
			));
		}};
	}
	let ms = Duration::from_millis;
	match which {
		0 => {
			for mode in [FilterMode::LowPass, FilterMode::HighPass] {
				p!(format!("{:?} cutoff", mode), [1000.0f64, 20.0, 23000.0, 0.0], move |v| FilterBuilder::new().mode(mode).cutoff(v), |h: &mut kira::effect::filter::FilterHandle, v, tw| h.set_cutoff(v, tw));
				p!(format!("{:?} resonance", mode), [0.0f64, 1.0, 0.5], move |v| FilterBuilder::new().mode(mode).resonance(v), |h: &mut kira::effect::filter::FilterHandle, v, tw| h.set_resonance(v, tw));
				p!(format!("{:?} mix", mode), [Mix(1.0), Mix(0.0), Mix(0.5)], move |v| FilterBuilder::new().mode(mode).mix(v), |h: &mut kira::effect::filter::FilterHandle, v, tw| h.set_mix(v, tw));
			}
		}
		1 => {
			for kind in [EqFilterKind::Bell, EqFilterKind::LowShelf, EqFilterKind::HighShelf] {
				p!(format!("{:?} frequency", kind), [1000.0f64, 20.0, 20000.0], move |v| EqFilterBuilder::new(kind, v, Decibels(6.0), 1.0), |h: &mut kira::effect::eq_filter::EqFilterHandle, v, tw| h.set_frequency(v, tw));
				p!(format!("{:?} gain", kind), [Decibels(6.0), Decibels(-60.0), Decibels(-61.0), Decibels(18.0)], move |v| EqFilterBuilder::new(kind, 1000.0, v, 1.0), |h: &mut kira::effect::eq_filter::EqFilterHandle, v, tw| h.set_gain(v, tw));
				p!(format!("{:?} q", kind), [1.0f64, 0.1, 10.0, 0.0], move |v| EqFilterBuilder::new(kind, 1000.0, Decibels(6.0), v), |h: &mut kira::effect::eq_filter::EqFilterHandle, v, tw| h.set_q(v, tw));
			}
		}
		2 => {
			p!("feedback", [Decibels(-6.0), Decibels(-60.0), Decibels(-70.0), Decibels(-1.0)], |v| DelayBuilder::new().delay_time(ms(2)).feedback(v), |h: &mut kira::effect::delay::DelayHandle, v, tw| h.set_feedback(v, tw));
			p!("mix", [Mix(0.5), Mix(0.0), Mix(1.0)], |v| DelayBuilder::new().delay_time(ms(2)).mix(v), |h: &mut kira::effect::delay::DelayHandle, v, tw| h.set_mix(v, tw));
		}
		3 => {
			p!("feedback", [0.9f64, 0.0, 1.0], |v| ReverbBuilder::new().feedback(v), |h: &mut kira::effect::reverb::ReverbHandle, v, tw| h.set_feedback(v, tw));
			p!("damping", [0.1f64, 0.0, 1.0], |v| ReverbBuilder::new().damping(v), |h: &mut kira::effect::reverb::ReverbHandle, v, tw| h.set_damping(v, tw));
			p!("stereo_width", [1.0f64, 0.0, 0.5], |v| ReverbBuilder::new().stereo_width(v), |h: &mut kira::effect::reverb::ReverbHandle, v, tw| h.set_stereo_width(v, tw));
			p!("mix", [Mix(0.5), Mix(0.0), Mix(1.0)], |v| ReverbBuilder::new().mix(v), |h: &mut kira::effect::reverb::ReverbHandle, v, tw| h.set_mix(v, tw));
		}
		4 => {
			p!("threshold", [-24.0f64, 0.0, -60.0], |v| CompressorBuilder::new().ratio(4.0).threshold(v), |h: &mut kira::effect::compressor::CompressorHandle, v, tw| h.set_threshold(v, tw));
			p!("ratio", [4.0f64, 1.0, 100.0, 0.5], |v| CompressorBuilder::new().threshold(-24.0).ratio(v), |h: &mut kira::effect::compressor::CompressorHandle, v, tw| h.set_ratio(v, tw));
			p!("attack", [ms(10), ms(1), ms(100), Duration::ZERO], |v| CompressorBuilder::new().threshold(-24.0).ratio(4.0).attack_duration(v), |h: &mut kira::effect::compressor::CompressorHandle, v, tw| h.set_attack_duration(v, tw));
			p!("release", [ms(100), ms(1), ms(500), Duration::ZERO], |v| CompressorBuilder::new().threshold(-24.0).ratio(4.0).release_duration(v), |h: &mut kira::effect::compressor::CompressorHandle, v, tw| h.set_release_duration(v, tw));
			p!("makeup", [Decibels(0.0), Decibels(12.0), Decibels(-60.0), Decibels(-70.0)], |v| CompressorBuilder::new().threshold(-24.0).ratio(4.0).makeup_gain(v), |h: &mut kira::effect::compressor::CompressorHandle, v, tw| h.set_makeup_gain(v, tw));
			p!("mix", [Mix(1.0), Mix(0.0), Mix(0.5)], |v| CompressorBuilder::new().threshold(-24.0).ratio(4.0).mix(v), |h: &mut kira::effect::compressor::CompressorHandle, v, tw| h.set_mix(v, tw));
		}
		5 => {
			for kind in [DistortionKind::HardClip, DistortionKind::SoftClip] {
				p!(format!("{:?} drive", kind), [Decibels(0.0), Decibels(-20.0), Decibels(-60.0), Decibels(-70.0), Decibels(40.0)], move |v| DistortionBuilder::new().kind(kind).drive(v), |h: &mut kira::effect::distortion::DistortionHandle, v, tw| h.set_drive(v, tw));
				p!(format!("{:?} mix", kind), [Mix(1.0), Mix(0.0), Mix(0.5)], move |v| DistortionBuilder::new().kind(kind).mix(v), |h: &mut kira::effect::distortion::DistortionHandle, v, tw| h.set_mix(v, tw));
			}
		}
		6 => {
			p!("volume", [Decibels(0.0), Decibels(-60.0), Decibels(-70.0), Decibels(12.0)], |v| VolumeControlBuilder::new(v), |h: &mut kira::effect::volume_control::VolumeControlHandle, v, tw| h.set_volume(v, tw));
		}
		_ => {
			p!("panning", [Panning(0.0), Panning(-1.0), Panning(1.0), Panning(-2.0)], |v| PanningControlBuilder(Value::Fixed(v)), |h: &mut kira::effect::panning_control::PanningControlHandle, v, tw| h.set_panning(v, tw));
		}
	}
	let info = MockInfoBuilder::new().build();
	let x = gen(6, 128 * 10);
	for (name, nv, scene) in &params {
		for a in 0..*nv {
			for b in 0..*nv {
				if a == b {
					continue;
				}
				for tw_calls in [0.0f64, 0.6, 1.5, 6.0] {
					ctx.evals += 1;
					let dur = tw_calls * 128.0 * dt;
					let desc = || format!("{} {}: lattice value #{} -> #{} with a linear tween of {} process calls of 128 frames ({:.4} s) issued before the second call; noise input at {} Hz", TWEEN_EFFECTS[which], name, a, b, tw_calls, dur, SRT);
					let run = |call: usize| -> Vec<Frame> {
						let (mut e, mut set) = scene(a, b);
						e.init(SRT, 128);
						let mut y = x.clone();
						let mut done = 0usize;
						let mut first = true;
						while done < y.len() {
							// the setter is issued at the same sample position for every partition (after the first 128 frames)
							if done >= 128 && first {
								first = false;
								set(Tween { start_time: StartTime::Immediate, duration: Duration::from_secs_f64(dur), easing: Easing::Linear });
							}
							let n = if done < 128 { 128 } else { call }.min(y.len() - done);
							e.on_start_processing();
							e.process(&mut y[done..done + n], dt, &info);
							done += n;
						}
						y
					};
					let ya = run(128);
					if let Some(i) = ya.iter().position(|v| !finite(*v)) {
						ctx.fail(
							format!("{} :: {} while {} moves", S_FINITE, TWEEN_EFFECTS[which], name.split(' ').last().unwrap_or("")),
							format!("{}; output frame {} = {:?}", desc(), i, ya[i]),
						);
						continue;
					}
					// chunk-freedom while the parameter moves: a linear tween that begins and ends on a call boundary of every
					// partition takes the same value at every frame whatever the call size (kira interpolates linearly inside a call)
					// (the compressor applies threshold, ratio, attack and release at control rate, once per call: not covered)
					let control_rate = which == 4 && ["threshold", "ratio", "attack", "release"].contains(&name.as_str());
					if tw_calls == 6.0 && !control_rate {
						let peak = ya.iter().fold(1e-3f32, |m, v| m.max(v.left.abs()).max(v.right.abs()));
						for call in [64usize, 32] {
							ctx.evals += 1;
							let yb = run(call);
							if let Some(i) = (0..ya.len()).find(|&i| (ya[i].left - yb[i].left).abs() > 1e-4 * peak || (ya[i].right - yb[i].right).abs() > 1e-4 * peak || !finite(yb[i])) {
								ctx.fail(
									format!("{} :: {} while {} moves", S_PART, TWEEN_EFFECTS[which], name.split(' ').last().unwrap_or("")),
									format!("{}; process calls of 128 frames vs calls of {} frames: frame {} = {:?} vs {:?} (peak {})", desc(), call, i, ya[i], yb[i], peak),
								);
								break;
							}
						}
					}
					ctx.nontrivial_extra += 1;
					ctx.state(hash64(&(which, name, a, b, tw_calls.to_bits())));
				}
			}
		}
	}
	ctx.outcome(hash64(&("tween laws", which)));
}
