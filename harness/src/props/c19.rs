//! C19 — unit conversions and clock-time arithmetic.
//!
//! Exhaustive range enumeration: every f32 bit pattern for decibels and panning
//! (thorough; a 3/256 sub-lattice plus +-64-ulp neighbourhoods of the special points in
//! quick), full boundary lattices of f64 for the rest.

use crate::engine::{Check, Ctx, Level, Tier};
use crate::json::J;
use crate::rig::catch;
use kira::clock::{ClockSpeed, ClockTime};
use kira::info::MockInfoBuilder;
use kira::{Decibels, Easing, Frame, Mapping, Panning, PlaybackRate, Semitones, Tweenable};

pub struct C19;

const BLOCK_BITS: u32 = 20;
const NBLOCKS: u64 = 1 << (32 - BLOCK_BITS);
const MISC_CASES: u64 = 6;

/// ordered index (0..2^32, ascending numeric value, -NaN first, +NaN last) -> bits
fn ord_to_bits(k: u64) -> u32 {
	if k < (1 << 31) {
		0x8000_0000u32 | (0x7FFF_FFFFu32 - k as u32)
	} else {
		(k - (1 << 31)) as u32
	}
}
fn bits_to_ord(b: u32) -> u64 {
	if b & 0x8000_0000 != 0 {
		(0x7FFF_FFFF - (b & 0x7FFF_FFFF)) as u64
	} else {
		b as u64 + (1 << 31)
	}
}

fn specials() -> Vec<u64> {
	[0.0f32, -0.0, -60.0, 1.0, -1.0, 20.0, -20.0, 6.0, -6.0, 0.5, -0.5]
		.iter()
		.map(|v| bits_to_ord(v.to_bits()))
		.collect()
}

fn selected(quick: bool, k: u64, bits: u32, sp: &[u64]) -> bool {
	if !quick {
		return true;
	}
	let low = bits & 0xFF;
	if low == 0 || low == 0x80 || low == 0xFF {
		return true;
	}
	sp.iter().any(|s| (k as i64 - *s as i64).abs() <= 64)
}

fn ulp64(x: f64) -> f64 {
	let x = x.abs();
	if x == 0.0 {
		return f64::MIN_POSITIVE;
	}
	let b = x.to_bits();
	f64::from_bits(b + 1) - x
}

impl Check for C19 {
	fn id(&self) -> &'static str {
		"C19"
	}
	fn level(&self) -> Level {
		Level::Exploration
	}
	fn num_cases(&self, _tier: Tier) -> u64 {
		2 * NBLOCKS + MISC_CASES
	}
	fn describe(&self, tier: Tier, idx: u64) -> String {
		if idx < NBLOCKS {
			format!(
				"Decibels::as_amplitude over ordered f32 indices [{}, {}) ({})",
				idx << BLOCK_BITS,
				(idx + 1) << BLOCK_BITS,
				tier.pick("low byte in {00,80,FF} + special neighbourhoods", "every bit pattern")
			)
		} else if idx < 2 * NBLOCKS {
			let b = idx - NBLOCKS;
			format!(
				"Frame::panned over ordered f32 indices [{}, {}) ({})",
				b << BLOCK_BITS,
				(b + 1) << BLOCK_BITS,
				tier.pick("low byte in {00,80,FF} + special neighbourhoods", "every bit pattern")
			)
		} else {
			match idx - 2 * NBLOCKS {
				0 => "semitones lattice".into(),
				1 => "clock speed unit lattice".into(),
				2 => "ClockTime +/- f64 lattice".into(),
				3 => "ClockTime +/- u64 lattice and ordering".into(),
				4 => "easing lattice (multiples of 2^-12 and neighbours, 14 powers)".into(),
				_ => "mapping lattice (normal/inverted ranges, inputs below/inside/above)".into(),
			}
		}
	}
	fn sig_hint(&self, _tier: Tier, idx: u64) -> String {
		if idx < NBLOCKS {
			"decibels block".into()
		} else if idx < 2 * NBLOCKS {
			"panning block".into()
		} else {
			format!("misc case {}", idx - 2 * NBLOCKS)
		}
	}
	fn rule(&self) -> String {
		"ordered traversal of f32 bit patterns in 2^20-blocks with one-element overlap (all finite patterns in thorough; low mantissa byte in {00,80,FF} plus +-64 ulp around 0, -60, +-1, +-0.5, +-6, +-20 in quick) for Decibels::as_amplitude and Frame::panned; full products of boundary lattices for semitones, clock speeds, ClockTime arithmetic, easings, mappings. A case is non-trivial when its result is not one of the fixed points (amplitude not in {0,1}, pan gains not in {0,1,sqrt2}, arithmetic with a non-zero operand); inputs are distinct by construction so the count is the number of such inputs".into()
	}
	fn assumptions(&self) -> Vec<String> {
		vec![
			"reference values are computed in f64 with the platform libm".into(),
			"f64-valued functions are decided on boundary lattices, not on all 2^64 patterns".into(),
		]
	}
	fn extra_evidence(&self, tier: Tier) -> Vec<(String, J)> {
		vec![(
			"f32_patterns_covered".into(),
			J::s(tier.pick("3/256 sub-lattice + neighbourhoods, for each of decibels and panning", "all 2^32, for each of decibels and panning")),
		)]
	}
	fn run_case(&self, tier: Tier, idx: u64, ctx: &mut Ctx) {
		let quick = tier == Tier::Quick;
		if idx < NBLOCKS {
			decibels_block(quick, idx, ctx);
		} else if idx < 2 * NBLOCKS {
			panning_block(quick, idx - NBLOCKS, ctx);
		} else {
			let which = idx - 2 * NBLOCKS;
			let r = catch(|| match which {
				0 => semitones(ctx),
				1 => clock_speeds(ctx),
				2 => clock_time_f64(ctx),
				3 => clock_time_u64(ctx),
				4 => easings(ctx),
				_ => {
					mappings(ctx);
					distance_mappings(ctx);
				}
			});
			if let Err(p) = r {
				ctx.fail(format!("panic in lattice case {}: {}", which, p), p);
			}
		}
	}
}

fn decibels_block(quick: bool, block: u64, ctx: &mut Ctx) {
	let sp = specials();
	let lo = block << BLOCK_BITS;
	let hi = (block + 1) << BLOCK_BITS;
	// one-element overlap with the previous block for monotonicity
	let mut prev: Option<(f32, f32)> = None;
	if lo > 0 {
		let mut k = lo - 1;
		loop {
			let bits = ord_to_bits(k);
			let x = f32::from_bits(bits);
			if x.is_finite() && selected(quick, k, bits, &sp) {
				prev = Some((x, Decibels(x).as_amplitude()));
				break;
			}
			if k == 0 || lo - k > 300 {
				break;
			}
			k -= 1;
		}
	}
	let mut nontrivial = 0u64;
	let mut evals = 0u64;
	for k in lo..hi {
		let bits = ord_to_bits(k);
		let db = f32::from_bits(bits);
		if !db.is_finite() || !selected(quick, k, bits, &sp) {
			continue;
		}
		evals += 1;
		let amp = Decibels(db).as_amplitude();
		if db == 0.0 {
			if amp != 1.0 {
				ctx.fail("decibels: 0 dB does not map to 1", format!("db={:e} amp={:e}", db, amp));
			}
		} else if db <= -60.0 {
			if amp != 0.0 {
				ctx.fail("decibels: <= -60 dB does not map to 0", format!("db={:e} amp={:e}", db, amp));
			}
		} else {
			let e = db as f64 / 20.0;
			let expect = 10f64.powf(e);
			if expect > f32::MAX as f64 * (1.0 + 1e-6) {
				if amp != f32::INFINITY && amp != f32::MAX {
					ctx.fail("decibels: overflow region not inf/MAX", format!("db={:e} amp={:e}", db, amp));
				}
			} else {
				let tol = 2f64.powi(-22) + std::f64::consts::LN_10 * e.abs() * 2f64.powi(-23);
				let err = ((amp as f64) - expect).abs();
				if !(err <= tol * expect + 2e-45) {
					ctx.fail(
						"decibels: disagrees with 10^(dB/20)",
						format!("db={:e} amp={:e} expected={:e} relerr={:e} tol={:e}", db, amp, expect, err / expect, tol),
					);
				}
				nontrivial += 1;
			}
		}
		if amp.is_nan() || amp < 0.0 {
			ctx.fail("decibels: amplitude NaN or negative", format!("db={:e} amp={:e}", db, amp));
		}
		if let Some((pdb, pamp)) = prev {
			if amp < pamp {
				ctx.fail(
					"decibels: not monotone",
					format!("as_amplitude({:e})={:e} > as_amplitude({:e})={:e}", pdb, pamp, db, amp),
				);
			}
		}
		prev = Some((db, amp));
	}
	ctx.evals += evals;
	ctx.count("decibel_inputs", evals);
	ctx.count("nontrivial_by_construction", nontrivial);
	ctx.nontrivial_extra += nontrivial;
	ctx.outcome(if nontrivial > 0 { 1 } else { 0 });
}

fn panning_block(quick: bool, block: u64, ctx: &mut Ctx) {
	let sp = specials();
	let lo = block << BLOCK_BITS;
	let hi = (block + 1) << BLOCK_BITS;
	let x = 0.5f32; // a centred signal
	let src = Frame::from_mono(x);
	let eval = |p: f32| src.panned(Panning(p));
	let mut prev: Option<(f32, Frame)> = None;
	if lo > 0 {
		let mut k = lo - 1;
		loop {
			let bits = ord_to_bits(k);
			let p = f32::from_bits(bits);
			if p.is_finite() && selected(quick, k, bits, &sp) {
				prev = Some((p, eval(p)));
				break;
			}
			if k == 0 || lo - k > 300 {
				break;
			}
			k -= 1;
		}
	}
	let left_edge = eval(-1.0);
	let right_edge = eval(1.0);
	let mut nontrivial = 0u64;
	let mut evals = 0u64;
	let sqrt2x = (2.0f64).sqrt() * x as f64;
	for k in lo..hi {
		let bits = ord_to_bits(k);
		let p = f32::from_bits(bits);
		if !p.is_finite() || !selected(quick, k, bits, &sp) {
			continue;
		}
		evals += 1;
		let out = eval(p);
		if p == 0.0 {
			if out != src {
				ctx.fail("panning: centre is not the identity", format!("p={:e} out={:?}", p, out));
			}
		}
		if p <= -1.0 && out != left_edge {
			ctx.fail("panning: not clamped below -1", format!("p={:e} out={:?} edge={:?}", p, out, left_edge));
		}
		if p >= 1.0 && out != right_edge {
			ctx.fail("panning: not clamped above 1", format!("p={:e} out={:?} edge={:?}", p, out, right_edge));
		}
		if !out.left.is_finite() || !out.right.is_finite() || out.left < 0.0 || out.right < 0.0 {
			ctx.fail("panning: non-finite or negative gain", format!("p={:e} out={:?}", p, out));
		}
		let power = (out.left as f64).powi(2) + (out.right as f64).powi(2);
		let want = 2.0 * (x as f64).powi(2);
		if !((power - want).abs() <= 2e-6 * want) {
			ctx.fail(
				"panning: total power of a centred signal not kept",
				format!("p={:e} out={:?} L^2+R^2={:e} want={:e}", p, out, power, want),
			);
		}
		if out.left as f64 > sqrt2x * (1.0 + 1e-6) || out.right as f64 > sqrt2x * (1.0 + 1e-6) {
			ctx.fail("panning: gain above sqrt2", format!("p={:e} out={:?}", p, out));
		}
		if p > -1.0 && p < 1.0 && p != 0.0 {
			nontrivial += 1;
			let pc = p as f64;
			let l_ref = x as f64 * (1.0 - pc).sqrt();
			let r_ref = x as f64 * (1.0 + pc).sqrt();
			if (out.left as f64 - l_ref).abs() > 5e-4 * x as f64 || (out.right as f64 - r_ref).abs() > 5e-4 * x as f64 {
				ctx.fail(
					"panning: disagrees with the equal-power law",
					format!("p={:e} out={:?} ref=({:e},{:e})", p, out, l_ref, r_ref),
				);
			}
		}
		// (monotonicity of the pan law is not part of the statement: only centre level,
		// total power and clamping are; the exact-identity special case at 0 is 1 ulp above
		// its neighbours)
		let _ = &prev;
		prev = Some((p, out));
	}
	ctx.evals += evals;
	ctx.count("panning_inputs", evals);
	ctx.nontrivial_extra += nontrivial;
	ctx.outcome(if nontrivial > 0 { 3 } else { 2 });
}

/// sign x exponent x mantissa-shape lattice of finite f64 values within [lo, hi]
fn f64_lattice(lo: f64, hi: f64) -> Vec<f64> {
	let mut v = vec![0.0, -0.0];
	let exps: Vec<i32> = vec![
		-1074, -1022, -600, -200, -100, -60, -53, -52, -30, -24, -20, -12, -10, -8, -5, -4, -3, -2, -1, 0, 1, 2, 3, 4, 5, 6, 7, 8, 10, 12,
		16, 20, 24, 31, 32, 33, 52, 53, 60, 100,
	];
	let mants: [f64; 16] = [
		1.0,
		1.0 + f64::EPSILON,
		1.25,
		1.5,
		1.75,
		2.0 - f64::EPSILON,
		1.1,
		1.2,
		1.3,
		1.7,
		1.9,
		1.0625,
		1.999,
		1.333333333333333,
		1.6180339887,
		1.4142135623730951,
	];
	for s in [1.0, -1.0] {
		for e in &exps {
			for m in &mants {
				let x = s * m * 2f64.powi(*e);
				if x.is_finite() {
					v.push(x);
				}
			}
		}
	}
	for x in [3.0, 5.0, 7.0, 11.0, 12.0, 24.0, 36.0, 60.0, 120.0, 0.1, 0.2, 0.3, 1e-3, 1e3, 1e6] {
		v.push(x);
		v.push(-x);
	}
	v.retain(|x| *x >= lo && *x <= hi);
	v.sort_by(|a, b| a.partial_cmp(b).unwrap());
	v.dedup();
	v
}

fn semitones(ctx: &mut Ctx) {
	let lat = f64_lattice(-1200.0, 1200.0);
	let mut prev: Option<(f64, f64)> = None;
	for s in lat {
		ctx.evals += 1;
		let r = PlaybackRate::from(Semitones(s)).0;
		let expect = (s / 12.0).exp2();
		if !((r - expect).abs() <= 4.0 * ulp64(expect)) {
			ctx.fail("semitones: disagrees with 2^(s/12)", format!("s={:e} rate={:e} expected={:e}", s, r, expect));
		}
		if let Some((ps, pr)) = prev {
			if r < pr {
				ctx.fail("semitones: not monotone", format!("{:e}->{:e} then {:e}->{:e}", ps, pr, s, r));
			}
		}
		prev = Some((s, r));
		if s != 0.0 {
			ctx.nontrivial_extra += 1;
		}
	}
	for (s, want) in [(12.0, 2.0), (-12.0, 0.5), (0.0, 1.0), (24.0, 4.0), (-24.0, 0.25), (36.0, 8.0)] {
		ctx.evals += 1;
		let r = PlaybackRate::from(Semitones(s)).0;
		if r != want {
			ctx.fail("semitones: octave not exact", format!("s={} rate={:e} want={}", s, r, want));
		}
	}
	ctx.outcome(10);
}

fn clock_speeds(ctx: &mut Ctx) {
	let lat = f64_lattice(1e-9, 1e9);
	for v in lat {
		for unit in 0..3 {
			ctx.evals += 1;
			ctx.nontrivial_extra += 1;
			let s = match unit {
				0 => ClockSpeed::SecondsPerTick(v),
				1 => ClockSpeed::TicksPerSecond(v),
				_ => ClockSpeed::TicksPerMinute(v),
			};
			let spt = s.as_seconds_per_tick();
			let tps = s.as_ticks_per_second();
			let tpm = s.as_ticks_per_minute();
			let d = |what: &str, got: f64, want: f64, ulps: f64, ctx: &mut Ctx| {
				if !((got - want).abs() <= ulps * ulp64(want)) {
					ctx.fail(
						format!("clock speed: {} inconsistent", what),
						format!("speed={:?} got={:e} want={:e}", s, got, want),
					);
				}
			};
			d("seconds_per_tick * ticks_per_second == 1", spt * tps, 1.0, 2.0, ctx);
			d("ticks_per_minute == 60 * ticks_per_second", tpm, 60.0 * tps, 2.0, ctx);
			d("ticks_per_minute * seconds_per_tick == 60", tpm * spt, 60.0, 3.0, ctx);
			// the unit the speed was given in is returned exactly
			let own = match unit {
				0 => spt,
				1 => tps,
				_ => tpm,
			};
			if own != v {
				ctx.fail("clock speed: own unit not returned exactly", format!("speed={:?} got={:e}", s, own));
			}
			// re-expressing the speed in another unit keeps the speed
			for s2 in [
				ClockSpeed::SecondsPerTick(spt),
				ClockSpeed::TicksPerSecond(tps),
				ClockSpeed::TicksPerMinute(tpm),
			] {
				d("re-expressed speed (ticks/s)", s2.as_ticks_per_second(), tps, 4.0, ctx);
			}
			// interpolation end points, towards a target in each of the three units (the result is expressed in the target's unit)
			for other in [ClockSpeed::TicksPerSecond(2.0), ClockSpeed::TicksPerMinute(120.0), ClockSpeed::SecondsPerTick(0.5)] {
				let at0 = ClockSpeed::interpolate(s, other, 0.0);
				let at1 = ClockSpeed::interpolate(s, other, 1.0);
				d("interpolate(a,b,0) == a", at0.as_ticks_per_second(), tps, 8.0, ctx);
				if (at1.as_ticks_per_second() - 2.0).abs() > 1e-12 {
					ctx.fail("clock speed: interpolate(a,b,1) != b", format!("a={:?} b={:?} got={:?}", s, other, at1));
				}
				// half way lies between the two speeds (in whatever unit the interpolation runs)
				let mid = ClockSpeed::interpolate(s, other, 0.5).as_ticks_per_second();
				let (lo, hi) = (tps.min(2.0), tps.max(2.0));
				if tps.is_finite() && tps > 0.0 && !(mid >= lo * (1.0 - 1e-12) && mid <= hi * (1.0 + 1e-12)) {
					ctx.fail("clock speed: interpolate(a,b,0.5) is not between a and b", format!("a={:?} b={:?} mid={} ticks/s", s, other, mid));
				}
			}
		}
	}
	ctx.outcome(11);
}

fn val(t: ClockTime) -> f64 {
	t.ticks as f64 + t.fraction
}

fn time_lattice() -> Vec<(u64, f64)> {
	let ticks = [0u64, 1, 2, 5, 1 << 32, (1 << 53) - 1];
	let fr = [
		0.0,
		f64::MIN_POSITIVE,
		1e-300,
		2f64.powi(-53),
		1e-9,
		0.25,
		0.5 - 2f64.powi(-54),
		0.5,
		0.5 + 2f64.powi(-53),
		0.75,
		1.0 - 2f64.powi(-52),
		1.0 - 2f64.powi(-53),
	];
	let mut v = vec![];
	for t in ticks {
		for f in fr {
			v.push((t, f));
		}
	}
	v
}

fn clock_time_f64(ctx: &mut Ctx) {
	let mut b = MockInfoBuilder::new();
	let clock = b.add_clock(true, 0, 0.0);
	let amounts: Vec<f64> = {
		let mut a = vec![
			0.0,
			f64::MIN_POSITIVE,
			1e-300,
			1e-20,
			2f64.powi(-53),
			1e-9,
			0.25,
			0.5,
			0.75,
			1.0 - 2f64.powi(-53),
			1.0,
			1.0 + 2f64.powi(-52),
			1.25,
			1.5,
			2.0,
			2.75,
			5.0,
			1000.125,
			4294967296.0,
			4294967296.5,
			4503599627370496.0,
		];
		let neg: Vec<f64> = a.iter().map(|x| -*x).collect();
		a.extend(neg);
		a
	};
	for (ticks, fraction) in time_lattice() {
		let t = ClockTime { clock, ticks, fraction };
		for &x in &amounts {
			ctx.evals += 1;
			if x != 0.0 {
				ctx.nontrivial_extra += 1;
			}
			let desc = || format!("t=({}, {:e}) x={:e}", ticks, fraction, x);
			// t + x
			let sum = match catch(|| t + x) {
				Ok(s) => s,
				Err(p) => {
					ctx.fail(format!("clock time: `+ f64` panics: {}", p), desc());
					continue;
				}
			};
			let diff = match catch(|| t - x) {
				Ok(s) => s,
				Err(p) => {
					ctx.fail(format!("clock time: `- f64` panics: {}", p), desc());
					continue;
				}
			};
			// the compound operators are the same operations
			for (name, r, want) in [
				("+=", catch(|| { let mut u = t; u += x; u }), sum),
				("-=", catch(|| { let mut u = t; u -= x; u }), diff),
			] {
				match r {
					Ok(u) => {
						if u != want {
							ctx.fail(format!("clock time: `{} f64` differs from the binary operator", name), format!("{} got=({}, {:e}) want=({}, {:e})", desc(), u.ticks, u.fraction, want.ticks, want.fraction));
						}
					}
					Err(p) => ctx.fail(format!("clock time: `{} f64` panics: {}", name, p), desc()),
				}
			}
			for (name, r) in [("+", sum), ("-", diff)] {
				if !(r.fraction >= 0.0 && r.fraction < 1.0) {
					ctx.fail(
						format!("clock time: fraction outside [0,1) after `{} f64`", name),
						format!("{} result=({}, {:e})", desc(), r.ticks, r.fraction),
					);
				}
				if r.clock != clock {
					ctx.fail("clock time: clock id changed", desc());
				}
			}
			let tv = val(t);
			// a subtraction of a non-negative amount (or addition of a non-positive one) never yields a later time,
			// and saturates at zero
			let (dec, amount) = if x >= 0.0 { (diff, x) } else { (sum, -x) };
			let want = (tv - amount).max(0.0);
			let scale = tv.max(amount).max(1.0);
			let tol = 4.0 * ulp64(scale);
			if val(dec) > tv + tol {
				ctx.fail(
					"clock time: subtracting wraps (result later than the original time)",
					format!("{} result=({}, {:e})", desc(), dec.ticks, dec.fraction),
				);
			} else if amount > tv + tol && val(dec) > tol {
				ctx.fail(
					"clock time: subtraction below zero does not saturate at zero",
					format!("{} result=({}, {:e})", desc(), dec.ticks, dec.fraction),
				);
			} else if amount <= tv && (val(dec) - want).abs() > tol.max(1e-300) && amount >= 1e-15 * scale {
				ctx.fail(
					"clock time: difference is not t - x to rounding",
					format!("{} result=({}, {:e}) want={:e}", desc(), dec.ticks, dec.fraction, want),
				);
			}
			// add then subtract returns the original time to rounding (of the larger magnitude)
			let (inc, amount) = if x >= 0.0 { (sum, x) } else { (diff, -x) };
			let back = match catch(|| inc - amount) {
				Ok(s) => s,
				Err(p) => {
					ctx.fail(format!("clock time: `- f64` panics: {}", p), desc());
					continue;
				}
			};
			let scale = (tv + amount).max(1.0);
			let tol = 4.0 * ulp64(scale);
			if (val(inc) - (tv + amount)).abs() > tol {
				ctx.fail(
					"clock time: sum is not t + x to rounding",
					format!("{} result=({}, {:e})", desc(), inc.ticks, inc.fraction),
				);
			}
			let d_ticks = back.ticks as i128 - t.ticks as i128;
			let delta = d_ticks as f64 + (back.fraction - t.fraction);
			if delta.abs() > tol {
				ctx.fail(
					"clock time: (t + x) - x differs from t by more than rounding",
					format!(
						"{} t+x=({}, {:e}) back=({}, {:e}) delta={:e} tol={:e}",
						desc(),
						inc.ticks,
						inc.fraction,
						back.ticks,
						back.fraction,
						delta,
						tol
					),
				);
			}
		}
	}
	ctx.outcome(12);
}

fn clock_time_u64(ctx: &mut Ctx) {
	let mut b = MockInfoBuilder::new();
	let clock = b.add_clock(true, 0, 0.0);
	let other = b.add_clock(true, 0, 0.0);
	let amounts = [0u64, 1, 2, 5, 1 << 32];
	let lat = time_lattice();
	for &(ticks, fraction) in &lat {
		let t = ClockTime { clock, ticks, fraction };
		for &n in &amounts {
			ctx.evals += 1;
			if n != 0 {
				ctx.nontrivial_extra += 1;
			}
			let desc = || format!("t=({}, {:e}) n={}", ticks, fraction, n);
			match catch(|| t + n) {
				Ok(s) => {
					if s.ticks != ticks + n || s.fraction != fraction {
						ctx.fail("clock time: `+ u64` wrong", format!("{} -> ({}, {:e})", desc(), s.ticks, s.fraction));
					}
					match catch(|| s - n) {
						Ok(bk) => {
							if bk != t {
								ctx.fail("clock time: (t + n) - n != t", desc());
							}
						}
						Err(p) => ctx.fail(format!("clock time: `- u64` panics: {}", p), desc()),
					}
				}
				Err(p) => ctx.fail(format!("clock time: `+ u64` panics: {}", p), desc()),
			}
			match catch(|| t - n) {
				Ok(d) => {
					let want_ticks = ticks.saturating_sub(n);
					if n <= ticks {
						if d.ticks != want_ticks || d.fraction != fraction {
							ctx.fail("clock time: `- u64` wrong", format!("{} -> ({}, {:e})", desc(), d.ticks, d.fraction));
						}
					} else if val(d) > val(t) {
						ctx.fail(
							"clock time: `- u64` wraps below zero",
							format!("{} -> ({}, {:e})", desc(), d.ticks, d.fraction),
						);
					}
				}
				Err(p) => ctx.fail(format!("clock time: `- u64` panics: {}", p), desc()),
			}
			let mut a = t;
			if let Err(p) = catch(|| a -= n) {
				ctx.fail(format!("clock time: `-= u64` panics: {}", p), desc());
			} else if n > ticks && val(a) > val(t) {
				ctx.fail("clock time: `-= u64` wraps below zero", desc());
			}
		}
	}
	// ordering agrees with ticks + fraction
	for &(t1, f1) in &lat {
		for &(t2, f2) in &lat {
			ctx.evals += 1;
			let a = ClockTime { clock, ticks: t1, fraction: f1 };
			let b2 = ClockTime { clock, ticks: t2, fraction: f2 };
			let want = (t1, f1).partial_cmp(&(t2, f2));
			if a.partial_cmp(&b2) != want {
				ctx.fail("clock time: ordering disagrees with (ticks, fraction)", format!("{:?} vs {:?}", a, b2));
			}
			// the comparison operators are the same order (each may be overridden on its own)
			use std::cmp::Ordering as O;
			let ops = [(a < b2, want == Some(O::Less), "<"), (a <= b2, matches!(want, Some(O::Less | O::Equal)), "<="), (a > b2, want == Some(O::Greater), ">"), (a >= b2, matches!(want, Some(O::Greater | O::Equal)), ">="), (a == b2, t1 == t2 && f1 == f2, "=="), (a != b2, !(t1 == t2 && f1 == f2), "!=")];
			for (got, w, op) in ops {
				if got != w {
					ctx.fail("clock time: a comparison operator disagrees with the (ticks, fraction) order", format!("{:?} {} {:?} is {}", a, op, b2, got));
				}
			}
			let c = ClockTime { clock: other, ticks: t2, fraction: f2 };
			if a.partial_cmp(&c).is_some() {
				ctx.fail("clock time: times of different clocks compare", format!("{:?} vs {:?}", a, c));
			}
		}
	}
	ctx.outcome(13);
}

fn ease(e: Easing, x: f64) -> f64 {
	Mapping {
		input_range: (0.0, 1.0),
		output_range: (0.0f64, 1.0f64),
		easing: e,
	}
	.map(x)
}

/// a mapping whose input is the listener distance, evaluated where kira evaluates it (the volume of a spatial track): it clamps
/// its input to the input range like every other mapping - also for ranges that do not start at 0 and for descending ranges
fn distance_mappings(ctx: &mut Ctx) {
	use crate::rig;
	use kira::track::{MainTrackBuilder, SpatialTrackBuilder};
	for (lo, hi) in [(0.0f64, 20.0f64), (10.0, 100.0), (100.0, 10.0), (5.0, 5.5)] {
		for d in [0.0f32, 1.0, 5.0, 5.25, 10.0, 55.0, 100.0, 250.0] {
			for e in [Easing::Linear, Easing::InPowi(2)] {
				ctx.evals += 1;
				let r = catch(|| {
					let mut m = rig::manager(64, 4, rig::caps(2), MainTrackBuilder::new());
					let l = m.add_listener(glam::Vec3::ZERO, glam::Quat::IDENTITY).expect("listener");
					let map = Mapping { input_range: (lo, hi), output_range: (Decibels(-20.0), Decibels(0.0)), easing: e };
					let mut t = m.add_spatial_sub_track(&l, glam::Vec3::new(d, 0.0, 0.0), SpatialTrackBuilder::new().attenuation_function(None).spatialization_strength(0.0).volume(kira::Value::FromListenerDistance(map))).expect("track");
					let _h = t.play(rig::static_data(64, rig::dc_frames(4, 0.5)).loop_region(kira::sound::Region::from(..))).expect("play");
					let mut out = vec![];
					for _ in 0..3 {
						rig::render_stereo(&mut m, 4, &mut out);
					}
					out[11].0
				});
				// reference: clamp the input to the range (either orientation), ease, interpolate the decibels
				let x = ((d as f64 - lo) / (hi - lo)).clamp(0.0, 1.0);
				let x = ease(e, x);
				let want = 0.5 * 10f64.powf((-20.0 + 20.0 * x) / 20.0);
				let what = format!("spatial track at distance {} from its listener (no attenuation, strength 0), volume = FromListenerDistance(Mapping {{ ({}, {}) -> (-20 dB, 0 dB), {:?} }}), DC 0.5", d, lo, hi, e);
				match r {
					Ok(got) => {
						if (got as f64 - want).abs() > 1e-5 {
							ctx.fail("mapping: a listener-distance mapping does not clamp its input to the input range (or is off the mapping) where it is evaluated", format!("{}: level {}, expected {}", what, got, want));
						} else {
							ctx.nontrivial_extra += 1;
						}
					}
					Err(p) => ctx.fail(format!("panic: {} :: listener-distance mapping", p), what),
				}
			}
		}
	}
}

fn easings(ctx: &mut Ctx) {
	let mut es = vec![Easing::Linear];
	for p in 1..=8 {
		es.push(Easing::InPowi(p));
		es.push(Easing::OutPowi(p));
		es.push(Easing::InOutPowi(p));
	}
	for p in [0.1, 0.5, 1.5, 2.0, 3.7, 10.0] {
		es.push(Easing::InPowf(p));
		es.push(Easing::OutPowf(p));
		es.push(Easing::InOutPowf(p));
	}
	// steep and flat exponents: any finite positive power is valid (beyond 1024 a power of 2 no longer fits an f64)
	for p in [16, 31, 64, 1023, 1024, 1025, 1026, 5000, i32::MAX] {
		es.push(Easing::InPowi(p));
		es.push(Easing::OutPowi(p));
		es.push(Easing::InOutPowi(p));
	}
	for p in [1e-3, 100.0, 1023.5, 1024.0, 1025.0, 1e6, 1e300] {
		es.push(Easing::InPowf(p));
		es.push(Easing::OutPowf(p));
		es.push(Easing::InOutPowf(p));
	}
	let mut xs: Vec<f64> = vec![];
	for i in 0..=4096 {
		let x = i as f64 / 4096.0;
		xs.push(x);
	}
	for c in [0.0, 0.5, 1.0] {
		for k in 1..=4u64 {
			let up = f64::from_bits((c as f64).to_bits() + k);
			if up <= 1.0 && c < 1.0 {
				xs.push(up);
			}
			if c > 0.0 {
				xs.push(f64::from_bits((c as f64).to_bits() - k));
			}
		}
	}
	xs.push(f64::MIN_POSITIVE);
	xs.push(1e-300);
	xs.sort_by(|a, b| a.partial_cmp(b).unwrap());
	xs.dedup();
	for e in es {
		let z = ease(e, 0.0);
		let o = ease(e, 1.0);
		if z != 0.0 {
			ctx.fail("easing: ease(0) != 0", format!("{:?} ease(0)={:e}", e, z));
		}
		if o != 1.0 {
			ctx.fail("easing: ease(1) != 1", format!("{:?} ease(1)={:e}", e, o));
		}
		let mut prev: Option<(f64, f64)> = None;
		for &x in &xs {
			ctx.evals += 1;
			let y = ease(e, x);
			if !(y >= -1e-15 && y <= 1.0 + 1e-15) {
				ctx.fail("easing: value outside [0,1]", format!("{:?} x={:e} y={:e}", e, x, y));
			}
			if let Some((px, py)) = prev {
				if y < py - 4.0 * ulp64(py.max(f64::MIN_POSITIVE)) {
					ctx.fail("easing: not monotone on [0,1]", format!("{:?}: f({:e})={:e} > f({:e})={:e}", e, px, py, x, y));
				}
			}
			prev = Some((x, y));
			if y != 0.0 && y != 1.0 {
				ctx.nontrivial_extra += 1;
			}
		}
	}
	ctx.outcome(14);
}

fn mappings(ctx: &mut Ctx) {
	let ranges = [(0.0, 1.0), (1.0, 0.0), (-3.0, 5.0), (5.0, -3.0), (10.0, 10.5), (1e-9, 1e9)];
	let outs = [(0.0f64, 1.0f64), (1.0, 0.0), (-60.0, 6.0), (20000.0, 500.0)];
	let eases = [Easing::Linear, Easing::InPowi(2), Easing::OutPowf(1.5), Easing::InOutPowi(3)];
	for (a, b) in ranges {
		for (oa, ob) in outs {
			for e in eases {
				let m = Mapping {
					input_range: (a, b),
					output_range: (oa, ob),
					easing: e,
				};
				let lo = a.min(b);
				let hi = a.max(b);
				let at_a = m.map(a);
				let at_b = m.map(b);
				if at_a != oa {
					ctx.fail("mapping: start of input range does not map to start of output range", format!("{:?} -> {:e}", m, at_a));
				}
				if at_b != ob {
					ctx.fail("mapping: end of input range does not map to end of output range", format!("{:?} -> {:e}", m, at_b));
				}
				let span = hi - lo;
				for k in [1e-12, 0.5, 1.0, 10.0, 1e12, f64::MAX / 4.0] {
					ctx.evals += 2;
					ctx.nontrivial_extra += 2;
					let below = lo - k * span.max(1.0);
					let above = hi + k * span.max(1.0);
					let want_below = if a < b { at_a } else { at_b };
					let want_above = if a < b { at_b } else { at_a };
					if m.map(below) != want_below {
						ctx.fail("mapping: input below the range is not clamped", format!("{:?} input={:e} -> {:e}", m, below, m.map(below)));
					}
					if m.map(above) != want_above {
						ctx.fail("mapping: input above the range is not clamped", format!("{:?} input={:e} -> {:e}", m, above, m.map(above)));
					}
				}
				let omin = oa.min(ob);
				let omax = oa.max(ob);
				for i in 0..=64 {
					ctx.evals += 1;
					let x = lo + span * i as f64 / 64.0;
					let y = m.map(x);
					if !(y >= omin - 1e-9 * omax.abs().max(1.0) && y <= omax + 1e-9 * omax.abs().max(1.0)) {
						ctx.fail("mapping: output outside the output range", format!("{:?} input={:e} -> {:e}", m, x, y));
					}
					let amount = ((x - a) / (b - a)).clamp(0.0, 1.0);
					let want = oa + (ob - oa) * ease(e, amount);
					if (y - want).abs() > 1e-9 * omax.abs().max(1.0) {
						ctx.fail("mapping: disagrees with out0 + (out1-out0)*ease(amount)", format!("{:?} input={:e} -> {:e} want {:e}", m, x, y, want));
					}
				}
			}
		}
	}
	ctx.outcome(15);
}
