//! C10 — decoder threads always end; decode errors stop the sound and reach the handle; a slow
//! decoder only causes gaps.
//!
//! E3 (fault positions x terminal events x decoder paces, the real decoder thread paced through the
//! gate hook) and E2 (all interleavings, preemption-bounded, of the decoder thread's steps with a
//! driver thread that issues commands and runs callbacks).

use crate::engine::{hash64, Check, Ctx, Level, Tier};
use crate::json::J;
use crate::pacer;
use crate::probes::{DecErr, DecStats, ScriptedDecoder};
use crate::rig::{self, catch, Manager};
use kira::sound::streaming::{StreamingSoundData, StreamingSoundHandle};
use kira::sound::{PlaybackState, Region};
use kira::track::{MainTrackBuilder, TrackBuilder, TrackHandle};
use kira::{Easing, Frame, PlaySoundError, StartTime, Tween};
use std::sync::atomic::Ordering;
use std::sync::Arc;
use std::time::Duration;

pub struct C10;

#[derive(Debug, Clone, Copy, PartialEq)]
enum Fault {
	None,
	Decode(u64),
	Seek(u64),
}
#[derive(Debug, Clone, Copy, PartialEq)]
enum Event {
	/// nothing is done: finite sounds end by themselves, faulty ones fail
	None,
	Stop0(usize),
	Stop2(usize),
	/// play() on a track whose only sound slot is taken
	Rejected,
	TrackDropped(usize),
	ManagerDropped(usize),
	/// before callback p: pause(0); resume_at(clock time far ahead); before callback p+1: the clock's handle is dropped
	/// (a sound waiting to resume on a clock that no longer exists becomes Stopped)
	ClockGone(usize),
}
#[derive(Debug, Clone, Copy, PartialEq)]
enum Place {
	Main,
	SubTrack,
	/// sub-track that is paused (instantly) before the sound is played: the sound is not processed
	PausedTrack,
	/// main track, the sound itself is paused right after play
	PausedSound,
}
#[derive(Debug, Clone, Copy, PartialEq)]
enum Pace {
	/// 8 decoder steps before every callback
	Ahead,
	/// 1 step before every callback (the callbacks consume 2 frames)
	Lagging,
	/// no step before callback 3, then ahead
	StalledThenAhead,
}

#[derive(Debug, Clone, Copy)]
struct Sc {
	looping: bool,
	fault: Fault,
	event: Event,
	place: Place,
	pace: Pace,
}

fn scenarios() -> Vec<Sc> {
	let mut v = vec![];
	let mut faults = vec![Fault::None];
	for k in 1..=8 {
		faults.push(Fault::Decode(k));
	}
	for k in 1..=4 {
		faults.push(Fault::Seek(k));
	}
	let mut events = vec![Event::None, Event::Rejected];
	for p in 0..4 {
		events.push(Event::Stop0(p));
		events.push(Event::Stop2(p));
		events.push(Event::TrackDropped(p));
		events.push(Event::ManagerDropped(p));
	}
	for p in 0..3 {
		events.push(Event::ClockGone(p));
	}
	for looping in [false, true] {
		for &fault in &faults {
			for &event in &events {
				for place in [Place::Main, Place::SubTrack, Place::PausedTrack, Place::PausedSound] {
					for pace in [Pace::Ahead, Pace::Lagging, Pace::StalledThenAhead] {
						// combinations that make sense
						if matches!(event, Event::TrackDropped(_)) && !matches!(place, Place::SubTrack | Place::PausedTrack) {
							continue;
						}
						if matches!(event, Event::Rejected) && matches!(place, Place::PausedSound) {
							continue;
						}
						if matches!(event, Event::ClockGone(_)) && matches!(place, Place::PausedTrack) {
							continue; // frozen with its track: never reaches the removed clock
						}
						v.push(Sc {
							looping,
							fault,
							event,
							place,
							pace,
						});
					}
				}
			}
		}
	}
	v
}

const E2_CASES: u64 = 6;
/// starvation inside a processing chunk: internal buffer {4,8} x frames available {2..ibs-1} x stalled callbacks {0,1,2}
const STARVE_CASES: u64 = 2;
/// the real symphonia decoder on files that end before the frame the scheduler expects
const EOF_CASES: u64 = 2;
/// one switch to the decoder inside a callback: every stream.* sync point of the audio thread x decoder run length
const MIDCB_CASES: u64 = 6;
/// an audio callback placed inside one decoder loop iteration (the decoder parked at its n-th sync point)
const MIDIT_CASES: u64 = 1;

impl Check for C10 {
	fn id(&self) -> &'static str {
		"C10"
	}
	fn level(&self) -> Level {
		Level::FaultEnumeration
	}
	fn num_cases(&self, _tier: Tier) -> u64 {
		scenarios().len() as u64 + E2_CASES + STARVE_CASES + EOF_CASES + MIDCB_CASES + MIDIT_CASES
	}
	fn describe(&self, _tier: Tier, idx: u64) -> String {
		let sc = scenarios();
		if (idx as usize) < sc.len() {
			format!("{:?}", sc[idx as usize])
		} else if idx >= sc.len() as u64 + E2_CASES + STARVE_CASES + EOF_CASES + MIDCB_CASES {
			"one audio callback inside a decoder loop iteration: 6-frame finite stream, the decoder has delivered 3..6 frames and the ring is drained; the decoder is parked at its n-th stream.* sync point (every n over the next three iterations), one callback runs, the decoder goes on".to_string()
		} else if idx >= sc.len() as u64 + E2_CASES + STARVE_CASES + EOF_CASES {
			let w = idx - sc.len() as u64 - E2_CASES - STARVE_CASES - EOF_CASES;
			format!("one decoder burst inside a callback: 12-frame {} stream, internal buffer 4, decoder {} frames ahead when the callback begins; at the n-th pass of the audio thread through a stream.* sync point (every n) the decoder runs k iterations (k = 1..14)", if w >= 4 { "looping, sliced out of a longer source," } else if w % 2 == 0 { "finite" } else { "looping" }, if w == 5 || (w < 4 && w / 2 == 1) { 6 } else { 3 })
		} else if idx >= sc.len() as u64 + E2_CASES + STARVE_CASES {
			format!("symphonia decoder, {}: the sound stops, the error (if any) can be popped, the decoder thread ends and releases the file", ["wav whose header promises 2000 frames but whose data ends after 1000", "intact wav of 1000 frames played with a slice that extends beyond its end"][(idx - sc.len() as u64 - E2_CASES - STARVE_CASES) as usize])
		} else if idx >= sc.len() as u64 + E2_CASES {
			format!("starvation inside a chunk: internal buffer {}: the ring holds 2..ibs-1 frames when a full-size callback begins, 0..2 further callbacks are starved completely, then the decoder catches up (40-frame stream with non-linear index codes)", [4, 8][(idx - sc.len() as u64 - E2_CASES) as usize])
		} else {
			format!("E2 interleavings: {}", e2_name(idx - sc.len() as u64))
		}
	}
	fn sig_hint(&self, _tier: Tier, idx: u64) -> String {
		let sc = scenarios();
		if (idx as usize) < sc.len() {
			let s = sc[idx as usize];
			format!("event {:?} place {:?}", s.event, s.place)
		} else if idx >= sc.len() as u64 + E2_CASES + STARVE_CASES + EOF_CASES + MIDCB_CASES {
			"callback inside a decoder iteration".to_string()
		} else if idx >= sc.len() as u64 + E2_CASES + STARVE_CASES + EOF_CASES {
			"decoder burst inside a callback".to_string()
		} else if idx >= sc.len() as u64 + E2_CASES + STARVE_CASES {
			"symphonia decoder past the end of the data".to_string()
		} else if idx >= sc.len() as u64 + E2_CASES {
			"starvation inside a chunk".to_string()
		} else {
			format!("E2 {}", e2_name(idx - sc.len() as u64))
		}
	}
	fn rule(&self) -> String {
		"E3: {6-frame finite, 6-frame looping stream} x fault {none, k-th decode call fails (k=1..8), k-th seek call fails (k=1..4)} x terminal event {none/natural end/failure, stop(0) and stop(2 frames) before callback 0..3, pause + resume_at(clock) before callback 0..2 with the clock dropped one callback later, rejected by a full track, its track's handle dropped before callback 0..3, manager dropped before callback 0..3} x placement {main track, sub-track, paused sub-track, paused sound} x decoder pace {ahead, lagging (1 step per 2-frame callback), stalled then ahead}; E2: all interleavings (preemption bound 2, 3 thorough) of the decoder thread with a driver thread for six harnesses. A case is non-trivial when the decoder thread actually ran concurrently to a callback and the terminal event / fault occurred".into()
	}
	fn assumptions(&self) -> Vec<String> {
		vec![
			"'bounded time' is decided in decoder-loop iterations: once the driver has no operation left the system is closed, so a decoder that has not exited after (ring capacity + 64) further iterations never will".into(),
			"'busy spin' = consecutive loop iterations that call the failing decoder again without sleeping or exiting".into(),
		]
	}
	fn extra_evidence(&self, tier: Tier) -> Vec<(String, J)> {
		vec![("preemption_bound".into(), J::s(tier.pick("2", "3")))]
	}
	fn case_timeout_ms(&self, tier: Tier) -> u64 {
		tier.pick(600_000, 1_800_000)
	}
	fn run_case(&self, tier: Tier, idx: u64, ctx: &mut Ctx) {
		let sc = scenarios();
		if (idx as usize) < sc.len() {
			pacer::set_mode(pacer::Mode::Pacer);
			let s = sc[idx as usize];
			ctx.evals += 1;
			if let Err(p) = catch(|| run(&s, ctx)) {
				ctx.fail(format!("panic: {} :: {:?}", p, s.event), format!("{:?}", s));
			}
		} else if idx >= sc.len() as u64 + E2_CASES + STARVE_CASES + EOF_CASES + MIDCB_CASES {
			pacer::set_mode(pacer::Mode::Pacer);
			if let Err(p) = catch(|| mid_iteration(ctx)) {
				ctx.fail(format!("panic: {} :: callback inside a decoder iteration", p), "");
			}
			if let Err(p) = catch(|| at_the_end(ctx)) {
				ctx.fail(format!("panic: {} :: position exactly at the end of the stream", p), "");
			}
			if let Err(p) = catch(|| fast_rates(ctx)) {
				ctx.fail(format!("panic: {} :: fast playback rates", p), "");
			}
			if let Err(p) = catch(|| orphaned_failure(ctx)) {
				ctx.fail(format!("panic: {} :: decoder failure without a handle", p), "");
			}
			if let Err(p) = catch(|| sliced_seek(ctx)) {
				ctx.fail(format!("panic: {} :: seek on a sliced stream", p), "");
			}
		} else if idx >= sc.len() as u64 + E2_CASES + STARVE_CASES + EOF_CASES {
			pacer::set_mode(pacer::Mode::Pacer);
			let w = idx - sc.len() as u64 - E2_CASES - STARVE_CASES - EOF_CASES;
			// cases 4, 5: the looping stream is a slice (5..17) of a 20-frame source whose other frames are foreign
			let r = if w >= 4 { catch(|| mid_callback(true, if w == 4 { 3 } else { 6 }, true, ctx)) } else { catch(|| mid_callback(w % 2 == 1, if w / 2 == 0 { 3 } else { 6 }, false, ctx)) };
			if let Err(p) = r {
				ctx.fail(format!("panic: {} :: decoder burst inside a callback", p), format!("scenario {}", w));
			}
		} else if idx >= sc.len() as u64 + E2_CASES + STARVE_CASES {
			pacer::set_mode(pacer::Mode::Pacer);
			let w = idx - sc.len() as u64 - E2_CASES - STARVE_CASES;
			if let Err(p) = catch(|| past_eof(w, ctx)) {
				ctx.fail(format!("panic: {} :: symphonia decoder past the end of the data", p), format!("scenario {}", w));
			}
		} else if idx >= sc.len() as u64 + E2_CASES {
			pacer::set_mode(pacer::Mode::Pacer);
			let ibs = [4usize, 8][(idx - sc.len() as u64 - E2_CASES) as usize];
			if let Err(p) = catch(|| starve_mid_chunk(ibs, ctx)) {
				ctx.fail(format!("panic: {} :: starvation inside a chunk", p), format!("internal buffer {}", ibs));
			}
		} else {
			e2(tier, idx - sc.len() as u64, ctx);
		}
	}
}

/// A decoder that is merely slow: the ring runs dry in the middle of a processing chunk, stays dry for 0..2 callbacks,
/// then fills again. What is heard is source frames, in order, nothing repeated or foreign, at most one frame lost per
/// gap, and the stream is played to its end.
fn starve_mid_chunk(ibs: usize, ctx: &mut Ctx) {
	const N: usize = 40;
	let codes: Vec<f32> = (0..N).map(|i| (1 + (i * 7) % N) as f32 / 64.0).collect();
	for avail in 2..ibs {
		for stalled in 0..3usize {
			for first_full in [false, true] {
				ctx.evals += 1;
				let desc = || format!("40-frame stream (frame i = (1 + 7i mod 40)/64), internal buffer {} = callback size; {}the decoder has delivered {} frames when a callback begins, {} further callback(s) get nothing, then it runs ahead", ibs, if first_full { "one full callback first; then " } else { "" }, avail, stalled);
				let mut m = rig::manager(SR, ibs, rig::caps(2), MainTrackBuilder::new());
				let first = pacer::count();
				let frames: Vec<Frame> = codes.iter().map(|c| Frame::new(*c, -*c / 2.0)).collect();
				let (dec, stats) = ScriptedDecoder::new(frames, SR, vec![1, 3, 2], 1);
				let mut h = match m.play(StreamingSoundData::from_decoder(dec)) {
					Ok(h) => h,
					Err(_) => {
						ctx.fail("play failed :: starvation inside a chunk", desc());
						continue;
					}
				};
				let mut buf = vec![0.0f32; ibs * 2];
				let mut heard: Vec<f32> = vec![];
				let mut plan: Vec<u64> = vec![];
				if first_full {
					plan.push(ibs as u64 + 4);
				}
				plan.push(if first_full { (avail as u64).saturating_sub(4) } else { avail as u64 });
				for _ in 0..stalled {
					plan.push(0);
				}
				for _ in 0..(N / ibs + 6) {
					plan.push(ibs as u64 + 8);
				}
				let mut ok = true;
				for steps in plan {
					if steps > 0 {
						pacer::step(first, steps);
					}
					let rep = rig::callback(&mut m, &mut buf, ibs, 2);
					if !rep.ok() {
						ctx.fail(format!("callback monitor: {:?} :: starvation inside a chunk", rep.panic.clone().or(rep.bad_sample.clone())), desc());
						ok = false;
						break;
					}
					for i in 0..ibs {
						heard.push(buf[2 * i]);
					}
				}
				if ok {
					let idx_of = |v: f32| codes.iter().position(|c| *c == v);
					let mut last: Option<usize> = None;
					let mut gap = false;
					let mut bad = None;
					for (k, v) in heard.iter().enumerate() {
						if *v == 0.0 {
							gap = true;
							continue;
						}
						match idx_of(*v) {
							None => {
								bad = Some(format!("output frame {} = {} is not a frame of the source", k, v));
								break;
							}
							Some(i) => {
								if let Some(l) = last {
									let okk = i == l + 1 || (gap && i == l + 2);
									if !okk {
										bad = Some(format!("output frame {}: source frame {} after source frame {} ({})", k, i, l, if i <= l { "repeated / reordered" } else { "frames skipped" }));
										break;
									}
								} else if i > 1 {
									bad = Some(format!("playback begins at source frame {}", i));
									break;
								}
								last = Some(i);
								gap = false;
							}
						}
					}
					if bad.is_none() && last != Some(N - 1) {
						bad = Some(format!("the stream was not played to its end (last source frame heard: {:?})", last));
					}
					if bad.is_none() && h.state() != PlaybackState::Stopped {
						bad = Some(format!("the sound is {:?} long after its last frame", h.state()));
					}
					if let Some(b) = bad {
						ctx.fail(
							"a slow decoder causes more than a gap of silence (foreign, repeated, reordered or skipped frames) :: starvation inside a chunk",
							format!("{}; {}; heard (x64) {:?}", desc(), b, heard.iter().map(|v| (v * 64.0) as i32).collect::<Vec<_>>()),
						);
					}
				}
				ctx.nontrivial_extra += 1;
				ctx.state(hash64(&("starve", ibs, avail, stalled, first_full)));
				h.stop(tw(0.0, SR));
				rig::callback(&mut m, &mut buf, ibs, 2);
				drop(m);
				crate::probes::reap_decoder(first, &stats);
			}
		}
	}
	ctx.outcome(hash64(&("starve", ibs)));
}

fn code(i: usize) -> Frame {
	Frame::new((i + 1) as f32 / 16.0, -((i + 1) as f32) / 32.0)
}
fn tw(frames: f64, sr: u32) -> Tween {
	Tween {
		start_time: StartTime::Immediate,
		duration: Duration::from_secs_f64(frames / sr as f64),
		easing: Easing::Linear,
	}
}
const SR: u32 = 8;
const LEN: usize = 6;

fn make_data(looping: bool, fault: Fault) -> (StreamingSoundData<DecErr>, Arc<DecStats>) {
	let (mut dec, stats) = ScriptedDecoder::new((0..LEN).map(code).collect(), SR, vec![2, 1], 2);
	match fault {
		Fault::None => {}
		Fault::Decode(k) => {
			dec.fail_decode_at = Some(k);
			dec.fail_forever = true;
		}
		Fault::Seek(k) => {
			dec.fail_seek_at = Some(k);
			dec.fail_forever = true;
		}
	}
	let mut d = StreamingSoundData::from_decoder(dec);
	if looping {
		d = d.loop_region(Region::from(..));
	}
	(d, stats)
}

fn idx_of(f: f32) -> Option<usize> {
	if f == 0.0 {
		return None;
	}
	let v = f * 16.0 - 1.0;
	if v.fract() == 0.0 && v >= 0.0 && (v as usize) < LEN {
		Some(v as usize)
	} else {
		Some(usize::MAX)
	}
}

fn run(sc: &Sc, ctx: &mut Ctx) {
	let desc = || format!("{:?}", sc);
	let mut m: Option<Manager> = Some(rig::manager(SR, 2, rig::caps(4), MainTrackBuilder::new().sound_capacity(if sc.event == Event::Rejected && sc.place == Place::Main { 1 } else { 8 })));
	let mut buf = vec![0.0f32; 8];
	let mut track: Option<TrackHandle> = None;
	let mut blocker: Vec<Box<dyn std::any::Any>> = vec![];
	if matches!(sc.place, Place::SubTrack | Place::PausedTrack) {
		let cap = if sc.event == Event::Rejected { 1 } else { 8 };
		let mut t = m.as_mut().unwrap().add_sub_track(TrackBuilder::new().sound_capacity(cap)).expect("track");
		if sc.place == Place::PausedTrack {
			t.pause(tw(0.0, SR));
		}
		track = Some(t);
		rig::callback(m.as_mut().unwrap(), &mut buf, 2, 2);
	}
	if sc.event == Event::Rejected {
		let d = rig::static_data(SR, rig::dc_frames(4, 0.0)).loop_region(Region::from(..));
		match track.as_mut() {
			Some(t) => blocker.push(Box::new(t.play(d).expect("blocker"))),
			None => blocker.push(Box::new(m.as_mut().unwrap().play(d).expect("blocker"))),
		}
	}
	let mut clock = if matches!(sc.event, Event::ClockGone(_)) { Some(m.as_mut().unwrap().add_clock(kira::clock::ClockSpeed::TicksPerSecond(1.0)).expect("clock")) } else { None };
	let first = pacer::count();
	let (data, stats) = make_data(sc.looping, sc.fault);
	let played = match track.as_mut() {
		Some(t) => t.play(data),
		None => m.as_mut().unwrap().play(data),
	};
	let thread_spawned = pacer::count() > first;
	let mut handle: Option<StreamingSoundHandle<DecErr>> = None;
	match played {
		Ok(h) => handle = Some(h),
		Err(PlaySoundError::SoundLimitReached) => {
			if sc.event != Event::Rejected {
				ctx.fail("play rejected although the track has room :: setup", desc());
				return;
			}
		}
		Err(PlaySoundError::IntoSoundError(_)) => {
			// the very first seek failed: nothing was started; the decoder must have been released
			if !stats.dropped.load(Ordering::SeqCst) {
				ctx.fail("decoder not released after into_sound failed :: first seek fails", desc());
			}
			return;
		}
	}
	if sc.event == Event::Rejected && handle.is_some() {
		ctx.fail("play succeeds beyond the sound capacity :: setup", desc());
		return;
	}
	if sc.place == Place::PausedSound {
		if let Some(h) = handle.as_mut() {
			h.pause(tw(0.0, SR));
		}
	}
	let mut heard: Vec<Option<usize>> = vec![];
	let mut error_seen_at: Option<usize> = None; // callback index after which failures_returned > 0
	let mut stopped_at: Option<usize> = None;
	let mut popped: Vec<DecErr> = vec![];
	let mut gone_at: Option<usize> = None;
	let ncb = 8;
	let mut event_done = matches!(sc.event, Event::Rejected | Event::None);
	let mut event_at: Option<usize> = if sc.event == Event::Rejected { Some(0) } else { None };
	for cb in 0..ncb {
		// ---- the terminal event
		match sc.event {
			Event::Stop0(p) if p == cb => {
				if let Some(h) = handle.as_mut() {
					h.stop(tw(0.0, SR));
				}
				event_done = true;
				event_at = Some(cb);
			}
			Event::Stop2(p) if p == cb => {
				if let Some(h) = handle.as_mut() {
					h.stop(tw(2.0, SR));
				}
				event_done = true;
				event_at = Some(cb);
			}
			Event::TrackDropped(p) if p == cb => {
				track = None;
				event_done = true;
				event_at = Some(cb);
			}
			Event::ClockGone(p) if p == cb => {
				if let (Some(h), Some(c)) = (handle.as_mut(), clock.as_ref()) {
					h.pause(tw(0.0, SR));
					h.resume_at(kira::StartTime::ClockTime(kira::clock::ClockTime { clock: c.id(), ticks: 1000, fraction: 0.0 }), tw(0.0, SR));
				}
			}
			Event::ClockGone(p) if p + 1 == cb => {
				clock = None;
				event_done = true;
				event_at = Some(cb);
			}
			Event::ManagerDropped(p) if p == cb => {
				m = None;
				// a track handle keeps the ring with a not-yet-adopted sound alive: "discarded together with its manager"
				// means the application lets go of both
				track = None;
				event_done = true;
				event_at = Some(cb);
			}
			_ => {}
		}
		// ---- the decoder's pace
		if thread_spawned {
			let steps = match sc.pace {
				Pace::Ahead => 8,
				Pace::Lagging => 1,
				Pace::StalledThenAhead => {
					if cb < 3 {
						0
					} else {
						8
					}
				}
			};
			if steps > 0 {
				pacer::step(first, steps);
			}
		}
		if stats.failures_returned.load(Ordering::SeqCst) > 0 && error_seen_at.is_none() {
			error_seen_at = Some(cb);
		}
		// ---- the callback
		if let Some(mm) = m.as_mut() {
			let rep = rig::callback(mm, &mut buf, 2, 2);
			if !rep.ok() {
				ctx.fail(format!("callback monitor: {:?} :: {:?}", rep.panic.clone().or(rep.bad_sample.clone()), sc.event), desc());
				return;
			}
			for i in 0..2 {
				heard.push(idx_of(buf[2 * i]));
			}
		}
		if let Some(h) = handle.as_mut() {
			if h.state() == PlaybackState::Stopped && stopped_at.is_none() {
				stopped_at = Some(cb);
			}
			while let Some(e) = h.pop_error() {
				popped.push(e);
			}
		}
		if stats.dropped.load(Ordering::SeqCst) && gone_at.is_none() {
			gone_at = Some(cb);
		}
	}
	ctx.state(hash64(&(stopped_at, gone_at.is_some(), error_seen_at.is_some())));

	// ---- quiescence: the driver has nothing left to do except (if a manager exists) keep running callbacks;
	// the decoder thread gets all the time in the world
	let steps_before = if thread_spawned { pacer::info(first).steps } else { 0 };
	let calls_before = stats.decode_calls.load(Ordering::SeqCst) + stats.seek_calls.load(Ordering::SeqCst);
	let fails_before = stats.failures_returned.load(Ordering::SeqCst);
	let mut exited = !thread_spawned || pacer::exited(first);
	if !exited {
		let mut granted = 0u64;
		while granted < 16384 + 64 {
			let g = if granted < 64 { 8 } else { 2048 };
			pacer::step(first, g);
			granted += g;
			if let Some(mm) = m.as_mut() {
				if granted <= 64 {
					rig::callback(mm, &mut buf, 2, 2);
				}
			}
			if pacer::exited(first) {
				exited = true;
				break;
			}
			// a spinning decoder is recognised early
			let calls = stats.decode_calls.load(Ordering::SeqCst) + stats.seek_calls.load(Ordering::SeqCst) - calls_before;
			let fails = stats.failures_returned.load(Ordering::SeqCst) - fails_before;
			if calls >= 48 && fails == calls {
				break;
			}
		}
	}
	let mut lazily = false;
	if !exited && matches!(sc.event, Event::TrackDropped(_)) {
		// removed tracks are handed back to the gameplay thread and destroyed when it next creates a sub-track
		if let Some(mm) = m.as_mut() {
			let t2 = mm.add_sub_track(TrackBuilder::new());
			pacer::step(first, 16);
			if pacer::exited(first) {
				exited = true;
				lazily = true;
			}
			drop(t2);
		}
	}
	if let Some(mm) = m.as_mut() {
		for _ in 0..2 {
			rig::callback(mm, &mut buf, 2, 2);
		}
	}
	let steps_after = if thread_spawned { pacer::info(first).steps } else { 0 };
	let calls = stats.decode_calls.load(Ordering::SeqCst) + stats.seek_calls.load(Ordering::SeqCst) - calls_before;
	let fails = stats.failures_returned.load(Ordering::SeqCst) - fails_before;
	// a stop() issued while the sound's track is paused is frozen with the track (C12): not terminal yet
	let frozen_stop = matches!(sc.event, Event::Stop0(_) | Event::Stop2(_)) && sc.place == Place::PausedTrack && sc.looping && stats.failures_returned.load(Ordering::SeqCst) == 0;
	let has_terminal = (sc.event != Event::None || !sc.looping || sc.fault != Fault::None) && !frozen_stop;
	let faulted = stats.failures_returned.load(Ordering::SeqCst) > 0;
	let processed = !matches!(sc.place, Place::PausedTrack) && m.is_some() && !matches!(sc.event, Event::Rejected) && !(matches!(sc.event, Event::TrackDropped(_)));

	// (1) busy spin
	if calls >= 48 && fails == calls {
		ctx.fail(
			format!(
				"decoder thread busy-spins on a failing decoder (keeps calling it, never sleeps or exits) :: sound {}",
				if processed { "being processed" } else { "not being processed (paused track / dropped / rejected)" }
			),
			format!("{} {} decoder calls in {} loop iterations, all failing", desc(), calls, steps_after - steps_before),
		);
	} else if !exited && has_terminal && (event_done || faulted) {
		// (2) the thread never ends
		let what = if faulted && sc.event == Event::None {
			"a decode error".to_string()
		} else {
			match sc.event {
				Event::None => "the natural end".to_string(),
				Event::Stop0(_) | Event::Stop2(_) => "stop()".to_string(),
				Event::Rejected => "being rejected by a full track".to_string(),
				Event::TrackDropped(_) => "its track being dropped".to_string(),
				Event::ManagerDropped(_) => "the manager being dropped".to_string(),
				Event::ClockGone(_) => "the clock it was waiting to resume on was removed".to_string(),
			}
		};
		ctx.fail(
			format!("decoder thread never ends (decoder never released) after {} :: {:?}", what, sc.place),
			format!("{} after {} further loop iterations; state {:?}", desc(), steps_after - steps_before, handle.as_ref().map(|h| h.state())),
		);
	}
	if lazily {
		ctx.fail(
			format!("decoder thread of a sound on a dropped track only ends when the application next creates a sub-track (removed tracks are destroyed lazily) :: {:?}", sc.place),
			desc(),
		);
	}
	// (3) decode errors reach the handle and stop the sound
	if faulted && handle.is_some() && m.is_some() {
		if popped.is_empty() {
			if let Some(h) = handle.as_mut() {
				while let Some(e) = h.pop_error() {
					popped.push(e);
				}
			}
		}
		if popped.is_empty() {
			ctx.fail("a decode error cannot be popped from the handle :: fault", desc());
		} else {
			let first_ok = match (sc.fault, &popped[0]) {
				(Fault::Decode(k), DecErr::ScriptedDecodeFailure(n)) => *n == k,
				(Fault::Seek(k), DecErr::ScriptedSeekFailure(n)) => *n == k,
				_ => false,
			};
			if !first_ok {
				ctx.fail("the error popped from the handle is not the first error :: fault", format!("{} popped {:?}", desc(), popped));
			}
		}
		if processed && !matches!(sc.event, Event::ManagerDropped(_)) {
			let st = handle.as_ref().unwrap().state();
			if st != PlaybackState::Stopped {
				ctx.fail(
					format!("the sound is not Stopped after a decode error :: {:?}", sc.place),
					format!("{} state {:?}", desc(), st),
				);
			} else if let (Some(e), Some(s)) = (error_seen_at, stopped_at) {
				if s > e + 1 {
					ctx.fail("the sound becomes Stopped later than the callback after the decode error :: fault", format!("{} error before callback {}, Stopped after callback {}", desc(), e, s));
				}
				// no audio after it stopped
				if heard.iter().skip(2 * (s + 1)).any(|h| h.is_some()) {
					ctx.fail("audio after the sound stopped on a decode error :: fault", format!("{} heard {:?}", desc(), heard));
				}
			}
			// unloaded
			let n = match (&track, sc.place) {
				(Some(t), Place::SubTrack) => t.num_sounds(),
				_ => m.as_mut().unwrap().main_track().num_sounds(),
			};
			if n != 0 {
				ctx.fail("the failed sound is not unloaded :: fault", format!("{} num_sounds {}", desc(), n));
			}
		}
	}
	// (4) a slow decoder only causes gaps: heard frames are source frames, in order, nothing repeated
	if !matches!(sc.place, Place::PausedSound) {
		let mut last: Option<usize> = None;
		for (k, h) in heard.iter().enumerate() {
			if let Some(i) = h {
				if *i == usize::MAX {
					ctx.fail("a frame that is not in the source is heard (foreign frame) :: pace", format!("{} output frame {} heard {:?}", desc(), k, heard));
					break;
				}
				if let Some(l) = last {
					let ok = if sc.looping { *i == (l + 1) % LEN || *i == (l + 2) % LEN } else { *i == l + 1 || *i == l + 2 };
					if !ok {
						ctx.fail(
							format!("frames are repeated, reordered or skipped beyond one frame :: pace {:?}", sc.pace),
							format!("{} output frame {}: index {} after {}; heard {:?}", desc(), k, i, l, heard),
						);
						break;
					}
				}
				last = Some(*i);
			}
		}
	}
	if thread_spawned && (event_done || faulted) {
		ctx.nontrivial_extra += 1;
	}
	ctx.outcome(hash64(&(exited, faulted, stopped_at.is_some(), gone_at.is_some())));
	let _ = event_at;
	// ---- never leave a parked thread behind (the sandbox allows ~32k threads)
	if thread_spawned && !exited {
		stats.abort.store(true, Ordering::SeqCst);
		let st = stats.clone();
		pacer::step_or(first, 64, &move || st.dropped.load(Ordering::SeqCst));
	}
	drop(handle);
	drop(track);
	drop(blocker);
	drop(clock);
	drop(m);
}

// ---------------------------------------------------------------------------------------------
// E2

fn e2_name(i: u64) -> &'static str {
	[
		"finite stream: driver(play; 4 callbacks) || decoder",
		"looping stream: driver(play; callback; stop(0); 3 callbacks) || decoder",
		"looping stream: driver(play; callback; stop(2 frames); 4 callbacks) || decoder",
		"3rd decode call fails: driver(play; 4 callbacks; pop_error) || decoder",
		"looping stream on a sub-track: driver(play; callback; drop track handle; 3 callbacks) || decoder",
		"looping stream: driver(play; callback; seek_to; set_loop_region; 3 callbacks) || decoder",
	][i as usize]
}

static LEAKS: std::sync::atomic::AtomicU64 = std::sync::atomic::AtomicU64::new(0);

fn e2(tier: Tier, which: u64, ctx: &mut Ctx) {
	LEAKS.store(0, Ordering::SeqCst);
	use crate::sched::{self, Config, Exec};
	use std::sync::Mutex;
	fn filt(s: &'static str) -> bool {
		s == "decoder.gate" || s.starts_with("stream.") || s.starts_with("cmd.") || s.starts_with("rtrb.") || s.starts_with("tb.")
	}
	let cfg = Config {
		filter: filt,
		horizon: 1200,
		max_spin_rounds: 6,
		record_sites: true,
		// fairness: the decoder may run at most 3 loop iterations in a row before the driver gets a turn
		soft_yield: Some(("decoder.gate", 3)),
	};
	#[derive(Debug, Clone, Default, PartialEq)]
	struct Obs {
		heard: Vec<Option<usize>>,
		states: Vec<String>,
		popped: Vec<String>,
		dropped: bool,
		calls: sched::NoCmp<u64>,
		fails: sched::NoCmp<u64>,
		panics: Vec<String>,
		/// the thread only ended after the epilogue created another sub-track
		lazily: bool,
		/// the handle reported Stopped at a moment when no error could be popped (and none had been popped before)
		stopped_without_error: bool,
	}
	let mut body = |prefix: &[u8]| -> (sched::RunResult, Obs) {
		let fault = if which == 3 { Fault::Decode(3) } else { Fault::None };
		let looping = which != 0 && which != 3;
		let (data, stats) = make_data(looping, fault);
		let obs = Arc::new(Mutex::new(Obs::default()));
		let keep: Arc<Mutex<Option<(Manager, Option<TrackHandle>, StreamingSoundHandle<DecErr>)>>> = Arc::new(Mutex::new(None));
		let mut ex = Exec::begin(&cfg, prefix);
		{
			let obs = obs.clone();
			let keep = keep.clone();
			ex.spawn("driver", move || {
				let mut m = rig::manager(SR, 2, rig::caps(4), MainTrackBuilder::new());
				let mut buf = vec![0.0f32; 4];
				let mut track = if which == 4 { Some(m.add_sub_track(TrackBuilder::new()).expect("track")) } else { None };
				let mut h = match track.as_mut() {
					Some(t) => t.play(data),
					None => m.play(data),
				}
				.map_err(|_| ())
				.expect("play");
				let ncb = if which == 2 { 5 } else { 4 };
				for cb in 0..ncb {
					if cb == 1 {
						match which {
							1 => h.stop(tw(0.0, SR)),
							2 => h.stop(tw(2.0, SR)),
							4 => track = None,
							5 => {
								h.seek_to(4.0 / SR as f64);
								h.set_loop_region(Region {
									start: kira::sound::PlaybackPosition::Samples(1),
									end: kira::sound::EndPosition::Custom(kira::sound::PlaybackPosition::Samples(5)),
								});
							}
							_ => {}
						}
					}
					let r = rig::catch(|| {
						let r = m.backend_mut().renderer.as_mut().unwrap();
						r.on_start_processing();
						r.process(&mut buf, 2);
					});
					let mut o = obs.lock().unwrap();
					if let Err(p) = r {
						o.panics.push(p);
						break;
					}
					o.heard.push(idx_of(buf[0]));
					o.heard.push(idx_of(buf[2]));
					let st = h.state();
					o.states.push(format!("{:?}", st));
					while let Some(e) = h.pop_error() {
						o.popped.push(format!("{:?}", e));
					}
					if st == PlaybackState::Stopped && o.popped.is_empty() {
						o.stopped_without_error = true;
					}
				}
				if which == 5 {
					h.stop(tw(0.0, SR));
					let r = m.backend_mut().renderer.as_mut().unwrap();
					r.on_start_processing();
					r.process(&mut buf, 2);
				}
				// the manager, the track and the handle stay alive until the execution is over
				*keep.lock().unwrap() = Some((m, track, h));
			});
		}
		let res = ex.run();
		let mut o = obs.lock().unwrap().clone();
		let mut kept = keep.lock().unwrap().take();
		// sequential epilogue: two more callbacks, then the final observations
		if let Some((m, _t, h)) = kept.as_mut() {
			let mut buf = vec![0.0f32; 4];
			for _ in 0..2 {
				rig::callback(m, &mut buf, 2, 2);
				o.heard.push(idx_of(buf[0]));
				o.heard.push(idx_of(buf[2]));
			}
			o.states.push(format!("{:?}", h.state()));
			while let Some(e) = h.pop_error() {
				o.popped.push(format!("{:?}", e));
			}
		}
		// give a released decoder thread a moment to drop its decoder
		if which == 4 && !crate::probes::wait_dropped(&stats) {
			// removed tracks are destroyed when the gameplay thread next creates a sub-track
			if let Some((m, _t, _h)) = kept.as_mut() {
				let t2 = m.add_sub_track(TrackBuilder::new());
				drop(t2);
				if crate::probes::wait_dropped(&stats) {
					o.lazily = true;
				}
			}
		}
		o.dropped = crate::probes::wait_dropped(&stats) || {
			stats.abort.store(true, Ordering::SeqCst);
			false
		};
		o.calls = sched::NoCmp(stats.decode_calls.load(Ordering::SeqCst));
		o.fails = sched::NoCmp(stats.failures_returned.load(Ordering::SeqCst));
		drop(kept);
		if !o.dropped || o.lazily {
			LEAKS.fetch_add(1, Ordering::SeqCst);
			if LEAKS.load(Ordering::SeqCst) >= 3 {
				// every schedule leaks a thread: a few counterexamples are enough
				sched::request_stop();
			}
		}
		(res, o)
	};
	let mut outcomes = std::collections::HashSet::new();
	let mut fails: Vec<(String, String)> = vec![];
	let mut nontrivial = 0u64;
	let name = e2_name(which);
	let mut judge = |res: &sched::RunResult, o: &Obs, choices: &[u8]| {
		outcomes.insert(hash64(&format!("{:?}{:?}{:?}", o.heard, o.states, o.popped)));
		if choices.iter().any(|c| *c != 0) {
			nontrivial += 1;
		}
		let sd = || format!("{:?}; schedule {}", o, sched::fmt_schedule(res));
		for p in res.panics.iter().chain(o.panics.iter()) {
			fails.push((format!("panic: {} :: E2 {}", p, name), sd()));
		}
		// the decoder thread ends (all harnesses end in: natural end / stop / error / track dropped)
		let must_end = which != 4; // (4) is the known leak scenario's E2 twin; judged like the others
		let _ = must_end;
		if o.lazily {
			fails.push((
				format!("decoder thread of a sound on a dropped track only ends when the application next creates a sub-track (removed tracks are destroyed lazily) :: E2 {}", name),
				sd(),
			));
		} else if res.end != sched::EndKind::Completed || res.unfinished_adopted > 0 || !o.dropped {
			let kind = match res.end {
				sched::EndKind::Livelock => "decoder thread only waits/spins and never ends",
				sched::EndKind::Horizon => "decoder thread does not end within the step horizon",
				sched::EndKind::Completed => "decoder not released although its thread left the loop",
			};
			fails.push((format!("{} :: E2 {}", kind, name), sd()));
		}
		if o.fails.0 > 8 {
			fails.push((format!("decoder thread keeps calling a failing decoder :: E2 {}", name), sd()));
		}
		// heard frames: source frames in order (rate 1), gaps allowed
		let mut last: Option<usize> = None;
		for h in o.heard.iter().flatten() {
			if *h == usize::MAX {
				fails.push((format!("a frame that is not in the source is heard :: E2 {}", name), sd()));
				break;
			}
			if let Some(l) = last {
				let looping = which != 0 && which != 3;
				let ok = if which == 5 { true } else if looping { *h == (l + 1) % LEN || *h == (l + 2) % LEN } else { *h == l + 1 || *h == l + 2 };
				if !ok {
					fails.push((format!("frames are repeated, reordered or skipped beyond one frame :: E2 {}", name), sd()));
					break;
				}
			}
			last = Some(*h);
		}
		if which == 0 && res.end == sched::EndKind::Completed && o.panics.is_empty() {
			// a finite stream is played to its end: a slow decoder costs at most a frame per gap, never the tail
			let maxh = o.heard.iter().flatten().filter(|h| **h != usize::MAX).max().copied();
			if o.states.last().map(|s| s.as_str()) == Some("Stopped") && maxh.map(|h| h + 2 < LEN).unwrap_or(true) {
				fails.push((format!("a finite stream is reported Stopped before its last frames were played :: E2 {}", name), sd()));
			}
		}
		if which == 3 {
			if o.popped.len() != 1 || !o.popped[0].contains("ScriptedDecodeFailure(3)") {
				fails.push((format!("the first decode error is not popped exactly once from the handle :: E2 {}", name), sd()));
			}
			if o.states.last().map(|s| s.as_str()) != Some("Stopped") {
				fails.push((format!("the sound is not Stopped after a decode error :: E2 {}", name), sd()));
			}
			if o.stopped_without_error {
				fails.push((format!("the sound is Stopped because of a decode error, but the error cannot be popped from the handle yet :: E2 {}", name), sd()));
			}
		}
		if which == 1 && o.states.last().map(|s| s.as_str()) != Some("Stopped") {
			fails.push((format!("stop(0) does not lead to Stopped :: E2 {}", name), sd()));
		}
	};
	let stats = sched::explore(tier.pick(Some(2), Some(3)), 300_000, &mut body, &mut judge);
	sched::report(ctx, &stats);
	if let Some(e) = stats.error {
		ctx.fail(format!("MACHINERY: scheduler error: {}", e), name.to_string());
	}
	ctx.evals += stats.schedules;
	ctx.count(&format!("e2_schedules[{}]", which), stats.schedules);
	ctx.count(&format!("e2_max_points[{}]", which), stats.max_points as u64);
	ctx.count("e2_capped", stats.capped as u64);
	ctx.count("e2_horizon_hits", stats.horizon_hits);
	ctx.count("e2_livelocks", stats.livelocks);
	for o in outcomes {
		ctx.outcome(o);
		ctx.state(o);
	}
	ctx.nontrivial_extra += nontrivial;
	for (s, d) in fails {
		ctx.fail(s, d);
	}
}

// ---------------------------------------------------------------------------------------------
// the real file decoder when the data ends early: the thread still ends

/// file bytes that record that they were dropped (= the decoder, which owns the cursor over them, was released)
struct DropFlagBytes(Vec<u8>, Arc<std::sync::atomic::AtomicBool>);
impl AsRef<[u8]> for DropFlagBytes {
	fn as_ref(&self) -> &[u8] {
		&self.0
	}
}
impl Drop for DropFlagBytes {
	fn drop(&mut self) {
		self.1.store(true, Ordering::SeqCst);
	}
}

fn wav16(frames_in_header: u32, frames_present: u32, rate: u32) -> Vec<u8> {
	let mut v = vec![];
	let data_len = frames_in_header * 2;
	v.extend_from_slice(b"RIFF");
	v.extend_from_slice(&(36 + data_len).to_le_bytes());
	v.extend_from_slice(b"WAVEfmt ");
	v.extend_from_slice(&16u32.to_le_bytes());
	v.extend_from_slice(&1u16.to_le_bytes());
	v.extend_from_slice(&1u16.to_le_bytes());
	v.extend_from_slice(&rate.to_le_bytes());
	v.extend_from_slice(&(rate * 2).to_le_bytes());
	v.extend_from_slice(&2u16.to_le_bytes());
	v.extend_from_slice(&16u16.to_le_bytes());
	v.extend_from_slice(b"data");
	v.extend_from_slice(&data_len.to_le_bytes());
	for i in 0..frames_present {
		v.extend_from_slice(&(((i % 64) as i16 - 32) * 256).to_le_bytes());
	}
	v
}

fn past_eof(which: u64, ctx: &mut Ctx) {
	ctx.evals += 1;
	let rate = 8000u32;
	let bytes = if which == 0 { wav16(2000, 1000, rate) } else { wav16(1000, 1000, rate) };
	let dropped = Arc::new(std::sync::atomic::AtomicBool::new(false));
	let desc = if which == 0 { "wav header promises 2000 frames, data ends after 1000" } else { "intact 1000-frame wav, slice 500..3000 frames" };
	let src = std::io::Cursor::new(DropFlagBytes(bytes, dropped.clone()));
	let data = match StreamingSoundData::from_cursor(src) {
		Ok(d) => d,
		Err(e) => {
			// refusing the file is a legitimate answer; the source must have been released
			ctx.count("past_eof_refused_at_open", 1);
			let _ = e;
			return;
		}
	};
	let data = if which == 1 { data.slice(Region { start: kira::sound::PlaybackPosition::Samples(500), end: kira::sound::EndPosition::Custom(kira::sound::PlaybackPosition::Samples(3000)) }) } else { data };
	let mut m = rig::manager(rate, 64, rig::caps(2), MainTrackBuilder::new());
	let first = pacer::count();
	let mut h = match m.play(data) {
		Ok(h) => h,
		Err(_) => {
			ctx.count("past_eof_refused_at_play", 1);
			return;
		}
	};
	let mut buf = vec![0.0f32; 128];
	let mut hung = false;
	let mut popped = vec![];
	for _ in 0..48 {
		// 64 decoder iterations per 64-frame callback; an iteration that does not come back within 1.5 s is a hang
		let t0 = std::time::Instant::now();
		let timed_out = std::cell::Cell::new(false);
		pacer::step_or(first, 64, &|| {
			timed_out.set(t0.elapsed() > std::time::Duration::from_millis(1500));
			timed_out.get()
		});
		if timed_out.get() {
			hung = true;
			break;
		}
		let rep = rig::callback(&mut m, &mut buf, 64, 2);
		if !rep.ok() {
			ctx.fail(format!("callback monitor: {:?} :: symphonia decoder past the end of the data", rep.panic.clone().or(rep.bad_sample.clone())), desc);
			return;
		}
		while let Some(e) = h.pop_error() {
			popped.push(format!("{:?}", e));
		}
		if h.state() == PlaybackState::Stopped && pacer::exited(first) {
			break;
		}
	}
	if hung {
		ctx.fail("the decoder thread never finishes a decode-loop iteration (it spins inside the decoder) :: symphonia decoder past the end of the data", format!("{}; state {:?}, errors popped {:?}", desc, h.state(), popped));
		return;
	}
	let st = h.state();
	if st != PlaybackState::Stopped {
		ctx.fail("the sound is not Stopped long after its data ended :: symphonia decoder past the end of the data", format!("{}; state {:?}, errors popped {:?}", desc, st, popped));
	}
	if !pacer::exited(first) {
		// give it the documented way out
		h.stop(tw(0.0, rate));
		rig::callback(&mut m, &mut buf, 64, 2);
		pacer::step_or(first, 8, &|| false);
	}
	let t0 = std::time::Instant::now();
	while !dropped.load(Ordering::SeqCst) && t0.elapsed() < std::time::Duration::from_millis(500) {
		std::thread::sleep(std::time::Duration::from_millis(2));
	}
	if !dropped.load(Ordering::SeqCst) {
		ctx.fail("the decoder thread does not end / release the file after the sound stopped :: symphonia decoder past the end of the data", format!("{}; state {:?}, errors popped {:?}", desc, h.state(), popped));
	}
	ctx.nontrivial_extra += 1;
	ctx.state(hash64(&("eof", which, popped.len())));
	ctx.outcome(hash64(&("eof", which, popped.is_empty())));
}

// ---------------------------------------------------------------------------------------------
// one deviation from "the decoder runs between callbacks": a burst of k decoder iterations placed at every sync
// point the audio thread passes inside one callback (the decoder's progress before that callback is a parameter).
// This is the preemption-bound-1 slice of the interleaving space with the run length of the preempting thread
// enumerated, on a stream long enough for the ring to run dry and refill.

fn mid_callback(looping: bool, ahead: u64, sliced: bool, ctx: &mut Ctx) {
	const N: usize = 12;
	let codes: Vec<f32> = (0..N).map(|i| (1 + (i * 5) % N) as f32 / 32.0).collect();
	let ibs = 4usize;
	// how many stream.* points does the audio thread pass in the observed callback? (dry run, no injection fires)
	let mut n_points = 0u64;
	let mut nth = 0u64;
	loop {
		nth += 1;
		let mut any_fired = false;
		for k in 1..=14u64 {
			ctx.evals += 1;
			let mut m = rig::manager(SR, ibs, rig::caps(2), MainTrackBuilder::new());
			let first = pacer::count();
			let mut frames: Vec<Frame> = codes.iter().map(|c| Frame::new(*c, -*c / 2.0)).collect();
			if sliced {
				// 5 foreign frames in front, 3 behind: the stream proper is the slice 5..17
				let foreign = Frame::new(0.96875, -0.96875);
				frames = std::iter::repeat(foreign).take(5).chain(frames).chain(std::iter::repeat(foreign).take(3)).collect();
			}
			let (dec, stats) = ScriptedDecoder::new(frames, SR, vec![2, 1, 3], 1);
			let mut data = StreamingSoundData::from_decoder(dec);
			if sliced {
				data = data.slice(Region { start: kira::sound::PlaybackPosition::Samples(5), end: kira::sound::EndPosition::Custom(kira::sound::PlaybackPosition::Samples(17)) });
			}
			if looping {
				data = data.loop_region(Region::from(..));
			}
			let mut h = m.play(data).map_err(|_| ()).expect("play");
			let mut buf = vec![0.0f32; ibs * 2];
			let mut heard: Vec<f32> = vec![];
			let mut record = |buf: &[f32], heard: &mut Vec<f32>| {
				for i in 0..ibs {
					heard.push(buf[2 * i]);
				}
			};
			// callback 0: adoption; the decoder is `ahead` frames ahead when callback 1 (the observed one) begins
			pacer::step(first, ahead);
			rig::callback(&mut m, &mut buf, ibs, 2);
			record(&buf, &mut heard);
			pacer::arm_injection(first, nth, k);
			let rep = rig::callback(&mut m, &mut buf, ibs, 2);
			let (site, seen) = pacer::disarm_injection();
			record(&buf, &mut heard);
			n_points = n_points.max(seen);
			let fired = site.is_some();
			any_fired |= fired;
			let desc = || format!("12-frame {} stream{} (frame i = (1 + 5i mod 12)/32), internal buffer 4; decoder {} iterations ahead; in the second callback, at pass #{} of the audio thread through a stream.* sync point ({}), the decoder runs {} iterations; afterwards it keeps ahead", if looping { "looping" } else { "finite" }, if sliced { " (slice 5..17 of a 20-frame source)" } else { "" }, ahead, nth, site.unwrap_or("-"), k);
			// (kind of deviation - part of the signature, detail)
			let mut bad: Option<(String, String)> = None;
			if !rep.ok() {
				bad = Some(("the callback monitor reports".into(), format!("{:?}", rep)));
			}
			// afterwards the decoder keeps ahead
			for _ in 0..8 {
				pacer::step(first, ibs as u64 + 4);
				let rep = rig::callback(&mut m, &mut buf, ibs, 2);
				if !rep.ok() && bad.is_none() {
					bad = Some(("the callback monitor reports".into(), format!("{:?}", rep)));
				}
				record(&buf, &mut heard);
			}
			if bad.is_none() && fired {
				let idx_of = |v: f32| codes.iter().position(|c| *c == v);
				let mut last: Option<usize> = None;
				let mut gap = false;
				let mut seen_frames = 0usize;
				for (j, v) in heard.iter().enumerate() {
					if *v == 0.0 {
						gap = true;
						continue;
					}
					match idx_of(*v) {
						None => {
							bad = Some(("a frame that is not in the source is heard".into(), format!("output frame {} = {}", j, v)));
							break;
						}
						Some(i) => {
							if let Some(l) = last {
								let nxt = |x: usize, d: usize| if looping { (x + d) % N } else { x + d };
								if !(i == nxt(l, 1) || (gap && i == nxt(l, 2))) {
									let lost = if looping { (i + N - l - 1) % N } else { i.wrapping_sub(l + 1) };
									let kind = if !looping && i <= l || lost > N / 2 { "frames are repeated or reordered".to_string() } else { format!("{} source frames are lost in one gap (the statement allows one)", lost) };
									bad = Some((kind, format!("output frame {}: source frame {} after source frame {}", j, i, l)));
									break;
								}
							}
							last = Some(i);
							gap = false;
							seen_frames += 1;
						}
					}
				}
				if bad.is_none() && !looping {
					if last.map(|l| l + 2 < N).unwrap_or(true) {
						bad = Some(("the stream is reported finished before its last frames were played".into(), format!("last source frame heard {:?}, {} frames heard", last, seen_frames)));
					} else if h.state() != PlaybackState::Stopped {
						bad = Some(("the sound is not Stopped long after its last frame".into(), format!("state {:?}", h.state())));
					}
				}
				if bad.is_none() && looping && h.state() == PlaybackState::Stopped {
					bad = Some(("a looping stream stopped by itself".into(), String::new()));
				}
			}
			if let Some((kind, b)) = bad {
				ctx.fail(
					format!("a decoder that runs in a burst inside a callback causes more than a gap of silence: {} :: decoder burst inside a callback at {}", kind, site.unwrap_or("-")),
					format!("{}; {}; heard (x32) {:?}", desc(), b, heard.iter().map(|v| (v * 32.0) as i32).collect::<Vec<_>>()),
				);
			}
			if fired {
				ctx.nontrivial_extra += 1;
				ctx.state(hash64(&("midcb", looping, ahead, nth, k)));
			}
			h.stop(tw(0.0, SR));
			rig::callback(&mut m, &mut buf, ibs, 2);
			drop(m);
			crate::probes::reap_decoder(first, &stats);
		}
		if !any_fired || nth > 200 {
			break;
		}
	}
	ctx.count(&format!("midcb_sync_points_in_the_observed_callback[looping={} ahead={}]", looping, ahead), n_points);
	ctx.outcome(hash64(&("midcb", looping, ahead)));
}

// ---------------------------------------------------------------------------------------------
// the mirror image of the burst family: the DECODER is stopped in the middle of a loop iteration (at its n-th sync point)
// and one audio callback runs there. Together the two families are the preemption-bound-1 slice of decoder x audio.

/// the playback position lands exactly on the end of the stream while the decoder thread is alive: the sound finishes, the
/// thread ends, nothing spins
/// a seek on a SLICED stream while its decoder is alive: the decoder counts frames from the start of the audio, the transport from
/// the start of the slice. Whatever the slice, after the seek the frames of the slice follow from the target to the slice's end,
/// nothing from outside the slice is ever heard, the sound stops, and a healthy decoder reports no error
fn sliced_seek(ctx: &mut Ctx) {
	const N: usize = 48;
	for (a, b) in [(8usize, N), (8, 40), (1, 30), (20, N)] {
		for target in [0usize, 3, 10] {
			for lead in [6u64, 40] {
				ctx.evals += 1;
				let desc = format!("{}-frame scripted stream at {} Hz (frame i = (i+1)/64), slice {}..{}; two callbacks of 4 frames, seek_to(frame {} of the slice), callbacks to the end; the decoder is granted {} iterations per callback", N, SR, a, b, target, lead);
				let mut m = rig::manager(SR, 4, rig::caps(2), MainTrackBuilder::new());
				let first = pacer::count();
				let (dec, stats) = ScriptedDecoder::new((0..N).map(|i| Frame::from_mono((i + 1) as f32 / 64.0)).collect(), SR, vec![2, 1, 3], 1);
				let data = StreamingSoundData::from_decoder(dec).slice(Region { start: kira::sound::PlaybackPosition::Samples(a), end: kira::sound::EndPosition::Custom(kira::sound::PlaybackPosition::Samples(b)) });
				let mut h = m.play(data).map_err(|_| ()).expect("play");
				let mut buf = vec![0.0f32; 8];
				let mut heard: Vec<f32> = vec![];
				let mut hung = false;
				let mut bad_cb = None;
				for cb in 0..24 {
					if cb == 2 {
						h.seek_to(target as f64 / SR as f64);
					}
					let t0 = std::time::Instant::now();
					let timed_out = std::cell::Cell::new(false);
					pacer::step_or(first, lead, &|| {
						timed_out.set(t0.elapsed() > std::time::Duration::from_millis(1500));
						timed_out.get()
					});
					if timed_out.get() {
						hung = true;
						break;
					}
					let rep = rig::callback(&mut m, &mut buf, 4, 2);
					if !rep.ok() && bad_cb.is_none() {
						bad_cb = Some(format!("{:?}", rep));
					}
					heard.extend([buf[0], buf[2], buf[4], buf[6]]);
				}
				let idx: Vec<Option<usize>> = heard.iter().map(|v| if *v == 0.0 { None } else { Some((v * 64.0).round() as usize - 1) }).collect();
				let seen: Vec<usize> = idx.iter().flatten().copied().collect();
				let mut bad: Option<String> = bad_cb.map(|b| format!("the callback monitor reports {}", b));
				if hung {
					bad = Some("the decoder thread never finishes a decode-loop iteration".into());
					stats.abort.store(true, Ordering::SeqCst);
				}
				if bad.is_none() {
					if let Some(f) = seen.iter().find(|i| **i < a || **i >= b) {
						bad = Some(format!("file frame {} is heard, which is outside the slice", f));
					} else if let Some(e) = h.pop_error() {
						bad = Some(format!("a healthy decoder reports an error: {:?} (decode calls {})", e, stats.decode_calls.load(Ordering::SeqCst)));
					} else if h.state() != PlaybackState::Stopped {
						bad = Some(format!("the sound is {:?} long after the slice must have ended", h.state()));
					} else {
						// from the target on: consecutive frames of the file up to the end of the slice
						let t = a + target;
						match seen.iter().rposition(|i| *i == t) {
							None => bad = Some(format!("the seek target (file frame {}) is never heard", t)),
							Some(p) => {
								let tail = &seen[p..];
								if tail.iter().enumerate().any(|(k, i)| *i != t + k) || tail.len() != b - t {
									bad = Some(format!("from the seek target on the stream does not play file frames {}..{} in order: {:?}", t, b, tail));
								}
							}
						}
					}
				}
				if let Some(bd) = bad {
					ctx.fail("a seek on a sliced stream: foreign frames, a spurious decoder error, or no end :: seek on a sliced stream", format!("{}; {}; heard file frames {:?}", desc, bd, seen));
				}
				ctx.nontrivial_extra += 1;
				ctx.state(hash64(&("sliced seek", a, b, target, lead)));
				h.stop(tw(0.0, SR));
				rig::callback(&mut m, &mut buf, 1, 2);
				drop(m);
				crate::probes::reap_decoder(first, &stats);
			}
		}
	}
}

/// a decoder that fails after the sound's handle was dropped (fire-and-forget playback): nobody can read the error, but the sound
/// still stops - it is unloaded, its slot is free again, nothing more is heard, and the decoder thread ends
fn orphaned_failure(ctx: &mut Ctx) {
	for drop_at in 0..3usize {
		for on_sub in [false, true] {
			ctx.evals += 1;
			let desc = format!("4096-frame scripted stream (DC 0.25, packets of 4 frames) whose 6th packet cannot be decoded, played on {}; the handle is dropped {}; the decoder runs into the failing packet after the second callback; 6 more callbacks of 4 frames", if on_sub { "a sub-track" } else { "the main track" }, ["right after play", "after the first callback", "after the second callback"][drop_at]);
			let mut m = rig::manager(SR, 4, rig::caps(2), MainTrackBuilder::new().sound_capacity(1));
			let mut sub = if on_sub { Some(m.add_sub_track(kira::track::TrackBuilder::new().sound_capacity(1)).expect("track")) } else { None };
			let first = pacer::count();
			let (mut dec, stats) = ScriptedDecoder::new(rig::dc_frames(4096, 0.25), SR, vec![4], 1);
			dec.fail_decode_at = Some(6);
			dec.fail_forever = true;
			let data = StreamingSoundData::from_decoder(dec);
			let mut h = Some(match sub.as_mut() {
				Some(t) => t.play(data).map_err(|_| ()).expect("play"),
				None => m.play(data).map_err(|_| ()).expect("play"),
			});
			let mut buf = vec![0.0f32; 8];
			let mut heard_before = false;
			for cb in 0..2 {
				if cb == drop_at {
					drop(h.take());
				}
				pacer::step(first, 6);
				rig::callback(&mut m, &mut buf, 4, 2);
				heard_before |= buf[0] != 0.0;
			}
			if drop_at == 2 {
				drop(h.take());
			}
			// the decoder runs on into the failing packet
			pacer::step(first, 40);
			let mut audible_cbs = vec![];
			for cb in 0..6 {
				rig::callback(&mut m, &mut buf, 4, 2);
				if buf.iter().any(|v| *v != 0.0) {
					audible_cbs.push(cb);
				}
			}
			let n = match sub.as_ref() {
				Some(t) => t.num_sounds(),
				None => m.main_track().num_sounds(),
			};
			let mut bad = None;
			if !heard_before {
				bad = Some("machinery: the stream was not heard before the failure".to_string());
			} else if n != 0 {
				bad = Some(format!("the sound is still loaded ({} counted) six callbacks after its decoder failed", n));
			} else if audible_cbs.iter().any(|c| *c >= 1) {
				bad = Some(format!("audio is still heard in callbacks {:?} after the failure", audible_cbs));
			} else {
				pacer::step(first, 3);
				if !pacer::exited(first) {
					bad = Some("the decoder thread is still alive".to_string());
				}
			}
			if let Some(b) = bad {
				ctx.fail("a streaming sound whose decoder fails after the handle was dropped does not stop / is not unloaded :: decoder failure without a handle", format!("{}; {}", desc, b));
			}
			ctx.nontrivial_extra += 1;
			ctx.state(hash64(&("orphaned failure", drop_at, on_sub)));
			drop(sub);
			drop(m);
			crate::probes::reap_decoder(first, &stats);
		}
	}
}

fn at_the_end(ctx: &mut Ctx) {
	for which in 0..4 {
		for n in [12usize, 1, 20000] {
			if (which == 3) != (n == 20000) && which != 0 {
				continue;
			}
			if which == 0 && n == 20000 {
				continue;
			}
			ctx.evals += 1;
			let what = ["start_position(duration)", "start_position(duration), slice = the whole audio", "seek_to(duration) right after play (before the first callback)", "seek_to(duration) after two callbacks on a stream longer than the decoder ring"][which];
			let desc = format!("{}-frame scripted stream at {} Hz, {}; 6 callbacks of 4 frames with the decoder free to run", n, SR, what);
			let mut m = rig::manager(SR, 4, rig::caps(2), MainTrackBuilder::new());
			let first = pacer::count();
			let (dec, stats) = ScriptedDecoder::new((0..n).map(|i| Frame::from_mono(((i % 13) + 1) as f32 / 32.0)).collect(), SR, vec![2, 1, 3], 1);
			let mut data = StreamingSoundData::from_decoder(dec);
			if which <= 1 {
				data = data.start_position(kira::sound::PlaybackPosition::Samples(n));
			}
			if which == 1 {
				data = data.slice(Region { start: kira::sound::PlaybackPosition::Samples(0), end: kira::sound::EndPosition::Custom(kira::sound::PlaybackPosition::Samples(n)) });
			}
			let Ok(mut h) = m.play(data) else {
				ctx.count("at_the_end_refused_at_play", 1);
				continue;
			};
			let mut buf = vec![0.0f32; 8];
			let mut hung = false;
			let mut step = |k: u64, hung: &mut bool| {
				let t0 = std::time::Instant::now();
				let timed_out = std::cell::Cell::new(false);
				pacer::step_or(first, k, &|| {
					timed_out.set(t0.elapsed() > std::time::Duration::from_millis(1500));
					timed_out.get()
				});
				*hung |= timed_out.get();
			};
			if which == 2 {
				h.seek_to(n as f64 / SR as f64);
			}
			for cb in 0..8 {
				if which == 3 && cb == 2 {
					h.seek_to(n as f64 / SR as f64);
				}
				step(12, &mut hung);
				if hung {
					break;
				}
				rig::callback(&mut m, &mut buf, 4, 2);
			}
			let st = h.state();
			if hung {
				ctx.fail("the decoder thread never finishes a decode-loop iteration (it spins inside frame_at_index / the decoder) :: position exactly at the end of the stream", format!("{}; state {:?}, decode calls so far {}", desc, st, stats.decode_calls.load(Ordering::SeqCst)));
				stats.abort.store(true, Ordering::SeqCst);
			} else {
				if st != PlaybackState::Stopped {
					ctx.fail("the sound is not Stopped long after the position reached the end :: position exactly at the end of the stream", format!("{}; state {:?}", desc, st));
				}
				// the decoder was never asked for anything beyond its data: no error to report
				if let Some(e) = h.pop_error() {
					ctx.fail("a stream whose position reaches its end reports a decode error (the decoder was driven past its data) :: position exactly at the end of the stream", format!("{}; error {:?}; decode calls {}", desc, e, stats.decode_calls.load(Ordering::SeqCst)));
				}
				step(3, &mut hung);
				if !pacer::exited(first) {
					ctx.fail("decoder thread still alive long after the sound finished :: position exactly at the end of the stream", format!("{}; state {:?}", desc, st));
				}
			}
			ctx.nontrivial_extra += 1;
			ctx.state(hash64(&("at the end", which, n)));
			h.stop(tw(0.0, SR));
			rig::callback(&mut m, &mut buf, 1, 2);
			drop(m);
			crate::probes::reap_decoder(first, &stats);
		}
	}
}

/// playback rates of 2 and 3 (several source frames consumed per output frame): the stream still finishes whatever the
/// parity of its length, and a starving decoder causes silence, never a frame heard twice
fn fast_rates(ctx: &mut Ctx) {
	for rate in [2.0f64, 3.0] {
		for n in [4usize, 5, 12, 13] {
			for starve_after in [None, Some(1u64), Some(2), Some(4)] {
				ctx.evals += 1;
				let desc = format!("{}-frame scripted stream (frame i = (i + 1)/32) at playback rate {}, {}; callbacks of 4 frames", n, rate, match starve_after { None => "decoder free to run".to_string(), Some(k) => format!("the decoder delivers {} frame(s), stalls for 3 callbacks, then runs freely", k) });
				let mut m = rig::manager(SR, 4, rig::caps(2), MainTrackBuilder::new());
				let first = pacer::count();
				let (dec, stats) = ScriptedDecoder::new((0..n).map(|i| Frame::from_mono((i + 1) as f32 / 32.0)).collect(), SR, vec![2, 1, 3], 1);
				let Ok(mut h) = m.play(StreamingSoundData::from_decoder(dec).playback_rate(rate)) else { continue };
				let mut buf = vec![0.0f32; 8];
				let mut heard: Vec<f32> = vec![];
				for cb in 0..10 {
					match starve_after {
						Some(k) if cb == 0 => {
							pacer::step(first, k);
						}
						Some(_) if cb < 4 => {}
						_ => {
							pacer::step(first, 40);
						}
					}
					rig::callback(&mut m, &mut buf, 4, 2);
					heard.extend((0..4).map(|i| buf[2 * i]));
				}
				let st = h.state();
				// at an integer rate every output frame is a source frame (or silence): none may appear twice, order is kept
				let codes: Vec<usize> = heard.iter().filter(|v| **v != 0.0).map(|v| (*v * 32.0).round() as usize).collect();
				let ordered = codes.windows(2).all(|w| w[1] > w[0]);
				if !ordered {
					ctx.fail("a source frame is heard twice / out of order at a playback rate above 1 (a slow decoder may only cause silence) :: fast playback rates", format!("{}; heard (x32) {:?}", desc, heard.iter().map(|v| (v * 32.0).round() as i32).collect::<Vec<_>>()));
				} else if st != PlaybackState::Stopped {
					ctx.fail("a finite stream played faster than 1 never finishes :: fast playback rates", format!("{}; state {:?} after 10 callbacks; heard (x32) {:?}", desc, st, heard.iter().map(|v| (v * 32.0).round() as i32).collect::<Vec<_>>()));
				}
				ctx.nontrivial_extra += 1;
				ctx.state(hash64(&("fast", rate.to_bits(), n, starve_after)));
				h.stop(tw(0.0, SR));
				rig::callback(&mut m, &mut buf, 1, 2);
				drop(m);
				crate::probes::reap_decoder(first, &stats);
			}
		}
	}
}

pub fn mid_iteration(ctx: &mut Ctx) {
	// two stream lengths: whether the last frame shares a chunk with its predecessor depends on the parity
	for n_frames in [6usize, 7] {
		mid_iteration_n(n_frames, ctx);
	}
}

#[allow(non_snake_case)]
fn mid_iteration_n(N: usize, ctx: &mut Ctx) {
	let codes: Vec<f32> = (0..N).map(|i| (1 + (i * 5) % 7) as f32 / 16.0).collect();
	let ibs = 2usize;
	for pre in 3..=N as u64 {
		for (drained, parked_cbs) in [(true, 1usize), (false, 1), (false, 3)] {
			let mut nth = 0u64;
			loop {
				nth += 1;
				ctx.evals += 1;
				let mut m = rig::manager(SR, ibs, rig::caps(2), MainTrackBuilder::new());
				let first = pacer::count();
				let frames: Vec<Frame> = codes.iter().map(|c| Frame::new(*c, -*c / 2.0)).collect();
				let (dec, stats) = ScriptedDecoder::new(frames, SR, vec![2, 1, 3], 1);
				let mut h = m.play(StreamingSoundData::from_decoder(dec)).map_err(|_| ()).expect("play");
				let mut buf = vec![0.0f32; ibs * 2];
				let mut heard: Vec<f32> = vec![];
				let mut states: Vec<String> = vec![];
				pacer::step(first, pre);
				let ncb = if drained { pre as usize / ibs + 2 } else { 1 };
				for _ in 0..ncb {
					rig::callback(&mut m, &mut buf, ibs, 2);
					heard.extend([buf[0], buf[2]]);
					states.push(format!("{:?}", h.state()));
				}
				// the decoder goes on and is parked inside an iteration; one callback runs there
				pacer::arm_decoder_park(first, nth);
				pacer::step(first, 3);
				let mut rep = rig::callback(&mut m, &mut buf, ibs, 2);
				heard.extend([buf[0], buf[2]]);
				states.push(format!("{:?}", h.state()));
				// (several callbacks while the decoder stands there: the ring may be consumed to the last frame)
				for _ in 1..parked_cbs {
					let r = rig::callback(&mut m, &mut buf, ibs, 2);
					if rep.ok() {
						rep = r;
					}
					heard.extend([buf[0], buf[2]]);
					states.push(format!("{:?}", h.state()));
				}
				let (site, _seen) = pacer::release_decoder_park(first);
				let fired = site.is_some();
				let desc = || format!("{}-frame stream (frame i = (1 + 5i mod 7)/16), internal buffer 2; the decoder delivers {} frames, {}; then it is parked at its pass #{} through a stream.* sync point ({}) while {} callback(s) run; then it keeps ahead", N, pre, if drained { "the ring is played dry" } else { "one callback" }, nth, site.unwrap_or("-"), parked_cbs);
				let mut bad: Option<(String, String)> = None;
				if !rep.ok() {
					bad = Some(("the callback monitor reports".into(), format!("{:?}", rep)));
				}
				for _ in 0..6 {
					pacer::step(first, 4);
					let rep = rig::callback(&mut m, &mut buf, ibs, 2);
					if !rep.ok() && bad.is_none() {
						bad = Some(("the callback monitor reports".into(), format!("{:?}", rep)));
					}
					heard.extend([buf[0], buf[2]]);
					states.push(format!("{:?}", h.state()));
				}
				if bad.is_none() && fired {
					let idx_of = |v: f32| codes.iter().position(|c| *c == v);
					let mut last: Option<usize> = None;
					let mut gap = false;
					for (j, v) in heard.iter().enumerate() {
						if *v == 0.0 {
							gap = true;
							continue;
						}
						match idx_of(*v) {
							None => {
								bad = Some(("a frame that is not in the source is heard".into(), format!("output frame {} = {}", j, v)));
								break;
							}
							Some(i) => {
								if let Some(l) = last {
									if !(i == l + 1 || (gap && i == l + 2)) {
										let kind = if i <= l { "frames are repeated or reordered".to_string() } else { format!("{} source frames are lost in one gap (the statement allows one)", i - l - 1) };
										bad = Some((kind, format!("output frame {}: source frame {} after source frame {}", j, i, l)));
										break;
									}
								}
								last = Some(i);
								gap = false;
							}
						}
					}
					// the last frame may be the one frame a gap costs (a frame that arrives after the ring ran dry takes the history slot),
					// but only if the sound really waited (silent while still Playing) after the last frame that was heard
					if bad.is_none() && last != Some(N - 1) {
						let j_last = heard.iter().rposition(|v| *v != 0.0).unwrap_or(0);
						let waited = states.iter().enumerate().any(|(c, st)| st != "Stopped" && (c * ibs..(c + 1) * ibs).any(|j| j > j_last && heard.get(j) == Some(&0.0)));
						if last.map(|l| l + 2 < N).unwrap_or(true) || !waited {
							bad = Some(("the stream is reported finished before its last frame was played".into(), format!("last source frame heard {:?}, it never waited for the decoder after that; states {:?}", last, states)));
						}
					}
					if bad.is_none() && h.state() != PlaybackState::Stopped {
						bad = Some(("the sound is not Stopped long after its last frame".into(), format!("state {:?}", h.state())));
					}
				}
				if std::env::var("KVH_DEBUG_MIDIT").is_ok() && parked_cbs == 3 {
					eprintln!("MIDIT pre={} nth={} site={:?} fired={} states={:?} heard={:?} final={:?}", pre, nth, site, fired, states, heard.iter().map(|v| (v * 16.0) as i32).collect::<Vec<_>>(), h.state());
				}
				if let Some((kind, b)) = bad {
					ctx.fail(
						format!("an audio callback inside a decoder loop iteration causes more than a gap of silence: {} :: callback inside a decoder iteration", kind),
						format!("{}; {}; heard (x16) {:?}", desc(), b, heard.iter().map(|v| (v * 16.0) as i32).collect::<Vec<_>>()),
					);
				}
				if fired {
					ctx.nontrivial_extra += 1;
					ctx.state(hash64(&("midit", N, pre, drained, parked_cbs, nth)));
				}
				h.stop(tw(0.0, SR));
				rig::callback(&mut m, &mut buf, ibs, 2);
				drop(m);
				crate::probes::reap_decoder(first, &stats);
				if !fired || nth > 40 {
					break;
				}
			}
		}
	}
	ctx.outcome(hash64(&"midit"));
}
