//! C09 — a streaming sound behaves exactly like a static sound of the same audio.
//!
//! E1: lengths x start positions x slices x valid loop regions x non-negative rates x decoder
//! scripts (packet patterns x seek granularities) x chunk sizes x command histories without
//! seeks; a static and a streaming `Box<dyn Sound>` of the same audio run side by side, the
//! real decoder thread is paced through the gate hook so that it keeps ahead deterministically.

use crate::engine::{hash64, Check, Ctx, Level, Tier};
use crate::json::J;
use crate::pacer;
use crate::probes::{ScriptedDecoder, SoundHandle};
use crate::rig::{self, catch};
use kira::info::MockInfoBuilder;
use kira::sound::streaming::StreamingSoundData;
use kira::sound::{EndPosition, PlaybackPosition, Region, Sound, SoundData};
use kira::{Decibels, Easing, Frame, Panning, PlaybackRate, StartTime, Tween, Value};
use std::time::Duration;

pub struct C09;

/// runs that consume more frames than the decoder's ring buffer holds (16384), so that its wrap-around is crossed
const LONG_CASES: u64 = 6;

const RATES: [f64; 5] = [1.0, 0.5, 2.0, 1.5, 0.0];
/// 0 = an empty chunk
const PACKETS: [&[usize]; 5] = [&[1], &[2], &[3], &[64], &[0, 1, 3, 0, 2]];
const GRANS: [usize; 3] = [1, 3, 8];
const CHUNKS: [usize; 2] = [1, 3];
const LETTERS: [&str; 12] = [
	"none",
	"set_volume(-6dB, 6 frames)",
	"set_panning(0.5, instant)",
	"pause(instant)",
	"pause(2 frames)",
	"resume(2 frames)",
	"stop(2 frames)",
	"set_playback_rate(0.5, instant)",
	"pause(2 frames); stop(2 frames) - same callback interval",
	"stop(2 frames); pause(2 frames) - same callback interval",
	"pause(instant); resume(2 frames) - same callback interval",
	"resume(2 frames); stop(2 frames) - same callback interval",
];

fn lens(tier: Tier) -> Vec<usize> {
	tier.pick(vec![1, 2, 3, 5, 8], (1..=8).collect())
}
fn depth(tier: Tier) -> usize {
	tier.pick(1, 2)
}

fn ncases(tier: Tier) -> u64 {
	lens(tier).len() as u64 * RATES.len() as u64 * PACKETS.len() as u64 * GRANS.len() as u64
}
fn decode(tier: Tier, idx: u64) -> (usize, f64, usize, usize) {
	let ls = lens(tier);
	let mut i = idx;
	let g = (i % 3) as usize;
	i /= 3;
	let p = (i % 5) as usize;
	i /= 5;
	let r = RATES[(i % 5) as usize];
	i /= 5;
	(ls[i as usize], r, p, g)
}

impl Check for C09 {
	fn id(&self) -> &'static str {
		"C09"
	}
	fn level(&self) -> Level {
		Level::ModelChecking
	}
	fn num_cases(&self, tier: Tier) -> u64 {
		ncases(tier) + LONG_CASES
	}
	fn describe(&self, tier: Tier, idx: u64) -> String {
		if idx >= ncases(tier) {
			return format!("long run #{}: 41-frame audio looping, 17000+ frames consumed (crosses the wrap-around of the 16384-frame decoder ring); runs 4 and 5: with a pause whose fade-out consumes 18000 source frames, then a resume", idx - ncases(tier));
		}
		let (len, rate, p, g) = decode(tier, idx);
		format!(
			"audio of {} frames, rate {}, decoder packets {:?} (cyclic), seeks land on multiples of {}: every start position x slice {{none, inner}} x valid loop regions x chunk {{1,3}} x all command histories of length <= {} over {:?}",
			len,
			rate,
			PACKETS[p],
			GRANS[g],
			depth(tier),
			LETTERS
		)
	}
	fn sig_hint(&self, tier: Tier, idx: u64) -> String {
		if idx >= ncases(tier) {
			return "long run".into();
		}
		let (len, rate, _, _) = decode(tier, idx);
		format!("len {} rate {}", len, rate)
	}
	fn rule(&self) -> String {
		"product of audio length (1,2,3,5,8; 1..=8 thorough) x rate {1,0.5,2,1.5,0} x packet pattern {1s,2s,3s,one packet,1-3-2} x seek granularity {1,3,8} x start position 0..len-1 x slice {none,(1,len-1)} x loop {none, whole, every (a,b) with a<b on a 3-point lattice} x chunk {1,3} x all command histories (no seeks) of length <= 1 (2 thorough) over 12 letters (4 of them two life-cycle commands in one callback interval); loop regions incl. open-ended ones; plus 4 scripted histories (a volume / rate tween in progress while the sound is paused, then resumed) for start position 0; static and streaming sound in lock-step: output frames (bit-exact at integer steps, 1e-6 otherwise), finished()/state after every callback, positions within one frame. The reference model is the static implementation (differential); states = distinct (state, position) pairs observed; non-trivial = scenarios with non-silent output".into()
	}
	fn assumptions(&self) -> Vec<String> {
		vec![
			"the decoder keeps ahead of playback (>= chunk*rate + 6 frames before every callback), granted deterministically through the gate hook".into(),
			"the end of the sound may be reported within one callback of the static sound's (different look-ahead windows: 4-frame resampler vs ring buffer)".into(),
		]
	}
	fn extra_evidence(&self, tier: Tier) -> Vec<(String, J)> {
		vec![("history_depth".into(), J::u(depth(tier) as u64))]
	}
	fn case_timeout_ms(&self, tier: Tier) -> u64 {
		tier.pick(60_000, 1_800_000)
	}
	fn run_case(&self, tier: Tier, idx: u64, ctx: &mut Ctx) {
		pacer::set_mode(pacer::Mode::Pacer);
		if idx >= ncases(tier) {
			let which = idx - ncases(tier);
			if which == 3 {
				if let Err(pn) = catch(|| linked_settings(ctx)) {
					ctx.fail(format!("panic: {} :: linked initial settings", pn), "");
				}
				if let Err(pn) = catch(|| position_units(ctx)) {
					ctx.fail(format!("panic: {} :: sounds whose rate is not the device's", pn), "");
				}
			}
			if let Err(pn) = catch(|| long_run(which, ctx)) {
				ctx.fail(format!("panic: {} :: long run", pn), format!("long run #{}", which));
			}
			return;
		}
		let (len, rate, p, g) = decode(tier, idx);
		let slices: Vec<Option<(usize, usize)>> = if len >= 3 { vec![None, Some((1, len - 1))] } else { vec![None] };
		let d = depth(tier);
		let nh = (LETTERS.len() as u64).pow(d as u32);
		for slice in slices {
			let n = slice.map(|(a, b)| b - a).unwrap_or(len);
			let mut loops: Vec<Option<(usize, usize)>> = vec![None, Some((0, n))];
			let pts = [0, n / 2, n];
			for &a in &pts {
				for &b in &pts {
					if a < b && (a, b) != (0, n) {
						loops.push(Some((a, b)));
					}
				}
			}
			// open-ended regions `a..` (the end is resolved against the slice)
			loops.push(Some((0, usize::MAX)));
			if n / 2 > 0 {
				loops.push(Some((n / 2, usize::MAX)));
			}
			loops.dedup();
			for start in 0..n + 3 {
				for lp in &loops {
					// at / beyond the end only with a loop region (one empty frame, then the loop; both sounds share the transport rule)
					if start >= n && (lp.is_none() || start == n + 1) {
						continue;
					}
					for &chunk in &CHUNKS {
						// beyond the depth bound: a few scripted histories in which a parameter is in motion while the sound waits
						let scripts: [&[usize]; 4] = [&[1, 3, 0, 5], &[7, 4, 0, 0, 5], &[1, 4, 5], &[2, 3, 0, 0, 5]];
						let nscripts = if start == 0 { scripts.len() as u64 } else { 0 };
						for h in 0..nh + nscripts {
							let mut hist = vec![];
							if h >= nh {
								hist = scripts[(h - nh) as usize].to_vec();
							} else {
								let mut x = h;
								for _ in 0..d {
									hist.push((x % LETTERS.len() as u64) as usize);
									x /= LETTERS.len() as u64;
								}
							}
							// a device callback of three internal buffers (on_start_processing once, three process passes): from the
							// first start position only
							for passes in [1usize, 3] {
								if passes == 3 && start != 0 {
									continue;
								}
								let sc = Sc {
									len,
									rate,
									packets: PACKETS[p],
									gran: GRANS[g],
									slice,
									start,
									lp: *lp,
									chunk,
									hist: hist.clone(),
									passes,
								};
								ctx.evals += 1;
								ctx.traces += 1;
								if let Err(pn) = catch(|| run(&sc, ctx)) {
									ctx.fail(format!("panic: {} :: scenario", pn), sc.desc());
								}
							}
						}
					}
				}
			}
		}
	}
}

struct Sc {
	len: usize,
	rate: f64,
	packets: &'static [usize],
	gran: usize,
	slice: Option<(usize, usize)>,
	start: usize,
	lp: Option<(usize, usize)>,
	chunk: usize,
	hist: Vec<usize>,
	/// process passes per callback (on_start_processing runs once per callback)
	passes: usize,
}
impl Sc {
	fn desc(&self) -> String {
		format!(
			"len={} rate={} packets={:?} seek_granularity={} slice={:?} start={} loop={:?} chunk={} x {} pass(es) per callback history=[{}]",
			self.len,
			self.rate,
			self.packets,
			self.gran,
			self.slice,
			self.start,
			self.lp,
			self.chunk,
			self.passes,
			self.hist.iter().map(|l| LETTERS[*l]).collect::<Vec<_>>().join("; ")
		)
	}
}

fn code(i: usize) -> Frame {
	Frame::new((i + 1) as f32 / 16.0, -((i + 1) as f32) / 32.0)
}
/// (b == usize::MAX stands for an open end: `a..`)
fn reg(a: usize, b: usize) -> Region {
	Region {
		start: PlaybackPosition::Samples(a),
		end: if b == usize::MAX { EndPosition::EndOfAudio } else { EndPosition::Custom(PlaybackPosition::Samples(b)) },
	}
}
fn tw(frames: f64) -> Tween {
	Tween {
		start_time: StartTime::Immediate,
		duration: Duration::from_secs_f64(frames),
		easing: Easing::Linear,
	}
}

fn apply(h: &mut dyn SoundHandle, l: usize) {
	match l {
		1 => h.set_volume(Value::Fixed(Decibels(-6.0)), tw(6.0)),
		2 => h.set_panning(Value::Fixed(Panning(0.5)), tw(0.0)),
		3 => h.pause(tw(0.0)),
		4 => h.pause(tw(2.0)),
		5 => h.resume(tw(2.0)),
		6 => h.stop(tw(2.0)),
		7 => h.set_playback_rate(Value::Fixed(PlaybackRate(0.5)), tw(0.0)),
		8 => {
			h.pause(tw(2.0));
			h.stop(tw(2.0));
		}
		9 => {
			h.stop(tw(2.0));
			h.pause(tw(2.0));
		}
		10 => {
			h.pause(tw(0.0));
			h.resume(tw(2.0));
		}
		11 => {
			h.resume(tw(2.0));
			h.stop(tw(2.0));
		}
		_ => {}
	}
}

fn run(sc: &Sc, ctx: &mut Ctx) {
	let sr = 1u32;
	let frames: Vec<Frame> = (0..sc.len).map(code).collect();
	// static
	let mut sd = rig::static_data(sr, frames.clone());
	if let Some((a, b)) = sc.slice {
		sd = sd.slice(reg(a, b));
	}
	sd = sd.start_position(PlaybackPosition::Samples(sc.start)).playback_rate(PlaybackRate(sc.rate));
	if let Some((a, b)) = sc.lp {
		sd = sd.loop_region(reg(a, b));
	}
	let (mut ss, hs) = sd.into_sound().expect("static");
	let mut hs: Box<dyn SoundHandle> = Box::new(hs);
	// streaming
	let first = pacer::count();
	let (dec, stats) = ScriptedDecoder::new(frames, sr, sc.packets.to_vec(), sc.gran);
	let mut td = StreamingSoundData::from_decoder(dec);
	if let Some((a, b)) = sc.slice {
		td = td.slice(reg(a, b));
	}
	td = td.start_position(PlaybackPosition::Samples(sc.start)).playback_rate(PlaybackRate(sc.rate));
	if let Some((a, b)) = sc.lp {
		td = td.loop_region(reg(a, b));
	}
	let (mut ts, ht) = match td.into_sound() {
		Ok(x) => x,
		Err(e) => {
			ctx.fail("streaming into_sound fails where the static sound is fine :: scenario", format!("{} error {:?}", sc.desc(), e));
			return;
		}
	};
	let mut ht: Box<dyn SoundHandle> = Box::new(ht);
	let info = MockInfoBuilder::new().build();
	let ncb = sc.hist.len() + (2 * sc.len + 10) / (sc.chunk * sc.passes) + 2;
	let ncb = ncb.min(24);
	let mut so = vec![Frame::ZERO; sc.chunk];
	let mut to = vec![Frame::ZERO; sc.chunk];
	let mut nonsilent = false;
	let integer = (sc.rate.fract() == 0.0) && !sc.hist.contains(&7);
	let mut fin_s: Option<usize> = None;
	let mut fin_t: Option<usize> = None;
	let mut failed = false;
	for cb in 0..ncb {
		if let Some(&l) = sc.hist.get(cb) {
			apply(hs.as_mut(), l);
			apply(ht.as_mut(), l);
		}
		pacer::step(first, ((sc.chunk * sc.passes) as f64 * sc.rate.max(1.0)).ceil() as u64 + 8);
		ss.on_start_processing();
		ts.on_start_processing();
		// positions (published at the start of the callback)
		let n_aud = sc.slice.map(|(a, b)| b - a).unwrap_or(sc.len) as f64;
		// "until the sound ends": once the static sound's position names the end of the audio only the tail of the
		// interpolation window is left
		if fin_s.is_none() && fin_t.is_none() && (sc.lp.is_some() || hs.position() * (sr as f64) < n_aud) {
			let (ps, pt) = (hs.position() * sr as f64, ht.position() * sr as f64);
			let near = (ps - pt).abs() <= 1.0 + 1e-9;
			// around a loop wrap the two may name adjacent frames on either side of the wrap
			let wrap_ok = sc.lp.map(|(a, b)| ((ps - pt).abs() - (b.min(sc.slice.map(|(x, y)| y - x).unwrap_or(sc.len)) - a) as f64).abs() <= 1.0 + 1e-9).unwrap_or(false);
			if !near && !wrap_ok {
				ctx.fail(
					"reported positions differ by more than one frame :: scenario",
					format!("{} callback {}: static {} streaming {}", sc.desc(), cb, ps, pt),
				);
				failed = true;
				break;
			}
		}
		for _pass in 0..sc.passes {
		so.fill(Frame::new(f32::NAN, f32::NAN));
		to.fill(Frame::new(f32::NAN, f32::NAN));
		ss.process(&mut so, 1.0, &info);
		ts.process(&mut to, 1.0, &info);
		ctx.transitions += 1;
		for i in 0..sc.chunk {
			let (a, b) = (so[i], to[i]);
			if a.left != 0.0 {
				nonsilent = true;
			}
			let ok = if integer {
				a == b
			} else {
				(a.left - b.left).abs() <= 1e-6 && (a.right - b.right).abs() <= 1e-6
			};
			if !ok {
				ctx.fail(
					"streaming output differs from the static sound's :: scenario",
					format!("{} callback {} frame {}: static {:?} streaming {:?}", sc.desc(), cb, i, a, b),
				);
				failed = true;
				break;
			}
		}
		if failed {
			break;
		}
		}
		if failed {
			break;
		}
		if ss.finished() && fin_s.is_none() {
			fin_s = Some(cb);
		}
		if ts.finished() && fin_t.is_none() {
			fin_t = Some(cb);
		}
		let (st_s, st_t) = (hs.state(), ht.state());
		ctx.state(hash64(&(st_s as u8, (hs.position() * 4.0) as i64)));
		// states: equal at every callback, except that the natural end may be seen one callback apart
		let end_skew = (fin_s.is_some() != fin_t.is_some()) && sc.hist.iter().all(|l| *l != 6);
		if st_s != st_t && !end_skew {
			ctx.fail(
				"playback states differ :: scenario",
				format!("{} callback {}: static {:?} streaming {:?}", sc.desc(), cb, st_s, st_t),
			);
			failed = true;
			break;
		}
		if let (Some(a), Some(b)) = (fin_s, fin_t) {
			if (a as i64 - b as i64).abs() > 1 {
				ctx.fail(
					"the two sounds end more than one callback apart :: scenario",
					format!("{} static finished at callback {}, streaming at {}", sc.desc(), a, b),
				);
				failed = true;
			}
			break;
		}
		if let Some(a) = fin_s.or(fin_t) {
			if cb > a + 1 {
				ctx.fail(
					"one sound ended, the other did not follow within one callback :: scenario",
					format!("{} static finished {:?} streaming finished {:?} (now callback {})", sc.desc(), fin_s, fin_t, cb),
				);
				failed = true;
				break;
			}
		}
	}
	let _ = failed;
	if nonsilent {
		ctx.nontrivial_extra += 1;
	}
	ctx.outcome(hash64(&(fin_s.is_some(), fin_t.is_some(), nonsilent, sc.lp.is_some())));
	ctx.sample(ctx.traces, || sc.desc());
	// teardown
	ht.stop(tw(0.0));
	ts.on_start_processing();
	ts.process(&mut to, 1.0, &info);
	drop(ts);
	drop(ht);
	if !crate::probes::reap_decoder(first, &stats) {
		ctx.count("decoder_threads_not_exited_after_stop", 1);
	}
}

/// initial settings that are LINKED (to a modulator that exists, or to one that does not): both sounds start from the
/// same parameter values
fn linked_settings(ctx: &mut Ctx) {
	let sr = 1u32;
	let frames: Vec<Frame> = (0..24).map(code).collect();
	for which_param in 0..5 {
		for live in [true, false] {
			for chunk in [1usize, 3, 4] {
				ctx.evals += 1;
				let mut b = MockInfoBuilder::new();
				let id = b.add_modulator(0.5);
				let info = if live { b.build() } else { MockInfoBuilder::new().build() };
				let vol: Value<Decibels> = Value::FromModulator { id, mapping: kira::Mapping { input_range: (0.0, 1.0), output_range: (Decibels(-12.0), Decibels(-2.0)), easing: Easing::Linear } };
				let pan: Value<Panning> = Value::FromModulator { id, mapping: kira::Mapping { input_range: (0.0, 1.0), output_range: (Panning(-0.8), Panning(0.4)), easing: Easing::Linear } };
				let rate: Value<PlaybackRate> = Value::FromModulator { id, mapping: kira::Mapping { input_range: (0.0, 1.0), output_range: (PlaybackRate(2.0), PlaybackRate(0.5)), easing: Easing::Linear } };
				let mut sd = rig::static_data(sr, frames.clone());
				let first = pacer::count();
				let (dec, stats) = ScriptedDecoder::new(frames.clone(), sr, vec![2, 1, 3], 1);
				let mut td = StreamingSoundData::from_decoder(dec);
				match which_param {
					0 => {
						sd = sd.volume(vol);
						td = td.volume(vol);
					}
					1 => {
						sd = sd.panning(pan);
						td = td.panning(pan);
					}
					2 => {
						sd = sd.playback_rate(rate);
						td = td.playback_rate(rate);
					}
					3 => {
						// a slice of a slice, the second one open-ended (live: c inside the first slice; otherwise beyond it)
						let c = if live { 3 } else { 14 };
						sd = sd.slice(reg(4, 12)).slice(reg(c, usize::MAX));
						td = td.slice(reg(4, 12)).slice(reg(c, usize::MAX));
					}
					_ => {
						// a delayed start that is not a whole number of chunks
						let d = Duration::from_secs_f64(if live { 5.0 } else { 7.5 });
						sd = sd.start_time(StartTime::Delayed(d));
						td = td.start_time(StartTime::Delayed(d));
					}
				}
				let (mut ss, _hs) = sd.into_sound().expect("static");
				let (mut ts, mut ht) = td.into_sound().map_err(|_| ()).expect("streaming");
				let mut so = vec![Frame::ZERO; chunk];
				let mut to = vec![Frame::ZERO; chunk];
				let what = if which_param < 3 {
					format!("24-frame sound, initial {} = FromModulator({}) mapped linearly, chunk {}", ["volume (-12..-2 dB)", "panning (-0.8..0.4)", "playback rate (2..0.5)"][which_param], if live { "a modulator at 0.5" } else { "a modulator id that does not exist" }, chunk)
				} else if which_param == 3 {
					format!("24-frame sound, .slice(4..12).slice({}..), chunk {}", if live { 3 } else { 14 }, chunk)
				} else {
					format!("24-frame sound, start_time Delayed({} frames), chunk {}", if live { 5.0 } else { 7.5 }, chunk)
				};
				'cbs: for cb in 0..10 {
					pacer::step(first, 2 * chunk as u64 + 8);
					ss.on_start_processing();
					ts.on_start_processing();
					ss.process(&mut so, 1.0, &info);
					ts.process(&mut to, 1.0, &info);
					ctx.transitions += 1;
					for i in 0..chunk {
						if (so[i].left - to[i].left).abs() > 1e-6 || (so[i].right - to[i].right).abs() > 1e-6 {
							ctx.fail("streaming output differs from the static sound's :: linked initial settings", format!("{}; callback {} frame {}: static {:?} streaming {:?}", what, cb, i, so[i], to[i]));
							break 'cbs;
						}
					}
				}
				ctx.nontrivial_extra += 1;
				ht.stop(tw(0.0));
				ts.on_start_processing();
				ts.process(&mut to, 1.0, &info);
				drop(ts);
				drop(ht);
				crate::probes::reap_decoder(first, &stats);
			}
		}
	}
}

/// positions are reported in seconds of the sound's own sample rate: sounds at 4 / 8 / 48000 Hz on a device of another rate, at
/// playback rates whose steps are no whole number of source frames, so that callbacks end between two source frames; after every
/// callback the two reported positions name frames at most one apart, and the audio is the same
fn position_units(ctx: &mut Ctx) {
	for (sr, dev) in [(4u32, 8u32), (8, 8), (8, 4), (48000, 44100)] {
		for rate in [1.0f64, 0.75, 1.5, 0.3] {
			for chunk in [1usize, 3, 5] {
			for mute in [false, true] {
				ctx.evals += 1;
				let frames: Vec<Frame> = (0..64).map(code).collect();
				let info = MockInfoBuilder::new().build();
				let dt = 1.0 / dev as f64;
				let sd = rig::static_data(sr, frames.clone()).playback_rate(PlaybackRate(rate));
				let first = pacer::count();
				let (dec, stats) = ScriptedDecoder::new(frames.clone(), sr, vec![2, 1, 3], 1);
				let td = StreamingSoundData::from_decoder(dec).playback_rate(PlaybackRate(rate));
				let (mut ss, mut hs) = sd.into_sound().expect("static");
				let (mut ts, mut ht) = td.into_sound().map_err(|_| ()).expect("streaming");
				let mut so = vec![Frame::ZERO; chunk];
				let mut to = vec![Frame::ZERO; chunk];
				let what = format!("64-frame sound at {} Hz, playback rate {}, device rate {} Hz, callbacks of {} frames{}", sr, rate, dev, chunk, if mute { "; set_volume(-60 dB, instant) before callback 2, set_volume(0 dB, instant) before callback 5: a silent sound keeps playing" } else { "" });
				'cbs: for cb in 0..8 {
					if mute && (cb == 2 || cb == 5) {
						let v = if cb == 2 { Decibels::SILENCE } else { Decibels::IDENTITY };
						hs.set_volume(v, tw(0.0));
						ht.set_volume(v, tw(0.0));
					}
					pacer::step(first, (chunk as f64 * rate * sr as f64 / dev as f64).ceil() as u64 + 8);
					ss.on_start_processing();
					ts.on_start_processing();
					ss.process(&mut so, dt, &info);
					ts.process(&mut to, dt, &info);
					ctx.transitions += 1;
					for i in 0..chunk {
						if (so[i].left - to[i].left).abs() > 1e-6 || (so[i].right - to[i].right).abs() > 1e-6 {
							ctx.fail("streaming output differs from the static sound's :: sounds whose rate is not the device's", format!("{}; callback {} frame {}: static {:?} streaming {:?}", what, cb, i, so[i], to[i]));
							break 'cbs;
						}
					}
					// (positions are published when the next callback starts)
					ss.on_start_processing();
					ts.on_start_processing();
					let (ps, pt) = (hs.position() * sr as f64, ht.position() * sr as f64);
					// (until the sound ends: near the end only the tail of the interpolation window is left)
					if ps < 56.0 && (ps - pt).abs() > 1.0 + 1e-9 {
						ctx.fail("reported positions differ by more than one frame :: sounds whose rate is not the device's", format!("{}; after callback {}: static {} s = frame {}, streaming {} s = frame {}", what, cb, hs.position(), ps, ht.position(), pt));
						break 'cbs;
					}
				}
				ctx.nontrivial_extra += 1;
				ht.stop(tw(0.0));
				ts.on_start_processing();
				ts.process(&mut to, dt, &info);
				drop(ts);
				drop(ht);
				crate::probes::reap_decoder(first, &stats);
			}
			}
		}
	}
}

fn long_run(which: u64, ctx: &mut Ctx) {
	let sr = 1u32;
	let len = 41usize;
	let rate = [1.0, 0.75, 2.0, 1.0, 1.0, 2.0][which as usize];
	let chunk = [64usize, 50, 64, 7, 64, 64][which as usize];
	// runs 4 and 5: a pause whose fade-out alone consumes more source frames than the decoder ring holds, then a resume
	let long_pause = which >= 4;
	let frames: Vec<Frame> = (0..len).map(|i| Frame::new(((i * 37) % 64) as f32 / 128.0, -(((i * 11) % 32) as f32) / 128.0)).collect();
	let sd = rig::static_data(sr, frames.clone()).loop_region(reg(3, 40)).playback_rate(PlaybackRate(rate));
	let (mut ss, mut hs) = sd.into_sound().expect("static");
	let first = pacer::count();
	let (dec, stats) = ScriptedDecoder::new(frames, sr, vec![5, 1, 3], 4);
	let td = StreamingSoundData::from_decoder(dec).loop_region(reg(3, 40)).playback_rate(PlaybackRate(rate));
	let (mut ts, mut ht) = td.into_sound().map_err(|_| ()).expect("streaming");
	let info = MockInfoBuilder::new().build();
	let mut so = vec![Frame::ZERO; chunk];
	let mut to = vec![Frame::ZERO; chunk];
	let total_frames = if long_pause { (24000.0 / rate) as usize } else { (17200.0 / rate.max(0.5)) as usize };
	let fade_frames = 18000.0 / rate;
	let mut done = 0usize;
	ctx.evals += 1;
	ctx.traces += 1;
	while done < total_frames {
		if long_pause && done == 640 {
			hs.pause(tw(fade_frames));
			ht.pause(tw(fade_frames));
		}
		if long_pause && done == 640 + (fade_frames as usize / chunk + 4) * chunk {
			hs.resume(tw(100.0));
			ht.resume(tw(100.0));
		}
		pacer::step(first, (chunk as f64 * rate).ceil() as u64 + 8);
		ss.on_start_processing();
		ts.on_start_processing();
		ss.process(&mut so, 1.0, &info);
		ts.process(&mut to, 1.0, &info);
		ctx.transitions += 1;
		for i in 0..chunk {
			let ok = if rate.fract() == 0.0 { so[i] == to[i] } else { (so[i].left - to[i].left).abs() <= 1e-6 && (so[i].right - to[i].right).abs() <= 1e-6 };
			if !ok {
				ctx.fail(
					"streaming output differs from the static sound's :: long run",
					format!("rate {} chunk {} output frame {}: static {:?} streaming {:?}", rate, chunk, done + i, so[i], to[i]),
				);
				done = usize::MAX - 1;
				break;
			}
		}
		if done == usize::MAX - 1 {
			break;
		}
		done += chunk;
	}
	ctx.nontrivial_extra += 1;
	ctx.state(hash64(&("long", which)));
	ctx.outcome(hash64(&("long", which)));
	ht.stop(tw(0.0));
	ts.on_start_processing();
	ts.process(&mut to, 1.0, &info);
	drop(ts);
	drop(ht);
	crate::probes::reap_decoder(first, &stats);
}
