//! C05 — clocks keep exact audio time; clock-scheduled events fire in the right buffer; the
//! time read from a handle is a time the clock had.
//!
//! E1 (a): all clock command histories to a depth bound x sample rates x internal buffer sizes
//!         against an exact-arithmetic clock model;
//! E1 (b): scheduling grid: target time x speed x every composition of 12 frames into callbacks
//!         x internal buffer size x kind of scheduled thing;
//! E2:     all interleavings of a reader thread (time() x3), the audio thread (2 callbacks) and
//!         optionally stop(), at the granularity of the individual atomic loads/stores.

use crate::engine::{hash64, Check, Ctx, Level, Tier};
use crate::json::J;
use crate::pacer;
use crate::probes::ScriptedDecoder;
use crate::props::c06::{ClockNow, ParamModel, SM};
use crate::rig::{self, catch, Manager};
use crate::sched::{self, Config, Exec};
use kira::clock::{ClockHandle, ClockSpeed, ClockTime};
use kira::sound::streaming::StreamingSoundData;
use kira::sound::{PlaybackState, Region};
use kira::track::MainTrackBuilder;
use kira::{Decibels, Easing, StartTime, Tween, Value};
use std::sync::{Arc, Mutex};
use std::time::Duration;

pub struct C05;

// ---------------------------------------------------------------------------------------------
// exact clock model

#[derive(Debug, Clone)]
pub struct ClockModel {
	pub ticking: bool,
	pub started: bool,
	pub ticks: u64,
	pub frac: f64,
	pub speed: ParamModel<ClockSpeed>,
	/// value the handle shows (published at the start of a callback)
	pub shown: (u64, f64),
	pub shown_ticking: bool,
	pending_ticking: Option<bool>,
	pending_reset: bool,
}

impl ClockModel {
	pub fn new(speed: ClockSpeed) -> Self {
		Self {
			ticking: false,
			started: false,
			ticks: 0,
			frac: 0.0,
			speed: ParamModel::new(speed),
			shown: (0, 0.0),
			shown_ticking: false,
			pending_ticking: None,
			pending_reset: false,
		}
	}
	pub fn cmd_start(&mut self) {
		self.pending_ticking = Some(true);
	}
	pub fn cmd_pause(&mut self) {
		self.pending_ticking = Some(false);
	}
	pub fn cmd_stop(&mut self) {
		self.pending_ticking = Some(false);
		self.pending_reset = true;
		self.shown = (0, 0.0);
	}
	/// start of a callback: commands are applied, time is published
	pub fn on_start(&mut self) {
		if let Some(t) = self.pending_ticking.take() {
			self.ticking = t;
			self.shown_ticking = t;
		}
		if self.pending_reset {
			self.pending_reset = false;
			self.started = false;
			self.ticks = 0;
			self.frac = 0.0;
		}
		self.shown = if self.started { (self.ticks, self.frac) } else { (0, 0.0) };
	}
	/// one internal buffer of `dt` seconds; `own` = what the clock's own id resolves to for its speed tween
	pub fn update(&mut self, dt: f64, own: Option<ClockNow>) {
		self.speed.update(dt, own);
		if !self.ticking {
			return;
		}
		self.started = true;
		self.frac += self.speed.value.as_ticks_per_second() * dt;
		while self.frac >= 1.0 {
			self.frac -= 1.0;
			self.ticks += 1;
		}
	}
	pub fn now(&self) -> ClockNow {
		ClockNow {
			ticking: self.ticking,
			ticks: if self.started { self.ticks } else { 0 },
			fraction: if self.started { self.frac } else { 0.0 },
		}
	}
}

// ---------------------------------------------------------------------------------------------

const HL: [&str; 11] = [
	"start",
	"pause",
	"stop",
	"set_speed(2 ticks/s, instant)",
	"set_speed(0.5 ticks/s, 1 s linear tween)",
	"set_speed(4 ticks/s, instant, starting at the clock's own time + 1 tick)",
	"set_speed(0.25 s/tick, instant)",
	"set_speed(60 ticks/min, 0.5 s tween)",
	"cb(1)",
	"cb(3)",
	"cb(4)",
];
const NHL: u64 = 11;
const SRS: [u32; 2] = [4, 8];
const IBS: [usize; 3] = [1, 2, 4];

fn hist_cases() -> u64 {
	2 * 3 * NHL
}
const GRID_CASES: u64 = 7 * 3 * 3; // thing x speed x ibs
const E2_CASES: u64 = 3;
const E2S_CASES: u64 = 2;
/// cancellation family: 3 clocks, every subset dropped, x waiting thing {static, streaming, paused static, paused streaming, resume_at}
const CANCEL_CASES: u64 = 7;
/// a clock whose speed is linked to a modulator: the change of the modulator reaches the clock in the same internal buffer
const MODSPEED_CASES: u64 = 3;
const CANCEL_NAMES: [&str; 7] = ["static sound waiting to start", "streaming sound waiting to start", "static sound waiting to start, paused meanwhile", "streaming sound waiting to start, paused meanwhile", "paused static sound waiting to resume (resume_at)", "playing static sound whose mute (instant volume tween to silence) is scheduled on the clock: never muted once the clock is gone", "streaming sound waiting to start whose decoder has delivered nothing yet (it delivers only after the 8 callbacks)"];

fn hist_depth(tier: Tier) -> usize {
	tier.pick(5, 6)
}

impl Check for C05 {
	fn id(&self) -> &'static str {
		"C05"
	}
	fn level(&self) -> Level {
		Level::ModelChecking
	}
	fn num_cases(&self, _tier: Tier) -> u64 {
		hist_cases() + GRID_CASES + E2_CASES + E2S_CASES + CANCEL_CASES + MODSPEED_CASES
	}
	fn max_workers(&self) -> usize {
		16
	}
	fn describe(&self, tier: Tier, idx: u64) -> String {
		if idx < hist_cases() {
			let (sr, ibs, first) = dec_hist(idx);
			format!(
				"clock histories: sample rate {} internal buffer {} first letter '{}', all continuations to depth {} over {:?}",
				sr,
				ibs,
				HL[first as usize],
				hist_depth(tier),
				HL
			)
		} else if idx < hist_cases() + GRID_CASES {
			let (thing, speed, ibs) = dec_grid(idx - hist_cases());
			format!(
				"scheduling grid: {} scheduled on a clock at {} ticks/s, internal buffer {}: target ticks 0..=3 x fraction {{0,.25,.5}} x every composition of 12 frames into callbacks of {{1,2,3,5}} frames",
				THINGS[thing], speed, ibs
			)
		} else if idx >= hist_cases() + GRID_CASES + E2_CASES + E2S_CASES + CANCEL_CASES {
			format!("clock speed linked to a tweener modulator (mapping 0..1 -> 2..6 ticks/s), internal buffer {}: the tweener is set (instantly / over 1 s) at every callback position; the clock advances by the speed the modulator dictates in that very buffer", [1, 2, 4][(idx - hist_cases() - GRID_CASES - E2_CASES - E2S_CASES - CANCEL_CASES) as usize])
		} else if idx >= hist_cases() + GRID_CASES + E2_CASES + E2S_CASES {
			format!("cancellation: 3 clocks with a {} on each; every subset of the clock handles dropped in one interval (before / after everything was adopted): the things on dropped clocks become Stopped at the next callback, the others start when due", CANCEL_NAMES[(idx - hist_cases() - GRID_CASES - E2_CASES - E2S_CASES) as usize])
		} else if idx >= hist_cases() + GRID_CASES + E2_CASES {
			format!("E2 interleavings: {}", E2S_NAMES[(idx - hist_cases() - GRID_CASES - E2_CASES) as usize])
		} else {
			format!("E2 interleavings: {}", E2_NAMES[(idx - hist_cases() - GRID_CASES) as usize])
		}
	}
	fn sig_hint(&self, _tier: Tier, idx: u64) -> String {
		if idx < hist_cases() {
			"clock history".into()
		} else if idx < hist_cases() + GRID_CASES {
			"scheduling grid".into()
		} else if idx >= hist_cases() + GRID_CASES + E2_CASES + E2S_CASES + CANCEL_CASES {
			"clock speed linked to a modulator".to_string()
		} else if idx >= hist_cases() + GRID_CASES + E2_CASES + E2S_CASES {
			format!("cancellation: {}", CANCEL_NAMES[(idx - hist_cases() - GRID_CASES - E2_CASES - E2S_CASES) as usize])
		} else if idx >= hist_cases() + GRID_CASES + E2_CASES {
			format!("E2 {}", E2S_NAMES[(idx - hist_cases() - GRID_CASES - E2_CASES) as usize])
		} else {
			format!("E2 {}", E2_NAMES[(idx - hist_cases() - GRID_CASES) as usize])
		}
	}
	fn rule(&self) -> String {
		"E1a: all sequences of length <= depth over 11 letters (start, pause, stop, 5 speed changes incl. a tween scheduled on the clock's own time, callbacks of 1/3/4 frames) x sample rate {4,8} x internal buffer {1,2,4}, exact tick arithmetic (binary-exact dt). E1b: 4 kinds of scheduled thing x 3 speeds x 3 buffer sizes x 12 target times x every composition of 12 frames into callbacks from {1,2,3,5}. Cancellation: 3 clocks x every subset of their handles dropped in one interval x {before, after} adoption x 5 kinds of waiting thing: cancelled exactly when its clock no longer exists. E2: every interleaving (preemption bound in evidence) of reader || audio thread (|| stop), switching before each atomic load/store of the clock's shared words; and of game(add_clock; start; play(sound scheduled on that clock)) || audio(3 callbacks), switching at every resource hand-over point: a sound waiting on a clock that exists is never cancelled. states = distinct clock model states; non-trivial = executions in which the clock advanced / two threads touched the clock words in an interleaved order".into()
	}
	fn assumptions(&self) -> Vec<String> {
		vec![
			"sequentially consistent interleavings of the individual atomic operations (kira uses SeqCst for these words)".into(),
			"speed tweens are compared with the reference tween sampled once per internal buffer (the statement allows one buffer of slack)".into(),
		]
	}
	fn extra_evidence(&self, tier: Tier) -> Vec<(String, J)> {
		vec![
			("depth".into(), J::u(hist_depth(tier) as u64)),
			("preemption_bound".into(), J::s(tier.pick("2", "unbounded (reader harnesses), 4 (harness with stop()), 3 (scheduled-sound harnesses)"))),
		]
	}
	fn case_timeout_ms(&self, tier: Tier) -> u64 {
		tier.pick(600_000, 1_800_000)
	}
	fn run_case(&self, tier: Tier, idx: u64, ctx: &mut Ctx) {
		if idx < hist_cases() {
			let (sr, ibs, first) = dec_hist(idx);
			let mut letters = vec![first];
			enum_hist(sr, ibs, &mut letters, hist_depth(tier), ctx);
		} else if idx < hist_cases() + GRID_CASES {
			let (thing, speed, ibs) = dec_grid(idx - hist_cases());
			if thing == 1 {
				pacer::set_mode(pacer::Mode::Pacer);
			}
			grid(tier, thing, speed, ibs, ctx);
		} else if idx >= hist_cases() + GRID_CASES + E2_CASES + E2S_CASES + CANCEL_CASES {
			let ibs = [1usize, 2, 4][(idx - hist_cases() - GRID_CASES - E2_CASES - E2S_CASES - CANCEL_CASES) as usize];
			if let Err(p) = catch(|| modulated_speed(ibs, ctx)) {
				ctx.fail(format!("panic: {} :: clock speed linked to a modulator", p), format!("internal buffer {}", ibs));
			}
		} else if idx >= hist_cases() + GRID_CASES + E2_CASES + E2S_CASES {
			let w = idx - hist_cases() - GRID_CASES - E2_CASES - E2S_CASES;
			if w == 1 || w == 3 || w == 6 {
				pacer::set_mode(pacer::Mode::Pacer);
			}
			if let Err(p) = catch(|| cancellation(w, ctx)) {
				ctx.fail(format!("panic: {} :: cancellation", p), CANCEL_NAMES[w as usize]);
			}
			if w == 0 {
				if let Err(p) = catch(|| bystanders(ctx)) {
					ctx.fail(format!("panic: {} :: bystander clocks", p), "");
				}
			}
		} else if idx >= hist_cases() + GRID_CASES + E2_CASES {
			e2_sched(tier, idx - hist_cases() - GRID_CASES - E2_CASES, ctx);
		} else {
			e2(tier, idx - hist_cases() - GRID_CASES, ctx);
		}
	}
}

fn dec_hist(idx: u64) -> (u32, usize, u8) {
	let mut i = idx;
	let first = (i % NHL) as u8;
	i /= NHL;
	let ibs = IBS[(i % 3) as usize];
	i /= 3;
	(SRS[i as usize], ibs, first)
}

fn enum_hist(sr: u32, ibs: usize, letters: &mut Vec<u8>, depth: usize, ctx: &mut Ctx) {
	if letters.len() == depth {
		let ls = letters.clone();
		ctx.evals += 1;
		ctx.traces += 1;
		if let Err(p) = catch(|| run_hist(sr, ibs, &ls, ctx)) {
			ctx.fail(format!("panic: {} :: clock history", p), hist_desc(sr, ibs, &ls));
		}
		return;
	}
	for l in 0..NHL as u8 {
		letters.push(l);
		enum_hist(sr, ibs, letters, depth, ctx);
		letters.pop();
	}
}

fn hist_desc(sr: u32, ibs: usize, letters: &[u8]) -> String {
	format!(
		"sample rate {} internal buffer {} history=[{}]",
		sr,
		ibs,
		letters.iter().map(|l| HL[*l as usize]).collect::<Vec<_>>().join("; ")
	)
}

fn tw(dur: f64) -> Tween {
	Tween {
		start_time: StartTime::Immediate,
		duration: Duration::from_secs_f64(dur),
		easing: Easing::Linear,
	}
}

fn run_hist(sr: u32, ibs: usize, letters: &[u8], ctx: &mut Ctx) {
	let mut m = rig::manager(sr, ibs, rig::caps(2), MainTrackBuilder::new());
	let mut clock = m.add_clock(ClockSpeed::TicksPerSecond(1.0)).expect("clock");
	let mut model = ClockModel::new(ClockSpeed::TicksPerSecond(1.0));
	// the same clock, except that a speed change scheduled on the clock's own time never begins
	let mut alt = ClockModel::new(ClockSpeed::TicksPerSecond(1.0));
	let dt = 1.0 / sr as f64;
	let mut buf = vec![0.0f32; 16];
	let mut advanced = false;
	let mut own_time_tween_pending: Option<(u64, f64)> = None;
	let desc = |k: usize| format!("{} at step #{} ('{}')", hist_desc(sr, ibs, letters), k, HL[letters[k] as usize]);
	for (k, &l) in letters.iter().enumerate() {
		let mut frames = 0;
		match l {
			0 => {
				clock.start();
				model.cmd_start();
				alt.cmd_start();
			}
			1 => {
				clock.pause();
				model.cmd_pause();
				alt.cmd_pause();
			}
			2 => {
				clock.stop();
				model.cmd_stop();
				alt.cmd_stop();
			}
			3 => {
				clock.set_speed(ClockSpeed::TicksPerSecond(2.0), tw(0.0));
				model.speed.set(ClockSpeed::TicksPerSecond(2.0), 0.0, Easing::Linear, SM::Imm);
				alt.speed.set(ClockSpeed::TicksPerSecond(2.0), 0.0, Easing::Linear, SM::Imm);
			}
			4 => {
				clock.set_speed(ClockSpeed::TicksPerSecond(0.5), tw(1.0));
				model.speed.set(ClockSpeed::TicksPerSecond(0.5), 1.0, Easing::Linear, SM::Imm);
				alt.speed.set(ClockSpeed::TicksPerSecond(0.5), 1.0, Easing::Linear, SM::Imm);
			}
			5 => {
				let t = clock.time() + 1u64;
				clock.set_speed(
					ClockSpeed::TicksPerSecond(4.0),
					Tween {
						start_time: StartTime::ClockTime(t),
						duration: Duration::ZERO,
						easing: Easing::Linear,
					},
				);
				model.speed.set(ClockSpeed::TicksPerSecond(4.0), 0.0, Easing::Linear, SM::Clock(t.ticks, t.fraction));
				alt.speed.set(ClockSpeed::TicksPerSecond(4.0), 0.0, Easing::Linear, SM::ClockMissing);
				own_time_tween_pending = Some((t.ticks, t.fraction));
			}
			6 => {
				clock.set_speed(ClockSpeed::SecondsPerTick(0.25), tw(0.0));
				model.speed.set(ClockSpeed::SecondsPerTick(0.25), 0.0, Easing::Linear, SM::Imm);
				alt.speed.set(ClockSpeed::SecondsPerTick(0.25), 0.0, Easing::Linear, SM::Imm);
			}
			7 => {
				clock.set_speed(ClockSpeed::TicksPerMinute(60.0), tw(0.5));
				model.speed.set(ClockSpeed::TicksPerMinute(60.0), 0.5, Easing::Linear, SM::Imm);
				alt.speed.set(ClockSpeed::TicksPerMinute(60.0), 0.5, Easing::Linear, SM::Imm);
			}
			8 => frames = 1,
			9 => frames = 3,
			_ => frames = 4,
		}
		if frames > 0 {
			let rep = rig::callback(&mut m, &mut buf, frames, 2);
			if !rep.ok() {
				ctx.fail(format!("callback monitor: {:?} :: clock history", rep.panic.clone().or(rep.bad_sample.clone())), desc(k));
				return;
			}
			model.on_start();
			alt.on_start();
			let mut left = frames;
			while left > 0 {
				let n = left.min(ibs);
				// the clock's own time, as seen by its own speed tween, is its time before this buffer's update
				let own = model.now();
				model.update(dt * n as f64, Some(own));
				alt.update(dt * n as f64, None);
				left -= n;
			}
			if model.started && (model.ticks > 0 || model.frac > 0.0) {
				advanced = true;
			}
		}
		ctx.transitions += 1;
		ctx.state(hash64(&(
			model.ticking,
			model.started,
			model.ticks,
			model.frac.to_bits(),
			format!("{:?}", model.speed.state),
			format!("{:?}", model.speed.value),
		)));
		// ---- observe through the handle
		let t = clock.time();
		if (t.ticks, t.fraction) != model.shown {
			// (`alt` is the clock as it would run if own-time speed changes were never requested; it receives every later command
			// too, so agreement with it still isolates the known root cause after further speed changes)
			let own = own_time_tween_pending.is_some() && (t.ticks, t.fraction) == alt.shown;
			ctx.fail(
				if own {
					"a speed change scheduled on the clock's own time never takes effect (the clock runs on exactly as if it had not been requested)".to_string()
				} else {
					"clock time differs from exact speed x elapsed time".to_string()
				},
				format!("{} handle shows ({}, {}) model ({}, {})", desc(k), t.ticks, t.fraction, model.shown.0, model.shown.1),
			);
			return;
		}
		if clock.ticking() != model.shown_ticking {
			ctx.fail("ticking flag differs from the model", format!("{} handle {} model {}", desc(k), clock.ticking(), model.shown_ticking));
			return;
		}
	}
	if advanced {
		ctx.nontrivial(hash64(&(sr, ibs, letters)));
	}
	ctx.outcome(hash64(&(model.ticks, model.frac.to_bits(), model.ticking)));
	ctx.sample(ctx.traces, || hist_desc(sr, ibs, letters));
}

// ---------------------------------------------------------------------------------------------
// scheduling grid

const THINGS: [&str; 7] = ["static sound start", "streaming sound start", "volume tween start", "resume_at", "tweener modulator jump (heard through a linked volume)", "resume_at of a paused sub-track (a sound plays on it)", "resume_at of a paused sub-track nested in another sub-track (a sound plays on it)"];
const SPEEDS: [f64; 3] = [1.0, 2.0, 0.5];

fn dec_grid(i: u64) -> (usize, f64, usize) {
	let thing = (i % 7) as usize;
	let speed = SPEEDS[((i / 7) % 3) as usize];
	let ibs = IBS[((i / 21) % 3) as usize];
	(thing, speed, ibs)
}

fn compositions(total: usize, parts: &[usize], cur: &mut Vec<usize>, out: &mut Vec<Vec<usize>>) {
	if total == 0 {
		out.push(cur.clone());
		return;
	}
	for &p in parts {
		if p <= total {
			cur.push(p);
			compositions(total - p, parts, cur, out);
			cur.pop();
		}
	}
}

fn dc_loop(sr: u32) -> kira::sound::static_sound::StaticSoundData {
	rig::static_data(sr, rig::dc_frames(4, 0.5)).loop_region(Region::from(..))
}

fn grid(tier: Tier, thing: usize, speed: f64, ibs: usize, ctx: &mut Ctx) {
	let sr = 4u32;
	let dt = 1.0 / sr as f64;
	let mut comps = vec![];
	compositions(12, &[1, 2, 3, 5], &mut vec![], &mut comps);
	for ticks in 0..=3u64 {
		for frac in [0.0, 0.25, 0.5] {
			for (pause_mid, late) in [(false, false), (true, false), (false, true), (true, true)] {
				for (icomp, comp) in comps.iter().enumerate() {
					if thing == 1 && tier == Tier::Quick && icomp % 8 != 0 {
						continue; // one decoder thread per scene: the streaming start is sub-sampled in the quick tier
					}
					if late && (comp.len() < 5 || (tier == Tier::Quick && icomp % 4 != 0)) {
						continue;
					}
					ctx.evals += 1;
					ctx.traces += 1;
					let desc = || {
						format!(
							"{} at clock time ({}, {}) speed {} ticks/s internal buffer {} callbacks {:?} clock paused for callbacks 2..4: {}; {}",
							THINGS[thing], ticks, frac, speed, ibs, comp, pause_mid, if late { "scheduled before callback 3 (while the clock is paused, if it is)" } else { "scheduled before the clock is started" }
						)
					};
					let r = catch(|| {
						let mut m = rig::manager(sr, ibs, rig::caps(2), MainTrackBuilder::new());
						let mut clock = m.add_clock(ClockSpeed::TicksPerSecond(speed)).expect("clock");
						let mut model = ClockModel::new(ClockSpeed::TicksPerSecond(speed));
						let target = ClockTime {
							clock: clock.id(),
							ticks,
							fraction: frac,
						};
						let first_dec = pacer::count();
						let mut static_h = None;
						let mut stream_h = None;
						let mut tweener_h = None;
						let mut tracks_keep: Vec<kira::track::TrackHandle> = vec![];
						macro_rules! schedule_it {
							() => {
						match thing {
									0 => static_h = Some(m.play(dc_loop(sr).start_time(target)).expect("play")),
									1 => {
										let (dec, _) = ScriptedDecoder::new(rig::dc_frames(64, 0.5), sr, vec![3], 1);
										stream_h = Some(m.play(StreamingSoundData::from_decoder(dec).start_time(target)).map_err(|_| ()).expect("play"));
									}
									2 => {
										let mut h = m.play(dc_loop(sr).volume(Decibels::SILENCE)).expect("play");
										h.set_volume(
											Value::Fixed(Decibels::IDENTITY),
											Tween {
												start_time: StartTime::ClockTime(target),
												duration: Duration::ZERO,
												easing: Easing::Linear,
											},
										);
										static_h = Some(h);
									}
									3 => {
										let mut h = m.play(dc_loop(sr)).expect("play");
										h.pause(tw(0.0));
										h.resume_at(StartTime::ClockTime(target), tw(0.0));
										static_h = Some(h);
									}
									5 | 6 => {
										let mut t = if thing == 6 {
											let mut outer = m.add_sub_track(kira::track::TrackBuilder::new()).expect("track");
											let t = outer.add_sub_track(kira::track::TrackBuilder::new()).expect("track");
											tracks_keep.push(outer);
											t
										} else {
											m.add_sub_track(kira::track::TrackBuilder::new()).expect("track")
										};
										static_h = Some(t.play(dc_loop(sr)).expect("play"));
										t.pause(tw(0.0));
										t.resume_at(StartTime::ClockTime(target), tw(0.0));
										tracks_keep.push(t);
									}
									_ => {
										// the same instant, clock-timed tween given to a tweener modulator instead of a parameter
										let mut twn = m.add_modulator(kira::modulator::tweener::TweenerBuilder { initial_value: 0.0 }).expect("modulator");
										let mapping = kira::Mapping { input_range: (0.0, 1.0), output_range: (Decibels::SILENCE, Decibels::IDENTITY), easing: Easing::Linear };
										let mut h = m.play(dc_loop(sr).volume(Decibels::SILENCE)).expect("play");
										h.set_volume(Value::FromModulator { id: twn.id(), mapping }, tw(0.0));
										twn.set(1.0, Tween { start_time: StartTime::ClockTime(target), duration: Duration::ZERO, easing: Easing::Linear });
										static_h = Some(h);
										tweener_h = Some(twn);
									}
								}
							};
						}
						if !late {
							schedule_it!();
						}
						clock.start();
						model.cmd_start();
						let mut frame0 = 0usize;
						let mut first_audible: Option<usize> = None;
						let mut expected: Option<usize> = None;
						let mut expected_mod: Option<usize> = None;
						let mut buf = vec![0.0f32; 16];
						let mut fails: Vec<(String, String)> = vec![];
						for (ci, &n) in comp.iter().enumerate() {
							if pause_mid && ci == 2 {
								clock.pause();
								model.cmd_pause();
							}
							if pause_mid && ci == 4 {
								clock.start();
								model.cmd_start();
							}
							if late && ci == 3 {
								schedule_it!();
							}
							let scheduled = !late || ci >= 3;
							if thing == 1 {
								pacer::step_all_from(first_dec, n as u64 + 6);
							}
							let rep = rig::callback(&mut m, &mut buf, n, 2);
							if !rep.ok() {
								fails.push((format!("callback monitor: {:?}", rep.panic.clone().or(rep.bad_sample.clone())), String::new()));
								break;
							}
							model.on_start();
							let mut off = 0;
							while off < n {
								let len = (n - off).min(ibs);
								// what a modulator sees: this callback's clock commands applied, the time of the previous buffer's end
								let c0 = model.now();
								if scheduled && expected_mod.is_none() && c0.ticking && (c0.ticks, c0.fraction) >= (ticks, frac) {
									expected_mod = Some(frame0 + off);
								}
								model.update(dt * len as f64, None);
								let c = model.now();
								// the thing begins in the buffer during which the (ticking) clock reaches the target
								if scheduled && expected.is_none() && c.ticking && (c.ticks, c.fraction) >= (ticks, frac) {
									expected = Some(frame0 + off);
								}
								off += len;
							}
							for i in 0..n {
								if buf[2 * i] != 0.0 && first_audible.is_none() {
									first_audible = Some(frame0 + i);
								}
							}
							frame0 += n;
						}
						// a resume_at changes state in the right buffer; even an instant fade-in needs one more
						// parameter update before it is audible, so its audio may begin one internal buffer later
						let ok = if thing == 3 || thing == 5 || thing == 6 {
							match (first_audible, expected) {
								(Some(a), Some(e)) => a >= e && a <= e + ibs,
								(None, Some(e)) => e + ibs >= frame0,
								(None, None) => true,
								(Some(_), None) => false,
							}
						} else {
							first_audible == expected
						};
						if !ok && thing == 4 && first_audible == expected_mod {
							// one root cause, one signature (recorded finding)
							fails.push((
								"a clock-timed tween of a tweener modulator begins one internal buffer late: modulators are updated before the clocks of the same buffer and see the previous buffer's clock time".to_string(),
								format!("first audible frame {:?}; the clock reaches the time (while ticking) in the buffer starting at frame {:?}", first_audible, expected),
							));
						} else if !ok {
							let kind = match (first_audible, expected) {
								(Some(a), Some(e)) if a > e => "late",
								(Some(_), Some(_)) => "early",
								(Some(_), None) => "although the clock never reached the time while ticking",
								(None, _) => "never",
							};
							fails.push((
								format!("scheduled {} begins {}", THINGS[thing], kind),
								format!("first audible frame {:?}, expected {:?}", first_audible, expected),
							));
						}
						// cancelled when the clock no longer exists
						drop(clock);
						for _ in 0..3 {
							if thing == 1 {
								pacer::step_all_from(first_dec, 6);
							}
							rig::callback(&mut m, &mut buf, 2, 2);
						}
						if expected.is_none() && thing <= 1 {
							let st = static_h.as_ref().map(|h| h.state()).or(stream_h.as_ref().map(|h| h.state())).unwrap();
							if st != PlaybackState::Stopped {
								fails.push(("waiting sound not Stopped after its clock was removed".into(), format!("state {:?}", st)));
							}
						}
						drop(tweener_h);
						// teardown of decoder threads
						if let Some(h) = stream_h.as_mut() {
							h.stop(tw(0.0));
							rig::callback(&mut m, &mut buf, 1, 2);
							pacer::step_all_from(first_dec, 3);
						}
						(fails, expected.is_some())
					});
					match r {
						Ok((fails, nt)) => {
							for (s, d) in fails {
								ctx.fail(format!("{} :: grid", s), format!("{} {}", desc(), d));
							}
							if nt {
								ctx.nontrivial_extra += 1;
							}
						}
						Err(p) => ctx.fail(format!("panic: {} :: grid", p), desc()),
					}
					ctx.transitions += comp.len() as u64;
				}
			}
		}
	}
	ctx.state(hash64(&("grid", thing, ibs)));
	ctx.outcome(hash64(&("grid", thing)));
}

// ---------------------------------------------------------------------------------------------
// E2: reads of the clock time racing with the audio thread

const E2_NAMES: [&str; 3] = [
	"reader(time x3) || audio(2 callbacks), internal buffer 1",
	"reader(time x3) || audio(2 callbacks), callbacks of 3 frames with internal buffer 2",
	"game(time; stop; time; time) || audio(2 callbacks)",
];

fn clock_filter(site: &'static str) -> bool {
	site.starts_with("clock.") || site.starts_with("tb.")
}

struct E2Setup {
	m: Manager,
	clock: ClockHandle,
	/// the clock as the audio thread saw it in the last chunk: (ticking, ticks, fraction)
	seen: Arc<Mutex<Option<(bool, u64, f64)>>>,
}
struct ClockSpy(kira::clock::ClockId, Arc<Mutex<Option<(bool, u64, f64)>>>);
impl kira::sound::Sound for ClockSpy {
	fn process(&mut self, out: &mut [kira::Frame], _dt: f64, info: &kira::info::Info) {
		out.fill(kira::Frame::ZERO);
		*self.1.lock().unwrap() = info.clock_info(self.0).map(|c| (c.ticking, c.time.ticks, c.time.fraction));
	}
	fn finished(&self) -> bool {
		false
	}
}
struct ClockSpyData(kira::clock::ClockId, Arc<Mutex<Option<(bool, u64, f64)>>>);
impl kira::sound::SoundData for ClockSpyData {
	type Error = ();
	type Handle = ();
	fn into_sound(self) -> Result<(Box<dyn kira::sound::Sound>, ()), ()> {
		Ok((Box::new(ClockSpy(self.0, self.1)), ()))
	}
}

fn e2_setup(which: u64) -> (E2Setup, usize) {
	let (ibs, frames) = if which == 1 { (2, 3) } else { (1, 1) };
	let mut m = rig::manager(4, ibs, rig::caps(2), MainTrackBuilder::new());
	let mut clock = m.add_clock(ClockSpeed::TicksPerSecond(3.0)).expect("clock");
	clock.start();
	let seen = Arc::new(Mutex::new(None));
	m.play(ClockSpyData(clock.id(), seen.clone())).map_err(|_| ()).expect("spy");
	let mut buf = vec![0.0f32; 16];
	rig::callback(&mut m, &mut buf, frames, 2);
	rig::callback(&mut m, &mut buf, frames, 2);
	(E2Setup { m, clock, seen }, frames)
}

fn e2(tier: Tier, which: u64, ctx: &mut Ctx) {
	// the set of times the clock has, from a sequential run
	let mut had: Vec<(u64, f64)> = vec![(0, 0.0)];
	{
		let (mut s, frames) = e2_setup(which);
		let mut buf = vec![0.0f32; 16];
		had.push((s.clock.time().ticks, s.clock.time().fraction));
		for _ in 0..2 {
			rig::callback(&mut s.m, &mut buf, frames, 2);
			let t = s.clock.time();
			had.push((t.ticks, t.fraction));
		}
	}
	let cfg = Config {
		filter: clock_filter,
		horizon: 400,
		max_spin_rounds: 8,
		record_sites: true,
		..Default::default()
	};
	type Obs = (Vec<(u64, f64)>, Vec<bool>);
	let mut body = |prefix: &[u8]| -> (sched::RunResult, Obs) {
		let (s, frames) = e2_setup(which);
		let E2Setup { mut m, clock, seen } = s;
		let mut renderer = m.backend_mut().renderer.take().expect("renderer");
		let back: Arc<Mutex<Option<kira::backend::Renderer>>> = Arc::new(Mutex::new(None));
		let reads: Arc<Mutex<Vec<(u64, f64)>>> = Arc::new(Mutex::new(vec![]));
		let flags: Arc<Mutex<Vec<bool>>> = Arc::new(Mutex::new(vec![]));
		let keep: Arc<Mutex<Option<ClockHandle>>> = Arc::new(Mutex::new(None));
		let mut ex = Exec::begin(&cfg, prefix);
		{
			let back = back.clone();
			ex.spawn("audio", move || {
				let mut buf = vec![0.0f32; 16];
				for _ in 0..2 {
					renderer.on_start_processing();
					renderer.process(&mut buf[..frames * 2], 2);
				}
				*back.lock().unwrap() = Some(renderer);
			});
		}
		{
			let reads = reads.clone();
			let _ = &flags;
			let keep = keep.clone();
			ex.spawn(if which == 2 { "game" } else { "reader" }, move || {
				let mut clock = clock;
				let mut rd = |c: &ClockHandle| {
					let t = c.time();
					reads.lock().unwrap().push((t.ticks, t.fraction));
				};
				if which == 2 {
					rd(&clock);
					clock.stop();
					rd(&clock);
					rd(&clock);
				} else {
					for _ in 0..3 {
						rd(&clock);
					}
				}
				// hand the handle back so that it is dropped after the execution, outside the explored threads
				*keep.lock().unwrap() = Some(clock);
			});
		}
		let res = ex.run();
		// sequential epilogue: two more callbacks with nobody racing; now the handle must show exactly the time the audio
		// thread's clock has (a torn or stale publication cannot be excused by a race any more)
		let handle = keep.lock().unwrap().take();
		let renderer = back.lock().unwrap().take();
		if let (Some(handle), Some(r), true) = (handle, renderer, res.panics.is_empty()) {
			m.backend_mut().renderer = Some(r);
			let mut buf = vec![0.0f32; 16];
			// the handle shows what the audio thread publishes at the start of a callback: the clock at the end of the one before
			rig::callback(&mut m, &mut buf, frames, 2);
			let audio = *seen.lock().unwrap();
			rig::callback(&mut m, &mut buf, frames, 2);
			let t = handle.time();
			let agree = match audio {
				Some((ticking, ticks, fraction)) => ticking == handle.ticking() && ticks == t.ticks && fraction == t.fraction,
				None => false,
			};
			flags.lock().unwrap().push(agree);
			// "stopping resets it to zero": long after stop() returned the clock stands at zero
			if which == 2 && (handle.ticking() || t.ticks != 0 || t.fraction != 0.0) {
				flags.lock().unwrap().push(true);
				flags.lock().unwrap().push(false);
			}
			if !agree {
				reads.lock().unwrap().push((u64::MAX, 0.0));
				reads.lock().unwrap().push((t.ticks, t.fraction));
				if let Some((_, ticks, fraction)) = audio {
					reads.lock().unwrap().push((ticks, fraction));
				}
			}
			drop(handle);
		}
		drop(keep);
		drop(m);
		let r = reads.lock().unwrap().clone();
		let f = flags.lock().unwrap().clone();
		(res, (r, f))
	};
	let had2 = had.clone();
	let mut outcomes: std::collections::HashSet<u64> = Default::default();
	let mut fails: Vec<(String, String)> = vec![];
	let mut nontrivial = 0u64;
	let mut first: Option<Obs> = None;
	let mut judge = |res: &sched::RunResult, obs: &Obs, choices: &[u8]| {
		let (reads, flags) = obs;
		// (the epilogue appends a marker and its two readings when handle and audio thread disagree at rest)
		let (reads, epilogue): (Vec<(u64, f64)>, Vec<(u64, f64)>) = match reads.iter().position(|r| r.0 == u64::MAX) {
			Some(i) => (reads[..i].to_vec(), reads[i + 1..].to_vec()),
			None => (reads.clone(), vec![]),
		};
		let reads = &reads;
		// (flags: [agree] or [agree, true, false] when the stopped clock is not at zero)
		if flags.len() == 3 {
			fails.push((
				"stop(): two callbacks after stop() returned the clock is not stopped at zero (ClockHandle::stop() applied in halves, the race recorded under C07) :: E2 with stop()".to_string(),
				format!("reads during the race {:?}; schedule {}", reads, sched::fmt_schedule(res)),
			));
		}
		if flags.first() == Some(&false) {
			fails.push((
				format!("two callbacks after the race, with nothing running concurrently, the handle does not show the time the audio thread's clock has :: E2 {}", if which == 2 { "with stop()" } else { "reader||audio" }),
				format!("handle.time() = {:?}, the clock as seen by a sound on the audio thread at the end of the callback before = {:?}; reads during the race {:?}; schedule {}", epilogue.first(), epilogue.get(1), reads, sched::fmt_schedule(res)),
			));
		}
		outcomes.insert(hash64(&format!("{:?}", reads)));
		if first.is_none() {
			first = Some(obs.clone());
		}
		if choices.iter().any(|c| *c != 0) {
			nontrivial += 1;
		}
		for p in &res.panics {
			fails.push((format!("panic in a controlled thread: {} :: E2", p), sched::fmt_schedule(res)));
		}
		let ticks_set: Vec<u64> = had2.iter().map(|h| h.0).collect();
		let frac_set: Vec<u64> = had2.iter().map(|h| h.1.to_bits()).collect();
		let mut torn = false;
		for r in reads.iter() {
			if !had2.contains(r) {
				let comp = ticks_set.contains(&r.0) && frac_set.contains(&r.1.to_bits());
				torn |= comp;
				let sig = if comp {
					"handle.time() returns a (ticks, fraction) pair the clock never had: ticks and fraction come from two different publications (torn read of the two atomics)"
				} else {
					"handle.time() returns a value whose components were never published"
				};
				fails.push((
					format!("{} :: E2 {}", sig, if which == 2 { "with stop()" } else { "reader||audio" }),
					format!("read {:?}; times the clock had {:?}; all reads {:?}; schedule {}", r, had2, reads, sched::fmt_schedule(res)),
				));
			}
		}
		if which < 2 {
			for w in reads.windows(2) {
				if (w[1].0, w[1].1) < (w[0].0, w[0].1) {
					let involved = !had2.contains(&w[0]) || !had2.contains(&w[1]);
					let _ = torn;
					fails.push((
						format!(
							"time read from the handle goes backwards while the clock runs ({}) :: E2 reader||audio",
							if involved { "a torn pair is involved" } else { "both values are genuine" }
						),
						format!("reads {:?}; schedule {}", reads, sched::fmt_schedule(res)),
					));
				}
			}
		}
	};
	// thorough: unbounded for the two read-only harnesses; the harness with stop() (four more writes on the game side) is
	// bounded at 4 preemptions
	let bound = tier.pick(Some(2), if which == 2 { Some(4) } else { None });
	let stats = sched::explore(bound, 2_000_000, &mut body, &mut judge);
	sched::report(ctx, &stats);
	// determinism: the first schedule once more
	let (_r2, o2) = body(&[]);
	if let Some(f) = &first {
		if *f != o2 {
			ctx.fail("MACHINERY: E2 harness is not deterministic", format!("{:?} vs {:?}", f, o2));
		}
	}
	if let Some(e) = stats.error {
		ctx.fail(format!("MACHINERY: scheduler error: {}", e), "");
	}
	ctx.schedules += stats.schedules;
	ctx.evals += stats.schedules;
	ctx.traces += stats.schedules;
	ctx.transitions += stats.schedules * stats.max_points as u64;
	ctx.count(&format!("e2_{}_schedules", which), stats.schedules);
	ctx.count(&format!("e2_{}_max_points", which), stats.max_points as u64);
	ctx.count("e2_capped", stats.capped as u64);
	ctx.count("e2_horizon_hits", stats.horizon_hits);
	for o in outcomes {
		ctx.outcome(o);
		ctx.state(o);
	}
	ctx.nontrivial_extra += nontrivial;
	for (s, d) in fails {
		ctx.fail(s, d);
	}
}

// ---------------------------------------------------------------------------------------------
// E2: something scheduled on a clock that was created a moment ago. Whatever the interleaving of the
// gameplay thread's (add_clock; start; play) with the audio thread's adoption of new resources, the
// sound waits for the clock: it is cancelled only if the clock no longer exists - and this one does.

const E2S_NAMES: [&str; 2] = [
	"game(add_clock; start; play(static sound at clock time 1)) || audio(3 callbacks): never cancelled, heard once the clock reaches 1",
	"game(add_clock; start; add_sub_track; track.play(static sound at clock time 1)) || audio(3 callbacks)",
];

fn e2_sched(tier: Tier, which: u64, ctx: &mut Ctx) {
	use std::sync::{Arc, Mutex};
	fn filt(s: &'static str) -> bool {
		s.starts_with("res.") || s.starts_with("rtrb.") || s.starts_with("arena.")
	}
	let cfg = Config { filter: filt, horizon: 4000, max_spin_rounds: 8, record_sites: true, ..Default::default() };
	#[derive(Debug, Clone, Default, PartialEq)]
	struct Obs {
		states: Vec<String>,
		heard: Vec<f32>,
		monitors: Vec<String>,
		final_ticks: u64,
	}
	let mut body = |prefix: &[u8]| -> (sched::RunResult, Obs) {
		let mut m = rig::manager(4, 1, rig::caps(2), MainTrackBuilder::new());
		let mut renderer = m.backend_mut().renderer.take().expect("renderer");
		let obs = Arc::new(Mutex::new(Obs::default()));
		let back = Arc::new(Mutex::new(None));
		type Keep = (Manager, ClockHandle, Option<kira::track::TrackHandle>, kira::sound::static_sound::StaticSoundHandle);
		let keep: Arc<Mutex<Option<Keep>>> = Arc::new(Mutex::new(None));
		let mut ex = Exec::begin(&cfg, prefix);
		{
			let keep = keep.clone();
			ex.spawn("game", move || {
				let mut clock = m.add_clock(ClockSpeed::TicksPerSecond(2.0)).expect("clock");
				clock.start();
				let data = dc_loop(4).start_time(StartTime::ClockTime(ClockTime { clock: clock.id(), ticks: 1, fraction: 0.0 }));
				if which == 0 {
					let h = m.play(data).expect("play");
					*keep.lock().unwrap() = Some((m, clock, None, h));
				} else {
					let mut t = m.add_sub_track(kira::track::TrackBuilder::new()).expect("track");
					let h = t.play(data).expect("play");
					*keep.lock().unwrap() = Some((m, clock, Some(t), h));
				}
			});
		}
		{
			let (obs, back) = (obs.clone(), back.clone());
			ex.spawn("audio", move || {
				let mut buf = [0.0f32; 2];
				for _ in 0..3 {
					let rep = rig::callback_on(&mut renderer, &mut buf, 1, 2);
					let mut o = obs.lock().unwrap();
					if !rep.ok() {
						o.monitors.push(format!("{:?}", rep));
					}
					o.heard.push(buf[0]);
				}
				*back.lock().unwrap() = Some(renderer);
			});
		}
		let res = ex.run();
		let mut o = obs.lock().unwrap().clone();
		let kept = keep.lock().unwrap().take();
		if let (Some(mut r), Some((m, clock, t, h))) = (back.lock().unwrap().take(), kept) {
			o.states.push(format!("{:?}", h.state()));
			// the clock runs at 2 ticks/s on a 4 Hz device: tick 1 is reached within 2 frames of its adoption
			for _ in 0..6 {
				let mut b = [0.0f32; 2];
				rig::callback_on(&mut r, &mut b, 1, 2);
				o.heard.push(b[0]);
				o.states.push(format!("{:?}", h.state()));
			}
			o.final_ticks = clock.time().ticks;
			drop(r);
			drop((m, clock, t, h));
		}
		(res, o)
	};
	let mut outcomes = std::collections::HashSet::new();
	let mut fails: Vec<(String, String)> = vec![];
	let mut nontrivial = 0u64;
	let mut judge = |res: &sched::RunResult, o: &Obs, choices: &[u8]| {
		outcomes.insert(hash64(&format!("{:?}", o)));
		if choices.iter().any(|c| *c != 0) {
			nontrivial += 1;
		}
		for p in &res.panics {
			fails.push((format!("panic in a controlled thread: {} :: E2 scheduled sound #{}", p, which), sched::fmt_schedule(res)));
		}
		if let Some(mn) = o.monitors.first() {
			fails.push((format!("a callback racing with add_clock / play panics, allocates or writes an ill-formed sample :: E2 scheduled sound #{}", which), format!("{}; {}", mn, sched::fmt_schedule(res))));
		}
		if o.states.iter().any(|s| s == "Stopped") {
			fails.push((
				format!("a sound scheduled on a clock that exists is cancelled (becomes Stopped) :: E2 scheduled sound #{}", which),
				format!("states {:?} heard {:?} clock ticks {}; {}", o.states, o.heard, o.final_ticks, sched::fmt_schedule(res)),
			));
			return;
		}
		if o.final_ticks >= 2 && !o.heard.iter().any(|x| *x != 0.0) {
			fails.push((
				format!("a sound scheduled on a clock never starts although the clock passed its start time :: E2 scheduled sound #{}", which),
				format!("states {:?} heard {:?} clock ticks {}; {}", o.states, o.heard, o.final_ticks, sched::fmt_schedule(res)),
			));
		}
	};
	let stats = sched::explore(tier.pick(Some(2), Some(3)), 3_000_000, &mut body, &mut judge);
	sched::report(ctx, &stats);
	if let Some(e) = stats.error {
		ctx.fail(format!("MACHINERY: scheduler error: {}", e), "");
	}
	ctx.schedules += stats.schedules;
	ctx.evals += stats.schedules;
	ctx.traces += stats.schedules;
	ctx.transitions += stats.schedules * stats.max_points as u64;
	ctx.count(&format!("e2_sched{}_schedules", which), stats.schedules);
	ctx.count(&format!("e2_sched{}_max_points", which), stats.max_points as u64);
	ctx.count("e2_capped", stats.capped as u64);
	for o in outcomes {
		ctx.outcome(o);
		ctx.state(o);
	}
	ctx.nontrivial_extra += nontrivial;
	for (s, d) in fails {
		ctx.fail(s, d);
	}
}

// ---------------------------------------------------------------------------------------------
// cancellation: "is cancelled (a waiting sound becomes Stopped) if the clock no longer exists" - and only then

// ---------------------------------------------------------------------------------------------
// bystanders: clock B's speed change is scheduled on clock A's time; other clocks (created before A, between A and B, after B)
// come and go meanwhile. Dropping a clock that nothing refers to changes nothing for A and B: after every callback their times
// are those of the run in which nobody was dropped - for every subset of bystanders and every callback at which it is dropped

fn bystanders(ctx: &mut Ctx) {
	let (sr, ibs) = (16u32, 4usize);
	let run = |subset: u32, at: usize, b_first: bool| -> Result<Vec<((u64, f64), (u64, f64))>, String> {
		catch(|| {
			let mut m = rig::manager(sr, ibs, rig::caps(8), MainTrackBuilder::new());
			let mut mk = |m: &mut Manager| {
				let mut c = m.add_clock(ClockSpeed::TicksPerSecond(1.0)).expect("clock");
				c.start();
				c
			};
			let x0 = mk(&mut m);
			// (b_first: B is older than A - the scheduled change then sees A's time of the previous buffer in every run alike)
			let (mut a, x1, mut b);
			if b_first {
				b = mk(&mut m);
				x1 = mk(&mut m);
				a = mk(&mut m);
			} else {
				a = mk(&mut m);
				x1 = mk(&mut m);
				b = mk(&mut m);
			}
			let x2 = mk(&mut m);
			a.set_speed(ClockSpeed::TicksPerSecond(2.0), Tween { duration: Duration::ZERO, ..Default::default() });
			// B: 1 -> 8 ticks/s at A's tick 1 (0.5 s = 2 buffers in)
			b.set_speed(ClockSpeed::TicksPerSecond(8.0), Tween { start_time: StartTime::ClockTime(ClockTime { clock: a.id(), ticks: 1, fraction: 0.0 }), duration: Duration::ZERO, easing: Easing::Linear });
			let mut xs = [Some(x0), Some(x1), Some(x2)];
			let mut buf = vec![0.0f32; 2 * ibs];
			let mut trace = vec![];
			for cb in 0..8 {
				if cb == at {
					for (i, x) in xs.iter_mut().enumerate() {
						if subset & (1 << i) != 0 {
							drop(x.take());
						}
					}
				}
				rig::callback(&mut m, &mut buf, ibs, 2);
				let (ta, tb) = (a.time(), b.time());
				trace.push(((ta.ticks, ta.fraction), (tb.ticks, tb.fraction)));
			}
			trace
		})
	};
	for b_first in [false, true] {
		let Ok(base) = run(0, 0, b_first) else {
			ctx.fail("panic :: bystander clocks", "baseline run".to_string());
			return;
		};
		for subset in 1..8u32 {
			for at in 0..5usize {
				ctx.evals += 1;
				ctx.traces += 1;
				let what = format!("clocks created in the order X0, {}, X2 (all started, 1 tick/s; A at 2 ticks/s); B.set_speed(8 ticks/s at A's tick 1); bystanders {:#05b} (bit i = Xi) dropped before callback {}; 8 callbacks of {} frames at {} Hz", if b_first { "B, X1, A" } else { "A, X1, B" }, subset, at, ibs, sr);
				match run(subset, at, b_first) {
					Ok(t) => {
						if let Some(k) = (0..t.len()).find(|&k| t[k] != base[k]) {
							ctx.fail(
								"dropping a clock that nothing refers to changes the time of other clocks (a speed change scheduled on another clock's time takes effect in a different buffer) :: bystander clocks",
								format!("{}: after callback {} (A, B) = {:?}, without the drop {:?}", what, k, t[k], base[k]),
							);
						} else {
							ctx.nontrivial_extra += 1;
						}
						ctx.state(hash64(&("bystanders", b_first, subset, at)));
					}
					Err(p) => ctx.fail(format!("panic: {} :: bystander clocks", p), what),
				}
			}
		}
		// the baseline itself: B switches in the buffer during which A reaches tick 1 (A before B) or the one after (B before A)
		let tb: Vec<f64> = base.iter().map(|x| x.1 .0 as f64 + x.1 .1).collect();
		let want_first = if b_first { 3 } else { 2 };
		let switched = (1..tb.len()).find(|&k| tb[k] - tb[k - 1] > 1.0);
		if switched != Some(want_first - 1) && switched != Some(want_first) {
			ctx.fail("a speed change scheduled on another clock's time does not take effect when that time is reached :: bystander clocks", format!("B's time after each callback {:?} (A reaches tick 1 at the end of callback 1)", tb));
		}
	}
	ctx.outcome(hash64(&"bystanders"));
}

fn cancellation(which: u64, ctx: &mut Ctx) {
	use crate::probes::SoundHandle;
	let sr = 4u32;
	for subset in 0..8u32 {
		for adopted_first in [false, true] {
			for order_rev in [false, true] {
				ctx.evals += 1;
				ctx.traces += 1;
				let desc = || format!("{}; clocks dropped: {:#05b} (bit i = clock i){}; drop order {}; things adopted before the drop: {}", CANCEL_NAMES[which as usize], subset, "", if order_rev { "2,1,0" } else { "0,1,2" }, adopted_first);
				let mut m = rig::manager(sr, 2, rig::caps(4), MainTrackBuilder::new());
				let mut clocks: Vec<Option<ClockHandle>> = vec![];
				let mut handles: Vec<Box<dyn SoundHandle>> = vec![];
				let first_dec = pacer::count();
				let mut stats = vec![];
				for i in 0..3 {
					let mut c = m.add_clock(ClockSpeed::TicksPerSecond(1.0)).expect("clock");
					c.start();
					let at = StartTime::ClockTime(ClockTime { clock: c.id(), ticks: 2, fraction: 0.0 });
					let v = 0.125 * (1 << i) as f32;
					let h: Box<dyn SoundHandle> = match which {
						0 | 2 => Box::new(m.play(rig::static_data(sr, rig::dc_frames(4, v)).loop_region(Region::from(..)).start_time(at)).expect("play")),
						1 | 3 | 6 => {
							let (dec, st) = ScriptedDecoder::new(rig::dc_frames(8, v), sr, vec![2], 1);
							stats.push(st);
							Box::new(m.play(StreamingSoundData::from_decoder(dec).loop_region(Region::from(..)).start_time(at)).map_err(|_| ()).expect("play"))
						}
						4 => {
							let mut h = m.play(rig::static_data(sr, rig::dc_frames(4, v)).loop_region(Region::from(..))).expect("play");
							h.pause(tw(0.0));
							h.resume_at(at, tw(0.0));
							Box::new(h)
						}
						_ => {
							let mut h = m.play(rig::static_data(sr, rig::dc_frames(4, v)).loop_region(Region::from(..))).expect("play");
							h.set_volume(Value::Fixed(Decibels::SILENCE), Tween { start_time: at, duration: Duration::ZERO, easing: Easing::Linear });
							Box::new(h)
						}
					};
					clocks.push(Some(c));
					handles.push(h);
				}
				let mut buf = vec![0.0f32; 4];
				let pace = |n: u64| {
					if which == 1 || which == 3 {
						pacer::step_all_from(first_dec, n);
					}
				};
				let pace_late = |n: u64| {
					if which == 6 {
						pacer::step_all_from(first_dec, n);
					}
				};
				if adopted_first {
					pace(8);
					rig::callback(&mut m, &mut buf, 2, 2);
				}
				if which == 2 || which == 3 {
					for h in handles.iter_mut() {
						h.pause(tw(0.0));
					}
					pace(8);
					rig::callback(&mut m, &mut buf, 2, 2);
				}
				let idxs: Vec<usize> = if order_rev { vec![2, 1, 0] } else { vec![0, 1, 2] };
				for i in idxs {
					if subset & (1 << i) != 0 {
						clocks[i] = None;
					}
				}
				// callbacks: 2 frames each = 0.5 s; the surviving clocks reach tick 2 after 2 s
				let mut bad = None;
				for cb in 0..8 {
					pace(8);
					let rep = rig::callback(&mut m, &mut buf, 2, 2);
					ctx.transitions += 1;
					if !rep.ok() {
						bad = Some(format!("callback monitor {:?}", rep));
						break;
					}
					for i in 0..3 {
						let st = handles[i].state();
						let dropped = subset & (1 << i) != 0;
						// a clock dropped before it was adopted needs one more callback to go
						let due = if adopted_first || which >= 2 { 1 } else { 2 };
						if which == 5 {
							// a scheduled tween is cancelled by never happening: the sound plays on
							if st != PlaybackState::Playing {
								bad = Some(format!("the sound whose mute waits on clock {} is {:?} after callback {} (expected Playing)", i, st, cb));
							}
							continue;
						}
						if dropped && cb + 1 >= due + 1 && st != PlaybackState::Stopped {
							bad = Some(format!("the thing waiting on dropped clock {} is {:?} after callback {} (expected Stopped)", i, st, cb));
						}
						if !dropped && st == PlaybackState::Stopped {
							bad = Some(format!("the thing waiting on live clock {} was cancelled (Stopped after callback {})", i, cb));
						}
					}
					// nothing that waits on a dropped clock is ever heard
					let heard = buf[0];
					for i in 0..3 {
						let v = 0.125 * (1 << i) as f32;
						let dropped = subset & (1 << i) != 0;
						let bit = ((heard / 0.125).round() as u32 >> i) & 1 == 1;
						if which == 5 {
							if dropped && !bit && cb >= 1 {
								bad = Some(format!("the sound whose mute was scheduled on dropped clock {} is muted (output {} lacks {}) in callback {}", i, heard, v, cb));
							}
							continue;
						}
						if dropped && bit && (heard / 0.125).fract() == 0.0 {
							bad = Some(format!("the thing waiting on dropped clock {} is heard (output {} contains {})", i, heard, v));
						}
					}
					if bad.is_some() {
						break;
					}
				}
				if bad.is_none() {
					let n = m.num_clocks();
					let want = 3 - subset.count_ones() as usize;
					if n != want {
						bad = Some(format!("num_clocks() = {} but {} clock handles are alive", n, want));
					}
					// the starved streams get their data now: the survivors' start times came and went meanwhile
					if which == 6 {
						for _ in 0..2 {
							pace_late(8);
							rig::callback(&mut m, &mut buf, 2, 2);
						}
					}
					// the survivors (not paused variants) must have started by now: 4 s > tick 2
					if which == 6 || which == 0 || which == 1 || which == 4 || which == 5 {
						let heard = buf[0];
						let mut want_sum = 0.0f32;
						for i in 0..3 {
							// (the mute variant: what is still heard are the sounds on the DROPPED clocks)
							if (subset & (1 << i) == 0) != (which == 5) {
								want_sum += 0.125 * (1 << i) as f32;
							}
						}
						if (heard - want_sum).abs() > 1e-6 {
							bad = Some(format!("after 4 s the output is {} but the things on the surviving clocks sum to {}", heard, want_sum));
						}
					}
				}
				if let Some(b) = bad {
					ctx.fail(format!("a thing scheduled on a clock is cancelled exactly when its clock no longer exists: violated :: cancellation, {}", CANCEL_NAMES[which as usize]), format!("{}; {}", desc(), b));
				}
				ctx.nontrivial_extra += 1;
				ctx.state(hash64(&(which, subset, adopted_first, order_rev)));
				// teardown
				for h in handles.iter_mut() {
					h.stop(tw(0.0));
				}
				pace(8);
				pace_late(8);
				rig::callback(&mut m, &mut buf, 2, 2);
				drop(m);
				for (k, st) in stats.iter().enumerate() {
					crate::probes::reap_decoder(first_dec + k, st);
				}
			}
		}
	}
	ctx.outcome(hash64(&("cancel", which)));
}

// ---------------------------------------------------------------------------------------------
// a speed that follows a modulator: "a speed change takes effect when it is due" - the modulator is updated before the
// clocks in every internal buffer, so the clock runs at the speed the modulator has in that buffer

fn modulated_speed(ibs: usize, ctx: &mut Ctx) {
	use kira::modulator::tweener::TweenerBuilder;
	use kira::Mapping;
	let sr = 4u32;
	let dt = 1.0 / sr as f64;
	for set_at in 0..6usize {
		for dur in [0.0f64, 1.0] {
			for frames in [ibs, ibs + 1, 2 * ibs] {
				ctx.evals += 1;
				ctx.traces += 1;
				let desc = || format!("clock speed = mapping(tweener) with 0..1 -> 2..6 ticks/s, tweener 0 -> 1 over {} s set before callback {}, callbacks of {} frames, internal buffer {}, sample rate {}", dur, set_at, frames, ibs, sr);
				let mut m = rig::manager(sr, ibs, rig::caps(2), MainTrackBuilder::new());
				let mut tw_h = m.add_modulator(TweenerBuilder { initial_value: 0.0 }).expect("tweener");
				let speed: Value<ClockSpeed> = Value::FromModulator {
					id: tw_h.id(),
					mapping: Mapping { input_range: (0.0, 1.0), output_range: (ClockSpeed::TicksPerSecond(2.0), ClockSpeed::TicksPerSecond(6.0)), easing: Easing::Linear },
				};
				let mut clock = m.add_clock(speed).expect("clock");
				clock.start();
				let mut buf = vec![0.0f32; 64];
				// reference: tweener value per internal buffer, clock time accumulated with the speed of that buffer
				let mut tv = ParamModel::new(0.0f64);
				let (mut ticks, mut frac) = (0u64, 0.0f64);
				let mut shown = (0u64, 0.0f64);
				let mut bad = None;
				for cb in 0..8usize {
					if cb == set_at {
						tw_h.set(1.0, Tween { start_time: StartTime::Immediate, duration: Duration::from_secs_f64(dur), easing: Easing::Linear });
						tv.set(1.0, dur, Easing::Linear, SM::Imm);
					}
					let rep = rig::callback(&mut m, &mut buf, frames, 2);
					ctx.transitions += 1;
					if !rep.ok() {
						bad = Some(format!("callback monitor {:?}", rep));
						break;
					}
					// the handle shows the time as of the start of this callback
					let t = clock.time();
					if (t.ticks, t.fraction) != shown && (t.ticks as f64 + t.fraction - shown.0 as f64 - shown.1).abs() > 1e-9 {
						bad = Some(format!("at the start of callback {} the clock shows ({}, {}), expected ({}, {})", cb, t.ticks, t.fraction, shown.0, shown.1));
						break;
					}
					let mut left = frames;
					while left > 0 {
						let n = left.min(ibs);
						left -= n;
						tv.update(dt * n as f64, None);
						let speed = 2.0 + 4.0 * tv.value;
						frac += speed * dt * n as f64;
						while frac >= 1.0 {
							frac -= 1.0;
							ticks += 1;
						}
					}
					shown = (ticks, frac);
				}
				if let Some(b) = bad {
					ctx.fail("a clock whose speed follows a modulator does not advance by the modulator's speed in the same buffer :: modulated speed", format!("{}; {}", desc(), b));
				}
				ctx.nontrivial_extra += 1;
				ctx.state(hash64(&("modspeed", ibs, set_at, dur.to_bits(), frames)));
			}
		}
	}
	ctx.outcome(hash64(&("modspeed", ibs)));
}
