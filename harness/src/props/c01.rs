//! C01 — the audio callback is real-time safe and its output is always well-formed.
//!
//! E1 under the always-on monitors (panic, hang watchdog, allocation/free inside the callback,
//! every sample finite and in [-1,1], extra channels silent, mono = mean):
//!   F1 sound boundaries (static and streaming): lengths x sound rates x slices (incl. empty, inverted,
//!      beyond the data) x start positions x loop regions (incl. empty, inverted, beyond) x reverse x
//!      rates x one handle command with boundary arguments;
//!   FX extreme finite values (rates 1e9 / 1e300, seeks of +-1e12 s, +-1e30 dB, ...), one per case;
//!   F2 effect boundaries through the mixer;
//!   F3 API histories over a 16-letter alphabet with all capacities 1 (and 0);
//!   F4 the same histories rendered with 1..8 channels.

use crate::engine::{hash64, Check, Ctx, Level, Tier};
use crate::json::J;
use crate::pacer;
use crate::probes::{DecStats, ScriptedDecoder, SoundHandle};
use crate::rig::{self, catch, Manager};
use kira::clock::ClockSpeed;
use kira::effect::compressor::CompressorBuilder;
use kira::effect::delay::DelayBuilder;
use kira::effect::distortion::{DistortionBuilder, DistortionKind};
use kira::effect::eq_filter::{EqFilterBuilder, EqFilterKind};
use kira::effect::filter::{FilterBuilder, FilterMode};
use kira::effect::panning_control::PanningControlBuilder;
use kira::effect::reverb::ReverbBuilder;
use kira::effect::volume_control::VolumeControlBuilder;
use kira::modulator::lfo::LfoBuilder;
use kira::modulator::tweener::TweenerBuilder;
use kira::sound::streaming::StreamingSoundData;
use kira::sound::{EndPosition, PlaybackPosition, Region};
use kira::track::{MainTrackBuilder, SendTrackBuilder, SpatialTrackBuilder, TrackBuilder};
use kira::{Capacities, Decibels, Easing, Frame, Mapping, Panning, PlaybackRate, StartTime, Tween, Value};
use std::any::Any;
use std::sync::Arc;
use std::time::Duration;

pub struct C01;

const SR: u32 = 8;
/// F3/F4 run at a realistic device rate (the reverb's comb lengths scale with sample_rate/44100)
const SR3: u32 = 8000;
const LENS: [usize; 4] = [0, 1, 2, 5];

#[derive(Debug, Clone, Copy, PartialEq)]
enum Reg {
	None,
	Whole,
	Empty,
	Inverted,
	Beyond,
	Inner,
	EndAtLen,
}
const SLICES: [Reg; 5] = [Reg::None, Reg::Empty, Reg::Inner, Reg::Inverted, Reg::Beyond];
const LOOPS: [Reg; 6] = [Reg::None, Reg::Whole, Reg::Empty, Reg::Inverted, Reg::Beyond, Reg::EndAtLen];
const RATES: [f64; 5] = [1.0, -1.0, 0.0, 0.5, 3.0];

fn region(r: Reg, len: usize) -> Option<Region> {
	let s = |a: usize, b: usize| {
		Some(Region {
			start: PlaybackPosition::Samples(a),
			end: EndPosition::Custom(PlaybackPosition::Samples(b)),
		})
	};
	match r {
		Reg::None => None,
		Reg::Whole => Some(Region::from(..)),
		Reg::Empty => s(1, 1),
		Reg::Inverted => s(3, 1),
		Reg::Beyond => s(len, len + 2),
		Reg::Inner => s(1, 3),
		Reg::EndAtLen => s(0, len),
	}
}
fn slice_region(r: Reg, len: usize) -> Option<Region> {
	match r {
		Reg::Empty => region(Reg::Empty, len).map(|_| Region {
			start: PlaybackPosition::Samples(2),
			end: EndPosition::Custom(PlaybackPosition::Samples(2)),
		}),
		Reg::Beyond => Some(Region {
			start: PlaybackPosition::Samples(0),
			end: EndPosition::Custom(PlaybackPosition::Samples(len + 2)),
		}),
		other => region(other, len),
	}
}

fn tw(s: f64) -> Tween {
	Tween {
		start_time: StartTime::Immediate,
		duration: Duration::from_secs_f64(s),
		easing: Easing::Linear,
	}
}

const CMDS: [&str; 18] = [
	"none",
	"seek_to(-1)",
	"seek_to(0)",
	"seek_to(len)",
	"seek_by(+2.5)",
	"seek_by(-2.5)",
	"set_loop_region(empty 1..1)",
	"set_loop_region(inverted 3..1)",
	"set_loop_region(None)",
	"set_volume(-60 dB, instant)",
	"set_volume(+40 dB, instant)",
	"set_panning(7, instant)",
	"set_panning(-7, 0.5 s)",
	"set_playback_rate(0, instant)",
	"set_playback_rate(-0.0, instant)",
	"pause(0) ; resume(1e9 s)",
	"stop(1e9 s)",
	"pause(instant)",
];

fn apply_cmd(h: &mut dyn SoundHandle, c: usize, len: usize) {
	let sec = |f: f64| f / SR as f64;
	match c {
		1 => h.seek_to(-1.0),
		2 => h.seek_to(0.0),
		3 => h.seek_to(sec(len as f64)),
		4 => h.seek_by(sec(2.5)),
		5 => h.seek_by(-sec(2.5)),
		6 => h.set_loop_region_opt(region(Reg::Empty, len)),
		7 => h.set_loop_region_opt(region(Reg::Inverted, len)),
		8 => h.set_loop_region_opt(None),
		9 => h.set_volume(Value::Fixed(Decibels(-60.0)), tw(0.0)),
		10 => h.set_volume(Value::Fixed(Decibels(40.0)), tw(0.0)),
		11 => h.set_panning(Value::Fixed(Panning(7.0)), tw(0.0)),
		12 => h.set_panning(Value::Fixed(Panning(-7.0)), tw(0.5)),
		13 => h.set_playback_rate(Value::Fixed(PlaybackRate(0.0)), tw(0.0)),
		14 => h.set_playback_rate(Value::Fixed(PlaybackRate(-0.0)), tw(0.0)),
		15 => {
			h.pause(tw(0.0));
			h.resume(tw(1e9));
		}
		16 => h.stop(tw(1e9)),
		17 => h.pause(tw(0.0)),
		_ => {}
	}
}

const EXTREMES: [&str; 14] = [
	"playback_rate(1e9) at build time",
	"playback_rate(1e300) at build time",
	"set_playback_rate(1e9, instant) on a looping sound",
	"set_playback_rate(1e300, instant) on a looping sound",
	"set_playback_rate(-1e300, 1 s) on a looping sound",
	"seek_to(1e12) on a looping sound",
	"seek_by(-1e12) on a looping sound",
	"seek_to(1e300)",
	"set_volume(1e30 dB)",
	"set_volume(-1e30 dB, 1e9 s)",
	"set_panning(1e30)",
	"start_position(1e15 samples)",
	"loop_region(0..1e15 samples)",
	"Delayed start of 1e15 s",
];

// ---------------------------------------------------------------------------------------------
// case layout

fn f1_cases() -> u64 {
	2 * LENS.len() as u64 * SLICES.len() as u64 * LOOPS.len() as u64
}
fn fx_cases() -> u64 {
	2 * EXTREMES.len() as u64
}
const F2_EFFECTS: [&str; 9] = ["filter", "eq", "delay", "delay+nested", "reverb", "compressor", "distortion", "volume", "panning"];
fn f2_cases() -> u64 {
	F2_EFFECTS.len() as u64 * 3
}
const F6_EFFECTS: [&str; 8] = ["compressor", "delay", "distortion", "eq", "filter", "panning", "reverb", "volume"];
const F3_LETTERS: [&str; 16] = [
	"play short static sound on main",
	"play looping static sound on the newest sub-track",
	"play streaming sound on main",
	"add sub-track",
	"add nested sub-track",
	"add send track",
	"add spatial track",
	"add clock (started)",
	"add tweener",
	"add LFO linked volume sound",
	"add listener",
	"drop newest handle",
	"stop newest sound",
	"pause/resume newest track",
	"cb(1)",
	"cb(ibs+1)",
];
fn f3_cases() -> u64 {
	2 * 16 * 16 // capacity variant x first two letters
}

impl Check for C01 {
	fn id(&self) -> &'static str {
		"C01"
	}
	fn level(&self) -> Level {
		Level::Exploration
	}
	fn num_cases(&self, _tier: Tier) -> u64 {
		f1_cases() + fx_cases() + f2_cases() + f3_cases() + 1 + F6_EFFECTS.len() as u64 + 1 + 2
	}
	fn describe(&self, tier: Tier, idx: u64) -> String {
		if idx > f1_cases() + fx_cases() + f2_cases() + f3_cases() + 1 + F6_EFFECTS.len() as u64 {
			let j = idx - (f1_cases() + fx_cases() + f2_cases() + f3_cases() + 2 + F6_EFFECTS.len() as u64);
			return format!("F8 the callback monitors under the create / remove race (shared with C08): E2 {}", super::c08::e2_name(super::c08::E2_CASES + super::c08::E2N_CASES + j));
		}
		if idx == f1_cases() + fx_cases() + f2_cases() + f3_cases() + 1 + F6_EFFECTS.len() as u64 {
			return format!("F7 every public track-creation path {:?} x every built-in effect family x parent adopted / not yet adopted: the first callbacks of a new track's effects", F7_PATHS);
		}
		if idx > f1_cases() + fx_cases() + f2_cases() + f3_cases() {
			return format!("F6 effect handle setters: {} - every parameter tweened between every ordered pair of its lattice values with tweens of 0, 1.5 and 6 internal buffers", F6_EFFECTS[(idx - f1_cases() - fx_cases() - f2_cases() - f3_cases() - 1) as usize]);
		}
		if idx == f1_cases() + fx_cases() + f2_cases() + f3_cases() {
			return "F5 output stage: a DC sound with (left, right) in a lattice of in-range / over-full-scale / huge values x volume {0 dB, +20 dB, +1000 dB} x 1..8 output channels".into();
		}
		let mut i = idx;
		if i < f1_cases() {
			let (streaming, len, sl, lp) = dec_f1(i);
			return format!(
				"F1 {} sound of {} frames, slice {:?}, loop region {:?}: sound rate {{sr{}}} x start {{0,1,len-1,len,len+3}} x reverse x rate {:?} x {} handle commands, callbacks of 1,3,5 frames",
				if streaming { "streaming" } else { "static" },
				len,
				sl,
				lp,
				tier.pick("", ", 2sr"),
				RATES,
				CMDS.len()
			);
		}
		i -= f1_cases();
		if i < fx_cases() {
			return format!("FX extreme finite value: {} ({})", EXTREMES[(i / 2) as usize], if i % 2 == 0 { "static" } else { "streaming" });
		}
		i -= fx_cases();
		if i < f2_cases() {
			return format!("F2 effect boundaries through the mixer: {} at sample rate {}", F2_EFFECTS[(i / 3) as usize], [8000, 44100, 192000][(i % 3) as usize]);
		}
		i -= f2_cases();
		format!(
			"F3/F4 API histories: capacities all {}, first letters '{}', '{}', all continuations to depth {} ; depth-3 prefixes also with 1..8 channels",
			if i / 256 == 0 { 1 } else { 0 },
			F3_LETTERS[((i / 16) % 16) as usize],
			F3_LETTERS[(i % 16) as usize],
			tier.pick(4, 5)
		)
	}
	fn sig_hint(&self, _tier: Tier, idx: u64) -> String {
		if idx > f1_cases() + fx_cases() + f2_cases() + f3_cases() + 1 + F6_EFFECTS.len() as u64 {
			return "F8 create / remove race".into();
		}
		if idx == f1_cases() + fx_cases() + f2_cases() + f3_cases() + 1 + F6_EFFECTS.len() as u64 {
			return "F7 creation paths".into();
		}
		if idx > f1_cases() + fx_cases() + f2_cases() + f3_cases() {
			return format!("F6 {}", F6_EFFECTS[(idx - f1_cases() - fx_cases() - f2_cases() - f3_cases() - 1) as usize]);
		}
		if idx == f1_cases() + fx_cases() + f2_cases() + f3_cases() {
			return "F5 output stage".into();
		}
		let mut i = idx;
		if i < f1_cases() {
			let (streaming, len, sl, lp) = dec_f1(i);
			return format!("F1 {} len {} slice {:?} loop {:?}", if streaming { "streaming" } else { "static" }, len, sl, lp);
		}
		i -= f1_cases();
		if i < fx_cases() {
			return format!("extreme value: {} ({})", EXTREMES[(i / 2) as usize], if i % 2 == 0 { "static" } else { "streaming" });
		}
		i -= fx_cases();
		if i < f2_cases() {
			return format!("F2 {}", F2_EFFECTS[(i / 3) as usize]);
		}
		"F3 history".into()
	}
	fn rule(&self) -> String {
		"F1: {static, streaming} x length {0,1,2,5} x slice {none, empty, inner, inverted, beyond the data} x loop {none, whole, empty, inverted, beyond, end==len} x sound rate x start position {0,1,len-1,len,len+3} x reverse x rate {1,-1,0,0.5,3} x 18 handle commands with boundary arguments; FX: 14 extreme finite values (1e9, 1e300, +-1e12 s, +-1e30 dB, 1e15 samples) x {static, streaming}, one per case; F2: 9 effect families, each parameter at documented min / max / default / 0 / just outside, x sample rate {8000, 44100, 192000} x 5 input signals x callbacks {1, ibs, 2*ibs+1}, then the device rate changed to each of the other two rates and the same callbacks again; F3: all API histories to depth 4 (5) over 16 letters with all capacities 1, and with all capacities 0; F4: every depth-3 history with 1..8 channels (mono must be the mean of the stereo rendering, extra channels silent); F6: every setter of every built-in effect handle, value tweened between every ordered pair of a 3..4-point lattice (increasing and decreasing) with tweens of 0 / 1.5 / 6 internal buffers; F8: E2 long race game(3 creates of resources that are removable at once) || audio(4 callbacks) for sounds and sub-tracks at capacity 1; F7: 8 public track-creation paths x 9 effect families x {parent adopted, parent created in the same interval} with a sound on the new track, 3 callbacks; every sequence of <= 3 clock commands {start, pause, stop, set_speed} in one interval on a fresh / running / paused clock; F5: the output stage alone: DC frames (l, r) over {0, +-0.5, +-1.5, +-3e38}^2 x volume {0, +20, +1000 dB} x 1..8 channels. Oracle = the callback monitors. non-trivial = callbacks that produced non-silent audio or ran after at least one command".into()
	}
	fn assumptions(&self) -> Vec<String> {
		vec![
			"'promptly' is decided as: the callback returns within 2 s for <= 16 frames (watchdog), performs no allocation / free; wall-clock latency itself is not measured".into(),
			"a panic raised on the caller's thread by a builder / play() for an invalid argument is not a C01 verdict (counted as caller_thread_panics)".into(),
			"the interleavings of calls with callbacks are explored under C07/C08 (E2); here calls happen between callbacks, except F8: the long create / remove race of C08 (3 creates || 4 callbacks, preemption bound 2 / 3, free switches between operations) run under the callback monitors".into(),
		]
	}
	fn extra_evidence(&self, _tier: Tier) -> Vec<(String, J)> {
		vec![("f3_alphabet".into(), J::arr_str(F3_LETTERS.iter().map(|s| s.to_string()))), ("extremes".into(), J::arr_str(EXTREMES.iter().map(|s| s.to_string())))]
	}
	fn case_timeout_ms(&self, tier: Tier) -> u64 {
		// (a case normally takes a second or two; a change that makes a decoder thread or a callback spin costs one limit per case)
		tier.pick(45_000, 300_000)
	}
	fn case_timeout_ms_for(&self, tier: Tier, idx: u64) -> u64 {
		// F8 is an exploration of tens of thousands of schedules
		if idx > f1_cases() + fx_cases() + f2_cases() + f3_cases() + 1 + F6_EFFECTS.len() as u64 {
			return 900_000;
		}
		self.case_timeout_ms(tier)
	}
	fn run_case(&self, tier: Tier, idx: u64, ctx: &mut Ctx) {
		if idx > f1_cases() + fx_cases() + f2_cases() + f3_cases() + 1 + F6_EFFECTS.len() as u64 {
			// capacity 1: sounds on the main track, sub-tracks
			super::c08::e2_long(tier, idx - (f1_cases() + fx_cases() + f2_cases() + f3_cases() + 2 + F6_EFFECTS.len() as u64), ctx);
			return;
		}
		if idx == f1_cases() + fx_cases() + f2_cases() + f3_cases() + 1 + F6_EFFECTS.len() as u64 {
			f7(ctx);
			f9(ctx);
			f10(ctx);
			return;
		}
		if idx > f1_cases() + fx_cases() + f2_cases() + f3_cases() {
			f6((idx - f1_cases() - fx_cases() - f2_cases() - f3_cases() - 1) as usize, ctx);
			return;
		}
		if idx == f1_cases() + fx_cases() + f2_cases() + f3_cases() {
			f5(ctx);
			return;
		}
		let mut i = idx;
		if i < f1_cases() {
			let (streaming, len, sl, lp) = dec_f1(i);
			if streaming {
				pacer::set_mode(pacer::Mode::Pacer);
			}
			f1(tier, streaming, len, sl, lp, ctx);
			return;
		}
		i -= f1_cases();
		if i < fx_cases() {
			if i % 2 == 1 {
				pacer::set_mode(pacer::Mode::Pacer);
			}
			fx(i / 2, i % 2 == 1, ctx);
			return;
		}
		i -= fx_cases();
		if i < f2_cases() {
			f2((i / 3) as usize, [8000, 44100, 192000][(i % 3) as usize], ctx);
			return;
		}
		i -= f2_cases();
		pacer::set_mode(pacer::Mode::Pacer);
		f3(tier, i / 256 == 1, ((i / 16) % 16) as u8, (i % 16) as u8, ctx);
	}
}

fn dec_f1(i: u64) -> (bool, usize, Reg, Reg) {
	let lp = LOOPS[(i % 6) as usize];
	let sl = SLICES[((i / 6) % 5) as usize];
	let len = LENS[((i / 30) % 4) as usize];
	(i / 120 == 1, len, sl, lp)
}

// ---------------------------------------------------------------------------------------------

struct Playing {
	m: Manager,
	h: Box<dyn SoundHandle>,
	stream: Option<(usize, Arc<DecStats>)>,
}

fn coded(len: usize) -> Vec<Frame> {
	(0..len).map(|i| Frame::new((i + 1) as f32 / 8.0, -((i + 1) as f32) / 16.0)).collect()
}

#[allow(clippy::too_many_arguments)]
fn play_sound(streaming: bool, len: usize, sound_rate: u32, sl: Option<Region>, lp: Option<Region>, start: PlaybackPosition, reverse: bool, rate: f64, start_time: StartTime) -> Result<Playing, String> {
	let mut m = rig::manager(SR, 4, rig::caps(4), MainTrackBuilder::new());
	if !streaming {
		let mut d = rig::static_data(sound_rate, coded(len));
		if sl.is_some() {
			d = d.slice(sl);
		}
		d = d.start_position(start).reverse(reverse).playback_rate(PlaybackRate(rate)).loop_region(lp).start_time(start_time);
		let h = m.play(d).map_err(|_| "play failed".to_string())?;
		Ok(Playing {
			m,
			h: Box::new(h),
			stream: None,
		})
	} else {
		let first = pacer::count();
		let (dec, stats) = ScriptedDecoder::new(coded(len), sound_rate, vec![2, 1], 2);
		let mut d = StreamingSoundData::from_decoder(dec);
		if sl.is_some() {
			d = d.slice(sl);
		}
		d = d.start_position(start).playback_rate(PlaybackRate(rate)).loop_region(lp).start_time(start_time);
		match m.play(d) {
			Ok(h) => Ok(Playing {
				m,
				h: Box::new(h),
				stream: Some((first, stats)),
			}),
			Err(_) => {
				if pacer::count() > first {
					crate::probes::reap_decoder(first, &stats);
				}
				Err("play failed".into())
			}
		}
	}
}

fn finish(p: Playing) {
	let Playing { mut m, mut h, stream } = p;
	if let Some((first, stats)) = stream {
		h.stop(tw(0.0));
		let mut b = [0.0f32; 4];
		let _ = catch(|| rig::callback(&mut m, &mut b, 1, 2));
		drop(m);
		drop(h);
		crate::probes::reap_decoder(first, &stats);
	}
}

/// run callbacks of the given sizes under the monitors; reports into ctx with `feature` as the signature's tail
fn monitored(p: &mut Playing, sizes: &[usize], ctx: &mut Ctx, feature: &str, detail: &dyn Fn() -> String) -> bool {
	let mut buf = vec![0.0f32; 64];
	for &n in sizes {
		if let Some((first, _)) = &p.stream {
			// (a decoder thread stuck inside one iteration is not the callback's problem: the pacer gives up after 5 s)
			pacer::step(*first, (n as u64) * 4 + 6);
		}
		let rep = rig::callback(&mut p.m, &mut buf, n, 2);
		if !rep.ok() {
			rig::report_cb(ctx, &rep, feature, detail);
			return false;
		}
		if buf[..2 * n].iter().any(|s| *s != 0.0) {
			ctx.nontrivial_extra += 1;
		}
	}
	true
}

fn f1(tier: Tier, streaming: bool, len: usize, sl: Reg, lp: Reg, ctx: &mut Ctx) {
	let sound_rates: &[u32] = tier.pick(&[SR], &[SR, 2 * SR]);
	let starts = [0usize, 1, len.saturating_sub(1), len, len + 3];
	let kind = if streaming { "streaming" } else { "static" };
	for &srate in sound_rates {
		for &start in &starts {
			for reverse in [false, true] {
				if streaming && reverse {
					continue;
				}
				for &rate in &RATES {
					for cmd in 0..CMDS.len() {
						if tier == Tier::Quick && cmd > 0 && (start != 0 || rate != 1.0) && (cmd + start) % 3 != 0 {
							continue;
						}
						ctx.evals += 1;
						let detail = || {
							format!(
								"{} sound of {} frames (sound rate {}, device rate {}), slice {:?}, loop region {:?}, start position {} samples, reverse {}, playback rate {}, then '{}', callbacks of 1,3,5 frames",
								kind, len, srate, SR, slice_region(sl, len), region(lp, len), start, reverse, rate, CMDS[cmd]
							)
						};
						// the minimal distinguishing feature for signatures
						let feature = format!(
							"{} {}{}{}",
							kind,
							match sl {
								Reg::None => String::new(),
								other => format!("slice={:?} ", other),
							},
							match lp {
								Reg::None | Reg::Whole | Reg::EndAtLen => String::new(),
								other => format!("loop_region={:?} ", other),
							},
							if matches!(cmd, 6 | 7) { CMDS[cmd] } else { "" }
						);
						let built = catch(|| play_sound(streaming, len, srate, slice_region(sl, len), region(lp, len), PlaybackPosition::Samples(start), reverse, rate, StartTime::Immediate));
						let mut p = match built {
							Ok(Ok(p)) => p,
							Ok(Err(_)) => continue,
							Err(_) => {
								ctx.count("caller_thread_panics", 1);
								continue;
							}
						};
						let r = catch(|| {
							if !monitored(&mut p, &[1], ctx, feature.trim(), &detail) {
								return false;
							}
							apply_cmd(p.h.as_mut(), cmd, len);
							monitored(&mut p, &[3, 5], ctx, feature.trim(), &detail)
						});
						let okr = *r.as_ref().unwrap_or(&false);
						if let Err(pn) = r {
							ctx.fail(format!("panic outside the callback monitors: {} :: {}", pn, feature.trim()), detail());
						}
						ctx.outcome(hash64(&(streaming, sl as u8, lp as u8, okr)));
						finish(p);
					}
				}
			}
		}
	}
}

fn fx(which: u64, streaming: bool, ctx: &mut Ctx) {
	ctx.evals += 1;
	let name = EXTREMES[which as usize];
	let kind = if streaming { "streaming" } else { "static" };
	let detail = || format!("{} sound of 5 frames, {}; callbacks of 1,3,5 frames", kind, name);
	let feature = format!("{} extreme value: {}", kind, name);
	let len = 5;
	let whole = Some(Region::from(..));
	let built = catch(|| match which {
		0 => play_sound(streaming, len, SR, None, whole, PlaybackPosition::Samples(0), false, 1e9, StartTime::Immediate),
		1 => play_sound(streaming, len, SR, None, whole, PlaybackPosition::Samples(0), false, 1e300, StartTime::Immediate),
		11 => play_sound(streaming, len, SR, None, None, PlaybackPosition::Samples(1_000_000_000_000_000), false, 1.0, StartTime::Immediate),
		12 => play_sound(
			streaming,
			len,
			SR,
			None,
			Some(Region {
				start: PlaybackPosition::Samples(0),
				end: EndPosition::Custom(PlaybackPosition::Samples(1_000_000_000_000_000)),
			}),
			PlaybackPosition::Samples(0),
			false,
			1.0,
			StartTime::Immediate,
		),
		13 => play_sound(streaming, len, SR, None, whole, PlaybackPosition::Samples(0), false, 1.0, StartTime::Delayed(Duration::from_secs(1_000_000_000_000_000))),
		7 => play_sound(streaming, len, SR, None, None, PlaybackPosition::Samples(0), false, 1.0, StartTime::Immediate),
		_ => play_sound(streaming, len, SR, None, whole, PlaybackPosition::Samples(0), false, 1.0, StartTime::Immediate),
	});
	let mut p = match built {
		Ok(Ok(p)) => p,
		Ok(Err(_)) => return,
		Err(_) => {
			ctx.count("caller_thread_panics", 1);
			return;
		}
	};
	let r = catch(|| {
		if !monitored(&mut p, &[1], ctx, &feature, &detail) {
			return;
		}
		match which {
			2 => p.h.set_playback_rate(Value::Fixed(PlaybackRate(1e9)), tw(0.0)),
			3 => p.h.set_playback_rate(Value::Fixed(PlaybackRate(1e300)), tw(0.0)),
			4 => p.h.set_playback_rate(Value::Fixed(PlaybackRate(-1e300)), tw(1.0)),
			5 => p.h.seek_to(1e12),
			6 => p.h.seek_by(-1e12),
			7 => p.h.seek_to(1e300),
			8 => p.h.set_volume(Value::Fixed(Decibels(1e30)), tw(0.0)),
			9 => p.h.set_volume(Value::Fixed(Decibels(-1e30)), tw(1e9)),
			10 => p.h.set_panning(Value::Fixed(Panning(1e30)), tw(0.0)),
			_ => {}
		}
		monitored(&mut p, &[3, 5], ctx, &feature, &detail);
	});
	if let Err(pn) = r {
		ctx.fail(format!("panic outside the callback monitors: {} :: {}", pn, feature), detail());
	}
	ctx.outcome(hash64(&(which, streaming)));
	finish(p);
}

// ---------------------------------------------------------------------------------------------
// F2: effect parameter boundaries through the mixer

fn f2(which: usize, sr: u32, ctx: &mut Ctx) {
	let ibs = 4usize;
	// every parameter is taken through its boundary values ONE AT A TIME (the others stay at their defaults),
	// plus the pairwise combination of the two "worst" values of each pair of parameters
	let f64v: Vec<f64> = vec![0.0, -1.0, 1.0, 2.0, 20.0, 20000.0, sr as f64 / 2.0, sr as f64, 1e-30, 1e30, -1e30];
	let dbv: Vec<f32> = vec![0.0, -60.0, -60.000004, -59.999996, 6.0, 24.0, 100.0, -1e30, 1e30];
	let mixv: Vec<f32> = vec![1.0, 0.0, 0.5, -1.0, 2.0, 1e30];
	let durv: Vec<Duration> = vec![Duration::ZERO, Duration::from_nanos(1), Duration::from_micros(50), Duration::from_millis(10), Duration::from_secs(100)];
	type Mk = Box<dyn Fn() -> TrackBuilder>;
	let mut scenes: Vec<(String, String, Mk)> = vec![]; // (signature feature, full description, builder)
	fn cls64(v: f64) -> &'static str {
		if v == 0.0 {
			"0"
		} else if v.abs() >= 1e20 {
			if v > 0.0 {
				"+huge"
			} else {
				"-huge"
			}
		} else if v.abs() <= 1e-20 {
			"tiny"
		} else if v < 0.0 {
			"negative"
		} else {
			"ordinary"
		}
	}
	fn clsdb(v: f32) -> &'static str {
		if v.abs() >= 1e20 {
			if v > 0.0 {
				"+huge"
			} else {
				"-huge"
			}
		} else if v <= -60.0 {
			"<=-60dB"
		} else if v >= 100.0 {
			">=100dB"
		} else {
			"ordinary"
		}
	}
	fn clsdur(d: Duration) -> &'static str {
		if d.is_zero() {
			"0"
		} else if d < Duration::from_micros(10) {
			"1ns"
		} else {
			"ordinary"
		}
	}
	macro_rules! one {
		($eff:expr, $param:expr, $vals:expr, $cls:expr, $mk:expr) => {
			for v in $vals.iter().copied() {
				let mk = $mk;
				scenes.push((format!("{} {}={}", $eff, $param, $cls(v)), format!("{} with {} = {:?} (other parameters default)", $eff, $param, v), Box::new(move || mk(v))));
			}
		};
	}
	match which {
		0 => {
			for mode in [FilterMode::LowPass, FilterMode::BandPass, FilterMode::HighPass, FilterMode::Notch] {
				one!(format!("filter {:?}", mode), "cutoff", f64v, cls64, move |v: f64| TrackBuilder::new().with_effect(FilterBuilder::new().mode(mode).cutoff(v)));
				one!(format!("filter {:?}", mode), "resonance", f64v, cls64, move |v: f64| TrackBuilder::new().with_effect(FilterBuilder::new().mode(mode).resonance(v)));
				one!(format!("filter {:?}", mode), "mix", mixv, |v: f32| cls64(v as f64), move |v: f32| TrackBuilder::new().with_effect(FilterBuilder::new().mode(mode).mix(v)));
				one!(format!("filter {:?}", mode), "cutoff at resonance 1", f64v, cls64, move |v: f64| TrackBuilder::new().with_effect(FilterBuilder::new().mode(mode).resonance(1.0).cutoff(v)));
			}
		}
		1 => {
			for kind in [EqFilterKind::Bell, EqFilterKind::LowShelf, EqFilterKind::HighShelf] {
				one!(format!("eq {:?}", kind), "frequency", f64v, cls64, move |v: f64| TrackBuilder::new().with_effect(EqFilterBuilder::new(kind, v, 6.0, 1.0)));
				one!(format!("eq {:?}", kind), "gain", dbv, clsdb, move |v: f32| TrackBuilder::new().with_effect(EqFilterBuilder::new(kind, 1000.0, v, 1.0)));
				one!(format!("eq {:?}", kind), "q", f64v, cls64, move |v: f64| TrackBuilder::new().with_effect(EqFilterBuilder::new(kind, 1000.0, 6.0, v)));
				one!(format!("eq {:?}", kind), "gain at frequency sr", dbv, clsdb, move |v: f32| TrackBuilder::new().with_effect(EqFilterBuilder::new(kind, sr as f64, v, 0.0)));
			}
		}
		2 => {
			one!("delay", "delay_time", durv, clsdur, |v: Duration| TrackBuilder::new().with_effect(DelayBuilder::new().delay_time(v)));
			one!("delay", "feedback", dbv, clsdb, |v: f32| TrackBuilder::new().with_effect(DelayBuilder::new().delay_time(Duration::from_millis(1)).feedback(v)));
			one!("delay", "mix", mixv, |v: f32| cls64(v as f64), |v: f32| TrackBuilder::new().with_effect(DelayBuilder::new().delay_time(Duration::from_millis(1)).mix(v)));
			one!("delay", "feedback with delay_time 0", dbv, clsdb, |v: f32| TrackBuilder::new().with_effect(DelayBuilder::new().delay_time(Duration::ZERO).feedback(v)));
		}
		3 => {
			one!("delay with nested delay+filter in the feedback loop", "inner delay_time", durv, clsdur, move |v: Duration| {
				TrackBuilder::new().with_effect(
					DelayBuilder::new()
						.delay_time(Duration::from_millis(1))
						.feedback(0.0)
						.with_feedback_effect(DelayBuilder::new().delay_time(v))
						.with_feedback_effect(FilterBuilder::new().cutoff(sr as f64)),
				)
			});
			one!("delay with nested delay+filter in the feedback loop", "outer delay_time", durv, clsdur, move |v: Duration| {
				TrackBuilder::new().with_effect(
					DelayBuilder::new()
						.delay_time(v)
						.feedback(6.0)
						.with_feedback_effect(DelayBuilder::new().delay_time(Duration::from_micros(300)))
						.with_feedback_effect(FilterBuilder::new().cutoff(sr as f64)),
				)
			});
		}
		4 => {
			one!("reverb", "feedback", f64v, cls64, |v: f64| TrackBuilder::new().with_effect(ReverbBuilder::new().feedback(v)));
			one!("reverb", "damping", f64v, cls64, |v: f64| TrackBuilder::new().with_effect(ReverbBuilder::new().damping(v)));
			one!("reverb", "stereo_width", f64v, cls64, |v: f64| TrackBuilder::new().with_effect(ReverbBuilder::new().stereo_width(v)));
			one!("reverb", "mix", mixv, |v: f32| cls64(v as f64), |v: f32| TrackBuilder::new().with_effect(ReverbBuilder::new().mix(v)));
		}
		5 => {
			one!("compressor", "threshold", f64v, cls64, |v: f64| TrackBuilder::new().with_effect(CompressorBuilder::new().ratio(4.0).threshold(v)));
			one!("compressor", "ratio", f64v, cls64, |v: f64| TrackBuilder::new().with_effect(CompressorBuilder::new().threshold(-24.0).ratio(v)));
			one!("compressor", "attack_duration", durv, clsdur, |v: Duration| TrackBuilder::new().with_effect(CompressorBuilder::new().threshold(-24.0).ratio(4.0).attack_duration(v)));
			one!("compressor", "release_duration", durv, clsdur, |v: Duration| TrackBuilder::new().with_effect(CompressorBuilder::new().threshold(-24.0).ratio(4.0).release_duration(v)));
			one!("compressor", "makeup_gain", dbv, clsdb, |v: f32| TrackBuilder::new().with_effect(CompressorBuilder::new().makeup_gain(v)));
			one!("compressor", "mix", mixv, |v: f32| cls64(v as f64), |v: f32| TrackBuilder::new().with_effect(CompressorBuilder::new().threshold(-24.0).ratio(4.0).mix(v)));
			one!("compressor", "attack=release=0 with ratio", f64v, cls64, |v: f64| TrackBuilder::new().with_effect(CompressorBuilder::new().threshold(-24.0).ratio(v).attack_duration(Duration::ZERO).release_duration(Duration::ZERO)));
		}
		6 => {
			for kind in [DistortionKind::HardClip, DistortionKind::SoftClip] {
				one!(format!("distortion {:?}", kind), "drive", dbv, clsdb, move |v: f32| TrackBuilder::new().with_effect(DistortionBuilder::new().kind(kind).drive(v)));
				one!(format!("distortion {:?}", kind), "mix", mixv, |v: f32| cls64(v as f64), move |v: f32| TrackBuilder::new().with_effect(DistortionBuilder::new().kind(kind).drive(12.0).mix(v)));
				one!(format!("distortion {:?}", kind), "drive at mix 0.5", dbv, clsdb, move |v: f32| TrackBuilder::new().with_effect(DistortionBuilder::new().kind(kind).mix(0.5).drive(v)));
			}
		}
		7 => {
			one!("volume control", "volume", dbv, clsdb, |v: f32| TrackBuilder::new().with_effect(VolumeControlBuilder::new(v)));
			one!("track", "volume", dbv, clsdb, |v: f32| TrackBuilder::new().volume(v));
		}
		_ => {
			let pans: Vec<f32> = vec![0.0, -1.0, 1.0, -7.0, 7.0, 1e30, -1e30, 1e-40];
			one!("panning control", "panning", pans, |v: f32| cls64(v as f64), |v: f32| TrackBuilder::new().with_effect(PanningControlBuilder(Value::Fixed(Panning(v)))));
		}
	}
	let inputs: [(&str, fn(usize) -> f32); 5] = [
		("silence", |_| 0.0),
		("impulse", |i| if i == 0 { 1.0 } else { 0.0 }),
		("full-scale DC", |_| 1.0),
		("+-1 alternating", |i| if i % 2 == 0 { 1.0 } else { -1.0 }),
		("1e-40 denormal", |_| 1e-40),
	];
	for (feature, desc, mk) in &scenes {
		for (iname, sig) in &inputs {
			ctx.evals += 1;
			let detail = || format!("{} on a sub-track, sample rate {}, internal buffer {}, input {}, callbacks of 1, {}, {} frames", desc, sr, ibs, iname, ibs, 2 * ibs + 1);
			let r = catch(|| {
				let mut m = rig::manager(sr, ibs, rig::caps(4), MainTrackBuilder::new());
				let mut t = m.add_sub_track(mk()).map_err(|_| ())?;
				let frames: Vec<Frame> = (0..32).map(|i| Frame::from_mono(sig(i))).collect();
				let _s = t.play(rig::static_data(sr, frames)).map_err(|_| ())?;
				let mut buf = vec![0.0f32; 64];
				for n in [1, ibs, 2 * ibs + 1] {
					let rep = rig::callback(&mut m, &mut buf, n, 2);
					if !rep.ok() {
						return Ok(Some(rep));
					}
				}
				// enough audio first for every internal cursor (delay lines, reverb combs of up to ~7000 frames at 192 kHz) to have moved
				// (1700 frames: longer than the longest line at the next lower rate; one input signal is enough for this)
				if (which == 2 || which == 3 || which == 4) && *iname == "full-scale DC" {
					for _ in 0..54 {
						let rep = rig::callback(&mut m, &mut buf, 32, 2);
						if !rep.ok() {
							return Ok(Some(rep));
						}
					}
				}
				// the device rate changes under the running effect (up and down), then the same callbacks again
				for r2 in [8000u32, 44100, 192000] {
					if r2 == sr {
						continue;
					}
					let mut renderer = m.backend_mut().renderer.take().unwrap();
					let r = catch(|| renderer.on_change_sample_rate(r2));
					m.backend_mut().renderer = Some(renderer);
					if let Err(p) = r {
						return Ok(Some(rig::CbReport { panic: Some(format!("on_change_sample_rate({}): {}", r2, p)), ..Default::default() }));
					}
					for n in [1, ibs, 2 * ibs + 1] {
						let rep = rig::callback(&mut m, &mut buf, n, 2);
						if !rep.ok() {
							return Ok(Some(rig::CbReport { panic: rep.panic.clone().map(|p| format!("after a sample-rate change: {}", p)), ..rep }));
						}
					}
				}
				Ok::<_, ()>(None)
			});
			match r {
				Ok(Ok(None)) => ctx.nontrivial_extra += 1,
				Ok(Ok(Some(rep))) => rig::report_cb(ctx, &rep, &format!("F2 {}", feature), &detail),
				Ok(Err(())) => {}
				Err(_) => ctx.count("caller_thread_panics", 1),
			}
		}
	}
	ctx.outcome(hash64(&(which, sr)));
}

// ---------------------------------------------------------------------------------------------
// F3 / F4: API histories

struct World {
	m: Manager,
	handles: Vec<Box<dyn Any>>,
	sounds: Vec<Box<dyn SoundHandle>>,
	tracks: Vec<kira::track::TrackHandle>,
	decs: Vec<(usize, Arc<DecStats>)>,
	paused: bool,
	listener: Option<kira::listener::ListenerId>,
}

fn f3_apply(w: &mut World, l: u8, ibs: usize, channels: u16, out: &mut Vec<f32>) -> Option<rig::CbReport> {
	let dc = |looped: bool| {
		let d = rig::static_data(SR3, rig::dc_frames(3, 0.25));
		if looped {
			d.loop_region(Region::from(..))
		} else {
			d
		}
	};
	match l {
		0 => {
			if let Ok(h) = w.m.play(dc(false)) {
				w.sounds.push(Box::new(h));
			}
		}
		1 => {
			if let Some(t) = w.tracks.last_mut() {
				if let Ok(h) = t.play(dc(true)) {
					w.sounds.push(Box::new(h));
				}
			}
		}
		2 => {
			let first = pacer::count();
			let (dec, stats) = ScriptedDecoder::new(rig::dc_frames(6, 0.125), SR3, vec![2], 1);
			let r = w.m.play(StreamingSoundData::from_decoder(dec).loop_region(Region::from(..)));
			if pacer::count() > first {
				w.decs.push((first, stats));
			}
			if let Ok(h) = r {
				w.sounds.push(Box::new(h));
			}
		}
		3 => {
			if let Ok(t) = w.m.add_sub_track(TrackBuilder::new().with_effect(FilterBuilder::new()).with_effect(DelayBuilder::new().delay_time(Duration::from_micros(300)))) {
				w.tracks.push(t);
			}
		}
		4 => {
			if let Some(t) = w.tracks.last_mut() {
				if let Ok(c) = t.add_sub_track(TrackBuilder::new().with_effect(ReverbBuilder::new())) {
					w.tracks.push(c);
				}
			}
		}
		5 => {
			if let Ok(s) = w.m.add_send_track(SendTrackBuilder::new().with_effect(CompressorBuilder::new())) {
				if let Ok(t) = w.m.add_sub_track(TrackBuilder::new().with_send(&s, -3.0)) {
					w.tracks.push(t);
				}
				w.handles.push(Box::new(s));
			}
		}
		6 => {
			if let Some(id) = w.listener {
				if let Ok(t) = w.m.add_spatial_sub_track(id, glam::Vec3::new(1.0, 0.0, 2.0), SpatialTrackBuilder::new()) {
					w.handles.push(Box::new(t));
				}
			}
		}
		7 => {
			if let Ok(mut c) = w.m.add_clock(ClockSpeed::TicksPerSecond(4000.0)) {
				c.start();
				if let Ok(h) = w.m.play(dc(true).start_time(c.time() + 1u64)) {
					w.sounds.push(Box::new(h));
				}
				w.handles.push(Box::new(c));
			}
		}
		8 => {
			if let Ok(mut t) = w.m.add_modulator(TweenerBuilder { initial_value: 0.0 }) {
				t.set(1.0, tw(0.0005));
				w.handles.push(Box::new(t));
			}
		}
		9 => {
			if let Ok(lfo) = w.m.add_modulator(LfoBuilder::new().frequency(3000.0)) {
				let map = Mapping {
					input_range: (-1.0, 1.0),
					output_range: (Decibels(-20.0), Decibels(6.0)),
					easing: Easing::Linear,
				};
				if let Ok(h) = w.m.play(dc(true).volume(Value::from_modulator(&lfo, map))) {
					w.sounds.push(Box::new(h));
				}
				w.handles.push(Box::new(lfo));
			}
		}
		10 => {
			if let Ok(l) = w.m.add_listener(glam::Vec3::ZERO, glam::Quat::IDENTITY) {
				w.listener = Some(l.id());
				w.handles.push(Box::new(l));
			}
		}
		11 => {
			if w.handles.pop().is_none() {
				w.tracks.pop();
			}
		}
		12 => {
			if let Some(s) = w.sounds.last_mut() {
				s.stop(tw(0.0));
			}
		}
		13 => {
			if let Some(t) = w.tracks.last_mut() {
				if w.paused {
					t.resume(tw(0.000125));
				} else {
					t.pause(tw(0.000125));
				}
				w.paused = !w.paused;
			}
		}
		_ => {
			let n = if l == 14 { 1 } else { ibs + 1 };
			for (first, _) in &w.decs {
				pacer::step(*first, n as u64 + 6);
			}
			let mut buf = vec![0.0f32; n * channels as usize];
			let rep = rig::callback(&mut w.m, &mut buf, n, channels);
			out.extend_from_slice(&buf);
			return Some(rep);
		}
	}
	None
}

fn f3_run(zero_caps: bool, letters: &[u8], channels: u16, ctx: &mut Ctx) -> Option<Vec<f32>> {
	let ibs = 2;
	let c = if zero_caps { 0 } else { 1 };
	let caps = Capacities {
		sub_track_capacity: c * 2,
		send_track_capacity: c,
		clock_capacity: c,
		modulator_capacity: c,
		listener_capacity: c,
	};
	let desc = || {
		format!(
			"capacities all {} ({} sub-tracks), internal buffer {}, {} channel(s), history=[{}]",
			c,
			c * 2,
			ibs,
			channels,
			letters.iter().map(|l| F3_LETTERS[*l as usize]).collect::<Vec<_>>().join("; ")
		)
	};
	let mut out = vec![];
	let r = catch(|| {
		let mut w = World {
			m: rig::manager(SR3, ibs, caps, MainTrackBuilder::new().sound_capacity(c * 2)),
			handles: vec![],
			sounds: vec![],
			tracks: vec![],
			decs: vec![],
			paused: false,
			listener: None,
		};
		let mut bad = None;
		for (k, &l) in letters.iter().enumerate() {
			if let Some(rep) = f3_apply(&mut w, l, ibs, channels, &mut out) {
				if !rep.ok() {
					bad = Some((k, rep));
					break;
				}
			}
		}
		// one closing callback so that every history renders something
		if bad.is_none() {
			if let Some(rep) = f3_apply(&mut w, 15, ibs, channels, &mut out) {
				if !rep.ok() {
					bad = Some((letters.len(), rep));
				}
			}
		}
		// teardown of decoder threads
		for s in w.sounds.iter_mut() {
			s.stop(tw(0.0));
		}
		let decs = std::mem::take(&mut w.decs);
		if !decs.is_empty() {
			let mut b = vec![0.0f32; 2 * channels as usize];
			let _ = catch(|| rig::callback(&mut w.m, &mut b, 1, channels));
		}
		drop(w);
		for (first, stats) in decs {
			crate::probes::reap_decoder(first, &stats);
		}
		bad
	});
	match r {
		Ok(None) => Some(out),
		Ok(Some((k, rep))) => {
			let feature = format!("F3 after '{}'{}", if k < letters.len() { F3_LETTERS[letters[k] as usize] } else { "closing callback" }, if zero_caps { " (capacities 0)" } else { "" });
			rig::report_cb(ctx, &rep, &feature, &desc);
			None
		}
		Err(p) => {
			// a panic on the caller's thread (e.g. creation with capacity 0) is C08's subject
			ctx.count("caller_thread_panics", 1);
			let _ = p;
			None
		}
	}
}

fn f3(tier: Tier, zero_caps: bool, l0: u8, l1: u8, ctx: &mut Ctx) {
	let depth = tier.pick(4, 5);
	let mut letters = vec![l0, l1];
	fn rec(letters: &mut Vec<u8>, depth: usize, zero_caps: bool, ctx: &mut Ctx) {
		if letters.len() == 3 {
			// F4: this depth-3 history with every channel count
			let stereo = f3_run(zero_caps, letters, 2, ctx);
			ctx.evals += 1;
			if let Some(st) = &stereo {
				for ch in [1u16, 3, 4, 5, 6, 7, 8] {
					ctx.evals += 1;
					if let Some(o) = f3_run(zero_caps, letters, ch, ctx) {
						let frames = st.len() / 2;
						for f in 0..frames {
							let (l, r) = (st[2 * f], st[2 * f + 1]);
							let ok = if ch == 1 {
								o[f] == (l + r) / 2.0
							} else {
								o[f * ch as usize] == l && o[f * ch as usize + 1] == r && o[f * ch as usize + 2..(f + 1) * ch as usize].iter().all(|x| *x == 0.0)
							};
							if !ok {
								ctx.fail(
									if ch == 1 { "mono output is not the mean of left and right :: F4".to_string() } else { "multi-channel output: first two channels differ from the stereo rendering or extra channels are not silent :: F4".to_string() },
									format!("history {:?} channels {} frame {}: stereo ({}, {}) got {:?}", letters.iter().map(|l| F3_LETTERS[*l as usize]).collect::<Vec<_>>(), ch, f, l, r, &o[f * ch as usize..(f + 1) * ch as usize]),
								);
								break;
							}
						}
						if st.iter().any(|x| *x != 0.0) {
							ctx.nontrivial_extra += 1;
						}
					}
				}
			}
		}
		if letters.len() == depth {
			ctx.evals += 1;
			if let Some(o) = f3_run(zero_caps, letters, 2, ctx) {
				if o.iter().any(|x| *x != 0.0) {
					ctx.nontrivial_extra += 1;
				}
				ctx.outcome(hash64(&o.iter().map(|x| x.to_bits()).collect::<Vec<_>>()) % 1024);
			}
			return;
		}
		for l in 0..16u8 {
			letters.push(l);
			rec(letters, depth, zero_caps, ctx);
			letters.pop();
		}
	}
	rec(&mut letters, depth, zero_caps, ctx);
}

// ---------------------------------------------------------------------------------------------
// F5: the output stage (clamp, NaN guard, channel layout) on over-full-scale and overflowing frames

fn f5(ctx: &mut Ctx) {
	let vals = [0.0f32, 0.5, -0.5, 1.5, -1.5, 3.0e38, -3.0e38];
	for &l in &vals {
		for &r in &vals {
			for db in [0.0f32, 20.0, 1000.0] {
				let render = |ch: u16, ctx: &mut Ctx| -> Option<Vec<f32>> {
					ctx.evals += 1;
					let mut m = rig::manager(8, 2, rig::caps(1), MainTrackBuilder::new());
					let data = rig::static_data(8, vec![Frame::new(l, r); 4]).loop_region(Region::from(..)).volume(db);
					let _h = m.play(data).ok()?;
					let mut out = vec![];
					for n in [1usize, 3] {
						let mut buf = vec![0.0f32; n * ch as usize];
						let rep = rig::callback(&mut m, &mut buf, n, ch);
						if !rep.ok() {
							rig::report_cb(ctx, &rep, "F5 output stage", &|| format!("frame ({:e}, {:e}) volume {} dB, {} channel(s)", l, r, db, ch));
							return None;
						}
						out.extend(buf);
					}
					Some(out)
				};
				let Some(st) = render(2, ctx) else { continue };
				for ch in [1u16, 3, 4, 5, 6, 7, 8] {
					let Some(o) = render(ch, ctx) else { continue };
					for f in 0..st.len() / 2 {
						let (a, b) = (st[2 * f], st[2 * f + 1]);
						let ok = if ch == 1 {
							o[f] == (a + b) / 2.0
						} else {
							o[f * ch as usize] == a && o[f * ch as usize + 1] == b && o[f * ch as usize + 2..(f + 1) * ch as usize].iter().all(|x| *x == 0.0)
						};
						if !ok {
							ctx.fail(
								if ch == 1 { "mono output is not the mean of left and right :: F5".to_string() } else { "multi-channel output: first two channels differ from the stereo rendering or extra channels are not silent :: F5".to_string() },
								format!("frame ({:e}, {:e}) volume {} dB channels {}: stereo ({}, {}) got {:?}", l, r, db, ch, a, b, &o[f * ch as usize..(f + 1) * ch as usize]),
							);
							break;
						}
					}
				}
				if l != 0.0 || r != 0.0 {
					ctx.nontrivial_extra += 1;
				}
				ctx.state(hash64(&(l.to_bits(), r.to_bits(), db.to_bits())));
			}
		}
	}
	ctx.outcome(hash64(&"f5"));
}

// ---------------------------------------------------------------------------------------------
// F7: every public way of creating a track x every built-in effect family: the first callbacks of the new track

const F7_PATHS: [&str; 8] = [
	"MainTrackBuilder",
	"AudioManager::add_sub_track",
	"AudioManager::add_send_track",
	"AudioManager::add_spatial_sub_track",
	"TrackHandle::add_sub_track",
	"TrackHandle::add_spatial_sub_track",
	"SpatialTrackHandle::add_sub_track",
	"SpatialTrackHandle::add_spatial_sub_track",
];
macro_rules! f7_fx {
	($b:expr, $k:expr) => {
		match $k {
			0 => $b.with_effect(FilterBuilder::new()),
			1 => $b.with_effect(EqFilterBuilder::new(EqFilterKind::Bell, 1000.0, Decibels(6.0), 1.0)),
			2 => $b.with_effect(DelayBuilder::new()),
			3 => $b.with_effect(DelayBuilder::new().delay_time(Duration::from_millis(1)).with_feedback_effect(ReverbBuilder::new()).with_feedback_effect(DelayBuilder::new())),
			4 => $b.with_effect(ReverbBuilder::new()),
			5 => $b.with_effect(CompressorBuilder::new()),
			6 => $b.with_effect(DistortionBuilder::new()),
			7 => $b.with_effect(VolumeControlBuilder::new(Decibels(-3.0))),
			_ => $b.with_effect(PanningControlBuilder(Value::Fixed(Panning(0.3)))),
		}
	};
}
// ---------------------------------------------------------------------------------------------
// F9: owners that outlive their handles. A track stays alive on the audio thread after its handle is gone while a child track or
// (persist_until_sounds_finish) a sound keeps it; whatever is retired inside it afterwards has nobody on the other side of the
// track's own retirement ring. Every order of {drop parent handle, drop child-1 handle, drop child-2 handle, the sound on child 1
// finishes, drop the sound's handle} with a callback after each: no callback frees (or allocates) anything.
fn f9(ctx: &mut Ctx) {
	use crate::probes::ProbeSoundData;
	use std::sync::atomic::Ordering;
	const LET: [&str; 5] = ["drop(parent handle)", "drop(child 1 handle)", "drop(child 2 handle)", "the sound on child 1 finishes", "drop(sound handle)"];
	fn perms(k: usize, cur: &mut Vec<usize>, used: &mut [bool], out: &mut Vec<Vec<usize>>) {
		if cur.len() == k {
			out.push(cur.clone());
			return;
		}
		for i in 0..k {
			if !used[i] {
				used[i] = true;
				cur.push(i);
				perms(k, cur, used, out);
				cur.pop();
				used[i] = false;
			}
		}
	}
	let mut orders = vec![];
	perms(5, &mut vec![], &mut [false; 5], &mut orders);
	for persist in [false, true] {
		for spatial_parent in [false, true] {
			for order in &orders {
				ctx.evals += 1;
				let detail = || format!("parent {}track{} with two child tracks (a reverb on each), a sound on child 1 and on the parent (a finite 6-frame static sound there); everything adopted; then, one callback of 4 frames after each: {}; then 3 callbacks", if spatial_parent { "spatial " } else { "" }, if persist { " (persist_until_sounds_finish on all three)" } else { "" }, order.iter().map(|l| LET[*l]).collect::<Vec<_>>().join(", "));
				let r = catch(|| -> Result<(), String> {
					let lim = |_| "resource limit".to_string();
					let mut m = rig::manager(SR3, 4, rig::caps(4), MainTrackBuilder::new());
					let mut buf = vec![0.0f32; 32];
					let zero = mint::Vector3 { x: 0.0f32, y: 0.0, z: 1.0 };
					let quat = mint::Quaternion { v: mint::Vector3 { x: 0.0f32, y: 0.0, z: 0.0 }, s: 1.0 };
					let listener = m.add_listener(zero, quat).map_err(lim)?;
					enum Par {
						Plain(kira::track::TrackHandle),
						Spatial(kira::track::SpatialTrackHandle),
					}
					let mut par = if spatial_parent {
						Par::Spatial(m.add_spatial_sub_track(&listener, zero, SpatialTrackBuilder::new().persist_until_sounds_finish(persist)).map_err(lim)?)
					} else {
						Par::Plain(m.add_sub_track(TrackBuilder::new().persist_until_sounds_finish(persist)).map_err(lim)?)
					};
					let child = || TrackBuilder::new().persist_until_sounds_finish(persist).with_effect(kira::effect::reverb::ReverbBuilder::new());
					let (mut c1, c2) = match &mut par {
						Par::Plain(p) => (p.add_sub_track(child()).map_err(lim)?, p.add_sub_track(child()).map_err(lim)?),
						Par::Spatial(p) => (p.add_sub_track(child()).map_err(lim)?, p.add_sub_track(child()).map_err(lim)?),
					};
					let probe = c1.play(ProbeSoundData::new((0.1, 0.0), (0.1, 0.0))).map_err(|_| "play")?;
					let finite = rig::static_data(SR3, rig::dc_frames(6, 0.25));
					let on_parent = match &mut par {
						Par::Plain(p) => p.play(finite).map_err(|_| "play")?,
						Par::Spatial(p) => p.play(finite).map_err(|_| "play")?,
					};
					let mut par = Some(par);
					let mut c1 = Some(c1);
					let mut c2 = Some(c2);
					let mut probe_h = Some(probe.clone());
					let mut ok = true;
					let mut cb = |m: &mut Manager, ctx: &mut Ctx| {
						let rep = rig::callback(m, &mut buf, 4, 2);
						if !rep.ok() {
							rig::report_cb(ctx, &rep, "F9 owners that outlive their handles", &detail);
							ok = false;
						}
					};
					cb(&mut m, ctx);
					for l in order {
						match l {
							0 => drop(par.take()),
							1 => drop(c1.take()),
							2 => drop(c2.take()),
							3 => probe.finished.store(true, Ordering::SeqCst),
							_ => drop(probe_h.take()),
						}
						cb(&mut m, ctx);
					}
					for _ in 0..3 {
						cb(&mut m, ctx);
					}
					drop(on_parent);
					if ok {
						ctx.nontrivial_extra += 1;
					}
					Ok(())
				});
				match r {
					Ok(Ok(())) => {}
					Ok(Err(e)) => ctx.fail(format!("setup: {} :: F9", e), detail()),
					Err(p) => ctx.fail(format!("panic: {} :: F9 owners that outlive their handles", p), detail()),
				}
				ctx.state(hash64(&("f9", persist, spatial_parent, order)));
			}
		}
	}
}

// ---------------------------------------------------------------------------------------------
// F10: the physical end of a streaming sound's frame ring (16384 slots). A stream is consumed up to a few frames before the wrap in
// large callbacks, then frame by frame across it, so that a callback starts at every read position from 16376 to 16392 (and again
// one lap later) with the decoder ahead: every callback returns normally
fn f10(ctx: &mut Ctx) {
	use crate::pacer;
	use crate::probes::ScriptedDecoder;
	use kira::sound::streaming::StreamingSoundData;
	pacer::set_mode(pacer::Mode::Pacer);
	for (ibs, big) in [(128usize, vec![8192usize, 8184]), (127, vec![127; 128].into_iter().chain([120]).collect::<Vec<_>>()), (1000, vec![16376])] {
		for ahead in [1u64, 2, 16400] {
			ctx.evals += 1;
			let detail = || format!("40000-frame streaming sound at the device rate; internal buffer {}; callbacks {:?}... (16376 frames), then 16 callbacks of 1 frame, then 16368 frames, then 16 callbacks of 1 frame; before each callback the decoder is allowed to get {} frame(s) ahead of what the callback needs", ibs, &big[..big.len().min(3)], ahead);
			let r = catch(|| {
				let mut m = rig::manager(SR3, ibs, rig::caps(2), MainTrackBuilder::new());
				let first = pacer::count();
				let (dec, stats) = ScriptedDecoder::new((0..40000).map(|i| Frame::from_mono(((i % 97) + 1) as f32 / 128.0)).collect(), SR3, vec![64, 3, 1], 2);
				let mut h = m.play(StreamingSoundData::from_decoder(dec)).map_err(|_| ()).expect("play");
				let mut ok = true;
				let mut granted = 0u64;
				let mut consumed = 0u64;
				let mut parts: Vec<usize> = big.clone();
				parts.extend([1usize; 16]);
				parts.push(16368);
				parts.extend([1usize; 16]);
				for n in parts {
					// the decoder may be `ahead` frames beyond the end of this callback (at most a full ring beyond what was consumed)
					let want = (consumed + n as u64 + ahead + 1).min(consumed + 16384);
					if want > granted {
						pacer::step_all_from(first, want - granted);
						granted = want;
					}
					let mut buf = vec![0.0f32; 2 * n];
					let rep = rig::callback(&mut m, &mut buf, n, 2);
					consumed += n as u64;
					if !rep.ok() {
						rig::report_cb(ctx, &rep, "F10 the end of the stream ring", &detail);
						ok = false;
						break;
					}
				}
				h.stop(kira::Tween { duration: std::time::Duration::ZERO, ..Default::default() });
				let mut buf = vec![0.0f32; 2];
				rig::callback(&mut m, &mut buf, 1, 2);
				drop(m);
				crate::probes::reap_decoder(first, &stats);
				ok
			});
			match r {
				Ok(true) => ctx.nontrivial_extra += 1,
				Ok(false) => {}
				Err(p) => ctx.fail(format!("panic: {} :: F10 the end of the stream ring", p), detail()),
			}
			ctx.state(hash64(&("f10", ibs, ahead)));
		}
	}
}

fn f7(ctx: &mut Ctx) {
	let zero = mint::Vector3 { x: 0.0f32, y: 0.0, z: 1.0 };
	let quat = mint::Quaternion { v: mint::Vector3 { x: 0.0f32, y: 0.0, z: 0.0 }, s: 1.0 };
	for path in 0..F7_PATHS.len() {
		for k in 0..F2_EFFECTS.len() {
			for (adopted, bus) in [(true, false), (false, false), (true, true), (false, true)] {
				if path == 0 && !adopted {
					continue;
				}
				// bus: the parent is a pure group track (sound_capacity 0); only paths with a parent track
				if bus && path < 4 {
					continue;
				}
				ctx.evals += 1;
				let detail = || format!("a track created through {} carrying the effect family '{}' (default parameters), {}; a looping DC sound on it; callbacks of 1, 4 and 9 frames at 8000 Hz, internal buffer 4", F7_PATHS[path], F2_EFFECTS[k], if adopted { "its parent was adopted by the audio thread two callbacks earlier" } else { "its parent was created in the same interval" }.to_string() + if bus { " (the parent is a bus: sound_capacity 0)" } else { "" });
				let r = catch(|| -> Result<(), String> {
					let lim = |_| "resource limit".to_string();
					let main = if path == 0 { f7_fx!(MainTrackBuilder::new(), k) } else { MainTrackBuilder::new() };
					let mut m = rig::manager(SR3, 4, rig::caps(4), main);
					let mut buf = vec![0.0f32; 32];
					let mut keep: Vec<Box<dyn Any>> = vec![];
					let listener = m.add_listener(zero, quat).map_err(lim)?;
					let sound = || rig::static_data(SR3, rig::dc_frames(8, 0.25)).loop_region(Region::from(..));
					let mut settle = |m: &mut Manager, ctx: &mut Ctx| -> bool {
						if !adopted {
							return true;
						}
						for _ in 0..2 {
							let rep = rig::callback(m, &mut buf, 4, 2);
							if !rep.ok() {
								rig::report_cb(ctx, &rep, &format!("F7 {} x {}", F7_PATHS[path], F2_EFFECTS[k]), &detail);
								return false;
							}
						}
						true
					};
					match path {
						0 => {
							keep.push(Box::new(m.play(sound()).map_err(|_| "play")?));
						}
						1 => {
							if !settle(&mut m, ctx) { return Ok(()); }
							let mut t = m.add_sub_track(f7_fx!(TrackBuilder::new(), k)).map_err(lim)?;
							keep.push(Box::new(t.play(sound()).map_err(|_| "play")?));
							keep.push(Box::new(t));
						}
						2 => {
							if !settle(&mut m, ctx) { return Ok(()); }
							let s = m.add_send_track(f7_fx!(SendTrackBuilder::new(), k)).map_err(lim)?;
							let mut t = m.add_sub_track(TrackBuilder::new().with_send(s.id(), Decibels::IDENTITY)).map_err(lim)?;
							keep.push(Box::new(t.play(sound()).map_err(|_| "play")?));
							keep.push(Box::new(t));
							keep.push(Box::new(s));
						}
						3 => {
							if !settle(&mut m, ctx) { return Ok(()); }
							let mut t = m.add_spatial_sub_track(&listener, zero, f7_fx!(SpatialTrackBuilder::new(), k)).map_err(lim)?;
							keep.push(Box::new(t.play(sound()).map_err(|_| "play")?));
							keep.push(Box::new(t));
						}
						4 | 5 => {
							let mut par = m.add_sub_track(if bus { TrackBuilder::new().sound_capacity(0) } else { TrackBuilder::new() }).map_err(lim)?;
							if !settle(&mut m, ctx) { return Ok(()); }
							if path == 4 {
								let mut t = par.add_sub_track(f7_fx!(TrackBuilder::new(), k)).map_err(lim)?;
								keep.push(Box::new(t.play(sound()).map_err(|_| "play")?));
								keep.push(Box::new(t));
							} else {
								let mut t = par.add_spatial_sub_track(&listener, zero, f7_fx!(SpatialTrackBuilder::new(), k)).map_err(lim)?;
								keep.push(Box::new(t.play(sound()).map_err(|_| "play")?));
								keep.push(Box::new(t));
							}
							keep.push(Box::new(par));
						}
						_ => {
							let mut par = m.add_spatial_sub_track(&listener, zero, if bus { SpatialTrackBuilder::new().sound_capacity(0) } else { SpatialTrackBuilder::new() }).map_err(lim)?;
							if !settle(&mut m, ctx) { return Ok(()); }
							if path == 6 {
								let mut t = par.add_sub_track(f7_fx!(TrackBuilder::new(), k)).map_err(lim)?;
								keep.push(Box::new(t.play(sound()).map_err(|_| "play")?));
								keep.push(Box::new(t));
							} else {
								let mut t = par.add_spatial_sub_track(&listener, zero, f7_fx!(SpatialTrackBuilder::new(), k)).map_err(lim)?;
								keep.push(Box::new(t.play(sound()).map_err(|_| "play")?));
								keep.push(Box::new(t));
							}
							keep.push(Box::new(par));
						}
					}
					let mut heard = false;
					for n in [1usize, 4, 9] {
						let rep = rig::callback(&mut m, &mut buf, n, 2);
						if !rep.ok() {
							rig::report_cb(ctx, &rep, &format!("F7 {} x {}", F7_PATHS[path], F2_EFFECTS[k]), &detail);
							return Ok(());
						}
						heard |= buf[..2 * n].iter().any(|s| *s != 0.0);
					}
					if heard {
						ctx.nontrivial_extra += 1;
					}
					drop(keep);
					drop(listener);
					Ok(())
				});
				match r {
					Ok(Ok(())) => {}
					Ok(Err(e)) => ctx.fail(format!("machinery: F7 scene could not be built: {}", e), detail()),
					Err(p) => ctx.fail(format!("panic on the caller's thread: {} :: F7 {}", p, F7_PATHS[path]), detail()),
				}
				ctx.state(hash64(&("f7", path, k, adopted, bus)));
			}
		}
	}
	// every sequence of up to 3 clock commands issued in ONE interval, on a fresh / running / paused clock, with a sound
	// scheduled on it: the callbacks that follow neither panic nor hang
	let cmds = ["start", "pause", "stop", "set_speed"];
	let mut seqs: Vec<Vec<usize>> = vec![];
	for a in 0..4 {
		seqs.push(vec![a]);
		for b in 0..4 {
			seqs.push(vec![a, b]);
			for c in 0..4 {
				seqs.push(vec![a, b, c]);
			}
		}
	}
	for prior in 0..3 {
		for seq in &seqs {
			ctx.evals += 1;
			let detail = || format!("clock ({}), then {:?} in one interval, then callbacks of 1, 4, 3 frames", ["fresh", "started and run for 2 callbacks", "started, run, paused"][prior], seq.iter().map(|c| cmds[*c]).collect::<Vec<_>>());
			let r = catch(|| {
				let mut m = rig::manager(SR3, 4, rig::caps(2), MainTrackBuilder::new());
				let mut buf = vec![0.0f32; 32];
				let mut clock = m.add_clock(ClockSpeed::TicksPerSecond(1000.0)).expect("clock");
				let _s = m.play(rig::static_data(SR3, rig::dc_frames(8, 0.25)).loop_region(Region::from(..)).start_time(kira::clock::ClockTime { clock: clock.id(), ticks: 2, fraction: 0.0 }));
				if prior >= 1 {
					clock.start();
					for _ in 0..2 {
						rig::callback(&mut m, &mut buf, 3, 2);
					}
				}
				if prior == 2 {
					clock.pause();
					rig::callback(&mut m, &mut buf, 3, 2);
				}
				for c in seq {
					match c {
						0 => clock.start(),
						1 => clock.pause(),
						2 => clock.stop(),
						_ => clock.set_speed(ClockSpeed::TicksPerSecond(500.0), tw(0.001)),
					}
				}
				for n in [1usize, 4, 3] {
					let rep = rig::callback(&mut m, &mut buf, n, 2);
					if !rep.ok() {
						rig::report_cb(ctx, &rep, "F7 clock command sequence in one interval", &detail);
						return;
					}
				}
				ctx.nontrivial_extra += 1;
			});
			if let Err(p) = r {
				ctx.fail(format!("panic on the caller's thread: {} :: F7 clock command sequence", p), detail());
			}
		}
	}
	ctx.outcome(hash64(&"f7"));
}

// ---------------------------------------------------------------------------------------------
// F6: effect handle setters - a parameter moving (up and down) over several internal buffers

fn f6(which: usize, ctx: &mut Ctx) {
	use kira::Mix;
	const SR: u32 = 8000;
	const IBS: usize = 32;
	let tweens: [f64; 3] = [0.0, 1.5 * IBS as f64 / SR as f64, 6.0 * IBS as f64 / SR as f64];
	// (parameter, number of lattice values, scene builder: (value index a, value index b, tween) -> (builder, setter))
	type Setter = Box<dyn FnMut(Tween)>;
	type Scene = Box<dyn Fn(usize, usize) -> (TrackBuilder, Setter)>;
	let mut params: Vec<(&'static str, usize, Scene)> = vec![];
	macro_rules! p {
		($name:expr, $vals:expr, $mk:expr, $set:expr) => {{
			let vals = $vals;
			params.push((
				$name,
				vals.len(),
				Box::new(move |a: usize, b: usize| {
					let mut tb = TrackBuilder::new();
					let mut h = tb.add_effect(($mk)(vals[a]));
					let target = vals[b];
					(tb, Box::new(move |tw: Tween| ($set)(&mut h, target, tw)) as Setter)
				}),
			));
		}};
	}
	let ms = Duration::from_millis;
	match which {
		0 => {
			p!("threshold", [-24.0f64, 0.0, -60.0], |v| CompressorBuilder::new().ratio(4.0).threshold(v), |h: &mut kira::effect::compressor::CompressorHandle, v, tw| h.set_threshold(v, tw));
			p!("ratio", [4.0f64, 1.0, 100.0, 0.5], |v| CompressorBuilder::new().threshold(-24.0).ratio(v), |h: &mut kira::effect::compressor::CompressorHandle, v, tw| h.set_ratio(v, tw));
			p!("attack_duration", [ms(10), ms(1), ms(100), Duration::ZERO], |v| CompressorBuilder::new().threshold(-24.0).ratio(4.0).attack_duration(v), |h: &mut kira::effect::compressor::CompressorHandle, v, tw| h.set_attack_duration(v, tw));
			p!("release_duration", [ms(100), ms(1), ms(500), Duration::ZERO], |v| CompressorBuilder::new().threshold(-24.0).ratio(4.0).release_duration(v), |h: &mut kira::effect::compressor::CompressorHandle, v, tw| h.set_release_duration(v, tw));
			p!("makeup_gain", [Decibels(0.0), Decibels(12.0), Decibels(-60.0)], |v| CompressorBuilder::new().threshold(-24.0).ratio(4.0).makeup_gain(v), |h: &mut kira::effect::compressor::CompressorHandle, v, tw| h.set_makeup_gain(v, tw));
			p!("mix", [Mix(1.0), Mix(0.0), Mix(0.5)], |v| CompressorBuilder::new().threshold(-24.0).ratio(4.0).mix(v), |h: &mut kira::effect::compressor::CompressorHandle, v, tw| h.set_mix(v, tw));
		}
		1 => {
			p!("feedback", [Decibels(-6.0), Decibels(-60.0), Decibels(0.0)], |v| DelayBuilder::new().delay_time(ms(2)).feedback(v), |h: &mut kira::effect::delay::DelayHandle, v, tw| h.set_feedback(v, tw));
			p!("mix", [Mix(0.5), Mix(0.0), Mix(1.0)], |v| DelayBuilder::new().delay_time(ms(2)).mix(v), |h: &mut kira::effect::delay::DelayHandle, v, tw| h.set_mix(v, tw));
		}
		2 => {
			for kind in [DistortionKind::HardClip, DistortionKind::SoftClip] {
				p!("drive", [Decibels(0.0), Decibels(40.0), Decibels(-60.0)], move |v| DistortionBuilder::new().kind(kind).drive(v), |h: &mut kira::effect::distortion::DistortionHandle, v, tw| h.set_drive(v, tw));
				p!("mix", [Mix(1.0), Mix(0.0), Mix(0.5)], move |v| DistortionBuilder::new().kind(kind).mix(v), |h: &mut kira::effect::distortion::DistortionHandle, v, tw| h.set_mix(v, tw));
			}
		}
		3 => {
			for kind in [EqFilterKind::Bell, EqFilterKind::LowShelf, EqFilterKind::HighShelf] {
				p!("frequency", [1000.0f64, 20.0, 3900.0, 0.0], move |v| EqFilterBuilder::new(kind, v, 6.0, 1.0), |h: &mut kira::effect::eq_filter::EqFilterHandle, v, tw| h.set_frequency(v, tw));
				p!("gain", [Decibels(6.0), Decibels(-60.0), Decibels(24.0)], move |v| EqFilterBuilder::new(kind, 1000.0, v, 1.0), |h: &mut kira::effect::eq_filter::EqFilterHandle, v, tw| h.set_gain(v, tw));
				p!("q", [1.0f64, 0.1, 10.0, 0.0], move |v| EqFilterBuilder::new(kind, 1000.0, 6.0, v), |h: &mut kira::effect::eq_filter::EqFilterHandle, v, tw| h.set_q(v, tw));
			}
		}
		4 => {
			for mode in [FilterMode::LowPass, FilterMode::BandPass, FilterMode::HighPass, FilterMode::Notch] {
				p!("cutoff", [1000.0f64, 20.0, 3900.0, 0.0], move |v| FilterBuilder::new().mode(mode).cutoff(v), |h: &mut kira::effect::filter::FilterHandle, v, tw| h.set_cutoff(v, tw));
				p!("resonance", [0.0f64, 1.0, 0.5], move |v| FilterBuilder::new().mode(mode).resonance(v), |h: &mut kira::effect::filter::FilterHandle, v, tw| h.set_resonance(v, tw));
				p!("mix", [Mix(1.0), Mix(0.0), Mix(0.5)], move |v| FilterBuilder::new().mode(mode).mix(v), |h: &mut kira::effect::filter::FilterHandle, v, tw| h.set_mix(v, tw));
			}
		}
		5 => {
			p!("panning", [Panning(0.0), Panning(-1.0), Panning(1.0)], |v| PanningControlBuilder(Value::Fixed(v)), |h: &mut kira::effect::panning_control::PanningControlHandle, v, tw| h.set_panning(v, tw));
		}
		6 => {
			p!("feedback", [0.9f64, 0.0, 1.0], |v| ReverbBuilder::new().feedback(v), |h: &mut kira::effect::reverb::ReverbHandle, v, tw| h.set_feedback(v, tw));
			p!("damping", [0.1f64, 0.0, 1.0], |v| ReverbBuilder::new().damping(v), |h: &mut kira::effect::reverb::ReverbHandle, v, tw| h.set_damping(v, tw));
			p!("stereo_width", [1.0f64, 0.0, 0.5], |v| ReverbBuilder::new().stereo_width(v), |h: &mut kira::effect::reverb::ReverbHandle, v, tw| h.set_stereo_width(v, tw));
			p!("mix", [Mix(0.5), Mix(0.0), Mix(1.0)], |v| ReverbBuilder::new().mix(v), |h: &mut kira::effect::reverb::ReverbHandle, v, tw| h.set_mix(v, tw));
		}
		_ => {
			p!("volume", [Decibels(0.0), Decibels(-60.0), Decibels(12.0)], |v| VolumeControlBuilder(Value::Fixed(v)), |h: &mut kira::effect::volume_control::VolumeControlHandle, v, tw| h.set_volume(v, tw));
		}
	}
	let noise: Vec<Frame> = (0..64).map(|i| Frame::new((((i * 7919 + 13) % 64) as f32 / 64.0 - 0.5) * 1.6, (((i * 104729 + 7) % 64) as f32 / 64.0 - 0.5) * 1.6)).collect();
	for (name, nv, scene) in &params {
		for a in 0..*nv {
			for b in 0..*nv {
				if a == b {
					continue;
				}
				for &tw in &tweens {
					ctx.evals += 1;
					let desc = || format!("{} {}: value #{} -> value #{} with a tween of {} s ({} internal buffers of {} frames at {} Hz), noise input, callbacks of {} frames", F6_EFFECTS[which], name, a, b, tw, tw * SR as f64 / IBS as f64, IBS, SR, IBS);
					let r = catch(|| {
						let (tb, mut set) = scene(a, b);
						let mut m = rig::manager(SR, IBS, rig::caps(2), MainTrackBuilder::new());
						let mut t = m.add_sub_track(tb).map_err(|e| format!("{:?}", e))?;
						let _s = t.play(rig::static_data(SR, noise.clone()).loop_region(Region::from(..))).map_err(|_| "play".to_string())?;
						let mut buf = vec![0.0f32; IBS * 2];
						let mut nonsilent = false;
						for cb in 0..10 {
							if cb == 1 {
								set(Tween { start_time: StartTime::Immediate, duration: Duration::from_secs_f64(tw), easing: Easing::Linear });
							}
							let rep = rig::callback(&mut m, &mut buf, IBS, 2);
							if !rep.ok() {
								return Ok::<_, String>(Some((cb, rep)));
							}
							nonsilent |= buf.iter().any(|x| *x != 0.0);
						}
						let _ = nonsilent;
						Ok(None)
					});
					match r {
						Ok(Ok(None)) => {
							ctx.nontrivial_extra += 1;
						}
						Ok(Ok(Some((cb, rep)))) => {
							let dir = if tw == 0.0 { "instant" } else { "tweened" };
							rig::report_cb(ctx, &rep, &format!("F6 {} {} ({})", F6_EFFECTS[which], name, dir), &|| format!("{}; callback {}", desc(), cb));
						}
						Ok(Err(e)) => ctx.fail(format!("scene could not be built: {} :: F6 {}", e, F6_EFFECTS[which]), desc()),
						Err(p) => {
							ctx.count("caller_thread_panics", 1);
							let _ = p;
						}
					}
					ctx.state(hash64(&(which, name, a, b, tw.to_bits())));
				}
			}
		}
	}
	ctx.outcome(hash64(&("f6", which)));
}
