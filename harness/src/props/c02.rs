//! C02 — mixer output equals the documented signal-flow sum; nothing leaks or is lost.
//!
//! E1: all track forests with <= 3 sub-tracks (9 shapes) x sound placement x send tables x one
//! perturbation at a time (volume / tween / effect chain on one target) x internal buffer sizes x
//! callback-size patterns; plus add/remove/pause histories to depth 3. Every callback is compared
//! frame by frame with `MixWorld`'s reference evaluation; probe sounds/effects log every process call.

use crate::engine::{hash64, Check, Ctx, Level, Tier};
use crate::json::J;
use crate::models::mix::{MixWorld, NodeCfg, Target};
use crate::probes::FxOp;
use crate::rig::catch;

pub struct C02;

const SHAPES: [&[i8]; 9] = [
	&[],
	&[-1],
	&[-1, -1],
	&[-1, 0],
	&[-1, -1, -1],
	&[-1, -1, 0],
	&[-1, -1, 1],
	&[-1, 0, 0],
	&[-1, 0, 1],
];
const IBS: [usize; 4] = [1, 2, 3, 4];
const PATTERNS: [[usize; 3]; 4] = [[1, 3, 4], [7, 1, 3], [4, 4, 7], [3, 7, 1]];
const SR: u32 = 8;

/// one perturbation of the neutral scene
#[derive(Debug, Clone, Copy, PartialEq)]
enum Pert {
	None,
	/// target (0..n = node, n = main, n+1 = send 0, n+2 = route 0), volume in dB
	Volume(usize, f32),
	AllHalf,
	/// 2-chunk linear volume tween on node
	Tween(usize),
	/// node built at -12 dB, 2-chunk linear tween up to exactly 0 dB
	TweenUp(usize),
	/// effect chain variant on target
	Fx(usize, u8),
	/// two sounds on one node
	TwoSounds(usize),
	/// volume -6.02 dB AND an order-sensitive effect chain on the same target (effects act before the target's fader)
	VolFx(usize, u8),
	/// track 0 declares its route to send 0 twice (-6.02 dB, then -12 dB: the later declaration replaces the earlier);
	/// after the first callback the route is closed with set_send
	DupRoute,
}

fn fx_chain(v: u8) -> Vec<FxOp> {
	match v {
		0 => vec![],
		1 => vec![FxOp::Add(0.015625)],
		2 => vec![FxOp::Mul(0.5), FxOp::Add(0.015625)],
		_ => vec![FxOp::Add(0.015625), FxOp::Mul(0.5)],
	}
}

fn perts(n: usize, nsends: usize) -> Vec<Pert> {
	let mut v = vec![Pert::None, Pert::AllHalf];
	let ntargets = n + 1 + if nsends > 0 { 2 } else { 0 };
	for t in 0..ntargets {
		for db in [-6.0206f32, -60.0] {
			v.push(Pert::Volume(t, db));
		}
		for f in 1..4u8 {
			if t <= n + 1 {
				v.push(Pert::Fx(t, f));
			}
		}
		if t <= n + 1 {
			v.push(Pert::VolFx(t, 1));
			v.push(Pert::VolFx(t, 3));
		}
	}
	for t in 0..n {
		v.push(Pert::Tween(t));
		v.push(Pert::TweenUp(t));
		v.push(Pert::TwoSounds(t));
	}
	if nsends > 0 && n > 0 {
		v.push(Pert::DupRoute);
	}
	v
}

fn grid_cases() -> u64 {
	SHAPES.len() as u64 * 4 * 3 // shape x ibs x send config
}
const HIST_CASES: u64 = 9 * 2;

impl Check for C02 {
	fn id(&self) -> &'static str {
		"C02"
	}
	fn level(&self) -> Level {
		Level::ModelChecking
	}
	fn num_cases(&self, _tier: Tier) -> u64 {
		grid_cases() + HIST_CASES + 3
	}
	fn describe(&self, tier: Tier, idx: u64) -> String {
		if idx == grid_cases() + HIST_CASES + 2 {
			return "spatial track whose listener was removed: its own output is silence, but its sounds, effects and child tracks are still asked for every frame and a child's send route still delivers".to_string();
		}
		if idx >= grid_cases() + HIST_CASES {
			return format!("E2 interleavings: {}", e2_name(idx - grid_cases() - HIST_CASES));
		}
		if idx < grid_cases() {
			let (shape, ibs, sends) = dec_grid(idx);
			format!(
				"forest {:?} (parent of each sub-track, -1 = main) internal buffer {} send tracks {}: every sound placement x every perturbation (volume -6.02/-60 dB, tween, effect chain on one target) x callback patterns {:?}",
				SHAPES[shape], ibs, sends, PATTERNS
			)
		} else {
			let h = idx - grid_cases();
			format!(
				"histories on forest {:?} internal buffer {}: all sequences to depth {} over add sound / drop track handle / finish sound / pause / resume / set_volume (1 s tween) / set_send (1 s tween) / drop send handle",
				SHAPES[(h % 9) as usize],
				[2, 3][(h / 9) as usize],
				tier.pick(3, 4)
			)
		}
	}
	fn sig_hint(&self, _tier: Tier, idx: u64) -> String {
		if idx == grid_cases() + HIST_CASES + 2 {
			return "listener-less spatial subtree".to_string();
		}
		if idx >= grid_cases() + HIST_CASES {
			return format!("E2 #{}", idx - grid_cases() - HIST_CASES);
		}
		if idx < grid_cases() {
			let (shape, ibs, sends) = dec_grid(idx);
			format!("forest {:?} ibs {} sends {}", SHAPES[shape], ibs, sends)
		} else {
			"history".into()
		}
	}
	fn rule(&self) -> String {
		"all 9 forests of <= 3 sub-tracks x internal buffer {1,2,3,4} x {0,1,2} send tracks (routes from track 0, and from the last track for 2 sends) x every subset of {main, tracks} carrying a probe sound x one perturbation at a time (volume -6.0206 / -60 dB on each track, main, send, route; all -6 dB; 2-chunk volume tween down and (from -12 dB) up to exactly 0 dB; a route declared twice then closed; three order-sensitive effect chains on each track, main, send; the same with a -6 dB fader on that target; two sounds on one track) x 4 callback patterns from {1,3,4,7} frames; plus all histories to depth 3 (4 thorough) over 5 + 8 per track letters (add sound, drop handle, finish sound, pause, resume, tweened set_volume, faded resume and a delayed resume_at per track; tweened set_send; send-track volume to -60 dB / back to 0 dB; drop send handle) on fully populated forests; plus E2: all interleavings (preemption bound 2 / 3) of game(add send track; add track routed to it; play) with audio(3 callbacks). Every callback is compared with the reference sum; states = distinct (adopted, marked, removed, pause state) vectors of the model; non-trivial = scenes with at least two contributing sounds and non-silent output".into()
	}
	fn assumptions(&self) -> Vec<String> {
		vec![
			"f32 summation order inside one track is not specified; outputs are compared within 4e-6 (errors of interest are of the order of a whole signal, >= 2^-7)".into(),
			"trees of at most 3 sub-tracks stand for all track trees".into(),
		]
	}
	fn extra_evidence(&self, tier: Tier) -> Vec<(String, J)> {
		vec![("history_depth".into(), J::u(tier.pick(3, 4)))]
	}
	fn case_timeout_ms(&self, tier: Tier) -> u64 {
		tier.pick(120_000, 1_200_000)
	}
	fn run_case(&self, tier: Tier, idx: u64, ctx: &mut Ctx) {
		if idx == grid_cases() + HIST_CASES + 2 {
			if let Err(p) = catch(|| listenerless_subtree(ctx)) {
				ctx.fail(format!("panic: {} :: listener-less spatial subtree", p), "");
			}
			return;
		}
		if idx >= grid_cases() + HIST_CASES {
			e2_adoption(tier, idx - grid_cases() - HIST_CASES, ctx);
			return;
		}
		if idx < grid_cases() {
			let (shape, ibs, sends) = dec_grid(idx);
			grid(tier, shape, ibs, sends, ctx);
		} else {
			let h = idx - grid_cases();
			histories(tier, (h % 9) as usize, [2, 3][(h / 9) as usize], ctx);
		}
	}
}

fn dec_grid(idx: u64) -> (usize, usize, usize) {
	let shape = (idx % 9) as usize;
	let ibs = IBS[((idx / 9) % 4) as usize];
	let sends = ((idx / 36) % 3) as usize;
	(shape, ibs, sends)
}

/// sound codes: distinct powers of two so that every subset has a distinct sum; a small ramp
/// exposes stale buffers and mis-ordered chunks
fn sound_code(k: usize) -> ((f32, f32), (f32, f32)) {
	let base = 1.0 / (8 << k) as f32;
	((base, 1.0 / 4096.0), (-base / 2.0, 1.0 / 8192.0))
}

fn build(shape: usize, ibs: usize, nsends: usize, mask: u32, pert: Pert) -> Result<MixWorld, String> {
	let parents = SHAPES[shape];
	let n = parents.len();
	let vol = |t: usize| -> f32 {
		match pert {
			Pert::Volume(pt, db) if pt == t => db,
			Pert::VolFx(pt, _) if pt == t => -6.0206,
			Pert::TweenUp(pt) if pt == t => -12.0,
			Pert::AllHalf => -6.0206,
			_ => 0.0,
		}
	};
	let fx = |t: usize| -> Vec<FxOp> {
		match pert {
			Pert::Fx(pt, v) | Pert::VolFx(pt, v) if pt == t => fx_chain(v),
			_ => vec![],
		}
	};
	let mut w = MixWorld::new(SR, ibs, vol(n), &fx(n), 8);
	for s in 0..nsends {
		let (v, f) = if s == 0 { (vol(n + 1), fx(n + 1)) } else { (0.0, vec![]) };
		w.add_send(v, &f)?;
	}
	for (i, p) in parents.iter().enumerate() {
		let mut routes = vec![];
		if nsends > 0 && i == 0 {
			if pert == Pert::DupRoute {
				routes.push((0, -6.0206));
				routes.push((0, -12.0));
			} else {
				routes.push((0, vol(n + 2)));
			}
		}
		if nsends > 1 && i == n - 1 {
			routes.push((1, 0.0));
		}
		let cfg = NodeCfg {
			volume_db: vol(i),
			fx: fx(i),
			routes,
			persist: false,
		};
		w.add_node(if *p < 0 { None } else { Some(*p as usize) }, &cfg)?;
	}
	// sounds: bit k of mask: k < n -> on node k; k == n -> on main
	for k in 0..=n {
		if mask & (1 << k) != 0 {
			let (l, r) = sound_code(k);
			w.play(if k == n { Target::Main } else { Target::Node(k) }, l, r)?;
		}
	}
	if let Pert::TwoSounds(t) = pert {
		let (l, r) = sound_code(n + 1);
		w.play(Target::Node(t), l, r)?;
	}
	Ok(w)
}

fn grid(tier: Tier, shape: usize, ibs: usize, nsends: usize, ctx: &mut Ctx) {
	let n = SHAPES[shape].len();
	if n == 0 && nsends > 0 {
		// no track to route from: the send tracks just exist
	}
	let ps = perts(n, nsends);
	for mask in 0..(1u32 << (n + 1)) {
		for &pert in &ps {
			for (pi, pat) in PATTERNS.iter().enumerate() {
				if tier == Tier::Quick && !matches!(pert, Pert::None) && pi >= 2 {
					continue;
				}
				ctx.evals += 1;
				ctx.traces += 1;
				let desc = || {
					format!(
						"forest {:?} ibs {} sends {} sounds mask {:#b} (bit k = track k, top bit = main) perturbation {:?} callbacks {:?}",
						SHAPES[shape], ibs, nsends, mask, pert, pat
					)
				};
				let r = catch(|| {
					let mut w = build(shape, ibs, nsends, mask, pert)?;
					let mut fails = vec![];
					for (ci, &frames) in pat.iter().enumerate() {
						if let Pert::Tween(t) = pert {
							if ci == 1 {
								// a tween of exactly two internal buffers
								w.set_node_volume(t, -12.0, 2.0 * ibs as f64 / SR as f64);
							}
						}
						if let Pert::TweenUp(t) = pert {
							if ci == 1 {
								w.set_node_volume(t, 0.0, 2.0 * ibs as f64 / SR as f64);
							}
						}
						if pert == Pert::DupRoute && ci == 1 {
							w.set_node_route(0, 0, -60.0, 0.0);
						}
						let f = w.callback(frames);
						let bad = !f.is_empty();
						fails.extend(f.into_iter().map(|(s, d)| (s, format!("callback #{} ({} frames): {}", ci, frames, d))));
						if bad {
							break;
						}
					}
					Ok::<_, String>((fails, w.state_hash()))
				});
				match r {
					Ok(Ok((fails, st))) => {
						ctx.state(st);
						ctx.transitions += 3;
						for (s, d) in fails {
							ctx.fail(format!("{} :: grid", s), format!("{} {}", desc(), d));
						}
						if mask.count_ones() >= 2 {
							ctx.nontrivial_extra += 1;
						}
					}
					Ok(Err(e)) => ctx.fail(format!("scene could not be built: {} :: grid", e), desc()),
					Err(p) => ctx.fail(format!("panic: {} :: grid", p), desc()),
				}
			}
		}
	}
	ctx.outcome(hash64(&(shape, ibs, nsends)));
}

// ---------------------------------------------------------------------------------------------

fn letters(n: usize) -> Vec<String> {
	let mut v = vec!["none".to_string(), "drop send handle".to_string(), "play another sound on main".to_string()];
	for i in 0..n {
		v.push(format!("play another sound on track {}", i));
		v.push(format!("drop handle of track {}", i));
		v.push(format!("finish the first sound of track {}", i));
		v.push(format!("pause track {} (instant)", i));
		v.push(format!("resume track {} (instant)", i));
		v.push(format!("set_volume(track {}, -12 dB over 1 s = 8 frames)", i));
		v.push(format!("resume track {} (fade-in over 1 s)", i));
		v.push(format!("resume_at(track {}, Delayed 0.75 s = 6 frames, instant)", i));
		v.push(format!("pause track {} (1 s fade) and resume it (1 s fade) in the same interval", i));
	}
	v.push("set_volume(send 0, -60 dB, instant)".to_string());
	v.push("set_volume(send 0, 0 dB, instant)".to_string());
	v.push("set_send(track 0 -> send 0, -60 dB over 1 s)".to_string());
	v
}

fn histories(tier: Tier, shape: usize, ibs: usize, ctx: &mut Ctx) {
	let n = SHAPES[shape].len();
	let ls = letters(n);
	let depth = tier.pick(3, 4);
	let total = (ls.len() as u64).pow(depth as u32);
	for h in 0..total {
		let mut seq = vec![];
		let mut x = h;
		for _ in 0..depth {
			seq.push((x % ls.len() as u64) as usize);
			x /= ls.len() as u64;
		}
		ctx.evals += 1;
		ctx.traces += 1;
		let desc = || {
			format!(
				"forest {:?} ibs {} history=[{}] (each letter followed by a callback of 3 frames)",
				SHAPES[shape],
				ibs,
				seq.iter().map(|l| ls[*l].clone()).collect::<Vec<_>>().join("; ")
			)
		};
		let r = catch(|| {
			let mut w = build(shape, ibs, 1, (1 << (n + 1)) - 1, Pert::None)?;
			let mut fails = vec![];
			let mut extra = 0usize;
			let f = w.callback(3);
			fails.extend(f);
			for (k, &l) in seq.iter().enumerate() {
				if !fails.is_empty() {
					break;
				}
				match l {
					0 => {}
					1 => w.drop_send_handle(0),
					2 => {
						let (a, b) = sound_code(5 + extra % 3);
						extra += 1;
						let _ = w.play(Target::Main, a, b);
					}
					l if l == ls.len() - 1 => {
						if n > 0 {
							w.set_node_route(0, 0, -60.0, 1.0);
						}
					}
					l if l == ls.len() - 2 => w.set_send_volume(0, 0.0, 0.0),
					l if l == ls.len() - 3 => w.set_send_volume(0, -60.0, 0.0),
					_ => {
						let i = (l - 3) / 9;
						match (l - 3) % 9 {
							0 => {
								let (a, b) = sound_code(5 + extra % 3);
								extra += 1;
								let _ = w.play(Target::Node(i), a, b);
							}
							1 => w.drop_node_handle(i),
							2 => {
								if let Some(si) = (0..w.sounds.len()).find(|s| w.sounds[*s].on == Target::Node(i)) {
									w.finish_sound(si);
								}
							}
							3 => w.pause_node(i, 0.0),
							4 => w.resume_node(i, 0.0),
							5 => w.set_node_volume(i, -12.0, 1.0),
							6 => w.resume_node(i, 1.0),
							7 => w.resume_node_at(i, kira::StartTime::Delayed(std::time::Duration::from_secs_f64(0.75)), crate::models::playback::StartM::Delayed(0.75), 0.0),
							_ => {
								w.pause_node(i, 1.0);
								w.resume_node(i, 1.0);
							}
						}
					}
				}
				let f = w.callback(3);
				fails.extend(f.into_iter().map(|(s, d)| (s, format!("after step #{}: {}", k, d))));
				ctx.transitions += 1;
				ctx.state(w.state_hash());
			}
			Ok::<_, String>(fails)
		});
		match r {
			Ok(Ok(fails)) => {
				for (s, d) in fails {
					ctx.fail(format!("{} :: history", s), format!("{} {}", desc(), d));
				}
				ctx.nontrivial_extra += 1;
			}
			Ok(Err(e)) => ctx.fail(format!("scene could not be built: {} :: history", e), desc()),
			Err(p) => ctx.fail(format!("panic: {} :: history", p), desc()),
		}
	}
	ctx.outcome(hash64(&("hist", shape, ibs)));
}

// ---------------------------------------------------------------------------------------------
// E2: the gameplay thread builds a routed branch while the audio thread adopts new resources.
// Whatever the interleaving, a callback hears either nothing of the new branch or all of it
// (dry path + send route): a track is never live without the send track it was routed to.

fn e2_name(i: u64) -> &'static str {
	[
		"game(add send track S; add track T routed to S; play DC on T) || audio(3 callbacks of 1 frame): each frame is silent or dry + send",
		"game(add send track S; add track T; add nested track U routed to S; play DC on U) || audio(3 callbacks)",
	][i as usize]
}

fn e2_adoption(tier: Tier, which: u64, ctx: &mut Ctx) {
	use crate::rig;
	use crate::sched::{self, Config, Exec};
	use kira::sound::Region;
	use kira::track::{MainTrackBuilder, SendTrackBuilder, TrackBuilder};
	use std::sync::{Arc, Mutex};
	fn filt(s: &'static str) -> bool {
		s.starts_with("res.") || s.starts_with("rtrb.") || s.starts_with("arena.")
	}
	let cfg = Config { filter: filt, horizon: 4000, max_spin_rounds: 8, record_sites: true, ..Default::default() };
	#[derive(Debug, Clone, Default, PartialEq)]
	struct Obs {
		heard: Vec<(f32, f32)>,
		monitors: Vec<String>,
	}
	let mut body = |prefix: &[u8]| -> (sched::RunResult, Obs) {
		let mut m = rig::manager(8, 1, rig::caps(4), MainTrackBuilder::new());
		let mut renderer = m.backend_mut().renderer.take().unwrap();
		let obs = Arc::new(Mutex::new(Obs::default()));
		let back = Arc::new(Mutex::new(None));
		let keep: Arc<Mutex<Option<Box<dyn std::any::Any + Send>>>> = Arc::new(Mutex::new(None));
		let mut ex = Exec::begin(&cfg, prefix);
		{
			let keep = keep.clone();
			ex.spawn("game", move || {
				let send = m.add_send_track(SendTrackBuilder::new()).expect("send");
				let mut t = m.add_sub_track(if which == 0 { TrackBuilder::new().with_send(&send, 0.0) } else { TrackBuilder::new() }).expect("track");
				let data = rig::static_data(8, rig::dc_frames(4, 0.25)).loop_region(Region::from(..));
				if which == 0 {
					let h = t.play(data).expect("play");
					*keep.lock().unwrap() = Some(Box::new((m, send, t, h)));
				} else {
					let mut u = t.add_sub_track(TrackBuilder::new().with_send(&send, 0.0)).expect("nested");
					let h = u.play(data).expect("play");
					*keep.lock().unwrap() = Some(Box::new((m, send, t, u, h)));
				}
			});
		}
		{
			let (obs, back) = (obs.clone(), back.clone());
			ex.spawn("audio", move || {
				let mut buf = [0.0f32; 2];
				for _ in 0..3 {
					let rep = rig::callback_on(&mut renderer, &mut buf, 1, 2);
					let mut o = obs.lock().unwrap();
					if !rep.ok() {
						o.monitors.push(format!("{:?}", rep));
					}
					o.heard.push((buf[0], buf[1]));
				}
				*back.lock().unwrap() = Some(renderer);
			});
		}
		let res = ex.run();
		let mut o = obs.lock().unwrap().clone();
		if let Some(mut r) = back.lock().unwrap().take() {
			for _ in 0..2 {
				let mut b = [0.0f32; 2];
				rig::callback_on(&mut r, &mut b, 1, 2);
				o.heard.push((b[0], b[1]));
			}
			drop(r);
		}
		drop(keep);
		(res, o)
	};
	let mut outcomes = std::collections::HashSet::new();
	let mut fails: Vec<(String, String)> = vec![];
	let mut nontrivial = 0u64;
	let mut judge = |res: &sched::RunResult, o: &Obs, choices: &[u8]| {
		outcomes.insert(hash64(&format!("{:?}", o)));
		if choices.iter().any(|c| *c != 0) {
			nontrivial += 1;
		}
		for p in &res.panics {
			fails.push((format!("panic in a controlled thread: {} :: E2 #{}", p, which), sched::fmt_schedule(res)));
		}
		if let Some(mn) = o.monitors.first() {
			fails.push((format!("a callback racing with the creation of a routed branch panics, allocates or writes an ill-formed sample :: E2 #{}", which), format!("{}; {}", mn, sched::fmt_schedule(res))));
		}
		let mut stage = 0;
		for (k, (l, r)) in o.heard.iter().enumerate() {
			let s = if *l == 0.0 && *r == 0.0 {
				0
			} else if (*l - 0.5).abs() < 1e-6 && (*r - 0.5).abs() < 1e-6 {
				1
			} else {
				fails.push((
					format!("a track is live without the send track it is routed to (part of the branch's signal is lost) :: E2 #{}", which),
					format!("frame {} = ({}, {}), expected silence or 0.5 (dry 0.25 + send 0.25); heard {:?}; {}", k, l, r, o.heard, sched::fmt_schedule(res)),
				));
				return;
			};
			if s < stage {
				fails.push((format!("a branch that was audible falls silent again :: E2 #{}", which), format!("heard {:?}; {}", o.heard, sched::fmt_schedule(res))));
				return;
			}
			stage = s;
		}
		if stage != 1 {
			fails.push((format!("the new branch is never heard :: E2 #{}", which), format!("heard {:?}; {}", o.heard, sched::fmt_schedule(res))));
		}
	};
	let stats = sched::explore(tier.pick(Some(2), Some(3)), 3_000_000, &mut body, &mut judge);
	sched::report(ctx, &stats);
	if let Some(e) = stats.error {
		ctx.fail(format!("MACHINERY: scheduler error: {}", e), "");
	}
	ctx.schedules += stats.schedules;
	ctx.evals += stats.schedules;
	ctx.traces += stats.schedules;
	ctx.transitions += stats.schedules * stats.max_points as u64;
	ctx.count(&format!("e2_schedules[#{}]", which), stats.schedules);
	ctx.count(&format!("e2_max_points[#{}]", which), stats.max_points as u64);
	ctx.count("e2_capped", stats.capped as u64);
	for o in outcomes {
		ctx.outcome(o);
		ctx.state(o);
	}
	ctx.nontrivial_extra += nontrivial;
	for (s, d) in fails {
		ctx.fail(s, d);
	}
}

// ---------------------------------------------------------------------------------------------
// "a removed, paused or unrouted branch contributes exact silence" - and nothing else changes: a spatial track whose
// listener is gone is silent at its own output, yet everything beneath it is still processed frame by frame

fn listenerless_subtree(ctx: &mut Ctx) {
	use crate::probes::ProbeSoundData;
	use crate::rig;
	use kira::track::{MainTrackBuilder, SendTrackBuilder, SpatialTrackBuilder, TrackBuilder};
	use std::sync::atomic::Ordering;
	for ibs in [1usize, 3, 4] {
		for drop_before in [0usize, 1, 2] {
			ctx.evals += 1;
			ctx.traces += 1;
			let desc = || format!("internal buffer {}, callbacks of [3, 4, 1, 7] frames; listener handle dropped before callback {}", ibs, drop_before);
			let mut m = rig::manager(SR, ibs, rig::caps(4), MainTrackBuilder::new());
			let send = m.add_send_track(SendTrackBuilder::new()).expect("send");
			let listener = m.add_listener(glam::Vec3::ZERO, glam::Quat::IDENTITY).expect("listener");
			let mut sp = m.add_spatial_sub_track(&listener, glam::Vec3::new(0.0, 0.0, -1.0), SpatialTrackBuilder::new().attenuation_function(None).spatialization_strength(0.0)).expect("spatial");
			let mut child = sp.add_sub_track(TrackBuilder::new().with_send(&send, 0.0)).expect("child");
			let a = sp.play(ProbeSoundData::new((0.125, 0.0), (0.125, 0.0))).expect("play on the spatial track");
			let b = child.play(ProbeSoundData::new((0.25, 0.0), (0.25, 0.0))).expect("play on the child");
			let mut listener = Some(listener);
			let mut total = 0u64;
			let mut bad = None;
			for (cb, n) in [3usize, 4, 1, 7].into_iter().enumerate() {
				if cb == drop_before {
					listener = None;
				}
				let mut out = vec![];
				let rep = rig::render_stereo(&mut m, n, &mut out);
				ctx.transitions += 1;
				if !rep.ok() {
					bad = Some(format!("callback monitor {:?}", rep));
					break;
				}
				total += n as u64;
				// the listener is removed at the callback after its handle was dropped; from then on the spatial branch is silent
				// at the main output and only the child's send route (0.25 x 0 dB x 0 dB) is heard
				let gone = cb >= drop_before + 1 || (drop_before == 0 && cb >= 1);
				let _ = gone;
				for (i, f) in out.iter().enumerate() {
					let with_listener = 0.125 + 0.25 + 0.25;
					let without = 0.25;
					if (f.0 - with_listener).abs() > 1e-5 && (f.0 - without).abs() > 1e-5 {
						bad = Some(format!("callback {} frame {} = {}, expected {} (listener alive: dry spatial branch + send) or {} (listener gone: the child's send route only)", cb, i, f.0, with_listener, without));
						break;
					}
				}
				if bad.is_some() {
					break;
				}
			}
			if bad.is_none() {
				let (fa, fb) = (a.frames_emitted.load(Ordering::SeqCst), b.frames_emitted.load(Ordering::SeqCst));
				if fa != total || fb != total {
					bad = Some(format!("the sound on the spatial track was asked for {} frames and the one on its child for {}, {} frames were rendered", fa, fb, total));
				}
			}
			if let Some(b) = bad {
				ctx.fail("a spatial track whose listener was removed stops processing its sounds / child tracks (or their routes are lost) :: listener-less spatial subtree", format!("{}; {}", desc(), b));
			}
			ctx.nontrivial_extra += 1;
			ctx.state(hash64(&("listenerless", ibs, drop_before)));
			drop((sp, child, send, listener));
		}
	}
	// spatial tracks nested in spatial tracks, each bound to its OWN listener at a different place: every track on the path
	// contributes the attenuation for the distance to its own listener (linear curve over 1..11, strength 0: no panning)
	let att = |d: f64| -> f64 {
		let rel = (d.clamp(1.0, 11.0) - 1.0) / 10.0;
		let db = -60.0 * rel;
		if db <= -60.0 { 0.0 } else { 10f64.powf(db / 20.0) }
	};
	let sp = |b: SpatialTrackBuilder| b.distances((1.0, 11.0)).attenuation_function(Some(kira::Easing::Linear)).spatialization_strength(0.0);
	for (la, lb, outer_pos, inner_pos) in [(0.0f32, 20.0f32, 3.0f32, 22.0f32), (0.0, 20.0, 2.0, 8.0), (0.0, 5.0, 30.0, 6.0), (0.0, 20.0, 4.0, 4.0)] {
		for via_plain in [false, true] {
			for ibs in [1usize, 4] {
				ctx.evals += 1;
				ctx.traces += 1;
				let mut m = rig::manager(SR, ibs, rig::caps(4), MainTrackBuilder::new());
				let a = m.add_listener(glam::Vec3::new(la, 0.0, 0.0), glam::Quat::IDENTITY).expect("listener");
				let b = m.add_listener(glam::Vec3::new(lb, 0.0, 0.0), glam::Quat::IDENTITY).expect("listener");
				let mut outer = m.add_spatial_sub_track(&a, glam::Vec3::new(outer_pos, 0.0, 0.0), sp(SpatialTrackBuilder::new())).expect("outer");
				let mut keep: Vec<Box<dyn std::any::Any>> = vec![];
				let mut inner = if via_plain {
					let mut mid = outer.add_sub_track(TrackBuilder::new()).expect("mid");
					let t = mid.add_spatial_sub_track(&b, glam::Vec3::new(inner_pos, 0.0, 0.0), sp(SpatialTrackBuilder::new())).expect("inner");
					keep.push(Box::new(mid));
					t
				} else {
					outer.add_spatial_sub_track(&b, glam::Vec3::new(inner_pos, 0.0, 0.0), sp(SpatialTrackBuilder::new())).expect("inner")
				};
				let _p = inner.play(ProbeSoundData::new((0.5, 0.0), (0.5, 0.0))).expect("play");
				let mut out = vec![];
				for n in [3usize, 4, 5] {
					rig::render_stereo(&mut m, n, &mut out);
				}
				let want = 0.5 * att((inner_pos - lb).abs() as f64) * att((outer_pos - la).abs() as f64);
				if let Some(i) = out.iter().position(|f| (f.0 as f64 - want).abs() > 1e-5 || (f.1 as f64 - want).abs() > 1e-5) {
					ctx.fail(
						"a spatial track nested in another spatial track is not attenuated by the distance to its own listener (x its ancestor's attenuation to the ancestor's listener) :: nested spatial tracks, two listeners",
						format!("listener A at x={}, listener B at x={}; outer spatial track (listener A) at x={}, inner spatial track (listener B{}) at x={}; linear attenuation over 1..11, strength 0; DC 0.5; internal buffer {}: frame {} = {:?}, expected {}", la, lb, outer_pos, if via_plain { ", below a plain track" } else { "" }, inner_pos, ibs, i, out[i], want),
					);
				} else if want != 0.0 {
					ctx.nontrivial_extra += 1;
				}
				ctx.state(hash64(&("nested spatial", la as i32, lb as i32, outer_pos as i32, inner_pos as i32, via_plain, ibs)));
				drop((inner, outer, keep, a, b));
			}
		}
	}
	// a PLAIN track nested under a spatial track (directly, and two levels down) whose volume / send level is mapped from the
	// listener distance: the distance is that of the spatial ancestor to its listener
	for d in [2.0f32, 10.0, 18.0, 30.0] {
		for depth in [1usize, 2] {
			for on_route in [false, true] {
				ctx.evals += 1;
				ctx.traces += 1;
				let mut m = rig::manager(SR, 4, rig::caps(4), MainTrackBuilder::new());
				let a = m.add_listener(glam::Vec3::ZERO, glam::Quat::IDENTITY).expect("listener");
				let send = m.add_send_track(SendTrackBuilder::new()).expect("send");
				let mut outer = m.add_spatial_sub_track(&a, glam::Vec3::new(d, 0.0, 0.0), SpatialTrackBuilder::new().attenuation_function(None).spatialization_strength(0.0)).expect("outer");
				let map: kira::Value<kira::Decibels> = kira::Value::FromListenerDistance(kira::Mapping { input_range: (0.0, 20.0), output_range: (kira::Decibels(0.0), kira::Decibels(-20.0)), easing: kira::Easing::Linear });
				let mut keep: Vec<Box<dyn std::any::Any>> = vec![];
				let tb = if on_route { TrackBuilder::new().with_send(&send, map) } else { TrackBuilder::new().volume(map) };
				let mut inner = if depth == 2 {
					let mut mid = outer.add_sub_track(TrackBuilder::new()).expect("mid");
					let t = mid.add_sub_track(tb).expect("inner");
					keep.push(Box::new(mid));
					t
				} else {
					outer.add_sub_track(tb).expect("inner")
				};
				let _p = inner.play(ProbeSoundData::new((0.5, 0.0), (0.5, 0.0))).expect("play");
				let mut out = vec![];
				for n in [3usize, 4, 5] {
					rig::render_stereo(&mut m, n, &mut out);
				}
				let db = -20.0 * (d as f64 / 20.0).clamp(0.0, 1.0);
				// (sends are post-fader: with the route variant the track itself passes at 0 dB and the send adds the mapped share)
				let want = if on_route { 0.5 + 0.5 * 10f64.powf(db / 20.0) } else { 0.5 * 10f64.powf(db / 20.0) };
				// (the first chunk interpolates from the parameter's default)
				if let Some(i) = out.iter().enumerate().skip(4).find(|(_, f)| (f.0 as f64 - want).abs() > 1e-5).map(|(i, _)| i) {
					ctx.fail(
						"a plain track nested under a spatial track does not see the listener distance of its spatial ancestor (volume / send level mapped from the distance) :: nested spatial tracks, distance-mapped gain".to_string(),
						format!("spatial track at distance {} from its listener (no attenuation, strength 0); plain track {} level(s) below it whose {} is FromListenerDistance mapped (0..20) -> (0 dB..-20 dB); DC 0.5: frame {} = {:?}, expected {}", d, depth, if on_route { "send route (track itself at 0 dB)" } else { "volume" }, i, out[i], want),
					);
				} else {
					ctx.nontrivial_extra += 1;
				}
				ctx.state(hash64(&("distance child", d as i32, depth, on_route)));
				drop((inner, outer, keep, send, a));
			}
		}
	}
	// twin builders: a spatial track that neither attenuates nor pans is a plain track - also in what its own volume does when
	// it is fixed, linked to a live modulator, or linked to something that does not exist (a removed modulator; a listener
	// distance on a track that has no spatial ancestor keeps the fallback), from the first frame on
	for link in 0..4usize {
		for ibs in [1usize, 4] {
			ctx.evals += 1;
			ctx.traces += 1;
			let render = |spatial: bool| -> Vec<(f32, f32)> {
				use kira::modulator::tweener::TweenerBuilder;
				let mut m = rig::manager(SR, ibs, rig::caps(4), MainTrackBuilder::new());
				let a = m.add_listener(glam::Vec3::ZERO, glam::Quat::IDENTITY).expect("listener");
				let gone = m.add_modulator(TweenerBuilder { initial_value: 0.25 }).expect("tweener");
				let gone_id = gone.id();
				drop(gone);
				let live = m.add_modulator(TweenerBuilder { initial_value: 0.5 }).expect("tweener");
				let mut sink = vec![];
				for _ in 0..2 {
					rig::render_stereo(&mut m, 4, &mut sink);
				}
				let mapping = kira::Mapping { input_range: (0.0, 1.0), output_range: (kira::Decibels(-20.0), kira::Decibels(0.0)), easing: kira::Easing::Linear };
				let v: kira::Value<kira::Decibels> = match link {
					0 => kira::Value::Fixed(kira::Decibels(-6.0)),
					1 => kira::Value::FromModulator { id: live.id(), mapping },
					2 => kira::Value::FromModulator { id: gone_id, mapping },
					_ => kira::Value::FromListenerDistance(kira::Mapping { input_range: (0.0, 20.0), output_range: (kira::Decibels(-12.0), kira::Decibels(-20.0)), easing: kira::Easing::Linear }),
				};
				let mut keep: Vec<Box<dyn std::any::Any>> = vec![];
				if spatial {
					let mut t = m.add_spatial_sub_track(&a, glam::Vec3::new(0.0, 0.0, -2.0), SpatialTrackBuilder::new().attenuation_function(None).spatialization_strength(0.0).volume(v)).expect("track");
					keep.push(Box::new(t.play(ProbeSoundData::new((0.5, 0.0), (0.5, 0.0))).expect("play")));
					keep.push(Box::new(t));
				} else {
					let mut t = m.add_sub_track(TrackBuilder::new().volume(v)).expect("track");
					keep.push(Box::new(t.play(ProbeSoundData::new((0.5, 0.0), (0.5, 0.0))).expect("play")));
					keep.push(Box::new(t));
				}
				let mut out = vec![];
				for n in [3usize, 4, 5] {
					rig::render_stereo(&mut m, n, &mut out);
				}
				drop((keep, live, a));
				out
			};
			let (plain, spatial) = (render(false), render(true));
			const LINKS: [&str; 4] = ["Fixed(-6 dB)", "FromModulator(live tweener at 0.5, mapped 0..1 -> -20..0 dB)", "FromModulator(a tweener that was removed)", "FromListenerDistance (distance 2 for the spatial twin: the plain twin is compared from the mapping's value at 2 only when it has a listener - skipped)"];
			// (the listener-distance link means something only for the spatial twin: there the law is the mapping's value)
			let bad = if link == 3 {
				let want = 0.5 * 10f64.powf((-12.0 - 8.0 * 0.1) / 20.0);
				spatial.iter().enumerate().skip(ibs).find(|(_, f)| (f.0 as f64 - want).abs() > 1e-5).map(|(i, f)| format!("frame {} = {:?}, expected {}", i, f, want))
			} else {
				(0..plain.len()).find(|&i| (plain[i].0 - spatial[i].0).abs() > 1e-6 || (plain[i].1 - spatial[i].1).abs() > 1e-6).map(|i| format!("frame {}: plain track {:?}, spatial track {:?}", i, plain[i], spatial[i]))
			};
			if let Some(b) = bad {
				ctx.fail(
					"a spatial track that neither attenuates nor pans does not pass what the same plain track passes (its own volume setting behaves differently) :: twin builders",
					format!("track volume {}; DC 0.5 on the track; internal buffer {}; callbacks of 3, 4, 5 frames: {}; plain {:?}; spatial {:?}", LINKS[link], ibs, b, plain, spatial),
				);
			} else if plain.iter().any(|f| f.0 != 0.0) {
				ctx.nontrivial_extra += 1;
			}
			ctx.state(hash64(&("twin builders", link, ibs)));
		}
	}
	ctx.outcome(hash64(&"listenerless"));
}
