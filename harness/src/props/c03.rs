//! C03 — sound playback states follow the documented life cycle; Stopped is final.
//!
//! E1: every command sequence up to a depth bound over a 13-letter alphabet, for static and
//! streaming sounds (decoder paced through the gate hook), two sound shapes, three own start
//! times and two chunk sizes, in lock-step with `PlaybackModel`; plus a pass through the
//! manager that observes unloading and slot reuse.

use crate::engine::{hash64, Check, Ctx, Level, Tier};
use crate::json::J;
use crate::models::playback::{db_amp, lerp_db, PlaybackModel, StartM, PS};
use crate::pacer;
use crate::probes::{ScriptedDecoder, SoundHandle};
use crate::props::c06::{ClockNow, ParamModel, SM};
use crate::rig::{self, catch};
use kira::clock::ClockTime;
use kira::info::MockInfoBuilder;
use kira::sound::streaming::StreamingSoundData;
use kira::sound::{PlaybackState, Region, Sound, SoundData};
use kira::{Decibels, Easing, Frame, StartTime, Tween, Value};
use std::time::Duration;

pub struct C03;

pub const LETTERS: [&str; 14] = [
	"none",
	"pause(0)",
	"pause(2s, OutPowi 3)",
	"resume(0)",
	"resume(3s, InOutPowi 3)",
	"resume_at(Delayed 2s, fade 0)",
	"resume_at(Clock (2,0), fade 2s)",
	"stop(0)",
	"stop(2s, InPowi 2)",
	"seek_to(1s)",
	"set_volume(-6dB, 2s)",
	"clock advances to (2,0)",
	"clock removed",
	"set_volume(-60dB, instant)",
];
const NL: u64 = 14;

#[derive(Debug, Clone, Copy, PartialEq)]
enum Kind {
	Static,
	Streaming,
	/// streaming sound whose decoder is never granted a step: no audio, but the life cycle must still run
	StreamingStarved,
}
#[derive(Debug, Clone, Copy, PartialEq)]
enum Shape {
	DcLoop,
	Finite6,
	/// the same six frames played backwards (static sounds only; a streaming sound cannot be reversed)
	Finite6Reversed,
}
#[derive(Debug, Clone, Copy, PartialEq)]
enum OwnStart {
	Imm,
	Delayed2,
	Clock,
}

#[derive(Debug, Clone, Copy)]
struct Cfg {
	kind: Kind,
	shape: Shape,
	own: OwnStart,
	chunk: usize,
	first: u8,
}

const NCFG: u64 = 3 * 3 * 3 * 2 * NL;
const MGR_CASES: u64 = 8 * 4;
/// pair family: two life-cycle commands of different kinds issued between the same two callbacks.
/// cases = kind(3) x shape(2) x chunk(2) x first prefix letter (none-prefix + 13)
const PAIR_CASES: u64 = 3 * 2 * 2 * (NL + 1);
const PAIR_BASE: u8 = 100;

fn cmd_rank(l: u8) -> u8 {
	match l {
		1 | 2 => 0,     // pause
		3 | 4 | 5 => 1, // resume / resume_at
		_ => 2,         // stop
	}
}
/// ordered pairs (a, b) of life-cycle letters of different kinds
fn pairs() -> Vec<(u8, u8)> {
	let ls = [1u8, 2, 3, 4, 5, 7, 8];
	let mut v = vec![];
	for a in ls {
		for b in ls {
			if cmd_rank(a) != cmd_rank(b) {
				v.push((a, b));
			}
		}
	}
	v
}
fn letter_name(l: u8) -> String {
	if l >= PAIR_BASE {
		let (a, b) = pairs()[(l - PAIR_BASE) as usize];
		format!("{{{} ; {} - no callback in between}}", LETTERS[a as usize], LETTERS[b as usize])
	} else {
		LETTERS[l as usize].to_string()
	}
}
fn decode_pair(idx: u64) -> (Cfg, Option<u8>) {
	let mut i = idx;
	let pre = i % (NL + 1);
	i /= NL + 1;
	let chunk = [1usize, 3][(i % 2) as usize];
	i /= 2;
	let shape = [Shape::DcLoop, Shape::Finite6][(i % 2) as usize];
	i /= 2;
	let kind = [Kind::Static, Kind::Streaming, Kind::StreamingStarved][(i % 3) as usize];
	(Cfg { kind, shape, own: OwnStart::Imm, chunk, first: 0 }, if pre == 0 { None } else { Some(pre as u8 - 1) })
}

fn decode(idx: u64) -> Cfg {
	let mut i = idx;
	let first = (i % NL) as u8;
	i /= NL;
	let chunk = [1usize, 3][(i % 2) as usize];
	i /= 2;
	let own = [OwnStart::Imm, OwnStart::Delayed2, OwnStart::Clock][(i % 3) as usize];
	i /= 3;
	let shape = [Shape::DcLoop, Shape::Finite6, Shape::Finite6Reversed][(i % 3) as usize];
	i /= 3;
	let kind = [Kind::Static, Kind::Streaming, Kind::StreamingStarved][(i % 3) as usize];
	Cfg {
		kind,
		shape,
		own,
		chunk,
		first,
	}
}

fn depth(tier: Tier, kind: Kind) -> usize {
	match (tier, kind) {
		(Tier::Quick, _) => 4,
		(Tier::Thorough, Kind::Static) => 6,
		(Tier::Thorough, _) => 5,
	}
}

impl Check for C03 {
	fn id(&self) -> &'static str {
		"C03"
	}
	fn level(&self) -> Level {
		Level::ModelChecking
	}
	fn num_cases(&self, _tier: Tier) -> u64 {
		NCFG + MGR_CASES + PAIR_CASES
	}
	fn describe(&self, tier: Tier, idx: u64) -> String {
		if idx >= NCFG + MGR_CASES {
			let (c, pre) = decode_pair(idx - NCFG - MGR_CASES);
			return format!(
				"pair family: {:?} sound, shape {:?}, chunk {} frames, prefix [{}{}], then every ordered pair of life-cycle commands of different kinds issued between the same two callbacks, then 4 callbacks",
				c.kind,
				c.shape,
				c.chunk,
				pre.map(|l| LETTERS[l as usize]).unwrap_or("-"),
				tier.pick("", "; any second letter")
			);
		}
		if idx >= NCFG {
			return format!("manager pass #{}: unloading and slot reuse (capacity-1 track: main / sub / spatial / spatial without listener; hosts other than main also compared with the main-track run), all histories to depth 4 over {{none, stop(0), stop(2s), pause(0), resume(0)}}", idx - NCFG);
		}
		let c = decode(idx);
		format!(
			"{:?} sound, shape {:?}, own start {:?}, chunk {} frames, first letter '{}', then all continuations to depth {} over the 14-letter alphabet",
			c.kind,
			c.shape,
			c.own,
			c.chunk,
			LETTERS[c.first as usize],
			depth(tier, c.kind)
		)
	}
	fn sig_hint(&self, _tier: Tier, idx: u64) -> String {
		if idx >= NCFG + MGR_CASES {
			let (c, _) = decode_pair(idx - NCFG - MGR_CASES);
			return format!("{:?} {:?} pairs", c.kind, c.shape);
		}
		if idx >= NCFG {
			return "manager pass".into();
		}
		let c = decode(idx);
		format!("{:?} {:?} {:?}", c.kind, c.shape, c.own)
	}
	fn rule(&self) -> String {
		"all sequences of length <= depth over the 14-letter command alphabet (each letter followed by one callback), plus the pair family (prefix of <= 1 (quick) / <= 2 (thorough) letters, then every ordered pair of pause/resume/resume_at/stop commands of different kinds with NO callback in between, then 4 callbacks; judged against both the order of issue and the fixed kind order), x {static, streaming} x {looping DC, finite 6 frames, the same reversed (static)} x own start {immediate, delayed 2 s, clock} x chunk {1,3}; each history runs the real Box<dyn Sound> in lock-step with the 7-state reference machine. Model states = distinct (playback state, fade phase, start-time phase, volume phase, clock) tuples; non-trivial = histories that leave the Playing state".into()
	}
	fn assumptions(&self) -> Vec<String> {
		vec![
			"the streaming decoder is kept ahead of playback (>= chunk+4 frames) through the gate hook; starvation is C10's subject".into(),
			"the natural end may be reported up to 4 source frames after the last frame was heard (resampler window)".into(),
			"transitions the statement does not fix (e.g. resume during Stopping) are only required to stay within the seven states and obey the silence rule; the reference follows the documented command semantics for them".into(),
		]
	}
	fn extra_evidence(&self, tier: Tier) -> Vec<(String, J)> {
		vec![
			("alphabet".into(), J::arr_str(LETTERS.iter().map(|s| s.to_string()))),
			("depth_static".into(), J::u(depth(tier, Kind::Static) as u64)),
			("depth_streaming".into(), J::u(depth(tier, Kind::Streaming) as u64)),
		]
	}
	fn case_timeout_ms(&self, tier: Tier) -> u64 {
		tier.pick(40_000, 1_800_000)
	}
	fn run_case(&self, tier: Tier, idx: u64, ctx: &mut Ctx) {
		if idx >= NCFG + MGR_CASES {
			let (cfg, pre) = decode_pair(idx - NCFG - MGR_CASES);
			if cfg.kind != Kind::Static {
				pacer::set_mode(pacer::Mode::Pacer);
			}
			let mut prefixes: Vec<Vec<u8>> = vec![];
			match pre {
				None => prefixes.push(vec![]),
				Some(l) => {
					prefixes.push(vec![l]);
					if tier == Tier::Thorough {
						for l2 in 0..NL as u8 {
							prefixes.push(vec![l, l2]);
						}
					}
				}
			}
			for pfx in prefixes {
				for pi in 0..pairs().len() as u8 {
					let mut ls = pfx.clone();
					ls.push(PAIR_BASE + pi);
					ls.extend_from_slice(&[0, 0, 0, 0]);
					run_pair_history(&cfg, &ls, ctx);
				}
			}
			return;
		}
		if idx >= NCFG {
			if idx == NCFG {
				// "a finite sound reaches Stopped after its last frame" also when the decoder thread of a streaming sound is
				// stopped inside its last iterations while callbacks consume the ring (the family is shared with C10)
				pacer::set_mode(pacer::Mode::Pacer);
				if let Err(p) = catch(|| super::c10::mid_iteration(ctx)) {
					ctx.fail(format!("panic: {} :: streaming end race", p), "");
				}
				if let Err(p) = catch(|| twin_commands(ctx)) {
					ctx.fail(format!("panic: {} :: static / streaming twins", p), "");
				}
			}
			manager_pass(idx - NCFG, ctx);
			return;
		}
		let cfg = decode(idx);
		if cfg.kind != Kind::Static {
			pacer::set_mode(pacer::Mode::Pacer);
		}
		let d = depth(tier, cfg.kind);
		// enumerate all continuations (including shorter histories: the model is checked after every letter,
		// so a history of length k is a prefix of one of length d; only full-length histories are run)
		let mut letters = vec![cfg.first; 1];
		enumerate(&cfg, &mut letters, d, ctx);
	}
}

fn enumerate(cfg: &Cfg, letters: &mut Vec<u8>, depth: usize, ctx: &mut Ctx) {
	if letters.len() == depth {
		let ls = letters.clone();
		let r = catch(|| run_history(cfg, &ls, false, ctx));
		if let Err(p) = r {
			ctx.fail(format!("panic: {} :: {:?}", p, cfg.kind), hist_desc(cfg, &ls));
		}
		return;
	}
	for l in 0..NL as u8 {
		letters.push(l);
		enumerate(cfg, letters, depth, ctx);
		letters.pop();
	}
}

/// A history containing a same-interval pair is judged against both admissible references: the commands
/// applied in the order of issue, and in kira's fixed reading order (pause, resume, stop) - the statement
/// does not fix the order among commands of different kinds issued between the same two callbacks. Any
/// other behaviour (a command lost, applied a callback late, applied twice) fails both.
fn run_pair_history(cfg: &Cfg, ls: &[u8], ctx: &mut Ctx) {
	let mut a = Ctx::default();
	a.cur_case = ctx.cur_case;
	if let Err(p) = catch(|| run_history(cfg, ls, false, &mut a)) {
		a.fail(format!("panic: {} :: {:?}", p, cfg.kind), hist_desc(cfg, ls));
	}
	if a.total_failures() == 0 {
		ctx.absorb(a);
		ctx.count("pair_histories_matching_issue_order", 1);
		return;
	}
	let mut b = Ctx::default();
	b.cur_case = ctx.cur_case;
	if let Err(p) = catch(|| run_history(cfg, ls, true, &mut b)) {
		b.fail(format!("panic: {} :: {:?}", p, cfg.kind), hist_desc(cfg, ls));
	}
	if b.total_failures() == 0 {
		ctx.absorb(b);
		ctx.count("pair_histories_matching_fixed_kind_order_only", 1);
	} else {
		ctx.absorb(a);
	}
}

fn hist_desc(cfg: &Cfg, letters: &[u8]) -> String {
	format!(
		"{:?} {:?} own_start={:?} chunk={} history=[{}]",
		cfg.kind,
		cfg.shape,
		cfg.own,
		cfg.chunk,
		letters.iter().map(|l| letter_name(*l)).collect::<Vec<_>>().join("; ")
	)
}

fn tween(dur: f64, easing: Easing) -> Tween {
	Tween {
		start_time: StartTime::Immediate,
		duration: Duration::from_secs_f64(dur),
		easing,
	}
}

struct ClockSt {
	exists: bool,
	ticks: u64,
	fraction: f64,
}
impl ClockSt {
	fn now(&self) -> Option<ClockNow> {
		if self.exists {
			Some(ClockNow {
				ticking: true,
				ticks: self.ticks,
				fraction: self.fraction,
			})
		} else {
			None
		}
	}
	fn info(&self) -> kira::info::Info<'static> {
		let mut b = MockInfoBuilder::new();
		if self.exists {
			b.add_clock(true, self.ticks, self.fraction);
		}
		b.build()
	}
}

fn clock_id() -> kira::clock::ClockId {
	MockInfoBuilder::new().add_clock(true, 0, 0.0)
}

const FIN_LEN: usize = 6;

fn run_history(cfg: &Cfg, letters: &[u8], canonical: bool, ctx: &mut Ctx) {
	ctx.evals += 1;
	ctx.traces += 1;
	let sr = 1u32;
	let dt = 1.0;
	let frames: Vec<Frame> = match cfg.shape {
		Shape::DcLoop => rig::dc_frames(4, 1.0),
		Shape::Finite6 | Shape::Finite6Reversed => rig::coded_frames(FIN_LEN, 1.0 / 8.0),
	};
	if cfg.shape == Shape::Finite6Reversed && cfg.kind != Kind::Static {
		return;
	}
	let own_start = match cfg.own {
		OwnStart::Imm => StartTime::Immediate,
		OwnStart::Delayed2 => StartTime::Delayed(Duration::from_secs(2)),
		OwnStart::Clock => StartTime::ClockTime(ClockTime {
			clock: clock_id(),
			ticks: 2,
			fraction: 0.0,
		}),
	};
	let looping = cfg.shape == Shape::DcLoop;
	// half of the finite scenes carry a loop region whose end lies beyond the audio: it is never reached, the sound is
	// as finite as without it ("a non-looping sound reaches Stopped after its last frame")
	let beyond = cfg.shape == Shape::Finite6 && cfg.chunk == 3 && cfg.first % 2 == 0;
	let beyond_region = || Region { start: kira::sound::PlaybackPosition::Samples(0), end: kira::sound::EndPosition::Custom(kira::sound::PlaybackPosition::Samples(FIN_LEN + 3)) };
	// the other finite scenes with chunks of 3 frames (odd first letters) are the same six frames cut out of a longer buffer (3 frames before, 4 after, all at
	// -0.75): a slice is a sound of its own length - it ends, and reports Stopped, at the end of the slice
	let sliced = cfg.shape == Shape::Finite6 && cfg.chunk == 3 && cfg.first % 2 == 1;
	let slice_region = || Region { start: kira::sound::PlaybackPosition::Samples(3), end: kira::sound::EndPosition::Custom(kira::sound::PlaybackPosition::Samples(3 + FIN_LEN)) };
	let frames: Vec<Frame> = if sliced { rig::dc_frames(3, -0.75).into_iter().chain(frames).chain(rig::dc_frames(4, -0.75)).collect() } else { frames };
	let first_dec = pacer::count();
	let mut dec_stats = None;
	let (mut sound, mut handle): (Box<dyn Sound>, Box<dyn SoundHandle>) = match cfg.kind {
		Kind::Static => {
			let mut data = rig::static_data(sr, frames.clone()).start_time(own_start).reverse(cfg.shape == Shape::Finite6Reversed);
			if sliced {
				data = data.slice(slice_region());
			}
			if looping {
				data = data.loop_region(Region::from(..));
			} else if beyond {
				data = data.loop_region(beyond_region());
			}
			let (s, h) = data.into_sound().expect("static into_sound");
			(s, Box::new(h))
		}
		Kind::Streaming | Kind::StreamingStarved => {
			let (dec, stats) = ScriptedDecoder::new(frames.clone(), sr, vec![2, 1, 3], 2);
			dec_stats = Some(stats);
			let mut data = StreamingSoundData::from_decoder(dec).start_time(own_start);
			if sliced {
				data = data.slice(slice_region());
			}
			if looping {
				data = data.loop_region(Region::from(..));
			} else if beyond {
				data = data.loop_region(beyond_region());
			}
			let (s, h) = data.into_sound().expect("streaming into_sound");
			(s, Box::new(h))
		}
	};
	let my_dec = if cfg.kind != Kind::Static { Some(first_dec) } else { None };
	let starved = cfg.kind == Kind::StreamingStarved;

	// reference
	let mut pm = PlaybackModel::new();
	let mut own = match cfg.own {
		OwnStart::Imm => StartM::Imm,
		OwnStart::Delayed2 => StartM::Delayed(2.0),
		OwnStart::Clock => StartM::Clock(2, 0.0),
	};
	let mut vol = ParamModel::new(Decibels::IDENTITY);
	let mut clock = ClockSt {
		exists: true,
		ticks: 1,
		fraction: 0.5,
	};
	// natural end bookkeeping (finite shape): frames heard since the last (re)start point
	// hypotheses (frames heard since a (re)start point, frames that remained at that point): a seek that
	// arrives after the last frame was heard (static) or after the decoder already finished (streaming) may
	// legitimately have no effect, so both readings are admitted
	let mut hyps: Vec<(usize, usize)> = vec![(0, FIN_LEN)];
	let mut seek_pending_streaming = false;
	let mut steps_since_seek = 99usize;
	let lead = cfg.chunk as u64 + 6; // decoder lead granted before every callback
	let mut out = vec![Frame::ZERO; cfg.chunk];
	let mut prev_pos: Option<(f64, &'static str)> = None;
	let mut left_playing = false;
	let mut same_state_steps = 0usize;
	let mut last_state_name = "";
	// fade law bookkeeping
	let mut fade_cmd: Option<(f64, f64, &'static str)> = None; // (time of command, duration, target state)
	let mut now = 0.0f64;
	let desc = |k: usize| format!("{} at step #{} ('{}'){}", hist_desc(cfg, letters), k, letter_name(letters[k]), if canonical { " [reference: fixed kind order]" } else { "" });

	for (k, &l) in letters.iter().enumerate() {
		// ---- the letter, on both sides (a pair letter: two commands, no callback in between)
		let ops: Vec<(u8, bool, bool)> = if l >= PAIR_BASE {
			let (a, b) = pairs()[(l - PAIR_BASE) as usize];
			if canonical && cmd_rank(a) > cmd_rank(b) {
				vec![(a, true, false), (b, true, true), (a, false, true)]
			} else {
				vec![(a, true, true), (b, true, true)]
			}
		} else {
			vec![(l, true, true)]
		};
		for (l, dh, dm) in ops {
		match l {
			0 => {}
			1 => {
				if dh {
					handle.pause(tween(0.0, Easing::Linear));
				}
				if dm {
					pm.pause(0.0, Easing::Linear);
					if pm.state != PS::Stopped {
						fade_cmd = Some((now, 0.0, "Paused"));
					}
				}
			}
			2 => {
				if dh {
					handle.pause(tween(2.0, Easing::OutPowi(3)));
				}
				if dm {
					pm.pause(2.0, Easing::OutPowi(3));
					if pm.state != PS::Stopped {
						fade_cmd = Some((now, 2.0, "Paused"));
					}
				}
			}
			3 => {
				if dh {
					handle.resume(tween(0.0, Easing::Linear));
				}
				if dm {
					pm.resume(StartM::Imm, 0.0, Easing::Linear);
					if pm.state != PS::Stopped {
						fade_cmd = Some((now, 0.0, "Playing"));
					}
				}
			}
			4 => {
				if dh {
					handle.resume(tween(3.0, Easing::InOutPowi(3)));
				}
				if dm {
					pm.resume(StartM::Imm, 3.0, Easing::InOutPowi(3));
					if pm.state != PS::Stopped {
						fade_cmd = Some((now, 3.0, "Playing"));
					}
				}
			}
			5 => {
				if dh {
					handle.resume_at(StartTime::Delayed(Duration::from_secs(2)), tween(0.0, Easing::Linear));
				}
				if dm {
					pm.resume(StartM::Delayed(2.0), 0.0, Easing::Linear);
					fade_cmd = None;
				}
			}
			6 => {
				handle.resume_at(
					StartTime::ClockTime(ClockTime {
						clock: clock_id(),
						ticks: 2,
						fraction: 0.0,
					}),
					tween(2.0, Easing::Linear),
				);
				pm.resume(StartM::Clock(2, 0.0), 2.0, Easing::Linear);
				fade_cmd = None;
			}
			7 => {
				if dh {
					handle.stop(tween(0.0, Easing::Linear));
				}
				if dm {
					pm.stop(0.0, Easing::Linear);
					if pm.state != PS::Stopped {
						fade_cmd = Some((now, 0.0, "Stopped"));
					}
				}
			}
			8 => {
				if dh {
					handle.stop(tween(2.0, Easing::InPowi(2)));
				}
				if dm {
					pm.stop(2.0, Easing::InPowi(2));
					if pm.state != PS::Stopped {
						fade_cmd = Some((now, 2.0, "Stopped"));
					}
				}
			}
			9 => {
				handle.seek_to(1.0);
				// frames that remain from the seek target on: forwards 1..=5, backwards 1 and 0
				let rem_after_seek = if cfg.shape == Shape::Finite6Reversed { 2 } else { FIN_LEN - 1 };
				steps_since_seek = 0;
				if pm.state != PS::Stopped {
					// from here on FIN_LEN-1 frames remain (static: at once; streaming: after the buffered ones)
					if cfg.kind != Kind::Static {
						seek_pending_streaming = true;
						hyps.push((0, rem_after_seek));
					} else if hyps.iter().all(|(h, r)| h + 3 >= *r) {
						// (the transport runs 3 frames ahead of what is heard; whether a seek issued that close to
						// the end still takes effect is C04's subject, both readings are admitted here)
						hyps.push((0, rem_after_seek));
					} else {
						hyps = vec![(0, rem_after_seek)];
					}
				}
			}
			10 => {
				handle.set_volume(Value::Fixed(Decibels(-6.0)), tween(2.0, Easing::Linear));
				if pm.state != PS::Stopped {
					vol.set(Decibels(-6.0), 2.0, Easing::Linear, SM::Imm);
				}
			}
			11 => {
				clock.ticks = 2;
				clock.fraction = 0.0;
			}
			13 => {
				handle.set_volume(Value::Fixed(Decibels(-60.0)), tween(0.0, Easing::Linear));
				if pm.state != PS::Stopped {
					vol.set(Decibels(-60.0), 0.0, Easing::Linear, SM::Imm);
				}
			}
			_ => {
				clock.exists = false;
			}
		}
		}
		let was_stopped = pm.state == PS::Stopped;

		// ---- one callback
		if let Some(id) = my_dec {
			if !starved {
				pacer::step(id, lead);
			}
		}
		let info = clock.info();
		out.fill(Frame::new(f32::NAN, f32::NAN));
		sound.on_start_processing();
		sound.process(&mut out, dt, &info);
		let n = cfg.chunk;
		let step_dt = dt * n as f64;
		now += step_dt;
		ctx.transitions += 1;

		// ---- the reference for this callback
		let stopped_before = pm.state == PS::Stopped;
		if !stopped_before || true {
			// a Stopped sound ignores commands; kira still runs its parameter updates, which is unobservable
			vol.update(step_dt, clock.now());
			pm.update(step_dt, clock.now());
			let never = own.update(step_dt, clock.now());
			if never {
				pm.mark_stopped();
			}
		}
		let started = own == StartM::Imm;
		let audible = started && pm.state.advancing() && !starved;

		// ---- natural end window (finite shape)
		let impl_state = handle.state();
		let mut model_state_name = pm.state.name();
		if cfg.shape != Shape::DcLoop && pm.state != PS::Stopped {
			if audible {
				for h in hyps.iter_mut() {
					h.0 += n;
				}
			}
			let slack = if cfg.kind != Kind::Static { lead as usize + 4 + if seek_pending_streaming { lead as usize } else { 0 } } else { 4 };
			if impl_state == PlaybackState::Stopped {
				// the implementation says the sound ended by itself: legal only inside the window
				if hyps.iter().any(|(h, r)| h >= r) {
					pm.mark_stopped();
					model_state_name = "Stopped";
					// the natural end overtakes a fade that was still running: the fade timing law no longer applies
					fade_cmd = None;
				}
			} else if hyps.iter().all(|(h, r)| *h >= r + slack) {
				ctx.fail(
					format!("finite sound does not reach Stopped after its last frame :: {:?}", cfg.kind),
					format!("{} (heard, remaining) hypotheses {:?}; state {:?}", desc(k), hyps, impl_state),
				);
				break;
			}
		}

		// ---- (a) state agreement
		if crate::probes::state_name(impl_state) != model_state_name {
			ctx.fail(
				format!("reported state differs from the life-cycle model :: {:?}", cfg.kind),
				format!("{} impl={:?} model={}", desc(k), impl_state, model_state_name),
			);
			break;
		}
		if was_stopped && impl_state != PlaybackState::Stopped {
			ctx.fail(format!("Stopped is not final :: {:?}", cfg.kind), desc(k));
			break;
		}
		let audible = audible && pm.state != PS::Stopped || (audible && model_state_name == "Stopped" && cfg.shape != Shape::DcLoop);
		ctx.state(hash64(&(
			pm.state.name(),
			format!("{:?}{:?}", pm.fade.state, own),
			format!("{:?}", vol.state),
			clock.exists,
			clock.ticks,
		)));

		// ---- (b) audio
		let silent_states = matches!(pm.state, PS::Paused | PS::Waiting { .. } | PS::Stopped);
		let mut bad = None;
		for (i, f) in out.iter().enumerate() {
			if !f.left.is_finite() || !f.right.is_finite() {
				bad = Some(format!("frame {} not finite/written: {:?}", i, f));
				break;
			}
			if !audible && !(model_state_name == "Stopped" && cfg.shape != Shape::DcLoop) {
				if f.left != 0.0 || f.right != 0.0 {
					bad = Some(format!("frame {} = {:?}, expected exact silence (model state {}, started={})", i, f, pm.state.name(), started));
					break;
				}
			} else if cfg.shape == Shape::DcLoop && audible {
				let t = (i + 1) as f64 / n as f64;
				let want = pm.fade_amp(t) * db_amp(lerp_db(vol.prev, vol.value, t));
				if (f.left as f64 - want).abs() > 3e-6 || f.left != f.right {
					bad = Some(format!("frame {} = {:?}, expected gain {:e} (fade {:?}->{:?}, volume {:?}->{:?})", i, f, want, pm.fade.prev, pm.fade.value, vol.prev, vol.value));
					break;
				}
			}
		}
		if let Some(b) = bad {
			let kind = if starved { "starved streaming sound is not silent" } else if silent_states || !started { "not silent while Paused/WaitingToResume/Stopped/not started" } else { "gain envelope differs from the model" };
			ctx.fail(format!("{} :: {:?}", kind, cfg.kind), format!("{} {}", desc(k), b));
			break;
		}
		// gain laws on the DC shape, volume constant
		// (a callback that applies two life-cycle commands at once has no single fade direction)
		if cfg.shape == Shape::DcLoop && audible && vol.prev == vol.value && letters[k] < PAIR_BASE {
			let gains: Vec<f32> = out.iter().map(|f| f.left).collect();
			let v = db_amp(vol.value.0) as f32;
			match pm.state {
				PS::Pausing | PS::Stopping => {
					if gains.windows(2).any(|w| w[1] > w[0] + 1e-7) {
						ctx.fail(format!("fade-out gain not monotone :: {:?}", cfg.kind), format!("{} gains={:?}", desc(k), gains));
						break;
					}
				}
				PS::Resuming => {
					if gains.windows(2).any(|w| w[1] < w[0] - 1e-7) {
						ctx.fail(format!("fade-in gain not monotone :: {:?}", cfg.kind), format!("{} gains={:?}", desc(k), gains));
						break;
					}
				}
				PS::Playing => {
					if matches!(pm.fade.state, crate::props::c06::PState::Idle) && pm.fade.prev == Decibels::IDENTITY && gains.iter().any(|g| (*g - v).abs() > 1e-6 || (vol.value == Decibels::IDENTITY && *g != 1.0)) {
						ctx.fail(format!("gain not exactly unity while Playing :: {:?}", cfg.kind), format!("{} gains={:?}", desc(k), gains));
						break;
					}
				}
				_ => {}
			}
		}

		// ---- (c) fade timing law (independent of the model's tween arithmetic)
		if let Some((t0, d, target)) = fade_cmd {
			let elapsed = now - t0;
			let reached = model_target_reached(impl_state, target);
			if reached && elapsed < d {
				ctx.fail(
					format!("fade-driven step completes before its tween :: {:?}", cfg.kind),
					format!("{} state {:?} after {} s of a {} s fade", desc(k), impl_state, elapsed, d),
				);
				break;
			}
			if !reached && elapsed >= d + step_dt && impl_state != PlaybackState::Stopped {
				ctx.fail(
					format!("fade-driven step not complete one callback after its tween :: {:?}", cfg.kind),
					format!("{} state {:?} after {} s of a {} s fade (target {})", desc(k), impl_state, elapsed, d, target),
				);
				break;
			}
		}

		// ---- (d) position freeze
		let pos = handle.position();
		steps_since_seek += 1;
		if pm.state.name() == last_state_name {
			same_state_steps += 1;
		} else {
			same_state_steps = 0;
			last_state_name = pm.state.name();
		}
		if let Some((pp, pstate)) = prev_pos {
			// the position is published at the start of a callback, so it lags by one callback; a seek moves it
			if silent_states && pstate == pm.state.name() && same_state_steps >= 2 && steps_since_seek > 2 && pos != pp {
				ctx.fail(
					format!("position advances while Paused/WaitingToResume/Stopped :: {:?}", cfg.kind),
					format!("{} position {} -> {} in state {}", desc(k), pp, pos, pstate),
				);
				break;
			}
		}
		prev_pos = Some((pos, pm.state.name()));
		if pm.state != PS::Playing {
			left_playing = true;
		}
	}
	if left_playing {
		ctx.nontrivial(hash64(&(cfg.kind as u8, cfg.shape as u8, cfg.own as u8, cfg.chunk, letters)));
	}
	ctx.outcome(hash64(&(handle.state() as u8, (handle.position() * 4.0) as i64)));
	ctx.sample(ctx.traces, || hist_desc(cfg, letters));

	// ---- teardown: the decoder thread must be able to end (its ending as such is C10's subject)
	if let Some(id) = my_dec {
		handle.stop(tween(0.0, Easing::Linear));
		sound.on_start_processing();
		sound.process(&mut out, dt, &clock.info());
		drop(sound);
		drop(handle);
		if let Some(st) = dec_stats {
			if !crate::probes::reap_decoder(id, &st) {
				ctx.count("decoder_threads_not_exited_after_stop", 1);
			}
		}
	}
}

/// the same life-cycle commands, with tweens that carry their own start time, given to a static and to a streaming sound
/// playing the same constant: both handles report the same state after every callback and both are equally loud
fn twin_commands(ctx: &mut Ctx) {
	use kira::track::MainTrackBuilder;
	let sr = 8u32;
	let delayed = |frames: u64, dur_frames: u64| Tween { start_time: StartTime::Delayed(Duration::from_secs_f64(frames as f64 / sr as f64)), duration: Duration::from_secs_f64(dur_frames as f64 / sr as f64), easing: kira::Easing::Linear };
	let now = |dur_frames: u64| Tween { start_time: StartTime::Immediate, duration: Duration::from_secs_f64(dur_frames as f64 / sr as f64), easing: kira::Easing::Linear };
	// scripts: (callback index, command)
	let scripts: Vec<(&str, Vec<(usize, u8)>)> = vec![
		("pause(instant); resume(tween starting 3 frames later, 2 frames long)", vec![(1, 0), (3, 1)]),
		("pause(tween starting 2 frames later, instant)", vec![(1, 2)]),
		("pause(2 frames); resume(tween starting 2 frames later, instant)", vec![(1, 3), (5, 4)]),
		("stop(tween starting 3 frames later, 2 frames long)", vec![(2, 5)]),
		("pause(instant); resume_at(Delayed 2 frames, tween starting 2 frames later, 2 frames long)", vec![(1, 0), (2, 6)]),
	];
	for (name, script) in &scripts {
		for chunk in [1usize, 2] {
			ctx.evals += 1;
			pacer::set_mode(pacer::Mode::Pacer);
			let mut m = rig::manager(sr, chunk, rig::caps(2), MainTrackBuilder::new());
			let mut hs = m.play(rig::static_data(sr, rig::dc_frames(4, 0.25)).loop_region(Region::from(..)).panning(-1.0)).expect("static");
			let first = pacer::count();
			let (dec, stats) = ScriptedDecoder::new(rig::dc_frames(4, 0.25), sr, vec![2, 1, 3], 1);
			let mut ht = m.play(StreamingSoundData::from_decoder(dec).loop_region(Region::from(..)).panning(1.0)).map_err(|_| ()).expect("streaming");
			let mut bad = None;
			let mut trace = vec![];
			for cb in 0..14 {
				for (at, c) in script {
					if *at == cb {
						match c {
							0 => {
								hs.pause(now(0));
								ht.pause(now(0));
							}
							1 => {
								hs.resume(delayed(3, 2));
								ht.resume(delayed(3, 2));
							}
							2 => {
								hs.pause(delayed(2, 0));
								ht.pause(delayed(2, 0));
							}
							3 => {
								hs.pause(now(2));
								ht.pause(now(2));
							}
							4 => {
								hs.resume(delayed(2, 0));
								ht.resume(delayed(2, 0));
							}
							5 => {
								hs.stop(delayed(3, 2));
								ht.stop(delayed(3, 2));
							}
							_ => {
								hs.resume_at(StartTime::Delayed(Duration::from_secs_f64(2.0 / sr as f64)), delayed(2, 2));
								ht.resume_at(StartTime::Delayed(Duration::from_secs_f64(2.0 / sr as f64)), delayed(2, 2));
							}
						}
					}
				}
				pacer::step(first, chunk as u64 + 6);
				let mut out = vec![];
				rig::render_stereo(&mut m, chunk, &mut out);
				ctx.transitions += 1;
				// static hard left, streaming hard right: the two channels carry the two sounds
				let (l, r) = out[out.len() - 1];
				trace.push((format!("{:?}", hs.state()), format!("{:?}", ht.state()), l, r));
				if hs.state() != ht.state() && bad.is_none() {
					bad = Some(format!("after callback {}: static {:?}, streaming {:?}", cb, hs.state(), ht.state()));
				}
				if (l - r).abs() > 1e-6 && bad.is_none() {
					bad = Some(format!("after callback {}: static level {}, streaming level {}", cb, l, r));
				}
			}
			if let Some(b) = bad {
				ctx.fail(
					"a static and a streaming sound given the same life-cycle commands report different states / fade differently :: twins".to_string(),
					format!("{}; internal buffer = callback = {} frame(s) at {} Hz; {}; (static state, streaming state, left = static, right = streaming) per callback {:?}", name, chunk, sr, b, trace),
				);
			} else {
				ctx.nontrivial_extra += 1;
			}
			ctx.state(hash64(&("twins", name, chunk)));
			ht.stop(now(0));
			let mut out = vec![];
			rig::render_stereo(&mut m, 1, &mut out);
			drop(m);
			crate::probes::reap_decoder(first, &stats);
		}
	}
}

fn model_target_reached(s: PlaybackState, target: &str) -> bool {
	match target {
		"Paused" => s == PlaybackState::Paused,
		"Playing" => s == PlaybackState::Playing,
		_ => s == PlaybackState::Stopped,
	}
}

// ---------------------------------------------------------------------------------------------
// through the manager: unloading at the next callback, slot reuse

const MGR_HOSTS: [&str; 4] = ["main track", "sub-track", "spatial sub-track", "spatial sub-track whose listener was removed"];

enum MgrHost {
	Main,
	Sub(kira::track::TrackHandle),
	Spatial(kira::track::SpatialTrackHandle, Option<kira::listener::ListenerHandle>),
}
impl MgrHost {
	fn play<D: SoundData>(&mut self, m: &mut rig::Manager, d: D) -> Result<D::Handle, kira::PlaySoundError<D::Error>> {
		match self {
			MgrHost::Main => m.play(d),
			MgrHost::Sub(t) => t.play(d),
			MgrHost::Spatial(t, _) => t.play(d),
		}
	}
	fn num_sounds(&self, m: &mut rig::Manager) -> usize {
		match self {
			MgrHost::Main => m.main_track().num_sounds(),
			MgrHost::Sub(t) => t.num_sounds(),
			MgrHost::Spatial(t, _) => t.num_sounds(),
		}
	}
}

/// one history through the manager; returns (failures, trace of (state, num_sounds) after every callback)
fn mgr_run(streaming: bool, looping: bool, chunk: usize, host: usize, letters: &[usize]) -> (Vec<(String, String)>, Vec<(String, usize)>) {
	use kira::track::{MainTrackBuilder, SpatialTrackBuilder, TrackBuilder};
	let sr = 1;
	let mut m = rig::manager(sr, 4, rig::caps(2), MainTrackBuilder::new().sound_capacity(1));
	let mut buf = vec![0.0f32; chunk * 2];
	let mut h = match host {
		0 => MgrHost::Main,
		1 => MgrHost::Sub(m.add_sub_track(TrackBuilder::new().sound_capacity(1)).expect("track")),
		_ => {
			let l = m.add_listener(glam::Vec3::ZERO, glam::Quat::IDENTITY).expect("listener");
			let t = m.add_spatial_sub_track(&l, glam::Vec3::new(0.0, 0.0, -1.0), SpatialTrackBuilder::new().sound_capacity(1)).expect("spatial track");
			MgrHost::Spatial(t, Some(l))
		}
	};
	if host > 0 {
		rig::callback(&mut m, &mut buf, chunk, 2);
	}
	if host == 3 {
		if let MgrHost::Spatial(_, l) = &mut h {
			*l = None;
		}
		rig::callback(&mut m, &mut buf, chunk, 2);
	}
	let frames = if looping { rig::dc_frames(4, 0.5) } else { rig::coded_frames(3, 0.125) };
	let first_dec = pacer::count();
	let mk_static = |frames: &Vec<Frame>| {
		let d = rig::static_data(sr, frames.clone());
		if looping {
			d.loop_region(Region::from(..))
		} else {
			d
		}
	};
	let mut handle: Box<dyn SoundHandle> = if streaming {
		let (dec, _) = ScriptedDecoder::new(frames.clone(), sr, vec![2], 1);
		let mut d = StreamingSoundData::from_decoder(dec);
		if looping {
			d = d.loop_region(Region::from(..));
		}
		Box::new(h.play(&mut m, d).map_err(|_| ()).expect("first play"))
	} else {
		Box::new(h.play(&mut m, mk_static(&frames)).expect("first play"))
	};
	let mut stopped_seen_at: Option<usize> = None;
	let mut fails: Vec<(String, String)> = vec![];
	let mut trace = vec![];
	for (k, l) in letters.iter().enumerate() {
		match l {
			1 => handle.stop(tween(0.0, Easing::Linear)),
			2 => handle.stop(tween(2.0, Easing::Linear)),
			3 => handle.pause(tween(0.0, Easing::Linear)),
			4 => handle.resume(tween(0.0, Easing::Linear)),
			_ => {}
		}
		if streaming {
			pacer::step_all_from(first_dec, chunk as u64 + 6);
		}
		let rep = rig::callback(&mut m, &mut buf, chunk, 2);
		if !rep.ok() {
			fails.push((format!("callback monitor: {:?}", rep.panic.clone().or(rep.bad_sample.clone())), format!("{:?}", rep)));
			break;
		}
		let st = handle.state();
		let n = h.num_sounds(&mut m);
		trace.push((crate::probes::state_name(st).to_string(), n));
		if let Some(at) = stopped_seen_at {
			if k > at {
				// unloaded at the next callback; slot reusable
				if n != 0 {
					fails.push(("Stopped sound not unloaded at the next callback".into(), format!("num_sounds={} at step {}", n, k)));
					break;
				}
				match h.play(&mut m, mk_static(&frames)) {
					Ok(h2) => {
						// occupy and release again so the history can continue
						let mut h2 = h2;
						h2.stop(tween(0.0, Easing::Linear));
					}
					Err(_) => {
						fails.push(("slot of a Stopped sound not reusable after the next callback".into(), format!("step {}", k)));
					}
				}
				break;
			}
			if st != PlaybackState::Stopped {
				fails.push(("Stopped is not final".into(), format!("state {:?} at step {}", st, k)));
				break;
			}
		} else if st == PlaybackState::Stopped {
			stopped_seen_at = Some(k);
			if n > 1 {
				fails.push(("count above capacity".into(), format!("num_sounds={}", n)));
			}
		} else {
			if n != 1 {
				fails.push(("live sound not counted".into(), format!("num_sounds={} state={:?} at step {}", n, st, k)));
				break;
			}
			if h.play(&mut m, mk_static(&frames)).is_ok() {
				fails.push(("play succeeds beyond the sound capacity".into(), format!("step {}", k)));
				break;
			}
		}
	}
	// teardown
	handle.stop(tween(0.0, Easing::Linear));
	if streaming {
		rig::callback(&mut m, &mut buf, chunk, 2);
		pacer::step_all_from(first_dec, 3);
	}
	(fails, trace)
}

fn manager_pass(which: u64, ctx: &mut Ctx) {
	let streaming = which % 2 == 1;
	let looping = (which / 2) % 2 == 1;
	let chunk = [1usize, 3][((which / 4) % 2) as usize];
	let host = (which / 8) as usize;
	if streaming {
		pacer::set_mode(pacer::Mode::Pacer);
	}
	const ML: [&str; 5] = ["none", "stop(0)", "stop(2s)", "pause(0)", "resume(0)"];
	let depth = 4;
	let total = 5u64.pow(depth);
	for h in 0..total {
		let mut letters = vec![];
		let mut x = h;
		for _ in 0..depth {
			letters.push((x % 5) as usize);
			x /= 5;
		}
		ctx.evals += 1;
		ctx.traces += 1;
		let desc = || {
			format!(
				"manager pass streaming={} looping={} chunk={} sound played on the {} history=[{}]",
				streaming,
				looping,
				chunk,
				MGR_HOSTS[host],
				letters.iter().map(|l| ML[*l]).collect::<Vec<_>>().join("; ")
			)
		};
		let r = catch(|| {
			let (mut fails, trace) = mgr_run(streaming, looping, chunk, host, &letters);
			if host > 0 && fails.is_empty() {
				// the life cycle does not depend on where the sound is hosted: same states, same counts as on the main track
				let (f0, t0) = mgr_run(streaming, looping, chunk, 0, &letters);
				if f0.is_empty() && t0 != trace {
					fails.push(("the life cycle of a sound depends on the track that hosts it (states / counts differ from the same history on the main track)".into(), format!("on the {}: {:?}; on the main track: {:?}", MGR_HOSTS[host], trace, t0)));
				}
			}
			fails
		});
		match r {
			Ok(fails) => {
				for (sig, det) in fails {
					ctx.fail(format!("{} :: manager pass", sig), format!("{} {}", desc(), det));
				}
			}
			Err(p) => ctx.fail(format!("panic: {} :: manager pass", p), desc()),
		}
		ctx.transitions += depth as u64;
		ctx.state(hash64(&("mgr", h % 125)));
		ctx.nontrivial(hash64(&("mgr", which, h)));
	}
	ctx.outcome(which + 7);
}
