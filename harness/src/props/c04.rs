//! C04 — static playback is sample-accurate: slice, loop, reverse, seek, resample, end.
//!
//! E1: exhaustive lattice of small sounds (length 0..=6/8) x every slice x every start x every
//! valid loop region x reverse x 7 rates x 4 (device,sound) rate pairs x 4 chunk sizes against an
//! ideal transport + 4-point Hermite reference; plus seek_to / seek_by / set_loop_region commands
//! at every callback index (law-based oracle).

use crate::engine::{hash64, Check, Ctx, Level, Tier};
use crate::json::J;
use crate::probes::SoundHandle;
use crate::rig::{self, catch};
use kira::info::MockInfoBuilder;
use kira::sound::static_sound::StaticSoundHandle;
use kira::sound::{PlaybackPosition, PlaybackState, Region, Sound, SoundData};
use kira::{Frame, PlaybackRate};

pub struct C04;

// (the last four: several source frames per output frame, with and without a fractional step)
const RATES: [f64; 11] = [1.0, -1.0, 2.0, 0.5, -0.5, 0.25, 1.5, 3.7, -4.5, 4.0, -9.25];
const PAIRS: [(u32, u32); 4] = [(1, 1), (2, 1), (1, 2), (3, 2)]; // (device rate, sound rate)
const CHUNKS: [usize; 4] = [1, 2, 3, 5];
const POISON: f32 = 7.0;

fn code(i: usize) -> Frame {
	Frame::new((i + 1) as f32 / 16.0, -((i + 1) as f32) / 32.0)
}

// ---------------------------------------------------------------------------------------------
// ideal transport: the sequence of slice-relative frame indices that are visited

#[derive(Debug, Clone)]
pub struct TransportModel {
	pub pos: usize,
	pub playing: bool,
	pub lp: Option<(usize, usize)>,
	pub n: usize,
}
impl TransportModel {
	pub fn fwd(&mut self) {
		if !self.playing {
			return;
		}
		self.pos += 1;
		if let Some((a, b)) = self.lp {
			while self.pos >= b {
				self.pos -= b - a;
			}
		}
		if self.pos >= self.n {
			self.playing = false;
		}
	}
	pub fn bwd(&mut self) {
		if !self.playing {
			return;
		}
		if let Some((a, b)) = self.lp {
			while self.pos <= a {
				self.pos += b - a;
			}
		}
		if self.pos == 0 {
			self.playing = false;
		} else {
			self.pos -= 1;
		}
	}
	/// index currently under the transport, None when it ran off the sound
	pub fn cur(&self) -> Option<usize> {
		if self.playing && self.pos < self.n {
			Some(self.pos)
		} else {
			None
		}
	}
}

pub fn hermite4(ym1: f64, y0: f64, y1: f64, y2: f64, x: f64) -> f64 {
	let c0 = y0;
	let c1 = 0.5 * (y1 - ym1);
	let c2 = ym1 - 2.5 * y0 + 2.0 * y1 - 0.5 * y2;
	let c3 = 0.5 * (y2 - ym1) + 1.5 * (y0 - y1);
	((c3 * x + c2) * x + c1) * x + c0
}

#[derive(Debug, Clone)]
struct Scene {
	len: usize,
	slice: Option<(usize, usize)>,
	start: usize,
	lp: Option<(usize, usize)>,
	reverse: bool,
	rate: f64,
	pair: (u32, u32),
	chunk: usize,
}

impl Scene {
	fn n(&self) -> usize {
		self.slice.map(|(s, e)| e - s).unwrap_or(self.len)
	}
	fn desc(&self) -> String {
		format!(
			"len={} slice={:?} start={} loop={:?} reverse={} rate={} (device,sound)_rate={:?} chunk={}",
			self.len, self.slice, self.start, self.lp, self.reverse, self.rate, self.pair, self.chunk
		)
	}
	fn frames(&self) -> Vec<Frame> {
		// frames outside the slice are poison
		let (s, e) = self.slice.unwrap_or((0, self.len));
		(0..self.len)
			.map(|i| if i >= s && i < e { code(i - s) } else { Frame::new(POISON, POISON) })
			.collect()
	}
	fn build(&self) -> (Box<dyn Sound>, StaticSoundHandle) {
		let mut data = rig::static_data(self.pair.1, self.frames());
		if let Some((s, e)) = self.slice {
			data = data.slice(Region {
				start: PlaybackPosition::Samples(s),
				end: kira::sound::EndPosition::Custom(PlaybackPosition::Samples(e)),
			});
		}
		data = data
			.start_position(PlaybackPosition::Samples(self.start))
			.reverse(self.reverse)
			.playback_rate(PlaybackRate(self.rate));
		if let Some((a, b)) = self.lp {
			data = data.loop_region(Region {
				start: PlaybackPosition::Samples(a),
				end: kira::sound::EndPosition::Custom(PlaybackPosition::Samples(b)),
			});
		}
		data.into_sound().expect("into_sound")
	}
	fn backwards(&self) -> bool {
		(self.rate < 0.0) != self.reverse
	}
	fn step(&self) -> f64 {
		self.pair.1 as f64 * self.rate.abs() * (1.0 / self.pair.0 as f64)
	}
}

/// lazily generated visited sequence
struct Visited {
	tm: TransportModel,
	back: bool,
	seq: Vec<Option<usize>>,
}
impl Visited {
	fn new(sc: &Scene) -> Self {
		let n = sc.n();
		let pos = if sc.reverse { n - 1 - sc.start } else { sc.start };
		Self {
			tm: TransportModel {
				pos,
				playing: true,
				lp: sc.lp,
				n,
			},
			back: sc.backwards(),
			seq: vec![],
		}
	}
	fn get(&mut self, k: i64) -> Option<usize> {
		if k < 0 {
			return None;
		}
		while self.seq.len() <= k as usize {
			self.seq.push(self.tm.cur());
			if self.back {
				self.tm.bwd();
			} else {
				self.tm.fwd();
			}
		}
		self.seq[k as usize]
	}
}

fn fval(i: Option<usize>) -> (f64, f64) {
	match i {
		Some(i) => {
			let f = code(i);
			(f.left as f64, f.right as f64)
		}
		None => (0.0, 0.0),
	}
}

const NCMD_CASES: u64 = 48;
thread_local! {
	static LONG_HORIZON: std::cell::Cell<Option<usize>> = const { std::cell::Cell::new(None) };
}
/// long runs at real-world rate pairs: the position is "obtained by accumulating rate x source-rate x dt" - over 48000
/// output frames an accumulator of less than f64 precision drifts by more than the comparison tolerance
const LONG_PAIRS: [(u32, u32); 4] = [(48000, 44100), (44100, 48000), (44100, 8000), (48000, 32000)];
const LONG_CASES: u64 = 4;
/// the sound through the whole engine: host track x internal buffer size
const ENGINE_CASES: u64 = 4 * 3;
const ENGINE_HOSTS: [&str; 4] = ["main track", "sub-track", "nested sub-track", "spatial sub-track (flat: no attenuation, strength 0)"];

impl C04 {
	fn max_len(tier: Tier) -> usize {
		tier.pick(8, 10)
	}
	fn grid_cases(tier: Tier) -> u64 {
		(Self::max_len(tier) as u64 + 1) * 2 * RATES.len() as u64 * PAIRS.len() as u64
	}
	fn decode(tier: Tier, idx: u64) -> (usize, bool, f64, (u32, u32)) {
		let mut i = idx;
		let pair = PAIRS[(i % 4) as usize];
		i /= 4;
		let rate = RATES[(i % RATES.len() as u64) as usize];
		i /= RATES.len() as u64;
		let reverse = i % 2 == 1;
		i /= 2;
		let _ = tier;
		(i as usize, reverse, rate, pair)
	}
}

impl Check for C04 {
	fn id(&self) -> &'static str {
		"C04"
	}
	fn level(&self) -> Level {
		Level::ModelChecking
	}
	fn num_cases(&self, tier: Tier) -> u64 {
		Self::grid_cases(tier) + NCMD_CASES + ENGINE_CASES + LONG_CASES
	}
	fn describe(&self, tier: Tier, idx: u64) -> String {
		let g = Self::grid_cases(tier);
		if idx < g {
			let (len, reverse, rate, pair) = Self::decode(tier, idx);
			format!(
				"length {} reverse={} rate={} (device,sound) rate {:?}: every slice x every start x every valid loop region x chunk in {:?}",
				len, reverse, rate, pair, CHUNKS
			)
		} else if idx >= g + NCMD_CASES + ENGINE_CASES {
			format!("long run: 13-frame looping sound, (device, sound) rate {:?}, playback rate {{1, 0.9, -1}} x chunk {{1, 5}}, 48000 output frames against the f64 accumulation", LONG_PAIRS[(idx - g - NCMD_CASES - ENGINE_CASES) as usize])
		} else if idx >= g + NCMD_CASES {
			let e = idx - g - NCMD_CASES;
			format!("engine pass: index-coded static sound (forward / reverse / looping, rate 1 and 2) played on the {} with internal buffer {}, under 5 device-callback patterns whose sizes are not multiples of the internal buffer", ENGINE_HOSTS[(e % 4) as usize], [2usize, 4, 5][(e / 4) as usize])
		} else {
			format!("command family #{}: seek_to / seek_by / set_loop_region at every callback index", idx - g)
		}
	}
	fn sig_hint(&self, tier: Tier, idx: u64) -> String {
		let g = Self::grid_cases(tier);
		if idx < g {
			let (len, reverse, rate, _) = Self::decode(tier, idx);
			format!("len={} reverse={} rate={}", len, reverse, rate)
		} else if idx >= g + NCMD_CASES + ENGINE_CASES {
			"long run".into()
		} else if idx >= g + NCMD_CASES {
			format!("engine pass on the {}", ENGINE_HOSTS[((idx - g - NCMD_CASES) % 4) as usize])
		} else {
			"command family".into()
		}
	}
	fn rule(&self) -> String {
		"full product: length 0..=8 (10 thorough) x every slice 0<=s<=e<=len x every start 0..=slice_len x {no loop} + every loop a<b<=slice_len x reverse x rate in {1,-1,2,0.5,-0.5,0.25,1.5} x (device,sound) rate in {(1,1),(2,1),(1,2),(3,2)} x chunk in {1,2,3,5}; index-coded frames, poison outside the slice; ideal transport + Hermite reference. Command family: seek_to / seek_by / set_loop_region at every callback index 0..=6 (pairs of commands in thorough). Re-slice family: every (first slice, second slice incl. open end) on 6 and 10 frames. Long runs: a 13-frame looping sound at (device, sound) rates (48000,44100), (44100,48000), (44100,8000), (48000,32000) x rate {1, 0.9, -1} x chunk {1,5} over 48000 output frames. Engine pass: the sound rendered through AudioManager + Renderer on 4 kinds of host track x internal buffer {2,4,5} x 5 callback patterns x {forward, reverse, loop} x rate {1,2}: the device output is the source frame sequence, bit-exactly. states = distinct (visited index, fraction, loop, direction) of the reference transport; non-trivial = runs that produce non-silent audio".into()
	}
	fn assumptions(&self) -> Vec<String> {
		vec![
			"only valid regions (start < end, inside the data) are enumerated here; invalid ones belong to C01".into(),
			"a start position at or beyond the end of the slice is only required not to panic and not to read outside the slice, except with a loop region played forwards (one empty frame, then the loop)".into(),
			"off-grid outputs are compared with an f64 Hermite evaluation within 2e-6; on-grid outputs (integer step) bit-exactly".into(),
			"the end may be reported up to 3 source frames after the last frame (interpolator window)".into(),
		]
	}
	fn extra_evidence(&self, tier: Tier) -> Vec<(String, J)> {
		vec![("max_length".into(), J::u(Self::max_len(tier) as u64))]
	}
	fn run_case(&self, tier: Tier, idx: u64, ctx: &mut Ctx) {
		let g = Self::grid_cases(tier);
		if idx >= g + NCMD_CASES + ENGINE_CASES {
			let pair = LONG_PAIRS[(idx - g - NCMD_CASES - ENGINE_CASES) as usize];
			LONG_HORIZON.with(|h| h.set(Some(48000)));
			for rate in [1.0, 0.9, -1.0] {
				for chunk in [1usize, 5] {
					let sc = Scene { len: 13, slice: None, start: 0, lp: Some((0, 13)), reverse: false, rate, pair, chunk };
					ctx.evals += 1;
					ctx.traces += 1;
					if let Err(p) = catch(|| run_scene(&sc, ctx)) {
						ctx.fail(format!("panic: {} :: long run", p), sc.desc());
					}
				}
			}
			LONG_HORIZON.with(|h| h.set(None));
			if pair == LONG_PAIRS[0] {
				if let Err(p) = catch(|| direction_flip(ctx)) {
					ctx.fail(format!("panic: {} :: direction flip", p), "");
				}
			}
			return;
		}
		if idx >= g + NCMD_CASES {
			let e = idx - g - NCMD_CASES;
			if let Err(p) = catch(|| engine_pass((e % 4) as usize, [2usize, 4, 5][(e / 4) as usize], ctx)) {
				ctx.fail(format!("panic: {} :: engine pass", p), "");
			}
			return;
		}
		if idx >= g {
			command_family(tier, idx - g, ctx);
			return;
		}
		let (len, reverse, rate, pair) = Self::decode(tier, idx);
		for s in 0..=len {
			for e in s..=len {
				let slice = if s == 0 && e == len { None } else { Some((s, e)) };
				let n = e - s;
				if slice.is_none() && (s, e) != (0, len) {
					continue;
				}
				for start in 0..=n {
					let mut loops: Vec<Option<(usize, usize)>> = vec![None];
					for a in 0..n {
						for b in (a + 1)..=n {
							loops.push(Some((a, b)));
						}
					}
					// a loop end beyond the audio is never reached: played forwards the sound ends as if it had no loop region
					if !reverse && rate > 0.0 && n > 0 {
						loops.push(Some((0, n + 2)));
						loops.push(Some((n / 2, n + 1)));
					}
					for lp in loops {
						for &chunk in &CHUNKS {
							let sc = Scene {
								len,
								slice,
								start,
								lp,
								reverse,
								rate,
								pair,
								chunk,
							};
							ctx.evals += 1;
							ctx.traces += 1;
							let r = catch(|| run_scene(&sc, ctx));
							if let Err(p) = r {
								let feature = if n == 0 {
									"empty sound/slice"
								} else if start >= n {
									"start position at the end of the slice"
								} else {
									"valid scene"
								};
								ctx.fail(
									format!("panic: {} :: reverse={} {}", p, sc.reverse, feature),
									sc.desc(),
								);
							}
						}
					}
				}
			}
		}
	}
}

fn run_scene(sc: &Scene, ctx: &mut Ctx) {
	let n = sc.n();
	// start at the end: only "no panic, nothing outside the slice" - except with a loop region played forwards, where the
	// ideal transport is well defined: one empty frame, then "wrapping from loop end straight to loop start"
	let lenient = sc.start >= n && n > 0 && !(sc.lp.is_some() && !sc.reverse && sc.rate > 0.0);
	let (mut sound, handle) = sc.build();
	let info = MockInfoBuilder::new().build();
	let dt = 1.0 / sc.pair.0 as f64;
	let step = sc.step();
	let horizon = LONG_HORIZON.with(|h| h.get()).unwrap_or(if sc.lp.is_some() { 24 } else { 2 * sc.len + 8 });
	let mut vis = if n == 0 || lenient {
		None
	} else {
		Some(Visited::new(sc))
	};
	let mut k: i64 = 0;
	let mut frac: f64 = 0.0;
	let mut produced = 0usize;
	let mut out = vec![Frame::ZERO; sc.chunk];
	let integer_step = step.fract() == 0.0;
	let mut nonsilent = false;
	let mut finished_at: Option<i64> = None; // value of k when finished() was first seen
	while produced < horizon {
		sound.on_start_processing();
		// reported position names the frame being heard to within one frame
		if let Some(v) = vis.as_mut() {
			if !sound.finished() && produced > 0 {
				let pos_idx = (handle.position() * sc.pair.1 as f64).round() as i64;
				let near: Vec<Option<usize>> = vec![v.get(k - 1), v.get(k), v.get(k + 1)];
				let heard_now = v.get(k);
				if heard_now.is_some()
					&& !near.iter().any(|c| c.map(|c| (c as i64 - pos_idx).abs() <= 1).unwrap_or(false))
				{
					ctx.fail(
						"reported position is more than one frame from the frame being heard",
						format!("{} after {} frames: position index {} heard index {:?}", sc.desc(), produced, pos_idx, heard_now),
					);
					return;
				}
			}
		}
		out.fill(Frame::new(f32::NAN, f32::NAN));
		sound.process(&mut out, dt, &info);
		for (i, f) in out.iter().enumerate() {
			if !f.left.is_finite() || !f.right.is_finite() {
				ctx.fail("output not finite / not written", format!("{} frame {} = {:?}", sc.desc(), produced + i, f));
				return;
			}
			if f.left.abs() > 0.9 || f.right.abs() > 0.9 {
				ctx.fail(
					"reads outside its slice (poison value heard)",
					format!("{} frame {} = {:?}", sc.desc(), produced + i, f),
				);
				return;
			}
			if f.left != 0.0 {
				nonsilent = true;
			}
			if let Some(v) = vis.as_mut() {
				let (l, r) = {
					let a = fval(v.get(k - 1));
					let b = fval(v.get(k));
					let c = fval(v.get(k + 1));
					let d = fval(v.get(k + 2));
					let x = frac as f32 as f64;
					(hermite4(a.0, b.0, c.0, d.0, x), hermite4(a.1, b.1, c.1, d.1, x))
				};
				let ok = if integer_step {
					f.left as f64 == l && f.right as f64 == r
				} else {
					(f.left as f64 - l).abs() <= 2e-6 && (f.right as f64 - r).abs() <= 2e-6
				};
				if !ok {
					let kind = if integer_step {
						"output differs from the source frame sequence (bit-exact expected)"
					} else {
						"output differs from the Hermite interpolation of the source"
					};
					ctx.fail(
						kind,
						format!(
							"{} frame {}: got ({:e},{:e}) expected ({:e},{:e}); visited index k={} frac={} heard {:?}",
							sc.desc(),
							produced + i,
							f.left,
							f.right,
							l,
							r,
							k,
							frac,
							v.get(k)
						),
					);
					return;
				}
				ctx.state(hash64(&(v.get(k), (frac * 64.0) as i64, sc.lp, v.back)));
				ctx.transitions += 1;
			} else if n == 0 && (f.left != 0.0 || f.right != 0.0) {
				ctx.fail("empty sound is not silent", format!("{} frame {} = {:?}", sc.desc(), produced + i, f));
				return;
			}
			frac += step;
			while frac >= 1.0 {
				frac -= 1.0;
				k += 1;
			}
		}
		produced += sc.chunk;
		if sound.finished() && finished_at.is_none() {
			finished_at = Some(k);
			if handle.state() != PlaybackState::Stopped {
				ctx.fail("finished sound does not report Stopped", sc.desc());
				return;
			}
		}
		// end-of-sound window
		if let Some(v) = vis.as_mut() {
			if sc.lp.is_none() {
				// number of frames the transport visits
				let mut total = 0i64;
				while v.get(total).is_some() {
					total += 1;
				}
				if let Some(fk) = finished_at {
					if fk < total {
						ctx.fail(
							"reports Stopped before the last frame has been output",
							format!("{} finished at visited index {} of {}", sc.desc(), fk, total),
						);
						return;
					}
				} else if k >= total + 3 + step.ceil() as i64 * sc.chunk as i64 {
					ctx.fail(
						"does not report Stopped within 3 source frames after the last frame",
						format!("{} visited index {} of {} and still {:?}", sc.desc(), k, total, handle.state()),
					);
					return;
				}
			} else if sound.finished() {
				// a valid loop never ends by itself when the transport is inside / before it
				let inside = match (sc.lp, sc.backwards()) {
					(Some((_a, b)), false) => sc.start < b || true,
					(Some((a, _b)), true) => {
						let p = if sc.reverse { n - 1 - sc.start } else { sc.start };
						p >= a
					}
					_ => true,
				};
				if inside {
					// the ideal transport decides: does the visited sequence ever end?
					let mut ends = false;
					for q in 0..64 {
						if v.get(q).is_none() {
							ends = true;
							break;
						}
					}
					if !ends {
						ctx.fail("looping sound ended", sc.desc());
						return;
					}
				}
			}
		} else if n == 0 && finished_at.is_none() && k >= 4 + step.ceil() as i64 * sc.chunk as i64 {
			ctx.fail("empty sound does not report Stopped", sc.desc());
			return;
		}
	}
	if nonsilent {
		ctx.nontrivial_extra += 1;
	}
	ctx.outcome(hash64(&(finished_at.is_some(), nonsilent, sc.lp.is_some(), sc.reverse)));
	ctx.sample(ctx.traces, || sc.desc());
}

// ---------------------------------------------------------------------------------------------
// commands at arbitrary callback boundaries (law-based)

#[derive(Debug, Clone, Copy, PartialEq)]
enum Cmd {
	SeekTo(usize),
	SeekBy(i64),
	Loop(Option<(usize, usize)>),
}

fn command_family(tier: Tier, which: u64, ctx: &mut Ctx) {
	// which -> (len, slice?, loop?, reverse, chunk, second command family)
	let mut i = which;
	let chunk = [1usize, 3][(i % 2) as usize];
	i /= 2;
	let reverse = i % 2 == 1;
	i /= 2;
	let lp = [None, Some((2usize, 5usize)), Some((0, 3))][(i % 3) as usize];
	i /= 3;
	let sliced = i % 2 == 1;
	i /= 2;
	let len = [7usize, 9][(i % 2) as usize];
	let slice = if sliced { Some((1, len - 1)) } else { None };
	let n = slice.map(|(s, e)| e - s).unwrap_or(len);
	let mut cmds: Vec<Cmd> = vec![];
	for t in 0..=n + 1 {
		cmds.push(Cmd::SeekTo(t));
	}
	for d in [-30i64, -3, -1, 1, 2] {
		cmds.push(Cmd::SeekBy(d));
	}
	for l in [None, Some((0usize, 2usize)), Some((1, 4)), Some((n - 2, n))] {
		cmds.push(Cmd::Loop(l));
	}
	// same-interval pairs: set_loop_region(l) then seek_to(t) between the same two callbacks - the seek is
	// judged against the region that was requested before it (both the order of issue and kira's fixed
	// reading order apply the region first)
	for at in 0..=6usize {
		for l in [None, Some((0usize, 2usize)), Some((1, 4)), Some((n - 2, n))] {
			for t in 0..=n + 1 {
				let sc = Scene { len, slice, start: 0, lp, reverse, rate: 1.0, pair: (1, 1), chunk };
				ctx.evals += 1;
				ctx.traces += 1;
				let (c1, second) = (Cmd::Loop(l), Some((at, Cmd::SeekTo(t))));
				let r = catch(|| run_commands(&sc, at, c1, second, ctx));
				if let Err(p) = r {
					ctx.fail(format!("panic: {} :: command pair set_loop_region+seek_to", p), format!("{} cmd {:?} at callback {} second {:?}", sc.desc(), c1, at, second));
				}
			}
		}
	}
	let depth2 = tier == Tier::Thorough;
	for at in 0..=6usize {
		for &c1 in &cmds {
			let seconds: Vec<Option<(usize, Cmd)>> = if depth2 {
				let mut v = vec![None];
				for at2 in at..=6 {
					for &c2 in &cmds {
						v.push(Some((at2, c2)));
					}
				}
				v
			} else {
				vec![None]
			};
			for second in seconds {
				let sc = Scene {
					len,
					slice,
					start: 0,
					lp,
					reverse,
					rate: 1.0,
					pair: (1, 1),
					chunk,
				};
				ctx.evals += 1;
				ctx.traces += 1;
				let r = catch(|| run_commands(&sc, at, c1, second, ctx));
				if let Err(p) = r {
					ctx.fail(
						format!("panic: {} :: command {:?}", p, kind_of(c1)),
						format!("{} cmd {:?} at callback {} second {:?}", sc.desc(), c1, at, second),
					);
				}
			}
		}
	}
}

fn kind_of(c: Cmd) -> &'static str {
	match c {
		Cmd::SeekTo(_) => "seek_to",
		Cmd::SeekBy(_) => "seek_by",
		Cmd::Loop(_) => "set_loop_region",
	}
}

fn decode_idx(f: &Frame) -> Option<i64> {
	if f.left == 0.0 {
		return None;
	}
	let v = f.left * 16.0 - 1.0;
	if v.fract() == 0.0 && f.right == -f.left / 2.0 {
		Some(v as i64)
	} else {
		Some(-99)
	}
}

fn apply(h: &mut StaticSoundHandle, c: Cmd) {
	match c {
		Cmd::SeekTo(t) => h.seek_to(t as f64),
		Cmd::SeekBy(d) => h.seek_by(d as f64),
		Cmd::Loop(l) => h.set_loop_region_opt(l.map(|(a, b)| Region {
			start: PlaybackPosition::Samples(a),
			end: kira::sound::EndPosition::Custom(PlaybackPosition::Samples(b)),
		})),
	}
}

fn run_commands(sc: &Scene, at: usize, c1: Cmd, second: Option<(usize, Cmd)>, ctx: &mut Ctx) {
	let n = sc.n();
	let (mut sound, mut handle) = sc.build();
	// a twin without commands gives the "no seek" timeline
	let (mut twin, _twin_handle) = sc.build();
	let info = MockInfoBuilder::new().build();
	let mut heard: Vec<Option<i64>> = vec![];
	let mut twin_heard: Vec<Option<i64>> = vec![];
	let mut out = vec![Frame::ZERO; sc.chunk];
	let ncb = 16;
	let mut cmd_frame = 0usize;
	let mut cur_loop = sc.lp;
	let desc = || format!("{} cmd {:?} at callback {} second {:?}", sc.desc(), c1, at, second);
	for cb in 0..ncb {
		if cb == at {
			apply(&mut handle, c1);
			cmd_frame = heard.len();
			if let Cmd::Loop(l) = c1 {
				cur_loop = l;
			}
		}
		if let Some((at2, c2)) = second {
			if cb == at2 {
				apply(&mut handle, c2);
			}
		}
		sound.on_start_processing();
		sound.process(&mut out, 1.0, &info);
		for f in &out {
			if !f.left.is_finite() || f.left.abs() > 0.9 {
				ctx.fail(
					format!("reads outside its slice / non-finite after {}", kind_of(c1)),
					format!("{} frame {:?}", desc(), f),
				);
				return;
			}
			let d = decode_idx(f);
			if d == Some(-99) {
				ctx.fail(
					format!("output is not a source frame at rate 1 after {}", kind_of(c1)),
					format!("{} frame {:?}", desc(), f),
				);
				return;
			}
			heard.push(d);
		}
		twin.on_start_processing();
		twin.process(&mut out, 1.0, &info);
		for f in &out {
			twin_heard.push(decode_idx(f));
		}
		ctx.transitions += 1;
	}
	ctx.state(hash64(&(format!("{:?}", c1), at, sc.reverse, sc.lp)));
	// pairs: safety only (no panic, nothing outside the slice, only source frames) - except a region change
	// followed by a seek_to in the same interval, whose landing point the statement fixes
	let c1 = match (c1, second) {
		(_, None) => c1,
		(Cmd::Loop(_), Some((at2, c2 @ Cmd::SeekTo(_)))) if at2 == at => c2,
		_ => return,
	};
	let dir: i64 = if sc.reverse { -1 } else { 1 };
	let j0 = cmd_frame + 3;
	match c1 {
		Cmd::SeekTo(t) => {
			// only where the statement fixes the landing point: target inside the sound, and inside the loop or no loop;
			// the sound must still be alive when the command is issued
			let alive = cmd_frame == 0 || twin_heard.get(cmd_frame.saturating_sub(1)).map(|x| x.is_some()).unwrap_or(false);
			let alive_ahead = twin_heard.get(cmd_frame).map(|x| x.is_some()).unwrap_or(false);
			let in_loop = cur_loop.map(|(a, b)| t >= a && t < b).unwrap_or(true);
			if t < n && in_loop && alive && alive_ahead {
				let land = heard.get(j0).copied().flatten();
				match land {
					Some(h) if (h - t as i64).abs() <= 1 => {
						ctx.nontrivial_extra += 1;
					}
					other => {
						let reason = if twin_heard.get(cmd_frame + 3).map(|x| x.is_none()).unwrap_or(true) {
							"seek issued within the last 3 frames before the end"
						} else {
							"mid-sound"
						};
						ctx.fail(
							format!("seek_to does not land within one frame of the target ({})", reason),
							format!("{} target {} heard 4th frame {:?}; heard={:?}", desc(), t, other, &heard[cmd_frame.min(heard.len())..(cmd_frame + 8).min(heard.len())]),
						);
						return;
					}
				}
				// continues frame by frame
				for j in j0..(j0 + 3).min(heard.len() - 1) {
					if let (Some(a), Some(b)) = (heard[j], heard[j + 1]) {
						let wrap_ok = cur_loop.is_some();
						if b != a + dir && !wrap_ok {
							ctx.fail(
								"playback does not continue frame by frame after seek_to",
								format!("{} heard={:?}", desc(), &heard[cmd_frame..(cmd_frame + 10).min(heard.len())]),
							);
							return;
						}
					}
				}
			}
		}
		Cmd::SeekBy(d) => {
			if cur_loop.is_none() {
				// relative to the no-seek timeline the playback is shifted by d (+-1)
				if let (Some(Some(base)), Some(landed)) = (twin_heard.get(j0).copied(), heard.get(j0).copied()) {
					let want = base + d * 1; // seek_by is in sound time: forward in the data
					if want < 0 {
						// a seek to before the start lands on the first frame (the sound restarts, it does not stop)
						match landed {
							Some(h) if h <= 1 => ctx.nontrivial_extra += 1,
							other => {
								ctx.fail(
									"seek_by to before the start of the sound does not restart it at the first frame",
									format!("{} no-seek frame {} shift {} heard {:?}; heard={:?}", desc(), base, d, other, &heard[cmd_frame.min(heard.len())..(cmd_frame + 8).min(heard.len())]),
								);
								return;
							}
						}
					}
					if want >= 0 && (want as usize) < n {
						match landed {
							Some(h) if (h - want).abs() <= 1 => {
								ctx.nontrivial_extra += 1;
							}
							other => {
								ctx.fail(
									"seek_by does not shift playback by the requested amount (+-1 frame)",
									format!("{} no-seek frame {} shift {} heard {:?}", desc(), base, d, other),
								);
								return;
							}
						}
					}
				}
			}
		}
		Cmd::Loop(_) => {
			// exactness after set_loop_region is covered by running the ideal transport from the
			// frame heard when the command arrives
			if let Some(Some(h0)) = heard.get(cmd_frame + 3).copied() {
				let mut tm = TransportModel {
					pos: h0 as usize,
					playing: true,
					lp: cur_loop,
					n,
				};
				for j in (cmd_frame + 4)..heard.len().min(cmd_frame + 14) {
					if sc.reverse {
						tm.bwd();
					} else {
						tm.fwd();
					}
					let want = tm.cur().map(|c| c as i64);
					if heard[j] != want {
						// the transport may still have been 3 frames ahead of the heard frame when the region changed
						if j < cmd_frame + 7 {
							// resynchronise on what is heard
							if let Some(h) = heard[j] {
								tm.pos = h as usize;
								tm.playing = true;
								continue;
							}
						}
						ctx.fail(
							"playback after set_loop_region does not follow the new loop region",
							format!("{} heard={:?} expected {:?} at frame {}", desc(), &heard[cmd_frame..heard.len().min(cmd_frame + 14)], want, j),
						);
						return;
					}
				}
				ctx.nontrivial_extra += 1;
			}
		}
	}
	ctx.outcome(hash64(&(format!("{:?}", c1), heard.last().copied())));
}

// ---------------------------------------------------------------------------------------------
// engine pass: the same sample accuracy seen at the device output, wherever the sound is hosted and however
// the device cuts time into callbacks

/// slicing data that is already sliced: positions are those of the whole audio, an open end means the end of the audio
/// the position is accumulated with the sign of the rate: T seconds at rate +r and then T seconds at rate -r (the change
/// issued between two buffers) bring the playhead back to where it was, to within the buffer in which the rate turns
fn direction_flip(ctx: &mut Ctx) {
	let sr = 1000u32;
	let frames: Vec<Frame> = (0..4096).map(|i| Frame::from_mono(((i * 37) % 101) as f32 / 256.0)).collect();
	for (chunk, ncbs) in [(1usize, [24usize, 40]), (8, [5, 12]), (64, [3, 10])] {
		for (r0, reverse, start) in [(1.0f64, false, 0usize), (-1.0, false, 2000), (1.0, true, 0), (2.0, false, 0)] {
			for ncb in ncbs {
				ctx.evals += 1;
				let data = rig::static_data(sr, frames.clone()).reverse(reverse).playback_rate(PlaybackRate(r0)).start_position(PlaybackPosition::Samples(start));
				let (mut sound, mut h) = data.into_sound().expect("into_sound");
				let info = MockInfoBuilder::new().build();
				let mut out = vec![Frame::ZERO; chunk];
				let dt = 1.0 / sr as f64;
				let run = |sound: &mut Box<dyn Sound>, out: &mut Vec<Frame>, n: usize| {
					for _ in 0..n {
						sound.on_start_processing();
						sound.process(out, dt, &info);
					}
				};
				run(&mut sound, &mut out, ncb);
				sound.on_start_processing();
				let p_mid = h.position() * sr as f64;
				h.set_playback_rate(PlaybackRate(-r0), kira::Tween { start_time: kira::StartTime::Immediate, duration: std::time::Duration::ZERO, easing: kira::Easing::Linear });
				run(&mut sound, &mut out, ncb);
				sound.on_start_processing();
				let p_end = h.position() * sr as f64;
				let p_start = if reverse { (4096 - 1 - start) as f64 } else { start as f64 };
				let travelled = (p_mid - p_start).abs();
				// the turn costs at most the buffer in which it happens (the rate is interpolated across it) plus the look-ahead
				// (the heard position trails the transport by the interpolation window, on the way out and on the way back; inside
				// the turning buffer the speed is interpolated through zero)
				let tol = 8.0 * r0.abs() + 0.6 * chunk as f64 * r0.abs();
				ctx.transitions += 2 * ncb as u64;
				if (p_end - p_start).abs() > tol || travelled < (ncb * chunk) as f64 * r0.abs() - tol {
					ctx.fail(
						"after playing T at rate +r and T at rate -r the playhead is not back where it started (the direction does not follow the sign of the rate in the buffer in which it changes) :: direction flip".to_string(),
						format!("4096-frame static sound at {} Hz{}, rate {}, start {}: {} buffers of {} frames, set_playback_rate({}, instant), {} more buffers: position {} -> {} -> {} (frames), tolerance {}", sr, if reverse { ", reversed" } else { "" }, r0, start, ncb, chunk, -r0, ncb, p_start, p_mid, p_end, tol),
					);
				} else {
					ctx.nontrivial_extra += 1;
				}
				ctx.state(hash64(&("flip", chunk, r0.to_bits(), reverse, ncb)));
			}
		}
	}
}

fn reslice(ctx: &mut Ctx) {
	let info = MockInfoBuilder::new().build();
	for len in [6usize, 10] {
		let frames: Vec<Frame> = (0..len).map(code).collect();
		for a in 0..len {
			for b in a + 1..=len {
				for c in 0..len {
					for open in [true, false] {
						let e = if open { len } else { (c + 2).min(len) };
						if e <= c {
							continue;
						}
						ctx.evals += 1;
						let first = Region { start: PlaybackPosition::Samples(a), end: kira::sound::EndPosition::Custom(PlaybackPosition::Samples(b)) };
						let second = Region { start: PlaybackPosition::Samples(c), end: if open { kira::sound::EndPosition::EndOfAudio } else { kira::sound::EndPosition::Custom(PlaybackPosition::Samples(e)) } };
						let data = rig::static_data(1, frames.clone()).slice(first).slice(second);
						let desc = || format!("{} frames, .slice({}..{}) then .slice({}..{})", len, a, b, c, if open { "".to_string() } else { e.to_string() });
						if data.num_frames() != e - c {
							ctx.fail("slicing already sliced data: num_frames() is not the length of the last slice", format!("{}: num_frames() = {}, expected {}", desc(), data.num_frames(), e - c));
							continue;
						}
						let (mut sound, _h) = match data.into_sound() {
							Ok(x) => x,
							Err(_) => continue,
						};
						let mut out = vec![Frame::ZERO; len + 6];
						for f in out.iter_mut() {
							let mut one = [Frame::ZERO; 1];
							sound.on_start_processing();
							sound.process(&mut one, 1.0, &info);
							*f = one[0];
						}
						for (i, f) in out.iter().enumerate() {
							let want = if c + i < e { code(c + i) } else { Frame::ZERO };
							if f.left != want.left || f.right != want.right {
								ctx.fail("slicing already sliced data: the sound does not play the frames of the last slice", format!("{}: output frame {} = {:?}, expected {:?}", desc(), i, f, want));
								break;
							}
						}
						ctx.nontrivial_extra += 1;
					}
				}
			}
		}
	}
	ctx.state(hash64(&"reslice"));
}

fn engine_pass(host: usize, ibs: usize, ctx: &mut Ctx) {
	if host == 0 && ibs == 2 {
		reslice(ctx);
	}
	use crate::rig;
	use kira::track::{MainTrackBuilder, SpatialTrackBuilder, TrackBuilder};
	const SRE: u32 = 8;
	let patterns: [&[usize]; 5] = [&[1], &[3], &[7, 1, 2], &[ibs_plus(1)], &[4, 9, 5]];
	fn ibs_plus(_: usize) -> usize {
		6
	}
	// 15 frames: the index code (i+1)/16 stays below full scale (the renderer clamps at 1.0)
	let n = 15usize;
	let frames: Vec<Frame> = (0..n).map(code).collect();
	for (pi, pat) in patterns.iter().enumerate() {
		for variant in 0..6usize {
			let (reverse, looped, rate) = [(false, false, 1.0), (true, false, 1.0), (false, true, 1.0), (false, false, 2.0), (true, true, 1.0), (false, true, 2.0)][variant];
			ctx.evals += 1;
			ctx.traces += 1;
			let desc = || format!("{} frames, reverse={} loop(4..10)={} rate={} played on the {}; internal buffer {}, callbacks {:?} (cyclic), device rate = sound rate", n, reverse, looped, rate, ENGINE_HOSTS[host], ibs, pat);
			let mut m = rig::manager(SRE, ibs, rig::caps(4), MainTrackBuilder::new());
			let mut data = rig::static_data(SRE, frames.clone()).reverse(reverse).playback_rate(rate);
			if looped {
				data = data.loop_region(Region { start: PlaybackPosition::Samples(4), end: kira::sound::EndPosition::Custom(PlaybackPosition::Samples(10)) });
			}
			let mut keep: Vec<Box<dyn std::any::Any>> = vec![];
			let played = match host {
				0 => m.play(data).map(|_| ()),
				1 => {
					let mut t = m.add_sub_track(TrackBuilder::new()).expect("track");
					let r = t.play(data).map(|_| ());
					keep.push(Box::new(t));
					r
				}
				2 => {
					let mut t = m.add_sub_track(TrackBuilder::new()).expect("track");
					let mut u = t.add_sub_track(TrackBuilder::new()).expect("nested");
					let r = u.play(data).map(|_| ());
					keep.push(Box::new(u));
					keep.push(Box::new(t));
					r
				}
				_ => {
					let l = m.add_listener(glam::Vec3::ZERO, glam::Quat::IDENTITY).expect("listener");
					let mut t = m.add_spatial_sub_track(&l, glam::Vec3::new(0.0, 0.0, -1.0), SpatialTrackBuilder::new().attenuation_function(None).spatialization_strength(0.0)).expect("spatial");
					let r = t.play(data).map(|_| ());
					keep.push(Box::new(t));
					keep.push(Box::new(l));
					r
				}
			};
			if played.is_err() {
				ctx.fail("engine pass: play failed", desc());
				continue;
			}
			let mut out: Vec<(f32, f32)> = vec![];
			let mut k = 0;
			while out.len() < 40 {
				let rep = rig::render_stereo(&mut m, pat[k % pat.len()], &mut out);
				k += 1;
				ctx.transitions += 1;
				if !rep.ok() {
					ctx.fail("engine pass: callback monitor", format!("{} {:?}", desc(), rep));
					break;
				}
			}
			// reference: the ideal transport at integer steps (rate 1 or 2 at equal rates: every output frame is a source frame)
			let mut tm = TransportModel { pos: if reverse { n - 1 } else { 0 }, playing: true, lp: if looped { Some((4, 10)) } else { None }, n };
			let mut want: Vec<Option<usize>> = vec![];
			for _ in 0..40 {
				want.push(tm.cur());
				for _ in 0..rate as usize {
					if reverse {
						tm.bwd();
					} else {
						tm.fwd();
					}
				}
			}
			for (i, w) in want.iter().enumerate() {
				let Some(got) = out.get(i) else { break };
				let exp = w.map(code).unwrap_or(Frame::ZERO);
				let tol = if host == 3 { 1e-6 } else { 0.0 };
				if (got.0 - exp.left).abs() > tol || (got.1 - exp.right).abs() > tol {
					ctx.fail(
						format!("the device output is not the source frame sequence :: engine pass on the {}", ENGINE_HOSTS[host]),
						format!("{}; output frame {}: got ({}, {}), expected source frame {:?} = ({}, {})", desc(), i, got.0, got.1, w, exp.left, exp.right),
					);
					break;
				}
			}
			ctx.nontrivial_extra += 1;
			ctx.state(hash64(&("engine", host, ibs, pi, variant)));
			drop(keep);
		}
	}
	// a command issued right after play(), before the first callback: on every host the sound behaves as on the main track
	if host >= 1 {
		for cmd in 0..4usize {
			for pat in [&[1usize][..], &[7, 1, 2][..], &[4, 9, 5][..]] {
				ctx.evals += 1;
				let render = |host: usize| -> Result<Vec<(f32, f32)>, String> {
					let mut m = rig::manager(SRE, ibs, rig::caps(4), MainTrackBuilder::new());
					let data = rig::static_data(SRE, frames.clone());
					let mut keep: Vec<Box<dyn std::any::Any>> = vec![];
					let mut h = match host {
						0 => m.play(data).map_err(|_| "play")?,
						1 => {
							let mut t = m.add_sub_track(TrackBuilder::new()).map_err(|_| "track")?;
							let h = t.play(data).map_err(|_| "play")?;
							keep.push(Box::new(t));
							h
						}
						2 => {
							let mut t = m.add_sub_track(TrackBuilder::new()).map_err(|_| "track")?;
							let mut u = t.add_sub_track(TrackBuilder::new()).map_err(|_| "nested")?;
							let h = u.play(data).map_err(|_| "play")?;
							keep.push(Box::new(u));
							keep.push(Box::new(t));
							h
						}
						_ => {
							let l = m.add_listener(glam::Vec3::ZERO, glam::Quat::IDENTITY).map_err(|_| "listener")?;
							let mut t = m.add_spatial_sub_track(&l, glam::Vec3::new(0.0, 0.0, -1.0), SpatialTrackBuilder::new().attenuation_function(None).spatialization_strength(0.0)).map_err(|_| "spatial")?;
							let h = t.play(data).map_err(|_| "play")?;
							keep.push(Box::new(t));
							keep.push(Box::new(l));
							h
						}
					};
					match cmd {
						0 => h.seek_to(5.0 / SRE as f64),
						1 => h.set_loop_region(Region { start: PlaybackPosition::Samples(2), end: kira::sound::EndPosition::Custom(PlaybackPosition::Samples(6)) }),
						2 => h.seek_by(0.5),
						_ => h.set_playback_rate(PlaybackRate(2.0), kira::Tween { start_time: kira::StartTime::Immediate, duration: std::time::Duration::ZERO, easing: kira::Easing::Linear }),
					}
					let mut out = vec![];
					let mut k = 0;
					while out.len() < 30 {
						rig::render_stereo(&mut m, pat[k % pat.len()], &mut out);
						k += 1;
					}
					drop(keep);
					Ok(out)
				};
				let (Ok(reference), Ok(got)) = (render(0), render(host)) else {
					ctx.fail("engine pass: scene could not be built", "command right after play");
					continue;
				};
				let tol = if host == 3 { 1e-6 } else { 0.0 };
				if let Some(i) = (0..30).find(|&i| (got[i].0 - reference[i].0).abs() > tol || (got[i].1 - reference[i].1).abs() > tol) {
					ctx.fail(
						format!("a command issued right after play() takes effect later than on the main track :: engine pass on the {}", ENGINE_HOSTS[host]),
						format!("15-frame index-coded sound played on the {}; {} before the first callback; internal buffer {}, callbacks {:?}: output frame {} = {:?}, on the main track {:?}; left channel x16 {:?} vs {:?}", ENGINE_HOSTS[host], ["seek_to(frame 5)", "set_loop_region(2..6)", "seek_by(0.5 s = 4 frames)", "set_playback_rate(2, instant)"][cmd], ibs, pat, i, got[i], reference[i], got.iter().map(|f| (f.0 * 16.0).round() as i32).collect::<Vec<_>>(), reference.iter().map(|f| (f.0 * 16.0).round() as i32).collect::<Vec<_>>()),
					);
				} else {
					ctx.nontrivial_extra += 1;
				}
			}
		}
	}
	ctx.outcome(hash64(&("engine", host, ibs)));
}
