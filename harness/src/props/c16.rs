//! C16 — seconds and hertz mean the same at every device sample rate and across changes.
//!
//! Seconds are always *true* seconds: the harness plays the backend, so it knows the rate in force for every frame.
//! Part A (grid): 11 scenes (sound duration+pitch, delayed start, clock-scheduled start, volume
//!   tween, delay echo, filter corner, EQ centre) x device rate r1 x rate r2 x moment of the change
//!   (before callback 0..4, or never) x internal buffer size x scene parameters. Event times are
//!   measured in seconds (sum of frames / rate in force, taken from the dt the main track sees).
//! Part B (histories): every history up to the depth bound over
//!   {callback, change rate, add track with effects through each of the 7 public creation paths},
//!   followed by an epilogue that adopts everything and measures every track: a probe effect
//!   compares on every `process` call the last rate it was told (init / on_change_sample_rate)
//!   with the device rate in force (and dt with its inverse); a built-in delay on the same track must echo after `delay_time` seconds.
//! Part C (E2): gameplay thread adds a track  ||  audio thread changes the rate and runs a callback.

use crate::engine::{hash64, Check, Ctx, Level, Tier};
use crate::json::J;
use crate::rig::{self, catch, Manager};
use kira::clock::{ClockSpeed, ClockTime};
use kira::effect::delay::DelayBuilder;
use kira::effect::eq_filter::{EqFilterBuilder, EqFilterKind};
use kira::effect::filter::{FilterBuilder, FilterMode};
use kira::effect::{Effect, EffectBuilder};
use kira::info::Info;
use kira::listener::ListenerHandle;
use kira::sound::static_sound::StaticSoundData;
use kira::sound::{Sound, SoundData};
use kira::track::{MainTrackBuilder, SendTrackBuilder, SpatialTrackBuilder, SpatialTrackHandle, TrackBuilder, TrackHandle};
use kira::{Decibels, Easing, Frame, Mix, StartTime, Tween};
use std::any::Any;
use std::sync::atomic::{AtomicU32, AtomicU64, Ordering::SeqCst};
use std::sync::{Arc, Mutex};
use std::time::Duration;

pub struct C16;

// ---------------------------------------------------------------------------------------------
// probes (public traits only)

struct FxState {
	/// the device rate in force, as the harness (which plays the backend) knows it
	truth: Arc<AtomicU32>,
	/// last rate told through init / on_change_sample_rate (0 = never told)
	told: AtomicU32,
	init_rate: AtomicU32,
	inits: AtomicU32,
	changes: AtomicU32,
	calls: AtomicU64,
	bad: AtomicU64,
	/// (told, rate in force, number of the process call, on_change_sample_rate calls so far) of the first disagreement
	first_bad: Mutex<Option<(u32, u32, u64, u32)>>,
	/// (1/dt, rate in force, number of the process call) of the first call whose dt is not 1 / rate in force
	dt_bad: Mutex<Option<(f64, u32, u64)>>,
}
impl FxState {
	fn new(truth: &Arc<AtomicU32>) -> Arc<Self> {
		Arc::new(Self { truth: truth.clone(), told: AtomicU32::new(0), init_rate: AtomicU32::new(0), inits: AtomicU32::new(0), changes: AtomicU32::new(0), calls: AtomicU64::new(0), bad: AtomicU64::new(0), first_bad: Mutex::new(None), dt_bad: Mutex::new(None) })
	}
}
/// per frame: left sample, rate in force
type Log = Arc<Mutex<Vec<(f32, u32)>>>;

struct ProbeFx {
	st: Arc<FxState>,
	log: Option<Log>,
}
impl Effect for ProbeFx {
	fn init(&mut self, sample_rate: u32, _ibs: usize) {
		self.st.told.store(sample_rate, SeqCst);
		self.st.init_rate.store(sample_rate, SeqCst);
		self.st.inits.fetch_add(1, SeqCst);
	}
	fn on_change_sample_rate(&mut self, sample_rate: u32) {
		self.st.told.store(sample_rate, SeqCst);
		self.st.changes.fetch_add(1, SeqCst);
	}
	fn process(&mut self, input: &mut [Frame], dt: f64, _info: &Info) {
		let in_force = self.st.truth.load(SeqCst);
		let told = self.st.told.load(SeqCst);
		let n = self.st.calls.fetch_add(1, SeqCst) + 1;
		if (dt * in_force as f64 - 1.0).abs() > 1e-9 {
			let mut db = self.st.dt_bad.lock().unwrap();
			if db.is_none() {
				*db = Some((1.0 / dt, in_force, n));
			}
		}
		if told != in_force {
			self.st.bad.fetch_add(1, SeqCst);
			let mut fb = self.st.first_bad.lock().unwrap();
			if fb.is_none() {
				*fb = Some((told, in_force, n, self.st.changes.load(SeqCst)));
			}
		}
		if let Some(log) = &self.log {
			let mut l = log.lock().unwrap();
			for f in input.iter() {
				if l.len() < l.capacity() {
					l.push((f.left, in_force));
				}
			}
		}
	}
}
struct ProbeFxB(Arc<FxState>, Option<Log>);
impl EffectBuilder for ProbeFxB {
	type Handle = ();
	fn build(self) -> (Box<dyn Effect>, ()) {
		(Box::new(ProbeFx { st: self.0, log: self.1 }), ())
	}
}

/// emits one frame of the stored amplitude (f32 bits, 0 = nothing) at the start of the next process call
struct Impulse(Arc<AtomicU32>);
impl Sound for Impulse {
	fn process(&mut self, out: &mut [Frame], _dt: f64, _info: &Info) {
		out.fill(Frame::ZERO);
		let b = self.0.swap(0, SeqCst);
		if b != 0 && !out.is_empty() {
			out[0] = Frame::from_mono(f32::from_bits(b));
		}
	}
	fn finished(&self) -> bool {
		false
	}
}
struct ImpulseData(Arc<AtomicU32>);
impl SoundData for ImpulseData {
	type Error = ();
	type Handle = ();
	fn into_sound(self) -> Result<(Box<dyn Sound>, ()), ()> {
		Ok((Box::new(Impulse(self.0)), ()))
	}
}
fn fire(f: &AtomicU32, amp: f32) {
	f.store(amp.to_bits(), SeqCst);
}

// ---------------------------------------------------------------------------------------------
// world: a manager whose main track ends in a tap that logs (left sample, dt) per frame

struct World {
	m: Manager,
	rate: u32,
	truth: Arc<AtomicU32>,
	tap: Arc<FxState>,
	log: Log,
	buf: Vec<f32>,
}
/// callback length: 2.5 ms at the rate in force
fn cbf(rate: u32) -> usize {
	(rate / 400).max(1) as usize
}
fn small_caps() -> kira::Capacities {
	kira::Capacities {
		sub_track_capacity: 16,
		send_track_capacity: 8,
		clock_capacity: 2,
		modulator_capacity: 2,
		listener_capacity: 2,
	}
}
fn world(rate: u32, ibs: usize, log_cap: usize, main_fx: Option<Box<dyn Effect>>) -> World {
	let truth = Arc::new(AtomicU32::new(rate));
	let tap = FxState::new(&truth);
	let log: Log = Arc::new(Mutex::new(Vec::with_capacity(log_cap)));
	let mut main = MainTrackBuilder::new().sound_capacity(8);
	if let Some(fx) = main_fx {
		main = main.with_built_effect(fx);
	}
	main = main.with_effect(ProbeFxB(tap.clone(), Some(log.clone())));
	World {
		m: rig::manager(rate, ibs, small_caps(), main),
		rate,
		truth,
		tap,
		log,
		buf: vec![0.0; 2 * 512],
	}
}
impl World {
	fn cb(&mut self, n: usize) -> Result<(), String> {
		if self.buf.len() < 2 * n {
			self.buf.resize(2 * n, 0.0);
		}
		match rig::callback(&mut self.m, &mut self.buf, n, 2).panic {
			Some(p) => Err(p),
			None => Ok(()),
		}
	}
	fn change(&mut self, r: u32) -> Result<(), String> {
		let m = &mut self.m;
		self.truth.store(r, SeqCst);
		catch(|| m.backend_mut().renderer.as_mut().unwrap().on_change_sample_rate(r))?;
		self.rate = r;
		Ok(())
	}
	fn log_len(&self) -> usize {
		self.log.lock().unwrap().len()
	}
	fn clear_log(&self) {
		self.log.lock().unwrap().clear();
	}
	fn rec(&self) -> Rec {
		let l = self.log.lock().unwrap();
		let mut t = Vec::with_capacity(l.len() + 1);
		let mut acc = 0.0;
		for (_, r) in l.iter() {
			t.push(acc);
			acc += 1.0 / *r as f64;
		}
		t.push(acc);
		Rec { v: l.iter().map(|x| x.0).collect(), dt: l.iter().map(|x| 1.0 / x.1 as f64).collect(), t }
	}
}
/// what the main track carried: sample, true frame duration (1 / rate in force) and true start time (seconds) of every frame
struct Rec {
	v: Vec<f32>,
	dt: Vec<f64>,
	t: Vec<f64>,
}
impl Rec {
	fn first(&self, from: usize, to: usize, p: impl Fn(f32) -> bool) -> Option<usize> {
		(from..to.min(self.v.len())).find(|i| p(self.v[*i]))
	}
	fn uniform(&self, a: usize, b: usize) -> bool {
		a < b && b <= self.v.len() && self.dt[a..b].iter().all(|d| *d == self.dt[a])
	}
}

// ---------------------------------------------------------------------------------------------
// enumeration tables

const RATES_Q: [u32; 7] = [8000, 11025, 16000, 44100, 48000, 96000, 192000];
const RATES_T: [u32; 12] = [8000, 8192, 11025, 16000, 16384, 22050, 32000, 44100, 48000, 88200, 96000, 192000];
fn rates(t: Tier) -> &'static [u32] {
	t.pick(&RATES_Q[..], &RATES_T[..])
}
fn ibss(t: Tier) -> &'static [usize] {
	t.pick(&[32, 128][..], &[8, 32, 128, 512][..])
}
fn sound_rates(t: Tier) -> &'static [u32] {
	t.pick(&[8000, 44100][..], &[8000, 11025, 22050, 44100, 48000, 96000][..])
}
fn delay_us(t: Tier) -> &'static [u64] {
	t.pick(&[2000][..], &[500, 2000, 3300][..])
}
const NONE: usize = usize::MAX;
const SCENES: [&str; 14] = ["sound", "delayed-start", "clock", "tween", "delay", "filter", "eq", "delay, rate changed and changed back", "reverb early reflections", "delay in the feedback loop of a one-frame delay", "lfo", "streaming sound", "long delayed start", "compressor attack time"];
const LFO_HZ: [f64; 3] = [3.0, 113.0, 1130.0];
const LFO_WAVES: [&str; 4] = ["sine", "triangle", "saw", "pulse(0.5)"];
const PLACEMENTS: [&str; 4] = ["main", "sub", "nested", "send"];

#[derive(Clone, Copy, PartialEq, Eq, Hash, Debug)]
enum L {
	Cb,
	Change,
	Top,
	Send,
	Spatial,
	Nested,
	NestedSp,
	SpNested,
	SpNestedSp,
	/// the handles of the two parent tracks are dropped (their children keep them alive)
	DropParents,
}
const LETTERS: [L; 10] = [L::Cb, L::Change, L::Top, L::Send, L::Spatial, L::Nested, L::NestedSp, L::SpNested, L::SpNestedSp, L::DropParents];
impl L {
	fn name(self) -> &'static str {
		match self {
			L::Cb => "callback",
			L::Change => "change rate",
			L::Top => "AudioManager::add_sub_track",
			L::Send => "AudioManager::add_send_track",
			L::Spatial => "AudioManager::add_spatial_sub_track",
			L::Nested => "TrackHandle::add_sub_track",
			L::NestedSp => "TrackHandle::add_spatial_sub_track",
			L::SpNested => "SpatialTrackHandle::add_sub_track",
			L::SpNestedSp => "SpatialTrackHandle::add_spatial_sub_track",
			L::DropParents => "drop the handles of the parent tracks",
		}
	}
}
const SEQS: [[u32; 6]; 5] = [
	[48000, 24000, 96000, 8000, 192000, 44100],
	[8000, 192000, 11025, 44100, 16000, 96000],
	[44100, 48000, 44100, 48000, 44100, 48000],
	[192000, 8000, 192000, 96000, 48000, 8000],
	[22050, 22050, 11025, 11025, 88200, 88200],
];
fn nseqs(t: Tier) -> u64 {
	t.pick(3, 5)
}
fn b_ibss(t: Tier) -> &'static [usize] {
	t.pick(&[32, 128][..], &[8, 32, 128][..])
}
fn depth(t: Tier) -> usize {
	t.pick(4, 5)
}
const E2_KINDS: [L; 3] = [L::Top, L::Nested, L::Send];

fn n_a(t: Tier) -> u64 {
	(SCENES.len() * rates(t).len()) as u64
}
fn n_b(t: Tier) -> u64 {
	LETTERS.len() as u64 * nseqs(t) * b_ibss(t).len() as u64
}
fn decode_b(t: Tier, i: u64) -> (L, usize, usize) {
	let first = LETTERS[(i % 10) as usize];
	let i = i / 10;
	let seq = (i % nseqs(t)) as usize;
	let ibs = b_ibss(t)[(i / nseqs(t)) as usize];
	(first, seq, ibs)
}

impl Check for C16 {
	fn id(&self) -> &'static str {
		"C16"
	}
	fn level(&self) -> Level {
		Level::ModelChecking
	}
	fn num_cases(&self, t: Tier) -> u64 {
		n_a(t) + n_b(t) + E2_KINDS.len() as u64
	}
	fn describe(&self, t: Tier, idx: u64) -> String {
		if idx < n_a(t) {
			let (s, r) = (idx as usize / rates(t).len(), idx as usize % rates(t).len());
			format!(
				"grid: scene '{}' starting at {} Hz x second rate in {:?} x change before callback 0..4 (2.5 ms callbacks) or never x internal buffer {:?}",
				SCENES[s],
				rates(t)[r],
				rates(t),
				ibss(t)
			)
		} else if idx < n_a(t) + n_b(t) {
			let (f, s, ibs) = decode_b(t, idx - n_a(t));
			format!("histories: first letter '{}', all continuations to depth {} over 10 letters, rate sequence {:?}, internal buffer {}", f.name(), depth(t), SEQS[s], ibs)
		} else {
			format!("E2: gameplay thread {} || audio thread change 48000->24000 Hz, callback", E2_KINDS[(idx - n_a(t) - n_b(t)) as usize].name())
		}
	}
	fn sig_hint(&self, t: Tier, idx: u64) -> String {
		if idx < n_a(t) {
			format!("grid scene {}", SCENES[idx as usize / rates(t).len()])
		} else if idx < n_a(t) + n_b(t) {
			format!("histories starting with {}", decode_b(t, idx - n_a(t)).0.name())
		} else {
			format!("E2 {}", E2_KINDS[(idx - n_a(t) - n_b(t)) as usize].name())
		}
	}
	fn rule(&self) -> String {
		"A: 14 scenes (incl. a compressor's attack time measured in seconds, a 200 ms delayed start at constant rates, the sound scene with a streaming sound, a delay whose rate changes and changes back, the reverb's early reflections, a delay nested in the feedback loop of a one-frame delay, and LFOs of 3 / 113 / 1130 Hz x 4 waveforms read through a track volume) x r1 x r2 x change moment {never, before callback 0..4} x internal buffer x {sound rate | delay time x placement main/sub/nested/send}; times in true seconds = sum of frames / device rate in force (the harness plays the backend and knows it; the dt handed to process is checked against it); tolerances: one device frame (+ one processing chunk where kira quantises to chunks: clock start, delayed start, tween); filter/EQ corner gain compared with the 48 kHz rendering. B: all histories <= depth over {callback, change rate, drop the parents' handles, 7 track-creation paths each with probe effect + 2 ms delay carrying a probe as feedback effect}, epilogue adopts and measures every track; oracle: on every process call the rate last told == device rate in force == 1/dt, echo time == delay_time +- 1 frame. C: E2 schedules of add-track || change+callback. states = distinct (rate, per-track adopted/told) model states; non-trivial = grid runs in which the measured event was observed / histories with at least one added track whose probe was processed".into()
	}
	fn assumptions(&self) -> Vec<String> {
		vec![
			"streaming sounds step by the same `sound_rate * playback_rate * dt` expression as static sounds and are compared with static playback by C09; only static sounds are rendered here".into(),
			"the compressor's attack/release are dt-driven like the tween and are not measured here (C14 measures them per rate)".into(),
			"a delay's echo in flight at the moment of a rate change is not judged (kira clears the line); echoes are measured in windows without a change".into(),
		]
	}
	fn case_timeout_ms(&self, _t: Tier) -> u64 {
		600_000
	}
	fn extra_evidence(&self, t: Tier) -> Vec<(String, J)> {
		vec![
			("depth".into(), J::u(depth(t) as u64)),
			("alphabet".into(), J::arr_str(LETTERS.iter().map(|l| l.name().to_string()))),
			("preemption_bound".into(), J::s(t.pick("2", "3"))),
			("device_rates".into(), J::arr_str(rates(t).iter().map(|r| r.to_string()))),
		]
	}
	fn run_case(&self, t: Tier, idx: u64, ctx: &mut Ctx) {
		if idx < n_a(t) {
			let (s, r) = (idx as usize / rates(t).len(), idx as usize % rates(t).len());
			grid_case(t, s, rates(t)[r], ctx);
		} else if idx < n_a(t) + n_b(t) {
			let (first, seq, ibs) = decode_b(t, idx - n_a(t));
			let mut letters = vec![first];
			histories(&mut letters, depth(t), &SEQS[seq], ibs, ctx);
		} else {
			e2_case(t, E2_KINDS[(idx - n_a(t) - n_b(t)) as usize], ctx);
		}
	}
}

// ---------------------------------------------------------------------------------------------
// Part A: the grid

#[derive(Clone, Copy, Debug)]
struct Plan {
	r1: u32,
	r2: u32,
	/// the rate changes immediately before callback k (NONE = never)
	k: usize,
	ibs: usize,
}
impl Plan {
	fn phase(&self) -> &'static str {
		match self.k {
			NONE => "constant rate",
			0 => "rate changed before the scene starts",
			_ => "rate changes mid-scene",
		}
	}
	/// longest processing chunk in seconds (kira quantises parameter / clock / start-time updates to chunks)
	fn chunk_s(&self) -> f64 {
		let c = |r: u32| self.ibs.min(cbf(r)) as f64 / r as f64;
		if self.k == NONE {
			c(self.r1)
		} else {
			c(self.r1).max(c(self.r2))
		}
	}
	fn frame_s(&self) -> f64 {
		1.0 / (if self.k == NONE { self.r1 } else { self.r1.min(self.r2) }) as f64
	}
	fn text(&self) -> String {
		if self.k == NONE {
			format!("device rate {} Hz (constant), internal buffer {}, 2.5 ms callbacks", self.r1, self.ibs)
		} else {
			format!("device rate {} Hz, on_change_sample_rate({}) immediately before callback {} (t = {} ms), internal buffer {}, 2.5 ms callbacks", self.r1, self.r2, self.k, 2.5 * self.k as f64, self.ibs)
		}
	}
}

fn drive(w: &mut World, p: &Plan, ncb: usize, hook: &mut dyn FnMut(&mut World, usize)) -> Result<Vec<usize>, String> {
	let mut starts = vec![];
	for j in 0..ncb {
		if j == p.k {
			w.change(p.r2)?;
		}
		hook(w, j);
		starts.push(w.log_len());
		w.cb(cbf(w.rate))?;
	}
	starts.push(w.log_len());
	Ok(starts)
}
fn warm(w: &mut World) -> Result<(), String> {
	w.cb(4)?;
	w.cb(cbf(w.rate))?;
	w.clear_log();
	Ok(())
}
fn log_cap(p: &Plan, ncb: usize) -> usize {
	(ncb + 2) * cbf(p.r1.max(p.r2)) + 16
}
fn tween(us: u64) -> Tween {
	Tween { start_time: StartTime::Immediate, duration: Duration::from_micros(us), easing: Easing::Linear }
}
fn dc_sound(ms: u32) -> StaticSoundData {
	rig::static_data(48000, rig::dc_frames(48 * ms as usize, 0.5))
}

fn grid_case(t: Tier, scene: usize, r1: u32, ctx: &mut Ctx) {
	let mut ord = 0u64;
	for &r2 in rates(t) {
		let ks: Vec<usize> = if r2 == r1 { vec![NONE] } else { vec![0, 1, 2, 3, 4] };
		for k in ks {
			for &ibs in ibss(t) {
				let p = Plan { r1, r2, k, ibs };
				let variants: Vec<(u64, usize)> = match scene {
					0 => sound_rates(t).iter().flat_map(|s| [(*s as u64, 0), (*s as u64, 1)]).collect(),
					11 => sound_rates(t).iter().map(|s| (*s as u64, 0)).collect(),
					4 | 7 | 9 => delay_us(t).iter().flat_map(|d| (0..4).map(move |pl| (*d, pl))).collect(),
					10 => (0..LFO_HZ.len() as u64).flat_map(|f| (0..LFO_WAVES.len()).map(move |wv| (f, wv))).collect(),
					// a corner well below every device rate, and one above a sixth of the lowest (3 kHz at 8 kHz is 0.375 of the rate)
					// (and, for the filter, a corner far below every device rate / 1000)
					5 => vec![(1000, 0), (3000, 0), (150, 0)],
					6 => vec![(1000, 0), (3000, 0)],
					_ => vec![(0, 0)],
				};
				for (a, b) in variants {
					ctx.evals += 1;
					ctx.traces += 1;
					ord += 1;
					let what = || format!("scene {} [{}{}]: {}", SCENES[scene], if scene == 0 || scene == 11 { format!("sound rate {} Hz{}", a, if b == 1 { ", the mirrored ramp played with reverse(true)" } else { "" }) } else if scene == 10 { format!("{} LFO at {} Hz mapped to a track volume of -12..0 dB", LFO_WAVES[b], LFO_HZ[a as usize]) } else if scene == 5 || scene == 6 { format!("corner / centre at {} Hz", a) } else if scene == 4 || scene == 7 || scene == 9 { format!("delay_time {} us on the {} track{}", a, PLACEMENTS[b], if scene == 7 { "; the rate returns to the first rate immediately before callback 6" } else { "" }) } else { String::new() }, "", p.text());
					ctx.sample(ord, what);
					let mut fails: Vec<(String, String)> = vec![];
					let r = catch(|| match scene {
						0 => scene_sound(&p, a as u32, false, b == 1, &mut fails),
						11 => scene_sound(&p, a as u32, true, false, &mut fails),
						13 => scene_compressor(&p, &mut fails),
						12 => {
							if p.k != NONE {
								Ok((false, 0))
							} else {
								scene_start_long(&p, &mut fails)
							}
						}
						1 => scene_start(&p, false, &mut fails),
						2 => scene_start(&p, true, &mut fails).and_then(|o| {
							if p.k == NONE || p.k == 0 {
								long_callbacks(&p, &mut fails)?;
							}
							Ok(o)
						}),
						3 => scene_tween(&p, &mut fails),
						4 => scene_delay(&p, a, b, false, false, &mut fails),
						9 => scene_delay(&p, a, b, false, true, &mut fails),
						10 => scene_lfo(&p, LFO_HZ[a as usize], b, &mut fails),
						8 => {
							if p.k != NONE && p.k > 1 {
								Ok((false, 0))
							} else {
								scene_reverb(&p, &mut fails)
							}
						}
						7 => {
							if p.k == NONE || p.k > 2 {
								Ok((false, 0))
							} else {
								scene_delay(&p, a, b, true, false, &mut fails)
							}
						}
						_ => scene_corner(&p, scene == 6, a as f64, &mut fails),
					});
					let obs = match r {
						Ok(Ok(o)) => o,
						Ok(Err(pn)) | Err(pn) => {
							ctx.fail(format!("panic: {} :: grid scene {}", pn, SCENES[scene]), what());
							continue;
						}
					};
					if obs.0 {
						ctx.nontrivial(hash64(&(scene, r1, r2, k, ibs, a, b)));
					}
					ctx.outcome(obs.1);
					ctx.transitions += 8;
					for (sig, det) in fails {
						ctx.fail(sig, format!("{} :: {}", det, what()));
					}
				}
			}
		}
	}
}

type SceneObs = Result<(bool, u64), String>;

fn tap_verdict(w: &World, p: &Plan, fails: &mut Vec<(String, String)>) {
	if let Some((told, inforce, n, _)) = *w.tap.first_bad.lock().unwrap() {
		fails.push((format!("main-track effect: rate told != device rate in force :: {}", p.phase()), format!("process call {} ran at {} Hz while the effect had last been told {} Hz", n, inforce, told)));
	}
	if let Some((dtr, inforce, n)) = *w.tap.dt_bad.lock().unwrap() {
		fails.push((format!("renderer: dt handed to process != 1 / device rate in force :: {}", p.phase()), format!("process call {} of the main-track effect got dt = 1/{:.3} while the device runs at {} Hz", n, dtr, inforce)));
	}
}
fn q(x: f64, step: f64) -> i64 {
	(x / step).round() as i64
}

/// 10 ms ramp sound: duration between the half-level crossings of its edges, and index slope per second
fn scene_sound(p: &Plan, sr: u32, streaming: bool, reversed: bool, fails: &mut Vec<(String, String)>) -> SceneObs {
	let n = (sr / 100) as usize;
	let ncb = 8;
	let mut w = world(p.r1, p.ibs, log_cap(p, ncb), None);
	warm(&mut w)?;
	// (reversed: the mirrored ramp played backwards is the same rising ramp)
	let frames: Vec<Frame> = (0..n).map(|i| Frame::from_mono(0.25 + 0.5 * (if reversed { n - 1 - i } else { i }) as f32 / n as f32)).collect();
	let data = rig::static_data(sr, frames.clone()).reverse(reversed);
	let mut h = None;
	let mut sh = None;
	let mut dec_info = None;
	if streaming {
		crate::pacer::set_mode(crate::pacer::Mode::Pacer);
	}
	drive(&mut w, p, ncb, &mut |w, j| {
		if j == 0 {
			if streaming {
				let first = crate::pacer::count();
				let (dec, stats) = crate::probes::ScriptedDecoder::new(frames.clone(), sr, vec![64, 1, 7], 1);
				sh = w.m.play(kira::sound::streaming::StreamingSoundData::from_decoder(dec)).ok();
				dec_info = Some((first, stats));
			} else {
				h = w.m.play(data.clone()).ok();
			}
		}
		if let Some((first, _)) = &dec_info {
			// the decoder keeps far ahead of the playhead
			crate::pacer::step_all_from(*first, n as u64 + 16);
		}
	})?;
	let rec = w.rec();
	tap_verdict(&w, p, fails);
	if let (Some(hs), Some((first, stats))) = (sh.as_mut(), dec_info.as_ref()) {
		// 10 ms of audio, 20 ms rendered: the stream has ended
		if hs.state() != kira::sound::PlaybackState::Stopped {
			fails.push((format!("streaming sound: not Stopped although twice its duration was rendered :: {}", p.phase()), format!("{} frames at {} Hz (0.01 s), 8 callbacks of 2.5 ms; state {:?}", n, sr, hs.state())));
		}
		hs.stop(Tween { duration: Duration::ZERO, ..Default::default() });
		let _ = w.cb(1);
		crate::probes::reap_decoder(*first, stats);
	}
	let nn = rec.v.len();
	let (Some(on), Some(last)) = (rec.first(0, nn, |v| v > 0.125), (0..nn).rev().find(|i| rec.v[*i] > 0.375)) else {
		fails.push((format!("{}: not heard :: {}", if streaming { "streaming sound" } else { "sound" }, p.phase()), "no output above the half level".into()));
		return Ok((false, 0));
	};
	let want = n as f64 / sr as f64;
	let dur = rec.t[last + 1] - rec.t[on];
	let tol = 1.5 * p.frame_s() + 0.5 / sr as f64;
	if (dur - want).abs() > tol {
		fails.push((format!("{}: duration in seconds != frames / sound rate :: {}", if streaming { "streaming sound" } else { "sound" }, p.phase()), format!("{} frames at {} Hz were audible for {:.6} s, expected {:.6} s +- {:.6}", n, sr, dur, want, tol)));
	}
	// pitch: between two interior frames the coded index advances sound_rate per second
	let guard = 3.0 / sr as f64 + p.frame_s();
	let a = (on..last).find(|i| rec.t[*i] >= rec.t[on] + guard);
	let b = (on..last).rev().find(|i| rec.t[*i] <= rec.t[last] - guard);
	let slope_want = 0.5 / n as f64 * sr as f64;
	let mut slopes = vec![];
	if let (Some(a), Some(b)) = (a, b) {
		if b > a + 2 {
			slopes.push((a, b));
			// and within every constant-rate stretch
			let mut s = a;
			for i in a + 1..=b {
				if i == b || rec.dt[i] != rec.dt[s] {
					if i - 1 > s + 2 {
						slopes.push((s, i - 1));
					}
					s = i;
				}
			}
		}
	}
	for (a, b) in &slopes {
		let slope = (rec.v[*b] - rec.v[*a]) as f64 / (rec.t[*b] - rec.t[*a]);
		let tolr = 0.004 + 4e-7 / (rec.v[*b] - rec.v[*a]).abs().max(1e-9) as f64;
		if (slope / slope_want - 1.0).abs() > tolr {
			fails.push((format!("{}: pitch (coded index per second) != sound rate :: {}", if streaming { "streaming sound" } else { "sound" }, p.phase()), format!("between t={:.6} s and t={:.6} s (dt=1/{:.0}) the index advanced at {:.1} frames/s instead of {} frames/s", rec.t[*a], rec.t[*b], 1.0 / rec.dt[*a], slope / slope_want * sr as f64, sr)));
			break;
		}
	}
	drop(h);
	drop(sh);
	Ok((!slopes.is_empty(), hash64(&(q(dur - want, p.frame_s() / 2.0), slopes.len()))))
}

/// a clock through callbacks of a quarter of a second (every internal buffer is rendered in full: 128 frames at 8 kHz are 16 ms):
/// 100 ticks/s is 100 ticks/s at every device rate and internal buffer size, across a change of the rate
fn long_callbacks(p: &Plan, fails: &mut Vec<(String, String)>) -> Result<(), String> {
	let mut w = world(p.r1, p.ibs, 16, None);
	let mut ck = w.m.add_clock(ClockSpeed::TicksPerSecond(100.0)).map_err(|_| "add_clock failed".to_string())?;
	w.cb(1)?;
	w.clear_log();
	ck.start();
	w.cb((p.r1 / 4) as usize)?;
	w.clear_log();
	if p.k != NONE {
		w.change(p.r2)?;
	}
	let r2 = if p.k == NONE { p.r1 } else { p.r2 };
	w.cb((r2 / 4) as usize)?;
	w.clear_log();
	// (the handle sees the time as of the start of the latest callback)
	w.cb(1)?;
	let t = ck.time();
	let got = t.ticks as f64 + t.fraction;
	// (the start command is adopted at the first callback's start; the time is published per internal buffer)
	let tol = 1.0 + 100.0 * 2.0 * p.ibs as f64 / p.r1.min(r2) as f64;
	if (got - 50.0).abs() > tol {
		fails.push((format!("clock: ticks per second depend on the device rate / internal buffer when callbacks are long :: {}", p.phase()), format!("a 100 ticks/s clock after 0.25 s at {} Hz and 0.25 s at {} Hz (two callbacks, internal buffer {}): {:.3} ticks, expected 50 +- {:.2}", p.r1, r2, p.ibs, got, tol)));
	}
	Ok(())
}

/// DC sound that must start at 5 ms (StartTime::Delayed) or at tick 2 of a 200 ticks/s clock (10 ms)
fn scene_start(p: &Plan, clock: bool, fails: &mut Vec<(String, String)>) -> SceneObs {
	let ncb = 8;
	let mut w = world(p.r1, p.ibs, log_cap(p, ncb), None);
	let mut ck = if clock { Some(w.m.add_clock(ClockSpeed::TicksPerSecond(200.0)).map_err(|_| "add_clock failed".to_string())?) } else { None };
	warm(&mut w)?;
	let st = match &ck {
		Some(c) => StartTime::ClockTime(ClockTime { clock: c.id(), ticks: 2, fraction: 0.0 }),
		None => StartTime::Delayed(Duration::from_millis(5)),
	};
	let want = if clock { 0.010 } else { 0.005 };
	let data = dc_sound(30).start_time(st);
	let mut h = None;
	let starts = drive(&mut w, p, ncb, &mut |w, j| {
		if j == 0 {
			h = w.m.play(data.clone()).ok();
			if let Some(c) = ck.as_mut() {
				c.start();
			}
		}
	})?;
	let rec = w.rec();
	tap_verdict(&w, p, fails);
	let name = if clock { "clock: sound scheduled on tick 2 of a 200 ticks/s clock" } else { "delayed start: sound with StartTime::Delayed(5 ms)" };
	let mut seen = false;
	let mut oh = 0;
	match rec.first(0, rec.v.len(), |v| v > 0.25) {
		None => fails.push((format!("{} never starts :: {}", name, p.phase()), String::new())),
		Some(i) => {
			seen = true;
			let got = rec.t[i];
			// kira starts at the beginning of the chunk in which the time is reached: up to one chunk early
			let tol = p.frame_s() + p.chunk_s() + 2.0 / 48000.0;
			oh = q(got - want, p.chunk_s());
			if (got - want).abs() > tol {
				fails.push((format!("{} starts at the wrong time in seconds :: {}", name, p.phase()), format!("started at {:.6} s, expected {:.6} s +- {:.6} (one frame + one processing chunk)", got, want, tol)));
			}
		}
	}
	if let Some(c) = &ck {
		// the handle shows what the clock published at the start of the last callback
		let total = rec.t[starts[ncb - 1]];
		let ct = c.time();
		let ticks = ct.ticks as f64 + ct.fraction;
		if (ticks - 200.0 * total).abs() > 1e-6 {
			fails.push((format!("clock: time != ticks_per_second x elapsed seconds :: {}", p.phase()), format!("after {:.9} s of audio the 200 ticks/s clock reads {:.9} ticks, expected {:.9}", total, ticks, 200.0 * total)));
		}
	}
	drop(h);
	Ok((seen, hash64(&oh)))
}

/// a compressor (threshold -40 dB, ratio 4, attack 5 ms) on a sub-track; a DC step of -6 dBFS arrives after every rate change
/// is over: the gain reduction covers 1 - 1/e of its way after the attack time, in seconds
fn scene_compressor(p: &Plan, fails: &mut Vec<(String, String)>) -> SceneObs {
	use kira::effect::compressor::CompressorBuilder;
	let ncb = NCB_FX;
	let mut w = world(p.r1, p.ibs, log_cap(p, ncb), None);
	let mut t = w.m
		.add_sub_track(TrackBuilder::new().with_effect(CompressorBuilder::new().threshold(-40.0).ratio(4.0).attack_duration(Duration::from_millis(5)).release_duration(Duration::from_millis(5))))
		.map_err(|_| "resource limit".to_string())?;
	warm(&mut w)?;
	let mut h = None;
	let starts = drive(&mut w, p, ncb, &mut |_w, j| {
		if j == 8 {
			h = t.play(dc_sound(30)).ok();
		}
	})?;
	let rec = w.rec();
	tap_verdict(&w, p, fails);
	let (a, b) = (starts[8], starts[12]);
	let rate = if p.k == NONE { p.r1 } else { p.r2 };
	// level at which the envelope has covered 1 - 1/e of the 34 dB over the threshold: 0.5 x 10^(-34 x 0.75 x 0.632 / 20)
	let over = 20.0 * 0.5f64.log10() + 40.0;
	let l_star = 0.5 * 10f64.powf(-over * 0.75 * (1.0 - (-1.0f64).exp()) / 20.0);
	let Some(on) = (a..b).find(|i| rec.v[*i] > 0.25) else {
		fails.push((format!("compressor: the step is not heard :: {}", p.phase()), String::new()));
		return Ok((false, 0));
	};
	let Some(hit) = (on..b).find(|i| (rec.v[*i] as f64) <= l_star) else {
		fails.push((format!("compressor: attack time in seconds != attack_duration :: {}", p.phase()), format!("the output never falls to {:.4} within 10 ms of the step (attack 5 ms) at {} Hz", l_star, rate)));
		return Ok((true, 1));
	};
	let got = rec.t[hit] - rec.t[on];
	let tol = 3.0 / rate as f64 + 0.05 * 0.005;
	if (got - 0.005).abs() > tol {
		fails.push((
			format!("compressor: attack time in seconds != attack_duration :: {}", p.phase()),
			format!("after a -6 dBFS step the gain reduction covers 1 - 1/e of its way in {:.6} s at {} Hz ({:.1} frames), attack_duration 0.005 s +- {:.6}", got, rate, got * rate as f64, tol),
		));
	}
	drop(h);
	Ok((true, hash64(&q(got - 0.005, 1.0 / rate as f64))))
}

/// StartTime::Delayed(200 ms) at a constant device rate: 80 callbacks of 2.5 ms count the delay down in hundreds of short
/// passes; the start is still on time (an error per pass adds up)
fn scene_start_long(p: &Plan, fails: &mut Vec<(String, String)>) -> SceneObs {
	let ncb = 90;
	let mut w = world(p.r1, p.ibs, log_cap(p, ncb), None);
	warm(&mut w)?;
	let data = dc_sound(30).start_time(StartTime::Delayed(Duration::from_millis(200)));
	let mut h = None;
	drive(&mut w, p, ncb, &mut |w, j| {
		if j == 0 {
			h = w.m.play(data.clone()).ok();
		}
	})?;
	let rec = w.rec();
	tap_verdict(&w, p, fails);
	let name = "delayed start: sound with StartTime::Delayed(200 ms)";
	let mut seen = false;
	let mut oh = 0;
	match rec.first(0, rec.v.len(), |v| v > 0.25) {
		None => fails.push((format!("{} never starts :: {}", name, p.phase()), String::new())),
		Some(i) => {
			seen = true;
			let got = rec.t[i];
			let tol = p.frame_s() + p.chunk_s() + 2.0 / 48000.0;
			oh = q(got - 0.2, p.chunk_s());
			if (got - 0.2).abs() > tol {
				fails.push((format!("{} starts at the wrong time in seconds :: {}", name, p.phase()), format!("started at {:.6} s, expected 0.200000 s +- {:.6} (one frame + one processing chunk)", got, tol)));
			}
		}
	}
	drop(h);
	Ok((seen, hash64(&oh)))
}

/// 5 ms linear volume tween 0 dB -> -60 dB (= silence) on a playing DC sound: -30 dB at 2.5 ms, silent at 5 ms
fn scene_tween(p: &Plan, fails: &mut Vec<(String, String)>) -> SceneObs {
	let ncb = 6;
	let mut w = world(p.r1, p.ibs, log_cap(p, ncb), None);
	let mut h = w.m.play(dc_sound(40)).map_err(|_| "play failed".to_string())?;
	warm(&mut w)?;
	drive(&mut w, p, ncb, &mut |_w, j| {
		if j == 0 {
			h.set_volume(Decibels::SILENCE, tween(5000));
		}
	})?;
	let rec = w.rec();
	tap_verdict(&w, p, fails);
	if rec.v.first().map(|v| *v < 0.4).unwrap_or(true) {
		fails.push((format!("tween: sound not at full level when the tween starts :: {}", p.phase()), format!("first sample {:?}", rec.v.first())));
		return Ok((false, 0));
	}
	let half = 0.5 * 10f32.powf(-30.0 / 20.0);
	let tol = p.frame_s() + p.chunk_s();
	let mut oh = vec![];
	for (lvl, want, what) in [(half, 0.0025, "-30 dB"), (1e-6, 0.005, "silence")] {
		match rec.first(0, rec.v.len(), |v| v <= lvl) {
			None => fails.push((format!("tween: 5 ms volume tween never reaches {} :: {}", what, p.phase()), String::new())),
			Some(i) => {
				oh.push(q(rec.t[i] - want, p.chunk_s()));
				if (rec.t[i] - want).abs() > tol {
					fails.push((format!("tween: 5 ms volume tween reaches {} at the wrong time in seconds :: {}", what, p.phase()), format!("reached at {:.6} s, expected {:.6} s +- {:.6} (one frame + one processing chunk)", rec.t[i], want, tol)));
				}
			}
		}
	}
	Ok((oh.len() == 2, hash64(&oh)))
}

struct Placed {
	w: World,
	fire: Arc<AtomicU32>,
	_keep: Vec<Box<dyn Any>>,
}
/// put `fx` on the main track / a sub-track / a nested sub-track / a send track, with an impulse source feeding it
fn place(p: &Plan, placement: usize, ncb: usize, fx: Box<dyn Effect>) -> Result<Placed, String> {
	let f = Arc::new(AtomicU32::new(0));
	let lim = |_| "resource limit".to_string();
	let mut keep: Vec<Box<dyn Any>> = vec![];
	let mut w;
	match placement {
		0 => {
			w = world(p.r1, p.ibs, log_cap(p, ncb), Some(fx));
			w.m.play(ImpulseData(f.clone())).map_err(|_| "play".to_string())?;
		}
		1 => {
			w = world(p.r1, p.ibs, log_cap(p, ncb), None);
			let mut t = w.m.add_sub_track(TrackBuilder::new().with_built_effect(fx)).map_err(lim)?;
			t.play(ImpulseData(f.clone())).map_err(|_| "play".to_string())?;
			keep.push(Box::new(t));
		}
		2 => {
			w = world(p.r1, p.ibs, log_cap(p, ncb), None);
			let mut par = w.m.add_sub_track(TrackBuilder::new()).map_err(lim)?;
			let mut t = par.add_sub_track(TrackBuilder::new().with_built_effect(fx)).map_err(lim)?;
			t.play(ImpulseData(f.clone())).map_err(|_| "play".to_string())?;
			keep.push(Box::new(t));
			keep.push(Box::new(par));
		}
		_ => {
			w = world(p.r1, p.ibs, log_cap(p, ncb), None);
			let s = w.m.add_send_track(SendTrackBuilder::new().with_built_effect(fx)).map_err(lim)?;
			let mut t = w.m.add_sub_track(TrackBuilder::new().with_send(s.id(), Decibels::IDENTITY)).map_err(lim)?;
			t.play(ImpulseData(f.clone())).map_err(|_| "play".to_string())?;
			keep.push(Box::new(t));
			keep.push(Box::new(s));
		}
	}
	Ok(Placed { w, fire: f, _keep: keep })
}
/// the two measuring windows [fire at callback 0, callback 4) and [fire at callback 8, callback 12); the first is used only when no
/// rate change falls inside it (changes happen before callback <= 4, so the second never contains one)
const NCB_FX: usize = 12;
fn windows(p: &Plan, starts: &[usize]) -> Vec<(usize, usize, u32, bool)> {
	let mut out = vec![];
	if p.k == NONE || p.k == 0 || p.k == 4 {
		out.push((starts[0], starts[4], if p.k == 0 { p.r2 } else { p.r1 }, p.k == 0));
	}
	out.push((starts[8], starts[12], if p.k == NONE { p.r1 } else { p.r2 }, p.k != NONE));
	out
}
/// time between the impulse at `from` and its first echo (frames above 35 % of the impulse: exactly impulse + first echo)
fn echo_time(rec: &Rec, from: usize, to: usize) -> Result<f64, String> {
	echo_time_opt(rec, from, to, false)
}
/// `first_only`: later loud frames (second-order echoes of a nested network inside a long window) are not looked at
fn echo_time_opt(rec: &Rec, from: usize, to: usize, first_only: bool) -> Result<f64, String> {
	let peak = rec.v[from].abs();
	if peak < 1e-3 || !peak.is_finite() {
		return Err(format!("impulse not heard (sample {})", rec.v[from]));
	}
	let hits: Vec<usize> = (from..to).filter(|i| rec.v[*i].abs() > 0.35 * peak).collect();
	if hits == [from] {
		// no echo inside the window (3.75 x delay_time or more): the echo is late
		return Ok(f64::INFINITY);
	}
	if first_only && hits.len() >= 2 && hits[0] == from {
		return Ok(rec.t[hits[1]] - rec.t[from]);
	}
	if hits.len() != 2 || hits[0] != from {
		return Err(format!("expected the impulse and exactly one loud echo, found loud frames at offsets {:?} of {}", hits.iter().map(|h| h - from).collect::<Vec<_>>(), to - from));
	}
	Ok(rec.t[hits[1]] - rec.t[from])
}
fn qe(e: f64, want: f64, rate: u32) -> i64 {
	if e.is_finite() {
		q(e - want, 0.5 / rate as f64)
	} else {
		i64::MAX
	}
}
fn delay_fx(us: u64, wet: bool, fb: Option<Arc<FxState>>) -> Box<dyn Effect> {
	let mut b = DelayBuilder::new().delay_time(Duration::from_micros(us)).feedback(Decibels(-6.0));
	if wet {
		b = b.mix(Mix::WET);
	}
	if let Some(fb) = fb {
		b = b.with_feedback_effect(ProbeFxB(fb, None));
	}
	b.build().0
}

/// a delay of one frame at every rate (its own line never changes length) that carries the delay under test, fully wet, in its
/// feedback loop: dry impulse, then the first loud echo after one frame + delay_time
fn nested_delay_fx(us: u64, wet: bool) -> Box<dyn Effect> {
	// kira's wet signal carries the feedback gain: inner -6 dB, outer 0 dB give a first echo of half the impulse and
	// nothing above a quarter after it
	let inner = DelayBuilder::new().delay_time(Duration::from_micros(us)).feedback(Decibels(-6.0)).mix(Mix::WET);
	let mut b = DelayBuilder::new().delay_time(Duration::from_micros(1)).feedback(Decibels(0.0)).with_feedback_effect(inner);
	if wet {
		b = b.mix(Mix::WET);
	}
	b.build().0
}

fn scene_delay(p: &Plan, us: u64, placement: usize, roundtrip: bool, nested: bool, fails: &mut Vec<(String, String)>) -> SceneObs {
	let ncb = NCB_FX;
	let mut pl = place(p, placement, ncb, if nested { nested_delay_fx(us, placement == 3) } else { delay_fx(us, placement == 3, None) })?;
	warm(&mut pl.w)?;
	let f = pl.fire.clone();
	let mut back_err = None;
	let r1 = p.r1;
	let starts = drive(&mut pl.w, p, ncb, &mut |w, j| {
		if roundtrip && j == 6 {
			// the device returns to its first rate
			if let Err(e) = w.change(r1) {
				back_err = Some(e);
			}
		}
		if (j == 0 && !roundtrip) || j == 8 {
			fire(&f, 0.5);
		}
	})?;
	if let Some(e) = back_err {
		return Err(e);
	}
	let rec = pl.w.rec();
	tap_verdict(&pl.w, p, fails);
	let want0 = us as f64 * 1e-6;
	let mut oh = vec![];
	let mut seen = false;
	let wins = if roundtrip { vec![(starts[8], starts[12], p.r1, true)] } else { windows(p, &starts) };
	for (a, b, rate, after) in wins {
		let want = want0 + if nested { 1.0 / rate as f64 } else { 0.0 };
		let short = (want * rate as f64) < p.ibs as f64;
		let feat = if nested {
			format!("delay inside the feedback loop of a one-frame delay, {}, on the {} track", if after { "after a rate change" } else { "constant rate" }, PLACEMENTS[placement])
		} else if roundtrip {
			format!("after the rate changed and changed back, effect on the {} track", PLACEMENTS[placement])
		} else if after { format!("after a rate change, effect on the {} track", PLACEMENTS[placement]) } else { format!("constant rate, delay {} one internal buffer", if short { "shorter than" } else { "at least" }) };
		match echo_time_opt(&rec, a, b, nested) {
			Err(e) => fails.push((format!("delay: unexpected echo pattern :: {}", feat), format!("{} (window at {} Hz)", e, rate))),
			Ok(e) => {
				seen = true;
				oh.push(qe(e, want, rate));
				if (e - want).abs() > 1.0 / rate as f64 + 1e-9 {
					fails.push((format!("delay: echo time != delay_time :: {}", feat), format!("echo {:.6} s after the impulse at {} Hz ({:.1} frames), delay_time {:.6} s", e, rate, e * rate as f64, want)));
				}
			}
		}
	}
	Ok((seen, hash64(&oh)))
}

struct Dc(f32);
impl Sound for Dc {
	fn process(&mut self, out: &mut [Frame], _dt: f64, _info: &Info) {
		out.fill(Frame::from_mono(self.0));
	}
	fn finished(&self) -> bool {
		false
	}
}
struct DcData(f32);
impl SoundData for DcData {
	type Error = ();
	type Handle = ();
	fn into_sound(self) -> Result<(Box<dyn Sound>, ()), ()> {
		Ok((Box::new(Dc(self.0)), ()))
	}
}
/// an LFO of `hz` hertz drives the volume of a track that carries a constant: at the end of every processing chunk
/// (where the linked parameter equals the mapped LFO value) the level is the waveform at hz x (true seconds since the start)
fn scene_lfo(p: &Plan, hz: f64, wave: usize, fails: &mut Vec<(String, String)>) -> SceneObs {
	use kira::modulator::lfo::{LfoBuilder, Waveform};
	let ncb = 10;
	let mut w = world(p.r1, p.ibs, log_cap(p, ncb), None);
	let wf = [Waveform::Sine, Waveform::Triangle, Waveform::Saw, Waveform::Pulse { width: 0.5 }][wave];
	let lfo = w.m.add_modulator(LfoBuilder::new().waveform(wf).frequency(hz)).map_err(|_| "modulator limit".to_string())?;
	let mapping = kira::Mapping { input_range: (-1.0, 1.0), output_range: (Decibels(-12.0), Decibels(0.0)), easing: Easing::Linear };
	let mut t = w.m.add_sub_track(TrackBuilder::new().volume(kira::Value::FromModulator { id: lfo.id(), mapping })).map_err(|_| "track limit".to_string())?;
	t.play(DcData(0.5)).map_err(|_| "play".to_string())?;
	let mut sizes = vec![];
	let starts = drive(&mut w, p, ncb, &mut |w, _| sizes.push(cbf(w.rate)))?;
	let rec = w.rec();
	tap_verdict(&w, p, fails);
	let mut oh = vec![];
	let mut judged = 0;
	'outer: for j in 0..ncb {
		let (a, n) = (starts[j], starts[j + 1] - starts[j]);
		let mut off = 0;
		while off < n {
			let len = p.ibs.min(n - off);
			let e = a + off + len - 1;
			off += len;
			let ph = (hz * rec.t[e + 1]).fract();
			// next to a jump of the waveform the phase rounding decides the side: not judged
			let near = |x: f64| (ph - x).abs() < 1e-4;
			let skip = match wave {
				2 => near(0.5),
				3 => near(0.0) || near(0.5) || near(1.0),
				_ => false,
			};
			if skip {
				continue;
			}
			let v = match wave {
				0 => (ph * std::f64::consts::TAU).sin(),
				1 => ((ph + 0.75).fract() - 0.5).abs() * 4.0 - 1.0,
				2 => (ph + 0.5).fract() * 2.0 - 1.0,
				_ => if ph < 0.5 { 1.0 } else { -1.0 },
			};
			let want = 0.5 * 10f64.powf((-12.0 + (v + 1.0) * 6.0) / 20.0);
			let got = rec.v[e] as f64;
			judged += 1;
			oh.push(q(got, 1e-3));
			// slope of the level against the phase is at most 0.5 * ln(10)/20 * 12 dB * 4 per cycle: phase error 1e-6 is far below 1e-4
			if (got - want).abs() > 1e-4 {
				fails.push((
					format!("lfo: the level at the end of a processing chunk is not the waveform at frequency x elapsed seconds :: {} {}", LFO_WAVES[wave], if hz * p.chunk_s() >= 1.0 { "period shorter than a chunk" } else { "period longer than a chunk" }),
					format!("callback {} frame {} ({:.6} s after the start, rate in force {} Hz): phase {:.4}, waveform {:.4}, expected level {:.5}, got {:.5}", j, e - a, rec.t[e + 1], (1.0 / rec.dt[e]).round(), ph, v, want, got),
				));
				break 'outer;
			}
		}
	}
	drop((t, lfo));
	Ok((judged > 0, hash64(&oh)))
}

/// Freeverb's delay lines are tuned in frames at 44.1 kHz, i.e. in seconds: the first reflection (comb 1116 frames) and the
/// first reflection of the right-channel bank (1116 + 23 frames) arrive after the same number of seconds at every device rate.
/// Width 0 mixes both banks into the left channel, where the tap sees them.
fn scene_reverb(p: &Plan, fails: &mut Vec<(String, String)>) -> SceneObs {
	let ncb = 18;
	let fx = kira::effect::reverb::ReverbBuilder::new().feedback(0.5).damping(0.0).stereo_width(0.0).mix(Mix::WET).build().0;
	let mut pl = place(p, 1, ncb, fx)?;
	warm(&mut pl.w)?;
	let f = pl.fire.clone();
	let starts = drive(&mut pl.w, p, ncb, &mut |_w, j| {
		if j == 2 {
			fire(&f, 0.5);
		}
	})?;
	let rec = pl.w.rec();
	tap_verdict(&pl.w, p, fails);
	let rate = if p.k == NONE { p.r1 } else { p.r2 };
	let (from, to) = (starts[2], starts[ncb]);
	let peak = rec.v[from..to].iter().fold(0.0f32, |m, x| m.max(x.abs()));
	if peak < 1e-6 {
		fails.push(("reverb: no reflection heard within 40 ms".into(), format!("device rate {}", rate)));
		return Ok((false, 0));
	}
	// (fully wet: nothing but reflections is heard; the first two non-silent frames are the first reflections of the two banks)
	let spikes: Vec<usize> = (from..to).filter(|i| rec.v[*i].abs() > 1e-3 * peak).take(2).collect();
	if spikes.len() < 2 {
		fails.push(("reverb: fewer than two early reflections".into(), format!("device rate {}; loud frames {:?}", rate, spikes)));
		return Ok((false, 0));
	}
	let t1 = rec.t[spikes[0]] - rec.t[from];
	let t2 = rec.t[spikes[1]] - rec.t[spikes[0]];
	let tol = 1.5 / rate as f64;
	let feat = if p.k == NONE { "constant rate" } else { "after a rate change" };
	if (t1 - 1116.0 / 44100.0).abs() > tol {
		fails.push((format!("reverb: the first reflection does not arrive after 1116/44100 s :: {}", feat), format!("{:.6} s at {} Hz ({:.1} frames), expected {:.6} s", t1, rate, t1 * rate as f64, 1116.0 / 44100.0)));
	}
	if (t2 - 23.0 / 44100.0).abs() > tol {
		fails.push((format!("reverb: the right-channel bank does not trail the left one by 23/44100 s :: {}", feat), format!("{:.6} s at {} Hz ({:.1} frames), expected {:.6} s", t2, rate, t2 * rate as f64, 23.0 / 44100.0)));
	}
	Ok((true, hash64(&(q(t1, 0.5 / rate as f64), q(t2, 0.5 / rate as f64)))))
}

/// |H(1 kHz)| / |H(0)| of the effect, from the impulse response in a window, by direct DFT
fn corner_ratios(p: &Plan, eq: bool, hz: f64) -> Result<(Vec<(f64, u32, bool)>, World), String> {
	let ncb = NCB_FX;
	let fx: Box<dyn Effect> = if eq { EqFilterBuilder::new(EqFilterKind::Bell, hz, Decibels(12.0), 2.0).build().0 } else { FilterBuilder::new().mode(FilterMode::LowPass).cutoff(hz).build().0 };
	let mut pl = place(p, 1, ncb, fx)?;
	warm(&mut pl.w)?;
	let f = pl.fire.clone();
	let starts = drive(&mut pl.w, p, ncb, &mut |_w, j| {
		if j == 0 || j == 8 {
			fire(&f, 0.25);
		}
	})?;
	let rec = pl.w.rec();
	let mut out = vec![];
	for (a, b, rate, after) in windows(p, &starts) {
		if !rec.uniform(a, b) {
			return Err(format!("MACHINERY: window {}..{} is not at one rate", a, b));
		}
		let (mut re, mut im, mut dc) = (0.0f64, 0.0f64, 0.0f64);
		for i in a..b {
			let ph = -2.0 * std::f64::consts::PI * hz * (i - a) as f64 * rec.dt[a];
			re += rec.v[i] as f64 * ph.cos();
			im += rec.v[i] as f64 * ph.sin();
			dc += rec.v[i] as f64;
		}
		out.push(((re * re + im * im).sqrt() / dc.abs().max(1e-12), rate, after));
	}
	Ok((out, pl.w))
}
fn scene_corner(p: &Plan, eq: bool, hz: f64, fails: &mut Vec<(String, String)>) -> SceneObs {
	let reference = corner_ratios(&Plan { r1: 48000, r2: 48000, k: NONE, ibs: p.ibs }, eq, hz)?.0[0].0;
	let (got, w) = corner_ratios(p, eq, hz)?;
	tap_verdict(&w, p, fails);
	let name = if eq { format!("eq: gain of a +12 dB bell at its {} kHz centre", hz / 1000.0) } else { format!("filter: gain of a {} kHz low-pass at its corner", hz / 1000.0) };
	let mut oh = vec![];
	for (g, rate, after) in got {
		oh.push(q(g / reference - 1.0, 0.002));
		if !(g / reference - 1.0).abs().le(&0.01) {
			fails.push((format!("{} differs from the 48 kHz rendering :: {}", name, if after { "after a rate change" } else { "constant rate" }), format!("|H({} kHz)|/|H(0)| = {:.5} at {} Hz, {:.5} at 48000 Hz", hz / 1000.0, g, rate, reference)));
		}
	}
	Ok((reference.is_finite() && reference > 0.0, hash64(&oh)))
}

// ---------------------------------------------------------------------------------------------
// Part B: histories of {callback, change, add track}

struct TrackRec {
	kind: L,
	fx: Arc<FxState>,
	fb: Arc<FxState>,
	fire: Arc<AtomicU32>,
	/// classification model of kira's mechanism (NOT the oracle): told at creation, told again only once adopted
	adopted: bool,
	told: u32,
	created_at: u32,
	pending_at_change: bool,
	changes_adopted: u32,
}
struct WB {
	w: World,
	parent: Option<TrackHandle>,
	sp_parent: Option<SpatialTrackHandle>,
	listener: ListenerHandle,
	keep: Vec<Box<dyn Any>>,
	tracks: Vec<TrackRec>,
}
const B_DELAY_US: u64 = 2000;
const B_CB: usize = 8;

fn sp_builder() -> SpatialTrackBuilder {
	SpatialTrackBuilder::new().spatialization_strength(0.0).attenuation_function(None)
}
fn front() -> mint::Vector3<f32> {
	mint::Vector3 { x: 0.0, y: 0.0, z: -1.0 }
}
fn wb_new(rate: u32, ibs: usize, log_cap: usize) -> Result<WB, String> {
	let mut w = world(rate, ibs, log_cap, None);
	let lim = |_| "resource limit in setup".to_string();
	let listener = w.m.add_listener(mint::Vector3 { x: 0.0, y: 0.0, z: 0.0 }, mint::Quaternion { v: mint::Vector3 { x: 0.0, y: 0.0, z: 0.0 }, s: 1.0 }).map_err(lim)?;
	let parent = w.m.add_sub_track(TrackBuilder::new().sub_track_capacity(8)).map_err(lim)?;
	let sp_parent = w.m.add_spatial_sub_track(listener.id(), front(), sp_builder().sub_track_capacity(8)).map_err(lim)?;
	w.cb(4)?;
	w.cb(4)?;
	Ok(WB { w, parent: Some(parent), sp_parent: Some(sp_parent), listener, keep: vec![], tracks: vec![] })
}
impl WB {
	fn add(&mut self, kind: L) -> Result<(), String> {
		if kind == L::DropParents {
			self.parent = None;
			self.sp_parent = None;
			return Ok(());
		}
		// a nested track cannot be created once its parent's handle is gone
		if matches!(kind, L::Nested | L::NestedSp) && self.parent.is_none() || matches!(kind, L::SpNested | L::SpNestedSp) && self.sp_parent.is_none() {
			return Ok(());
		}
		let fx = FxState::new(&self.w.truth);
		let fb = FxState::new(&self.w.truth);
		let f = Arc::new(AtomicU32::new(0));
		let lim = |_| "ResourceLimitReached".to_string();
		let tb = || TrackBuilder::new().with_effect(ProbeFxB(fx.clone(), None)).with_built_effect(delay_fx(B_DELAY_US, false, Some(fb.clone())));
		let sb = || sp_builder().with_effect(ProbeFxB(fx.clone(), None)).with_built_effect(delay_fx(B_DELAY_US, false, Some(fb.clone())));
		let src = ImpulseData(f.clone());
		let lid = self.listener.id();
		match kind {
			L::Top => {
				let mut t = self.w.m.add_sub_track(tb()).map_err(lim)?;
				t.play(src).map_err(|_| "play".to_string())?;
				self.keep.push(Box::new(t));
			}
			L::Nested => {
				let mut t = self.parent.as_mut().unwrap().add_sub_track(tb()).map_err(lim)?;
				t.play(src).map_err(|_| "play".to_string())?;
				self.keep.push(Box::new(t));
			}
			L::SpNested => {
				let mut t = self.sp_parent.as_mut().unwrap().add_sub_track(tb()).map_err(lim)?;
				t.play(src).map_err(|_| "play".to_string())?;
				self.keep.push(Box::new(t));
			}
			L::Spatial => {
				let mut t = self.w.m.add_spatial_sub_track(lid, front(), sb()).map_err(lim)?;
				t.play(src).map_err(|_| "play".to_string())?;
				self.keep.push(Box::new(t));
			}
			L::NestedSp => {
				let mut t = self.parent.as_mut().unwrap().add_spatial_sub_track(lid, front(), sb()).map_err(lim)?;
				t.play(src).map_err(|_| "play".to_string())?;
				self.keep.push(Box::new(t));
			}
			L::SpNestedSp => {
				let mut t = self.sp_parent.as_mut().unwrap().add_spatial_sub_track(lid, front(), sb()).map_err(lim)?;
				t.play(src).map_err(|_| "play".to_string())?;
				self.keep.push(Box::new(t));
			}
			L::Send => {
				let s = self.w.m.add_send_track(SendTrackBuilder::new().with_effect(ProbeFxB(fx.clone(), None)).with_built_effect(delay_fx(B_DELAY_US, true, Some(fb.clone())))).map_err(lim)?;
				let mut t = self.w.m.add_sub_track(TrackBuilder::new().with_send(s.id(), Decibels::IDENTITY)).map_err(lim)?;
				t.play(src).map_err(|_| "play".to_string())?;
				self.keep.push(Box::new(t));
				self.keep.push(Box::new(s));
			}
			L::Cb | L::Change | L::DropParents => unreachable!(),
		}
		self.tracks.push(TrackRec { kind, fx, fb, fire: f, adopted: false, told: self.w.rate, created_at: self.w.rate, pending_at_change: false, changes_adopted: 0 });
		Ok(())
	}
	fn model_cb(&mut self) {
		for t in &mut self.tracks {
			t.adopted = true;
		}
	}
	fn model_change(&mut self, r: u32) {
		for t in &mut self.tracks {
			if t.adopted {
				t.changes_adopted += 1;
				t.told = r;
			} else {
				t.pending_at_change = true;
			}
		}
	}
	fn model_hash(&self) -> u64 {
		hash64(&(self.w.rate, self.tracks.iter().map(|t| (t.kind, t.adopted, t.told)).collect::<Vec<_>>()))
	}
}

fn hist_text(letters: &[L], seq: &[u32], ibs: usize) -> String {
	let mut pos = 0;
	let mut s = format!("manager at {} Hz, internal buffer {}; setup parent tracks adopted; history: ", seq[0], ibs);
	for l in letters {
		match l {
			L::Change => {
				pos += 1;
				s.push_str(&format!("on_change_sample_rate({}); ", seq[pos]));
			}
			L::Cb => s.push_str(&format!("callback({} frames); ", B_CB)),
			L::DropParents => s.push_str("drop the handles of the two parent tracks; "),
			_ => s.push_str(&format!("{}(probe effect + {} us delay); ", l.name(), B_DELAY_US)),
		}
	}
	s.push_str("then 2 callbacks, then per track: impulse, 3 callbacks of 2.5 ms");
	s
}

fn histories(letters: &mut Vec<L>, depth: usize, seq: &[u32; 6], ibs: usize, ctx: &mut Ctx) {
	let ls = letters.clone();
	ctx.evals += 1;
	ctx.traces += 1;
	ctx.sample(ctx.traces, || hist_text(&ls, seq, ibs));
	let r = catch(|| run_history(&ls, seq, ibs, ctx));
	match r {
		Ok(Ok(())) => {}
		Ok(Err(p)) | Err(p) => ctx.fail(format!("panic: {} :: history of add track / change rate / callback", p), hist_text(&ls, seq, ibs)),
	}
	if letters.len() == depth {
		return;
	}
	for l in LETTERS {
		letters.push(l);
		histories(letters, depth, seq, ibs, ctx);
		letters.pop();
	}
}

fn run_history(letters: &[L], seq: &[u32; 6], ibs: usize, ctx: &mut Ctx) -> Result<(), String> {
	let max_rate = *seq.iter().max().unwrap();
	let mut b = wb_new(seq[0], ibs, 3 * cbf(max_rate) + 64)?;
	let mut pos = 0;
	for l in letters {
		match l {
			L::Cb => {
				b.w.cb(B_CB)?;
				b.model_cb();
			}
			L::Change => {
				pos += 1;
				b.w.change(seq[pos])?;
				b.model_change(seq[pos]);
			}
			k => b.add(*k)?,
		}
		ctx.transitions += 1;
		ctx.state(b.model_hash());
	}
	// epilogue: adopt everything, then measure each track on its own
	b.w.cb(B_CB)?;
	b.w.cb(B_CB)?;
	b.model_cb();
	let rate = b.w.rate;
	let want = B_DELAY_US as f64 * 1e-6;
	let mut oh: Vec<(bool, bool, i64)> = vec![];
	let mut fails: Vec<(String, String)> = vec![];
	let period = (B_DELAY_US as f64 * 1e-6 * max_rate as f64) as usize + 2;
	for i in 0..b.tracks.len() {
		// let the echoes of the previous measurement die: one full (possibly stale, hence longest possible) delay period of silence
		for _ in 0..if i == 0 { 0 } else { 24 } {
			b.w.clear_log();
			b.w.cb(period)?;
			if b.w.log.lock().unwrap().iter().all(|x| x.0.abs() < 1e-3) {
				break;
			}
		}
		b.w.clear_log();
		fire(&b.tracks[i].fire, 0.5);
		for _ in 0..3 {
			b.w.cb(cbf(rate))?;
		}
		let rec = b.w.rec();
		let t = &b.tracks[i];
		// which mechanism explains a stale rate? (classification only; the verdict is told != rate in force)
		const GAP: &str = "track created before a rate change, adopted by the audio thread after it";
		let short = (B_DELAY_US as f64 * 1e-6 * rate as f64) < ibs as f64;
		let other = if t.changes_adopted == 0 { "no rate change since the track was adopted".to_string() } else { format!("rate changed after the {} track was adopted", t.kind.name()) };
		let other_d = if t.changes_adopted == 0 { format!("{}, delay {} one internal buffer", other, if short { "shorter than" } else { "at least" }) } else { other.clone() };
		let who = format!("track #{} ({})", i, t.kind.name());
		for (st, what) in [(&t.fx, "track effect"), (&t.fb, "delay feedback effect")] {
			if st.calls.load(SeqCst) == 0 {
				fails.push((format!("{}: never processed :: {}", what, t.kind.name()), who.clone()));
			} else if let Some((told, inforce, n, changes)) = *st.first_bad.lock().unwrap() {
				let sym = if told == 0 { "processes without ever having been told a sample rate" } else { "processes with a sample rate that is not in force (rate told != device rate)" };
				// the gap: still on its creation rate, never told of a change, and a change happened while it was queued
				let feat = if t.pending_at_change && changes == 0 && told == t.created_at {
					GAP.to_string()
				} else if what != "track effect" && t.fx.bad.load(SeqCst) == 0 {
					"the track's own effect was told the rate, the delay's feedback effect was not".to_string()
				} else {
					other.clone()
				};
				let what = if feat == GAP { "track effect" } else { what };
				fails.push((format!("{}: {} :: {}", what, sym, feat), format!("{}: process call {} ran at {} Hz (dt = 1/rate) but the effect had last been told {} Hz (init {} Hz, {} on_change_sample_rate calls, {} of {} process calls disagree)", who, n, inforce, told, st.init_rate.load(SeqCst), st.changes.load(SeqCst), st.bad.load(SeqCst), st.calls.load(SeqCst))));
			}
		}
		// for the echo: does the mechanism model predict a stale delay line at this point?
		let feature = || if t.pending_at_change && t.told != rate { GAP.to_string() } else { other_d.clone() };
		let stale = t.fx.bad.load(SeqCst) > 0;
		match echo_time(&rec, 0, rec.v.len()) {
			Err(e) => {
				fails.push((format!("delay: unexpected echo pattern :: {}", feature()), format!("{}: {} (at {} Hz)", who, e, rate)));
				oh.push((stale, false, 0));
			}
			Ok(e) => {
				oh.push((stale, true, qe(e, want, rate)));
				if (e - want).abs() > 1.0 / rate as f64 + 1e-9 {
					fails.push((format!("delay: echo time != delay_time :: {}", feature()), format!("{}: echo {:.6} s after the impulse at {} Hz ({:.1} frames), delay_time {:.6} s", who, e, rate, e * rate as f64, want)));
				}
			}
		}
	}
	if let Some((told, inforce, n, _)) = *b.w.tap.first_bad.lock().unwrap() {
		fails.push(("main-track effect: rate told != device rate in force :: history".into(), format!("process call {}: device at {} Hz, told {}", n, inforce, told)));
	}
	let dtb = b.tracks.iter().map(|t| &t.fx).chain(std::iter::once(&b.w.tap)).find_map(|st| *st.dt_bad.lock().unwrap());
	if let Some((dtr, inforce, n)) = dtb {
		fails.push(("renderer: dt handed to process != 1 / device rate in force :: history".into(), format!("process call {} of an effect got dt = 1/{:.3} while the device runs at {} Hz", n, dtr, inforce)));
	}
	if b.tracks.iter().any(|t| t.fx.calls.load(SeqCst) > 0) {
		ctx.nontrivial(hash64(&(letters, seq, ibs)));
	}
	ctx.outcome(hash64(&oh));
	if !fails.is_empty() {
		let text = hist_text(letters, seq, ibs);
		for (s, d) in fails {
			ctx.fail(s, format!("{} :: {}", d, text));
		}
	}
	Ok(())
}

// ---------------------------------------------------------------------------------------------
// Part C (E2): gameplay thread adds a track || audio thread changes the rate and runs a callback

fn e2_case(tier: Tier, kind: L, ctx: &mut Ctx) {
	use crate::sched::{self, Config, Exec};
	fn filt(s: &'static str) -> bool {
		s.starts_with("renderer.sample_rate.") || s.starts_with("res.")
	}
	let cfg = Config { filter: filt, horizon: 3000, max_spin_rounds: 8, record_sites: true, ..Default::default() };
	#[derive(Debug, Clone, Default, PartialEq)]
	struct Obs {
		added: bool,
		init_rate: u32,
		told: u32,
		first_bad: Option<(u32, u32, u64, u32)>,
		calls: u64,
		panics: Vec<String>,
	}
	const R0: u32 = 48000;
	const R1: u32 = 24000;
	let mut body = |prefix: &[u8]| -> (sched::RunResult, Obs) {
		let mut b = wb_new(R0, 8, 256).expect("setup");
		let mut renderer = b.w.m.backend_mut().renderer.take().unwrap();
		let truth = b.w.truth.clone();
		let obs = Arc::new(Mutex::new(Obs::default()));
		// the world holds `Box<dyn Any>` handles; it is moved into the gameplay thread and moved back
		struct Mv(WB);
		unsafe impl Send for Mv {}
		let keep: Arc<Mutex<Option<Mv>>> = Arc::new(Mutex::new(None));
		let back = Arc::new(Mutex::new(None));
		let mut ex = Exec::begin(&cfg, prefix);
		{
			let (obs, keep) = (obs.clone(), keep.clone());
			let mv = Mv(b);
			ex.spawn("game", move || {
				let mut mv = mv;
				let ok = mv.0.add(kind).is_ok();
				obs.lock().unwrap().added = ok;
				*keep.lock().unwrap() = Some(mv);
			});
		}
		{
			let (obs, back) = (obs.clone(), back.clone());
			ex.spawn("audio", move || {
				let mut buf = [0.0f32; 16];
				truth.store(R1, SeqCst);
				let r = catch(|| {
					renderer.on_change_sample_rate(R1);
					renderer.on_start_processing();
					renderer.process(&mut buf, 2);
				});
				if let Err(p) = r {
					obs.lock().unwrap().panics.push(p);
				}
				*back.lock().unwrap() = Some(renderer);
			});
		}
		let res = ex.run();
		let mut o = obs.lock().unwrap().clone();
		let taken = keep.lock().unwrap().take();
		let renderer = back.lock().unwrap().take();
		if let (Some(Mv(mut b)), Some(r)) = (taken, renderer) {
			b.w.m.backend_mut().renderer = Some(r);
			b.w.rate = R1;
			for _ in 0..3 {
				if let Err(p) = b.w.cb(8) {
					o.panics.push(p);
					break;
				}
			}
			if let Some(t) = b.tracks.first() {
				o.init_rate = t.fx.init_rate.load(SeqCst);
				o.told = t.fx.told.load(SeqCst);
				o.first_bad = *t.fx.first_bad.lock().unwrap();
				o.calls = t.fx.calls.load(SeqCst);
			}
		}
		(res, o)
	};
	let mut outcomes = std::collections::HashSet::new();
	let mut fails: Vec<(String, String)> = vec![];
	let mut nontrivial = 0u64;
	let mut judge = |res: &sched::RunResult, o: &Obs, choices: &[u8]| {
		outcomes.insert(hash64(&format!("{:?}", o)));
		if choices.iter().any(|c| *c != 0) {
			nontrivial += 1;
		}
		let det = || format!("{:?}; gameplay thread: {}; audio thread: on_change_sample_rate({}), callback; then 3 callbacks; schedule {}", o, kind.name(), R1, sched::fmt_schedule(res));
		for p in res.panics.iter().chain(o.panics.iter()) {
			fails.push((format!("panic: {} :: E2 add track || change rate", p), det()));
		}
		if !o.added {
			fails.push(("E2: track creation failed although capacity is free".into(), det()));
		} else if o.calls == 0 {
			fails.push(("track effect: never processed :: E2 add track || change rate".into(), det()));
		} else if o.first_bad.is_some() {
			// operation order from the schedule: sites[i] is the operation the chosen thread performs next (thread 0 = gameplay)
			let store = res.sites.iter().position(|x| x.0 == 1 && x.1 == "renderer.sample_rate.store");
			let load = res.sites.iter().position(|x| x.0 == 0 && x.1 == "renderer.sample_rate.load");
			let push = load.and_then(|l| res.sites.iter().skip(l).position(|x| x.0 == 0 && x.1 == "res.new.push").map(|p| p + l));
			let feat = match (load, push, store) {
				(Some(l), Some(p), Some(s)) if l < s && p < s => "track created before a rate change, adopted by the audio thread after it",
				(Some(l), Some(p), Some(s)) if l < s && p > s => "E2: creating thread loads the rate before the audio thread's change and enqueues the track after it",
				_ => "E2: not explained by the order of rate load / change / enqueue",
			};
			fails.push((format!("track effect: processes with a sample rate that is not in force (rate told != device rate) :: {}", feat), det()));
		}
	};
	let stats = sched::explore(tier.pick(Some(2), Some(3)), 2_000_000, &mut body, &mut judge);
	sched::report(ctx, &stats);
	if let Some(e) = stats.error {
		ctx.fail(format!("MACHINERY: scheduler error: {}", e), "");
	}
	ctx.schedules += stats.schedules;
	ctx.evals += stats.schedules;
	ctx.traces += stats.schedules;
	ctx.transitions += stats.schedules * stats.max_points as u64;
	ctx.count(&format!("e2_schedules[{}]", kind.name()), stats.schedules);
	ctx.count(&format!("e2_max_points[{}]", kind.name()), stats.max_points as u64);
	ctx.count("e2_capped", stats.capped as u64);
	for o in outcomes {
		ctx.outcome(o);
		ctx.state(o);
	}
	ctx.nontrivial_extra += nontrivial;
	for (s, d) in fails {
		ctx.fail(s, d);
	}
}
