//! C17 — modulators produce their configured curves; linked parameters follow in-chunk.
//!
//! Five exhaustively enumerated families, all judged against references written from the
//! documentation (not from kira's code):
//!  A  the real LFO (`LfoBuilder::build` + `Modulator::update`) against `LfoM` over the lattice
//!     waveform x frequency x amplitude x offset x phase x update period x one handle operation;
//!  B  the real tweener against `TwM` over set sequences;
//!  C  `Mapping::map` (directly and through an LFO parameter linked to a modulator value) against
//!     clamp -> ease -> interpolate;
//!  D  chains through the real renderer: modulator -> {sound / sub-track / main-track / effect volume,
//!     clock speed, LFO offset / amplitude / frequency, LFO -> track volume}, observed on the output
//!     gain and by a probe sound that reads `info.modulator_value` / `info.clock_info` in every chunk;
//!  E  all histories over {add probe modulator, drop oldest handle, drop newest handle, callback}:
//!     every probe modulator counts its updates and records what it reads from older modulators.

use crate::engine::{hash64, Check, Ctx, Level, Tier};
use crate::json::J;
use crate::rig::{self, catch};
use kira::clock::{ClockHandle, ClockId, ClockSpeed};
use kira::effect::Effect;
use kira::effect::volume_control::{VolumeControlBuilder, VolumeControlHandle};
use kira::info::{Info, MockInfoBuilder};
use kira::modulator::lfo::{LfoBuilder, LfoHandle, Waveform};
use kira::modulator::tweener::{TweenerBuilder, TweenerHandle};
use kira::modulator::{Modulator, ModulatorBuilder, ModulatorId};
use kira::sound::static_sound::StaticSoundHandle;
use kira::sound::{Sound, SoundData};
use kira::track::{MainTrackBuilder, TrackBuilder, TrackHandle};
use kira::{Decibels, Easing, Frame, Mapping, PlaybackRate, StartTime, Tween, Value};
use std::f64::consts::{PI, TAU};
use std::sync::atomic::{AtomicBool, Ordering};
use std::sync::{Arc, Mutex};
use std::time::Duration;

pub struct C17;

const SR: u32 = 8;
/// update periods: one internal chunk of 1 / 3 / 8 frames at 8 Hz; thorough adds 128 frames at 48 kHz
fn dts(tier: Tier) -> Vec<f64> {
	tier.pick(vec![0.125, 0.375, 1.0], vec![0.125, 0.375, 1.0, 128.0 / 48000.0])
}
fn ibss(tier: Tier) -> Vec<usize> {
	tier.pick(vec![1, 3, 8], vec![1, 3, 8, 5])
}
fn waveforms(tier: Tier) -> Vec<Wf> {
	let mut v = vec![Wf::Sine, Wf::Tri, Wf::Saw, Wf::Pulse(0.25), Wf::Pulse(0.5)];
	if tier == Tier::Thorough {
		v.extend([Wf::Pulse(0.75), Wf::Pulse(0.0), Wf::Pulse(1.0)]);
	}
	v
}
const NC: u64 = 4;
const NTK: u64 = 9;
const NL: u64 = 5;
/// number of cases of the families A..E
fn layout(tier: Tier) -> [u64; 7] {
	let nd = dts(tier).len() as u64;
	let ni = ibss(tier).len() as u64;
	[waveforms(tier).len() as u64 * nd, nd, NC, NTK * ni, ni * NL, 2, 3]
}
/// (family 0..5, index inside the family)
fn locate(tier: Tier, idx: u64) -> (usize, u64) {
	let mut i = idx;
	for (f, n) in layout(tier).iter().enumerate() {
		if i < *n {
			return (f, i);
		}
		i -= n;
	}
	(7, i)
}

// ---------------------------------------------------------------------------------------------
// reference: easing, waveforms, parameter tween, LFO, tweener, mapping

fn ease(e: Easing, x: f64) -> f64 {
	fn io(x: f64, f: &dyn Fn(f64) -> f64) -> f64 {
		if x < 0.5 {
			0.5 * f(2.0 * x)
		} else {
			1.0 - 0.5 * f(2.0 - 2.0 * x)
		}
	}
	match e {
		Easing::Linear => x,
		Easing::InPowi(p) => x.powi(p),
		Easing::OutPowi(p) => 1.0 - (1.0 - x).powi(p),
		Easing::InOutPowi(p) => io(x, &|v| v.powi(p)),
		Easing::InPowf(p) => x.powf(p),
		Easing::OutPowf(p) => 1.0 - (1.0 - x).powf(p),
		Easing::InOutPowf(p) => io(x, &|v| v.powf(p)),
	}
}

#[derive(Clone, Copy, Debug, PartialEq)]
enum Wf {
	Sine,
	Tri,
	Saw,
	Pulse(f64),
}
impl Wf {
	fn kira(self) -> Waveform {
		match self {
			Wf::Sine => Waveform::Sine,
			Wf::Tri => Waveform::Triangle,
			Wf::Saw => Waveform::Saw,
			Wf::Pulse(w) => Waveform::Pulse { width: w },
		}
	}
	/// documented shapes on one period p in [0,1): all start at 0 going up (pulse: high for `width`)
	fn at(self, p: f64) -> f64 {
		match self {
			Wf::Sine => (TAU * p).sin(),
			Wf::Tri => {
				if p < 0.25 {
					4.0 * p
				} else if p < 0.75 {
					2.0 - 4.0 * p
				} else {
					4.0 * p - 4.0
				}
			}
			Wf::Saw => {
				if p < 0.5 {
					2.0 * p
				} else {
					2.0 * p - 2.0
				}
			}
			Wf::Pulse(w) => {
				if p < w {
					1.0
				} else {
					-1.0
				}
			}
		}
	}
}

fn close(a: f64, b: f64, scale: f64) -> bool {
	(a - b).abs() <= 1e-9 * scale.abs().max(1.0)
}
fn dur(s: f64) -> Duration {
	Duration::from_secs_f64(s)
}
fn tween(d: f64, e: Easing) -> Tween {
	Tween { start_time: StartTime::Immediate, duration: dur(d), easing: e }
}

/// a plain number that can be sent to a target with a tween (the documented Parameter rule)
#[derive(Clone, Debug)]
struct ParamM {
	v: f64,
	tw: Option<(f64, f64, f64, f64, Easing)>, // start, target, time, duration, easing
}
impl ParamM {
	fn new(v: f64) -> Self {
		Self { v, tw: None }
	}
	fn set(&mut self, target: f64, d: f64, e: Easing) {
		self.tw = Some((self.v, target, 0.0, dur(d).as_secs_f64(), e));
	}
	fn update(&mut self, dt: f64) {
		if let Some((s, t, time, d, e)) = &mut self.tw {
			*time += dt;
			if *time >= *d {
				self.v = *t;
				self.tw = None;
			} else {
				self.v = *s + (*t - *s) * ease(*e, *time / *d);
			}
		}
	}
}

#[derive(Clone, Debug)]
struct LfoM {
	wf: Wf,
	f: ParamM,
	a: ParamM,
	o: ParamM,
	phase: f64,
}
impl LfoM {
	fn new(wf: Wf, f: f64, a: f64, o: f64, start_phase: f64) -> Self {
		Self { wf, f: ParamM::new(f), a: ParamM::new(a), o: ParamM::new(o), phase: (start_phase / TAU).rem_euclid(1.0) }
	}
	fn update(&mut self, dt: f64) {
		self.f.update(dt);
		self.a.update(dt);
		self.o.update(dt);
		self.phase = (self.phase + dt * self.f.v).rem_euclid(1.0);
	}
	fn value(&self) -> f64 {
		self.o.v + self.a.v * self.wf.at(self.phase)
	}
	/// equal to the reference, or to the reference a hair before/after a discontinuity of the waveform
	fn matches(&self, obs: f64) -> bool {
		[0.0, -1e-9, 1e-9].iter().any(|dp| {
			let p = (self.phase + dp).rem_euclid(1.0);
			close(obs, self.o.v + self.a.v * self.wf.at(p), self.a.v.abs() + self.o.v.abs())
		})
	}
	fn in_bounds(&self, obs: f64) -> bool {
		(obs - self.o.v).abs() <= self.a.v.abs() + 1e-9 * (1.0 + self.a.v.abs() + self.o.v.abs())
	}
}

#[derive(Clone, Debug)]
struct TwM {
	v: f64,
	st: Option<(f64, f64, f64, f64, Easing, Option<f64>)>, // start, target, time, duration, easing, delay left
}
impl TwM {
	fn set(&mut self, target: f64, d: f64, e: Easing, delay: Option<f64>) {
		self.st = Some((self.v, target, 0.0, dur(d).as_secs_f64(), e, delay));
	}
	fn update(&mut self, dt: f64) {
		if let Some((s, t, time, d, e, delay)) = &mut self.st {
			if let Some(rem) = delay {
				if *rem > 0.0 {
					*rem = (*rem - dt).max(0.0);
					return;
				}
			}
			*time += dt;
			if *time >= *d {
				self.v = *t;
				self.st = None;
			} else {
				self.v = *s + (*t - *s) * ease(*e, *time / *d);
			}
		}
	}
}

#[derive(Clone, Copy, Debug)]
struct MapSpec {
	i0: f64,
	i1: f64,
	inv: bool,
	e: Easing,
}
impl MapSpec {
	fn eval(&self, lo: f64, hi: f64, x: f64) -> f64 {
		let (o0, o1) = if self.inv { (hi, lo) } else { (lo, hi) };
		let amount = ((x - self.i0) / (self.i1 - self.i0)).clamp(0.0, 1.0);
		o0 + (o1 - o0) * ease(self.e, amount)
	}
	fn value<T>(&self, id: ModulatorId, lo: T, hi: T) -> Value<T> {
		Value::from_modulator(
			id,
			Mapping { input_range: (self.i0, self.i1), output_range: if self.inv { (hi, lo) } else { (lo, hi) }, easing: self.e },
		)
	}
}
fn maps() -> Vec<MapSpec> {
	let mut v = vec![
		MapSpec { i0: 0.0, i1: 1.0, inv: false, e: Easing::Linear },
		MapSpec { i0: 1.0, i1: 0.0, inv: false, e: Easing::Linear },
		MapSpec { i0: -2.0, i1: 2.0, inv: true, e: Easing::InPowi(2) },
		MapSpec { i0: 0.25, i1: 0.75, inv: false, e: Easing::OutPowf(0.5) },
	];
	{
		v.push(MapSpec { i0: 0.0, i1: 1.0, inv: true, e: Easing::InOutPowi(3) });
		v.push(MapSpec { i0: -1.0, i1: 0.5, inv: false, e: Easing::InPowf(1.7) });
		v.push(MapSpec { i0: 3.0, i1: -3.0, inv: true, e: Easing::OutPowi(2) });
	}
	v
}
fn amp(db: f64) -> f64 {
	if db <= -60.0 {
		0.0
	} else {
		10f64.powf(db / 20.0)
	}
}

// ---------------------------------------------------------------------------------------------
// probes: a sound that reads modulators / a clock in every process call, a counting modulator

#[derive(Clone, Copy, Default)]
struct ReadRec {
	len: u32,
	vals: [Option<f64>; 8],
	clock: Option<(bool, u64, f64)>,
}
struct ReaderShared {
	log: Mutex<Vec<ReadRec>>,
	ids: Mutex<Vec<ModulatorId>>,
	clock: Mutex<Option<ClockId>>,
}
impl ReaderShared {
	fn new() -> Arc<Self> {
		Arc::new(Self { log: Mutex::new(Vec::with_capacity(512)), ids: Mutex::new(Vec::with_capacity(8)), clock: Mutex::new(None) })
	}
	fn take(&self) -> Vec<ReadRec> {
		std::mem::replace(&mut *self.log.lock().unwrap(), Vec::with_capacity(512))
	}
}
struct ReaderData {
	shared: Arc<ReaderShared>,
	level: f32,
}
impl SoundData for ReaderData {
	type Error = ();
	type Handle = ();
	fn into_sound(self) -> Result<(Box<dyn Sound>, ()), ()> {
		Ok((Box::new(self), ()))
	}
}
impl ReaderData {
	fn record(&self, len: usize, info: &Info) {
		let mut rec = ReadRec { len: len as u32, ..Default::default() };
		for (k, id) in self.shared.ids.lock().unwrap().iter().enumerate().take(8) {
			rec.vals[k] = info.modulator_value(*id);
		}
		if let Some(c) = *self.shared.clock.lock().unwrap() {
			rec.clock = info.clock_info(c).map(|c| (c.ticking, c.time.ticks, c.time.fraction));
		}
		let mut log = self.shared.log.lock().unwrap();
		if log.len() < log.capacity() {
			log.push(rec);
		}
	}
}
impl Sound for ReaderData {
	fn process(&mut self, out: &mut [Frame], _dt: f64, info: &Info) {
		self.record(out.len(), info);
		out.fill(Frame::new(self.level, self.level));
	}
	fn finished(&self) -> bool {
		false
	}
}
/// the same probe as an effect (reads, leaves the audio untouched)
impl Effect for ReaderData {
	fn process(&mut self, input: &mut [Frame], _dt: f64, info: &Info) {
		self.record(input.len(), info);
	}
}

#[derive(Clone, Copy)]
struct PmRec {
	dt: f64,
	seen: [Option<f64>; 8],
}
struct PmShared {
	removed: AtomicBool,
	log: Mutex<Vec<PmRec>>,
}
/// value = 1000 * index + number of updates so far; records what it reads from the older modulators
struct ProbeMod {
	idx: usize,
	count: u64,
	reads: Vec<ModulatorId>,
	shared: Arc<PmShared>,
}
impl Modulator for ProbeMod {
	fn update(&mut self, dt: f64, info: &Info) {
		self.count += 1;
		let mut rec = PmRec { dt, seen: [None; 8] };
		for (k, id) in self.reads.iter().enumerate().take(8) {
			rec.seen[k] = info.modulator_value(*id);
		}
		let mut log = self.shared.log.lock().unwrap();
		if log.len() < log.capacity() {
			log.push(rec);
		}
	}
	fn value(&self) -> f64 {
		(self.idx * 1000) as f64 + self.count as f64
	}
	fn finished(&self) -> bool {
		self.shared.removed.load(Ordering::SeqCst)
	}
}
struct PmBuilder {
	idx: usize,
	reads: Vec<ModulatorId>,
}
struct PmHandle {
	id: ModulatorId,
	shared: Arc<PmShared>,
}
impl Drop for PmHandle {
	fn drop(&mut self) {
		self.shared.removed.store(true, Ordering::SeqCst);
	}
}
impl ModulatorBuilder for PmBuilder {
	type Handle = PmHandle;
	fn build(self, id: ModulatorId) -> (Box<dyn Modulator>, PmHandle) {
		let shared = Arc::new(PmShared { removed: AtomicBool::new(false), log: Mutex::new(Vec::with_capacity(64)) });
		(Box::new(ProbeMod { idx: self.idx, count: 0, reads: self.reads, shared: shared.clone() }), PmHandle { id, shared })
	}
}

// ---------------------------------------------------------------------------------------------
// the check

const TK_NAMES: [&str; 9] = [
	"sound volume",
	"sub-track volume",
	"main-track volume",
	"effect volume (VolumeControl)",
	"clock speed",
	"lfo offset",
	"lfo amplitude",
	"lfo frequency",
	"lfo offset -> sub-track volume",
];
const LETTERS: [&str; 5] = ["add", "drop-oldest", "drop-newest", "cb", "drop-middle"];
fn e_depth(tier: Tier) -> usize {
	tier.pick(7, 9)
}

impl Check for C17 {
	fn id(&self) -> &'static str {
		"C17"
	}
	fn level(&self) -> Level {
		Level::ModelChecking
	}
	fn num_cases(&self, tier: Tier) -> u64 {
		layout(tier).iter().sum()
	}
	fn describe(&self, tier: Tier, idx: u64) -> String {
		let (nd, ni) = (dts(tier).len() as u64, ibss(tier).len() as u64);
		match locate(tier, idx) {
			(0, i) => format!(
				"A: direct LFO, waveform {:?}, update period {} s, all frequency x amplitude x offset x phase x handle operation",
				waveforms(tier)[(i / nd) as usize],
				dts(tier)[(i % nd) as usize]
			),
			(1, i) => format!("B: direct tweener, update period {} s, all set sequences", dts(tier)[i as usize]),
			(2, i) => format!("C: Mapping::map, input range #{} x output types x easings x inputs", i),
			(3, i) => format!(
				"D: chain through the renderer, modulator -> {}, internal buffer size {}, all sources x mappings x link modes x drops",
				TK_NAMES[(i / ni) as usize],
				ibss(tier)[(i % ni) as usize]
			),
			(4, i) => format!(
				"E: histories over {:?} of length {} starting with '{}', internal buffer size {}",
				LETTERS,
				e_depth(tier),
				LETTERS[(i % NL) as usize],
				ibss(tier)[(i / NL) as usize]
			),
			(6, i) => format!("G: a streaming sound whose volume is linked to a tweener, while the sound {}: the parameter keeps following the modulator (compared with a static sound in the same script / with the mapping of the modulator's value)", ["waits for a delayed start", "is paused", "waits for its decoder (underrun)"][i as usize]),
			(_, i) => format!("F: E2 interleavings: game(add_modulator; {}play(sound whose volume is linked to it)) || audio(3 callbacks), then tweener.set", if i == 0 { "" } else { "add_sub_track; " }),
		}
	}
	fn rule(&self) -> String {
		"A (direct LFO vs LfoM, 12 updates per run): waveforms {sine, triangle, saw, pulse .25/.5} x frequency {0,.5,1,3,1/dt} x amplitude {1,-2,0} x offset {0,.5} x starting phase {0,pi/2,pi,3pi/2,5pi} x dt {1,3,8 frames @ 8 Hz} x 10 handle operations (none; instant/tweened set_frequency, set_amplitude, set_offset; set_phase below/above one turn; set_waveform) placed before update 0/3/7; thorough adds pulse .75/0/1, dt = 128/48000 s, frequencies {.01, 1.25/dt, 2.5}, amplitude .3, offset -1.5, phases {2pi, pi/3} and every PAIR of operations. \
		 B (direct tweener vs TwM, 14 updates): initial {0,-1.5} x target {1,-2} x duration {0,.3,1,2.5 s} x 4 easings x immediate/delayed start x second set (none or at update 1/3 [thorough 2/5/8], instant or tweened, to 0.25 or to the value held at that moment) x dt. \
		 C (Mapping::map): input ranges {(0,1),(1,0),(-2,3),(10,-10)} x output ranges {(0,1),(5,-5),(-24,6)} x 7 easings x 11 inputs (before, at, inside, beyond the range) x {f64, Decibels, ClockSpeed, PlaybackRate, f64 through an LFO offset linked to a modulator value}. \
		 D (chains through the renderer, 8 callbacks incl. partial chunks and two-chunk callbacks): target {sound, sub-track, main-track, effect volume; clock speed; LFO offset, amplitude, frequency; LFO -> sub-track volume} x internal buffer size {1,3,8} [thorough +5] x source {3 tweeners, 7 LFOs} x 7 mappings (inverted ranges, inputs outside the range, easings) x link {when built, set later instantly, set later with a tween, reader older than its source} x drop of an older modulator x drop of the source [thorough: several drop/link times]. \
		 E (probe modulators that count updates and record what they read): ALL histories of the stated length over {add, drop oldest, drop newest, drop middle, callback of ibs+1 frames} + 2 callbacks, x internal buffer size; a probe sound and a probe main-track effect read every modulator in every chunk. \
		 F (E2): all interleavings (preemption bound 2 / 3) of game(add_modulator; [add_sub_track;] play(sound linked to it)) with audio(3 callbacks), switching at every resource hand-over point. \
		 non-trivial = the observed quantity (modulator value, linked parameter/gain/clock position, probe readings) changed at least once during the run (C: result differs from the first output bound); states = distinct reference-model states (A,B,D: quantised value/phase/parameters; E: liveness, removal flags and update order)".into()
	}
	fn assumptions(&self) -> Vec<String> {
		vec![
			"an LFO's own frequency/amplitude/offset tweens advance before the phase is accumulated in the same update (the order kira documents by construction); tween start times are Immediate or Delayed".into(),
			"the gain of a volume parameter is read on the last frame of each internal chunk (where kira's in-chunk interpolation reaches the chunk's value); frames inside the chunk are only required to lie between the previous and the current gain".into(),
			"mapping input ranges with equal ends are excluded (division by zero)".into(),
		]
	}
	fn extra_evidence(&self, tier: Tier) -> Vec<(String, J)> {
		vec![("history_depth".into(), J::u(e_depth(tier) as u64)), ("sample_rate".into(), J::u(SR as u64))]
	}
	fn case_timeout_ms(&self, _tier: Tier) -> u64 {
		600_000
	}
	fn run_case(&self, tier: Tier, idx: u64, ctx: &mut Ctx) {
		let (nd, ni) = (dts(tier).len() as u64, ibss(tier).len() as u64);
		match locate(tier, idx) {
			(0, i) => fam_a(tier, waveforms(tier)[(i / nd) as usize], dts(tier)[(i % nd) as usize], ctx),
			(1, i) => fam_b(tier, dts(tier)[i as usize], ctx),
			(2, i) => fam_c(i as usize, ctx),
			(3, i) => fam_d(tier, (i / ni) as usize, ibss(tier)[(i % ni) as usize], ctx),
			(4, i) => {
				let mut letters = vec![(i % NL) as u8];
				fam_e(ibss(tier)[(i / NL) as usize], &mut letters, e_depth(tier), ctx)
			}
			(5, i) => fam_f(tier, i, ctx),
			(_, i) => {
				crate::pacer::set_mode(crate::pacer::Mode::Pacer);
				if i == 0 {
					if let Err(p) = catch(|| fam_h(ctx)) {
						ctx.fail(format!("panic: {} :: clock-timed tweener tweens / vector links", p), "");
					}
				}
				if let Err(p) = catch(|| fam_g(i, ctx)) {
					ctx.fail(format!("panic: {} :: G #{}", p, i), "");
				}
			}
		}
	}
}

fn quant(v: f64) -> i64 {
	(v * 1e6).round() as i64
}

// ---------------------------------------------------------------------------------------------
// A: the LFO, directly

#[derive(Clone, Copy, Debug)]
enum Op {
	None,
	Freq(f64, f64, Easing), // target, duration in update periods, easing
	Amp(f64, f64, Easing),
	Off(f64, f64, Easing),
	Phase(f64),
	Wave(Wf),
}
impl Op {
	/// coarse class used in signatures (the exact operation is in the detail)
	fn name(&self) -> &'static str {
		match self {
			Op::None => "none",
			Op::Freq(..) | Op::Amp(..) | Op::Off(..) => "a frequency/amplitude/offset change",
			Op::Phase(_) => "set_phase",
			Op::Wave(_) => "set_waveform",
		}
	}
}

fn fam_a(tier: Tier, wf: Wf, dt: f64, ctx: &mut Ctx) {
	let mut freqs = vec![0.0, 0.5, 1.0, 3.0, 1.0 / dt];
	let mut amps = vec![1.0, -2.0, 0.0];
	let mut offs = vec![0.0, 0.5];
	let mut phases = vec![0.0, PI / 2.0, PI, 3.0 * PI / 2.0, 5.0 * PI];
	let ats = [0usize, 3, 7];
	if tier == Tier::Thorough {
		freqs.extend([0.01, 1.25 / dt, 2.5]);
		amps.push(0.3);
		offs.push(-1.5);
		phases.extend([TAU, PI / 3.0]);
	}
	let other = if wf == Wf::Tri { Wf::Sine } else { Wf::Tri };
	let ops = [
		Op::None,
		Op::Freq(1.5, 0.0, Easing::Linear),
		Op::Freq(1.5, 2.5, Easing::Linear),
		Op::Amp(-0.5, 0.0, Easing::Linear),
		Op::Amp(3.0, 2.5, Easing::InPowi(2)),
		Op::Off(-1.0, 0.0, Easing::Linear),
		Op::Off(2.0, 2.5, Easing::OutPowf(0.5)),
		Op::Phase(PI / 3.0),
		Op::Phase(7.0 * PI),
		Op::Wave(other),
	];
	let mut mib = MockInfoBuilder::new();
	let id = mib.add_modulator(0.0);
	let info = mib.build();
	let mut ord = 0u64;
	for &f in &freqs {
		for &a in &amps {
			for &o in &offs {
				for &ph in &phases {
					// the run without operations comes first; if it fails, the operations are not needed to explain a failure here
					let mut base_failed = false;
					for op in ops.iter() {
						for &at in &ats {
							// thorough: a second operation two updates later (every pair of operations)
							let seconds: &[Op] = if tier == Tier::Thorough && at == 3 { &ops } else { &ops[..1] };
							for op2 in seconds {
							if matches!(op, Op::None) && (at != ats[0] || !matches!(op2, Op::None)) {
								continue;
							}
							ord += 1;
							ctx.evals += 1;
							ctx.traces += 1;
							let detail = || {
								format!(
									"LfoBuilder{{waveform {:?}, frequency {}, amplitude {}, offset {}, starting_phase {}}}.build(id); 12 x (on_start_processing; update(dt={})) ; before update #{}: {:?}; before update #{}: {:?} (durations in units of dt)",
									wf, f, a, o, ph, dt, at, op, at + 2, op2
								)
							};
							ctx.count("A_lfo_runs", 1);
							ctx.sample(ord, detail);
							let r = catch(|| lfo_direct(wf, f, a, o, ph, dt, [(at, *op), (at + 2, *op2)], base_failed, id, &info, ctx, &detail));
							match r {
								Ok(failed) => base_failed |= failed && matches!(op, Op::None),
								Err(p) => ctx.fail(format!("panic: {} :: direct LFO waveform={:?}", p, wf), detail()),
							}
							}
						}
					}
				}
			}
		}
	}
}

#[allow(clippy::too_many_arguments)]
// (one run)
fn lfo_direct(wf: Wf, f: f64, a: f64, o: f64, ph: f64, dt: f64, ops: [(usize, Op); 2], base_failed: bool, id: ModulatorId, info: &Info, ctx: &mut Ctx, detail: &dyn Fn() -> String) -> bool {
	let (mut lfo, mut h) = LfoBuilder::new().waveform(wf.kira()).frequency(f).amplitude(a).offset(o).starting_phase(ph).build(id);
	let mut model = LfoM::new(wf, f, a, o, ph);
	let mut seq = vec![];
	let mut beyond = ph >= TAU || f * dt > 1.0;
	let mut failed = false;
	let mut after = String::new();
	for k in 0..12 {
		for (at, op) in ops {
			if k != at {
				continue;
			}
			if !matches!(op, Op::None) && !base_failed {
				after = format!("after {}", op.name());
			}
			match op {
				Op::None => {}
				Op::Freq(t, d, e) => {
					h.set_frequency(t, tween(d * dt, e));
					model.f.set(t, d * dt, e);
					beyond |= t * dt > 1.0;
				}
				Op::Amp(t, d, e) => {
					h.set_amplitude(t, tween(d * dt, e));
					model.a.set(t, d * dt, e);
				}
				Op::Off(t, d, e) => {
					h.set_offset(t, tween(d * dt, e));
					model.o.set(t, d * dt, e);
				}
				Op::Phase(p) => {
					h.set_phase(p);
					model.phase = (p / TAU).rem_euclid(1.0);
					beyond |= p >= TAU;
				}
				Op::Wave(w) => {
					h.set_waveform(w.kira());
					model.wf = w;
				}
			}
		}
		lfo.on_start_processing();
		lfo.update(dt, info);
		model.update(dt);
		let v = lfo.value();
		seq.push(quant(v));
		ctx.transitions += 1;
		ctx.state(hash64(&(quant(model.phase), quant(model.f.v), quant(model.a.v), quant(model.o.v))));
		if failed {
			continue;
		}
		let regime = if beyond {
			"phase advanced by more than one turn (frequency*dt > 1, or phase >= TAU)".to_string()
		} else if !after.is_empty() {
			after.clone()
		} else {
			"steady".to_string()
		};
		if !v.is_finite() || !model.matches(v) {
			failed = true;
			ctx.fail(
				format!("lfo: value differs from reference :: waveform={:?} {}", model.wf, regime),
				format!("update #{}: kira {} reference {} (phase {}) :: {}", k, v, model.value(), model.phase, detail()),
			);
		} else if !model.in_bounds(v) {
			failed = true;
			ctx.fail(
				format!("lfo: value outside offset +/- |amplitude| :: waveform={:?} {}", model.wf, regime),
				format!("update #{}: kira {} offset {} amplitude {} :: {}", k, v, model.o.v, model.a.v, detail()),
			);
		}
	}
	if seq.iter().any(|v| *v != seq[0]) {
		ctx.nontrivial_extra += 1;
	}
	ctx.outcome(hash64(&seq));
	failed
}

// ---------------------------------------------------------------------------------------------
// B: the tweener, directly

fn fam_b(tier: Tier, dt: f64, ctx: &mut Ctx) {
	let easings = [Easing::Linear, Easing::InPowi(2), Easing::OutPowf(0.5), Easing::InOutPowi(3)];
	let durs = [0.0, 0.3, 1.0, 2.5];
	// second set: (update index, target, duration)
	// (a NaN target stands for "the value the tweener has at that moment": the hold / cancel call)
	let mut seconds: Vec<Option<(usize, f64, f64)>> = vec![None, Some((1, 0.25, 0.0)), Some((1, 0.25, 1.0)), Some((3, 0.25, 0.0)), Some((3, 0.25, 1.0)), Some((1, f64::NAN, 0.0)), Some((3, f64::NAN, 1.0))];
	if tier == Tier::Thorough {
		seconds.extend([Some((2, -3.0, 0.3)), Some((5, 1.0, 2.5)), Some((8, 0.25, 1.0))]);
	}
	let mut mib = MockInfoBuilder::new();
	let id = mib.add_modulator(0.0);
	let info = mib.build();
	let mut ord = 0;
	for init in [0.0, -1.5] {
		for target in [1.0, -2.0] {
			for d in durs {
				for e in easings {
					for delay in [None, Some(0.5)] {
						for second in &seconds {
							ord += 1;
							ctx.evals += 1;
							ctx.traces += 1;
							let detail = || {
								format!(
									"TweenerBuilder{{initial_value {}}}.build(id); set({}, Tween{{duration {} s, {:?}, start {:?}}}) before update #0; second set (update, target, duration) {:?}; 14 x (on_start_processing; update(dt={}))",
									init, target, d, e, delay, second, dt
								)
							};
							ctx.count("B_tweener_runs", 1);
							ctx.sample(ord, detail);
							let r = catch(|| {
								let (mut tw, mut h) = TweenerBuilder { initial_value: init }.build(id);
								let mut model = TwM { v: init, st: None };
								if tw.value() != init {
									ctx.fail("tweener: initial value not held before the first set", detail());
								}
								let mut seq = vec![];
								for k in 0..14 {
									if k == 0 {
										let st = delay.map(|s| StartTime::Delayed(dur(s))).unwrap_or(StartTime::Immediate);
										h.set(target, Tween { start_time: st, duration: dur(d), easing: e });
										model.set(target, d, e, delay);
									}
									if let Some((at, t2, d2)) = second {
										if *at == k {
											let t2 = if t2.is_nan() { tw.value() } else { *t2 };
											h.set(t2, tween(*d2, Easing::Linear));
											model.set(t2, *d2, Easing::Linear, None);
										}
									}
									tw.on_start_processing();
									tw.update(dt, &info);
									model.update(dt);
									ctx.transitions += 1;
									ctx.state(hash64(&(quant(model.v), model.st.is_some())));
									let v = tw.value();
									seq.push(quant(v));
									let arrived = model.st.is_none();
									if arrived && v != model.v {
										ctx.fail(
											format!("tweener: does not hold exactly the target after the tween :: duration {}", if d == 0.0 { "0" } else { ">0" }),
											format!("update #{}: kira {} target {} :: {}", k, v, model.v, detail()),
										);
										break;
									}
									if !close(v, model.v, 4.0) {
										ctx.fail(
											format!("tweener: value differs from the tween's prescription :: easing={:?} start={}", e, if delay.is_some() { "delayed" } else { "immediate" }),
											format!("update #{}: kira {} reference {} :: {}", k, v, model.v, detail()),
										);
										break;
									}
								}
								if seq.iter().any(|v| *v != seq[0]) {
									ctx.nontrivial_extra += 1;
								}
								ctx.outcome(hash64(&seq));
							});
							if let Err(p) = r {
								ctx.fail(format!("panic: {} :: direct tweener", p), detail());
							}
						}
					}
				}
			}
		}
	}
}

// ---------------------------------------------------------------------------------------------
// C: mappings

fn fam_c(range_i: usize, ctx: &mut Ctx) {
	let (i0, i1) = [(0.0, 1.0), (1.0, 0.0), (-2.0, 3.0), (10.0, -10.0)][range_i];
	let easings = [
		Easing::Linear,
		Easing::InPowi(2),
		Easing::OutPowi(3),
		Easing::InOutPowi(2),
		Easing::InPowf(0.5),
		Easing::OutPowf(2.5),
		Easing::InOutPowf(1.7),
	];
	let span = i1 - i0;
	let inputs: Vec<f64> = vec![i0 - span, i0 - 1e-3 * span, i0, i0 + 0.1 * span, i0 + 0.25 * span, i0 + 0.5 * span, i0 + 0.75 * span, i0 + 0.9 * span, i1, i1 + 1e-3 * span, i1 + 2.0 * span];
	let outs: [(f64, f64); 3] = [(0.0, 1.0), (5.0, -5.0), (-24.0, 6.0)];
	let mut ord = 0;
	let mut linear_fails = std::collections::HashSet::new(); // (output range, input, type) that fail with Easing::Linear
	for e in easings {
		for (oi, (o0, o1)) in outs.into_iter().enumerate() {
			for (xi, &x) in inputs.iter().enumerate() {
				for ty in 0..6 {
					ord += 1;
					ctx.evals += 1;
					ctx.traces += 1;
					ctx.transitions += 1;
					let ms = MapSpec { i0, i1, inv: false, e };
					// (durations cannot be negative: |o| + 2 ms seconds, which keeps one ascending, one flat and one descending range)
					let (o0, o1) = if ty == 5 { (o0.abs() + 0.002, o1.abs() + 0.002) } else { (o0, o1) };
					let want = ms.eval(o0, o1, x);
					let detail = || format!("Mapping{{input_range ({}, {}), output_range ({}, {}) as {}, easing {:?}}}.map({})", i0, i1, o0, o1, ["f64", "Decibels", "ClockSpeed::TicksPerSecond", "PlaybackRate", "f64 via LFO offset linked to a modulator value", "Duration (seconds)"][ty], e, x);
					ctx.count("C_mapping_evaluations", 1);
					ctx.sample(ord, detail);
					let got = catch(|| match ty {
						0 => Mapping { input_range: (i0, i1), output_range: (o0, o1), easing: e }.map(x),
						1 => Mapping { input_range: (i0, i1), output_range: (Decibels(o0 as f32), Decibels(o1 as f32)), easing: e }.map(x).0 as f64,
						2 => Mapping { input_range: (i0, i1), output_range: (ClockSpeed::TicksPerSecond(o0), ClockSpeed::TicksPerSecond(o1)), easing: e }.map(x).as_ticks_per_second(),
						3 => Mapping { input_range: (i0, i1), output_range: (PlaybackRate(o0), PlaybackRate(o1)), easing: e }.map(x).0,
						5 => Mapping { input_range: (i0, i1), output_range: (std::time::Duration::from_secs_f64(o0), std::time::Duration::from_secs_f64(o1)), easing: e }.map(x).as_secs_f64(),
						_ => {
							let mut mib = MockInfoBuilder::new();
							let src = mib.add_modulator(x);
							let info = mib.build();
							let (mut lfo, _h) = LfoBuilder::new().amplitude(0.0).offset(ms.value(src, o0, o1)).build(src);
							lfo.on_start_processing();
							lfo.update(0.125, &info);
							lfo.value()
						}
					});
					let tol = (if ty == 1 { 1e-5 } else { 1e-9 }) * (o0.abs() + o1.abs()).max(1.0);
					let region = if (x - i0) / span <= 0.0 {
						"input before the range"
					} else if (x - i0) / span >= 1.0 {
						"input beyond the range"
					} else {
						"input inside the range"
					};
					ctx.state(hash64(&(quant(want), ty)));
					match got {
						Err(p) => ctx.fail(format!("panic: {} :: Mapping::map", p), detail()),
						Ok(g) => {
							ctx.outcome(hash64(&(quant(g), ty)));
							if g != o0 {
								ctx.nontrivial(hash64(&(range_i, ord)));
							}
							if !((g - want).abs() <= tol) {
								if e == Easing::Linear {
									linear_fails.insert((oi, xi, ty));
								}
								let es = if linear_fails.contains(&(oi, xi, ty)) { String::new() } else { format!(" easing={:?}", e) };
								ctx.fail(
									format!("mapping: result differs from clamp -> ease -> interpolate :: {}{}{}", region, es, if i1 < i0 { ", inverted input range" } else { "" }),
									format!("kira {} reference {} :: {}", g, want, detail()),
								);
							}
						}
					}
				}
			}
		}
	}
}

// ---------------------------------------------------------------------------------------------
// D: chains through the renderer

#[derive(Clone, Copy, Debug)]
enum Src {
	/// tweener: set(target, duration in full chunks, easing) before callback `at` (0 = right after add_modulator,
	/// before the audio thread has seen the modulator)
	Tw { init: f64, target: f64, d: f64, e: Easing, at: usize },
	/// LFO with `cyc` cycles per full chunk
	Lfo { wf: Wf, cyc: f64, a: f64, o: f64, ph: f64 },
}
fn sources() -> Vec<Src> {
	let mut v = vec![
		Src::Tw { init: 0.0, target: 1.0, d: 3.5, e: Easing::Linear, at: 1 },
		Src::Tw { init: 1.5, target: -0.5, d: 5.0, e: Easing::InPowi(2), at: 1 },
		Src::Lfo { wf: Wf::Sine, cyc: 0.11, a: 1.0, o: 0.5, ph: PI / 2.0 },
		Src::Lfo { wf: Wf::Tri, cyc: 0.3, a: -2.0, o: 0.0, ph: 0.0 },
		Src::Lfo { wf: Wf::Saw, cyc: 1.25, a: 1.0, o: 0.5, ph: PI },
		Src::Lfo { wf: Wf::Pulse(0.25), cyc: 0.19, a: 1.0, o: 0.0, ph: 0.0 },
	];
	{
		v.push(Src::Tw { init: -1.0, target: 2.0, d: 0.0, e: Easing::Linear, at: 1 });
		v.push(Src::Tw { init: 0.25, target: 1.0, d: 2.5, e: Easing::Linear, at: 0 });
		v.push(Src::Tw { init: 2.0, target: -1.0, d: 0.0, e: Easing::Linear, at: 0 });
		v.push(Src::Lfo { wf: Wf::Pulse(0.5), cyc: 2.3, a: 0.5, o: 0.5, ph: 5.0 * PI });
		v.push(Src::Lfo { wf: Wf::Sine, cyc: 1.0, a: 1.0, o: 0.0, ph: 3.0 * PI / 2.0 });
		v.push(Src::Lfo { wf: Wf::Saw, cyc: 0.07, a: -2.0, o: 0.5, ph: 0.0 });
	}
	v
}
enum SrcM {
	Tw(TwM),
	Lfo(LfoM),
}
enum SrcH {
	Tw(TweenerHandle),
	Lfo(LfoHandle),
}

/// callback sizes: full chunks, a trailing partial chunk, a lone short callback, two chunks at once
fn schedule(ibs: usize) -> [usize; 8] {
	[ibs, ibs + 1, 1, 2 * ibs, ibs, ibs + 2, ibs, ibs]
}

/// output range of the mapping and the fixed value used before a late link, in the target's natural unit
/// (dB for volumes, ticks per second for the clock, plain numbers for LFO parameters)
fn out_range(tk: usize, t_chunk: f64) -> (f64, f64, f64) {
	match tk {
		0 | 1 | 3 => (-24.0, 3.0, -6.0),
		2 => (-24.0, 3.0, 0.0),
		4 => (0.2 / t_chunk, 1.7 / t_chunk, 1.0 / t_chunk),
		7 => (0.0, 1.7 / t_chunk, 0.5),
		_ => (-1.0, 3.0, 0.5),
	}
}

#[derive(Clone, Copy, Debug)]
struct DCase {
	tk: usize,
	ibs: usize,
	src: Src,
	ms: MapSpec,
	/// 0: linked when built; 1: fixed at first, linked (instant tween) before callback `link_at`; 2: reader created before its source;
	/// 3: like 1 but with a linear tween of 1.5 full chunks (the parameter is judged once that tween has ended);
	/// 4: like 3 but the tween outlasts the run and S is dropped while it is running (the parameter holds from then on);
	/// 5: linked when built through the REVERSED output range, re-linked (instant tween) through the scene's mapping before
	///    callback `link_at` (the source may be at rest at that moment)
	link: u8,
	/// callback before which the late link is made (link == 1)
	link_at: usize,
	/// callback before which the older modulator X / the source S is dropped
	drop_x: Option<usize>,
	drop_s: Option<usize>,
	/// mention the drop of X in signatures (the same run without the drop passed)
	blame_drop: bool,
}
impl DCase {
	fn text(&self) -> String {
		format!(
			"manager(sample_rate 8, internal_buffer_size {}); modulators in creation order: X = tweener(0.7){}, S = {:?} (durations/cycles per full chunk of {} s), target {} linked to S through Mapping{{input ({}, {}), output {}, {:?}}} [{}]; callbacks of {:?} frames; tweener S.set before callback `at` (0 = right after add_modulator){}{}",
			self.ibs,
			if self.link == 2 { ", B = lfo(amplitude 0, offset 0.5)" } else { "" },
			self.src,
			self.ibs as f64 / SR as f64,
			TK_NAMES[self.tk],
			self.ms.i0,
			self.ms.i1,
			{
				let (lo, hi, init) = out_range(self.tk, self.ibs as f64 / SR as f64);
				if self.ms.inv { format!("({}, {}), fixed value before a late link {}", hi, lo, init) } else { format!("({}, {}), fixed value before a late link {}", lo, hi, init) }
			},
			self.ms.e,
			match self.link {
				0 => "linked when built".to_string(),
				1 => format!("fixed at first, set to the link with a zero-length tween before callback {}", self.link_at),
				3 => format!("fixed at first, set to the link with a linear tween of 1.5 full chunks before callback {} (judged after that tween)", self.link_at),
				5 => format!("linked when built through the mapping with the output range reversed, set to the scene's mapping with a zero-length tween before callback {} (judged from then on)", self.link_at),
				4 => format!("fixed at first, set to the link with a linear tween of 12 full chunks before callback {} (S is dropped while that tween runs: the parameter holds the value it had)", self.link_at),
				_ => "B created BEFORE S, B.set_offset(link) before callback 0".to_string(),
			},
			schedule(self.ibs),
			self.drop_x.map(|j| format!("; X dropped before callback {}", j)).unwrap_or_default(),
			self.drop_s.map(|j| format!("; S dropped before callback {}", j)).unwrap_or_default(),
		)
	}
	fn feature(&self) -> String {
		if self.link == 2 {
			// one root cause: the reader is updated before the younger modulator it is linked to
			return format!("target={}, reader older than source", TK_NAMES[self.tk]);
		}
		format!(
			"target={}{}{}",
			TK_NAMES[self.tk],
			if self.link == 3 && !(self.drop_x.is_some() && self.blame_drop) { ", after a tweened link" } else { "" },
			if self.drop_x.is_some() && self.blame_drop { ", after dropping an older modulator" } else { "" }
		)
	}
}

fn fam_d(tier: Tier, tk: usize, ibs: usize, ctx: &mut Ctx) {
	// gain-free output of the DC static sound (start-up latency of the resampler), from a twin run
	let base: Vec<f32> = if tk == 0 {
		catch(|| {
			let mut m = rig::manager(SR, ibs, rig::caps(8), MainTrackBuilder::new());
			let _h = m.play(rig::static_data(SR, rig::dc_frames(256, 0.5)).volume(Decibels(0.0))).map_err(|_| "play").unwrap();
			let mut out = vec![];
			for n in schedule(ibs) {
				let mut sink = vec![];
				rig::render_stereo(&mut m, n, &mut sink);
				out.extend(sink.iter().map(|f| f.0));
			}
			out
		})
		.unwrap_or_default()
	} else {
		vec![0.5; schedule(ibs).iter().sum()]
	};
	let mut ord = 0;
	for src in sources() {
		for ms in maps() {
			for link in 0..6u8 {
				if (link == 2 && tk != 5) || ((link == 0 || link == 5) && tk == 2) || ((link == 3 || link == 4 || link == 5) && (tk == 4 || tk == 7)) {
					continue;
				}
				let xs: Vec<Option<usize>> = tier.pick(vec![None, Some(2)], vec![None, Some(1), Some(2), Some(4)]);
				let ss: Vec<Option<usize>> = if link == 4 { vec![Some(3), Some(5)] } else { tier.pick(vec![None, Some(5)], vec![None, Some(3), Some(5)]) };
				let las: Vec<usize> = if link == 5 { vec![3] } else if link == 4 { vec![1] } else if link == 1 || link == 3 { tier.pick(vec![1], vec![1, 3]) } else { vec![0] };
				for &drop_s in &ss {
					for &link_at in &las {
						// the run without the drop of X comes first: "after dropping an older modulator" is only
						// a distinguishing feature when that run is clean
						let mut fails_without_drop = false;
						for &drop_x in &xs {
							let case = DCase { tk, ibs, src, ms, link, link_at, drop_x, drop_s, blame_drop: !fails_without_drop };
							ord += 1;
							ctx.evals += 1;
							ctx.traces += 1;
							ctx.count("D_chain_scenes", 1);
							ctx.sample(ord, || case.text());
							match catch(|| chain(&case, &base, ctx)) {
								Ok(failed) => fails_without_drop |= failed && drop_x.is_none(),
								Err(p) => ctx.fail(format!("panic: {} :: chain target={}", p, TK_NAMES[tk]), case.text()),
							}
						}
					}
				}
			}
		}
	}
}

struct Keep {
	track: Option<TrackHandle>,
	eff: Option<VolumeControlHandle>,
	clock: Option<ClockHandle>,
	b: Option<LfoHandle>,
	sound: Option<StaticSoundHandle>,
}

fn chain(c: &DCase, base: &[f32], ctx: &mut Ctx) -> bool {
	let tk = c.tk;
	let t_chunk = c.ibs as f64 / SR as f64;
	let mut m = rig::manager(SR, c.ibs, rig::caps(8), MainTrackBuilder::new());
	let shared = ReaderShared::new();
	let mut x = Some(m.add_modulator(TweenerBuilder { initial_value: 0.7 }).unwrap());
	let mut keep = Keep { track: None, eff: None, clock: None, b: None, sound: None };
	if c.link == 2 {
		keep.b = Some(m.add_modulator(LfoBuilder::new().amplitude(0.0).offset(0.5)).unwrap());
	}
	let (mut s, mut sm) = match c.src {
		Src::Tw { init, .. } => (Some(SrcH::Tw(m.add_modulator(TweenerBuilder { initial_value: init }).unwrap())), SrcM::Tw(TwM { v: init, st: None })),
		Src::Lfo { wf, cyc, a, o, ph } => (
			Some(SrcH::Lfo(m.add_modulator(LfoBuilder::new().waveform(wf.kira()).frequency(cyc / t_chunk).amplitude(a).offset(o).starting_phase(ph)).unwrap())),
			SrcM::Lfo(LfoM::new(wf, cyc / t_chunk, a, o, ph)),
		),
	};
	let sid = match s.as_ref().unwrap() {
		SrcH::Tw(h) => h.id(),
		SrcH::Lfo(h) => h.id(),
	};
	let (lo, hi, init) = out_range(tk, t_chunk);
	let late = c.link != 0;
	let relink = c.link == 5;
	let db = |late: bool| -> Value<Decibels> {
		if late && relink {
			c.ms.value(sid, Decibels(hi as f32), Decibels(lo as f32))
		} else if late {
			Value::Fixed(Decibels(init as f32))
		} else {
			c.ms.value(sid, Decibels(lo as f32), Decibels(hi as f32))
		}
	};
	let fv = |late: bool| -> Value<f64> {
		if late && relink {
			c.ms.value(sid, hi, lo)
		} else if late {
			Value::Fixed(init)
		} else {
			c.ms.value(sid, lo, hi)
		}
	};
	// clock speeds: every other mapping states its output range in ticks per minute (the same speeds)
	let cs = |a: f64, b: f64| -> Value<ClockSpeed> {
		if c.ms.inv || c.ms.i0 > c.ms.i1 {
			c.ms.value(sid, ClockSpeed::TicksPerMinute(a * 60.0), ClockSpeed::TicksPerMinute(b * 60.0))
		} else {
			c.ms.value(sid, ClockSpeed::TicksPerSecond(a), ClockSpeed::TicksPerSecond(b))
		}
	};
	let reader = |level: f32| ReaderData { shared: shared.clone(), level };
	match tk {
		0 => {
			keep.sound = Some(m.play(rig::static_data(SR, rig::dc_frames(256, 0.5)).volume(db(late))).map_err(|_| "play").unwrap());
			m.play(reader(0.0)).map_err(|_| "play").unwrap();
		}
		1 => {
			let mut t = m.add_sub_track(TrackBuilder::new().volume(db(late))).unwrap();
			t.play(reader(0.5)).map_err(|_| "play").unwrap();
			keep.track = Some(t);
		}
		2 => {
			m.play(reader(0.5)).map_err(|_| "play").unwrap();
		}
		3 => {
			let mut tb = TrackBuilder::new();
			keep.eff = Some(tb.add_effect(VolumeControlBuilder::new(db(late))));
			let mut t = m.add_sub_track(tb).unwrap();
			t.play(reader(0.5)).map_err(|_| "play").unwrap();
			keep.track = Some(t);
		}
		4 => {
			let v: Value<ClockSpeed> = if late && relink { cs(hi, lo) } else if late { Value::Fixed(ClockSpeed::TicksPerSecond(init)) } else { cs(lo, hi) };
			let mut ck = m.add_clock(v).unwrap();
			ck.start();
			*shared.clock.lock().unwrap() = Some(ck.id());
			keep.clock = Some(ck);
			m.play(reader(0.0)).map_err(|_| "play").unwrap();
		}
		_ => {
			if c.link != 2 {
				let b = match tk {
					5 | 8 => LfoBuilder::new().amplitude(0.0).offset(fv(late)),
					6 => LfoBuilder::new().waveform(Waveform::Pulse { width: 1.0 }).frequency(0.0).amplitude(fv(late)).offset(0.25),
					_ => LfoBuilder::new().waveform(Waveform::Saw).amplitude(1.0).offset(0.0).frequency(fv(late)),
				};
				keep.b = Some(m.add_modulator(b).unwrap());
			}
			if tk == 8 {
				let bid = keep.b.as_ref().unwrap().id();
				let v = Value::from_modulator(bid, Mapping { input_range: (-1.0, 3.0), output_range: (Decibels(-24.0), Decibels(3.0)), easing: Easing::Linear });
				let mut t = m.add_sub_track(TrackBuilder::new().volume(v)).unwrap();
				t.play(reader(0.5)).map_err(|_| "play").unwrap();
				keep.track = Some(t);
			} else {
				m.play(reader(0.0)).map_err(|_| "play").unwrap();
			}
		}
	}
	{
		let mut ids = shared.ids.lock().unwrap();
		ids.push(sid);
		if let Some(b) = &keep.b {
			ids.push(b.id());
		}
	}
	let blend_dur = if c.link == 3 { dur(1.5 * t_chunk).as_secs_f64() } else if c.link == 4 { dur(12.0 * t_chunk).as_secs_f64() } else { 0.0 };
	// observed parameter value (gain for the volumes) at the end of the previous chunk, while a tweened link is on its way
	let mut hold_ref: Option<f64> = None;
	let mut blend_time = 0.0f64;
	let ltween = tween(blend_dur, Easing::Linear);
	let link_at = match c.link {
		0 => usize::MAX, // linked from the beginning by the builder
		1 | 3 | 4 | 5 => c.link_at,
		_ => 0,
	};
	let mut p_prev: Option<f64> = if late && !relink { Some(init) } else { None }; // expected parameter value of the previous chunk
	let mut linked = !late;
	let mut s_prev: Option<f64> = None;
	let mut s_alive = true;
	let mut clock_pos = 0.0f64;
	let mut b_phase = 0.0f64;
	let mut frame0 = 0usize;
	let mut chunk_no = 0usize;
	let mut observed: Vec<i64> = vec![];
	let mut failed = false;
	let mut buf = vec![0.0f32; 2 * (2 * c.ibs + 2)];
	for (j, n) in schedule(c.ibs).into_iter().enumerate() {
		// ---- gameplay-thread events before callback j
		if matches!(c.src, Src::Tw { at, .. } if at == j) {
			if let (Some(SrcH::Tw(h)), Src::Tw { target, d, e, .. }, SrcM::Tw(tm)) = (s.as_mut(), c.src, &mut sm) {
				h.set(target, tween(d * t_chunk, e));
				tm.set(target, d * t_chunk, e, None);
			}
		}
		if j == link_at {
			linked = true;
			match tk {
				0 => keep.sound.as_mut().unwrap().set_volume(db(false), ltween),
				1 => keep.track.as_mut().unwrap().set_volume(db(false), ltween),
				2 => m.main_track().set_volume(db(false), ltween),
				3 => keep.eff.as_mut().unwrap().set_volume(db(false), ltween),
				4 => keep.clock.as_mut().unwrap().set_speed(cs(lo, hi), ltween),
				5 | 8 => keep.b.as_mut().unwrap().set_offset(fv(false), ltween),
				6 => keep.b.as_mut().unwrap().set_amplitude(fv(false), ltween),
				_ => keep.b.as_mut().unwrap().set_frequency(fv(false), ltween),
			}
		}
		if Some(j) == c.drop_x {
			x = None;
		}
		if Some(j) == c.drop_s {
			s = None;
			s_alive = false;
		}
		// ---- the callback
		let rep = rig::callback(&mut m, &mut buf, n, 2);
		rig::report_cb(ctx, &rep, &format!("chain target={}", TK_NAMES[tk]), &|| c.text());
		if rep.panic.is_some() {
			return true;
		}
		let recs = shared.take();
		let sizes: Vec<usize> = (0..n).step_by(c.ibs).map(|a| c.ibs.min(n - a)).collect();
		if recs.len() != sizes.len() || recs.iter().zip(&sizes).any(|(r, s)| r.len as usize != *s) {
			ctx.fail(
				format!("chunking: a sound is not processed once per internal chunk :: ibs {}", if c.ibs == 1 { "1" } else { ">1" }),
				format!("callback {} of {} frames: process calls of {:?} frames, expected {:?} :: {}", j, n, recs.iter().map(|r| r.len).collect::<Vec<_>>(), sizes, c.text()),
			);
			return true;
		}
		let mut a = 0usize;
		for (rec, &len) in recs.iter().zip(&sizes) {
			let dtc = len as f64 / SR as f64;
			let last = a + len - 1; // index inside this callback's buffer
			let gl = frame0 + last; // index in the whole run
			ctx.transitions += 1;
			// -- the source's own curve
			let s_obs = rec.vals[0];
			if s_alive {
				let (ok, want) = match &mut sm {
					SrcM::Tw(tm) => {
						tm.update(dtc);
						(s_obs.map(|v| close(v, tm.v, 4.0)).unwrap_or(false), tm.v)
					}
					SrcM::Lfo(lm) => {
						lm.update(dtc);
						(s_obs.map(|v| lm.matches(v) && lm.in_bounds(v)).unwrap_or(false), lm.value())
					}
				};
				ctx.state(hash64(&(quant(want), chunk_no)));
				if !ok && !failed {
					failed = true;
					let what = match c.src {
						Src::Tw { .. } => "tweener".to_string(),
						Src::Lfo { wf, cyc, .. } => format!("lfo waveform={:?}{}", wf, if cyc > 1.0 { " more than one cycle per chunk" } else { "" }),
					};
					ctx.fail(
						format!("manager: modulator value read in a chunk differs from reference :: {}", what),
						format!("callback {} chunk #{} ({} frames): read {:?}, reference {} :: {}", j, chunk_no, len, s_obs, want, c.text()),
					);
				}
			} else if s_obs.is_some() && !failed {
				failed = true;
				ctx.fail("manager: modulator still readable after its handle was dropped and a callback started", format!("callback {} chunk #{}: read {:?} :: {}", j, chunk_no, s_obs, c.text()));
			}
			// -- the linked parameter
			// a tweened link is on its way: the parameter is a blend, which the property does not constrain
			let blending = linked && (c.link == 3 || c.link == 4) && {
				blend_time += dtc;
				blend_time < blend_dur
			};
			let p_exp: Option<f64> = if blending {
				None
			} else if !linked {
				// (before a re-link the parameter follows the reversed mapping: not judged here)
				if relink { None } else { Some(init) }
			} else {
				match s_obs {
					Some(v) => Some(c.ms.eval(lo, hi, v)),
					None => p_prev,
				}
			};
			let p_lag: Option<f64> = s_prev.map(|v| c.ms.eval(lo, hi, v));
			// observation and expectation in one comparable number
			let b_obs = rec.vals[1];
			let to_obs = |p: f64, b_phase: f64, clock_pos: f64| -> f64 {
				match tk {
					0..=3 => base[gl] as f64 * amp(p),
					4 => clock_pos + p * dtc,
					5 | 8 => p,
					6 => 0.25 + p,
					_ => Wf::Saw.at((b_phase + dtc * p).rem_euclid(1.0)),
				}
			};
			let obs: Option<f64> = match tk {
				0..=3 => Some(buf[2 * last] as f64),
				4 => rec.clock.map(|(_, t, f)| t as f64 + f),
				_ => b_obs,
			};
			if let Some(o) = obs {
				observed.push(quant(o));
			}
			if blending {
				// "holds its last value once the modulator is removed" also while a tween towards the link is on its way
				let p_obs: Option<f64> = match (tk, obs) {
					(0..=3, Some(o)) if base[gl].abs() > 1e-3 => Some(o / base[gl] as f64),
					(5 | 8, Some(o)) => Some(o),
					(6, Some(o)) => Some(o - 0.25),
					_ => None,
				};
				if let (false, Some(h), Some(po), false) = (s_alive, hold_ref, p_obs, failed) {
					let mut bad = (po - h).abs() > 2e-5 * (1.0 + h.abs());
					let mut at = last;
					if !bad && tk <= 3 {
						// and frame by frame inside the chunk
						if let Some(i) = (a..last).find(|&i| base[frame0 + i].abs() > 1e-3 && (buf[2 * i] as f64 / base[frame0 + i] as f64 - h).abs() > 2e-5 * (1.0 + h.abs())) {
							bad = true;
							at = i;
						}
					}
					if bad {
						failed = true;
						ctx.fail(
							format!("link: parameter does not hold its last value after the modulator is removed :: target={}, removed during a tween towards the link", TK_NAMES[tk]),
							format!("callback {} chunk #{} frame {}: observed parameter {} ({}), at the end of the previous chunk {} :: {}", j, chunk_no, at, po, if tk <= 3 { "gain" } else { "value" }, h, c.text()),
						);
					}
				}
				hold_ref = p_obs.or(hold_ref);
			}
			if let (Some(p), false) = (p_exp, failed) {
				let want = to_obs(p, b_phase, clock_pos);
				let tol = match tk {
					0..=3 => 2e-6 + 2e-5 * want.abs(),
					_ => 1e-9 * (1.0 + want.abs()),
				};
				let eq = |o: f64, w: f64| (o - w).abs() <= tol || (tk == 7 && [-1e-9, 1e-9].iter().any(|d| (o - Wf::Saw.at((b_phase + dtc * p + d).rem_euclid(1.0))).abs() <= tol));
				let good = obs.map(|o| eq(o, want)).unwrap_or(false);
				if !good {
					failed = true;
					let lag = match (obs, p_lag) {
						(Some(o), Some(pl)) => (o - to_obs(pl, b_phase, clock_pos)).abs() <= tol,
						_ => false,
					};
					let sig = if linked && s_obs.is_none() {
						format!("link: parameter does not hold its last value after the modulator is removed :: target={}", TK_NAMES[tk])
					} else if !linked {
						format!("link: parameter with a fixed value does not produce it :: target={}", TK_NAMES[tk])
					} else {
						format!("link: parameter differs from mapping(modulator value of the same chunk) :: {}", c.feature())
					};
					ctx.fail(
						sig,
						format!(
							"callback {} chunk #{} ({} frames, ends at frame {}): observed {:?}, expected {} (parameter {}; modulator read in this chunk {:?}, in the previous chunk {:?}){} :: {}",
							j, chunk_no, len, gl, obs, want, p, s_obs, s_prev, if lag { " -- the observation equals the mapping of the PREVIOUS chunk's modulator value: one-chunk lag" } else { "" }, c.text()
						),
					);
				} else if tk <= 3 && len > 1 {
					// inside the chunk the gain stays between the previous and the current value
					if let Some(pp) = p_prev {
						for i in a..last {
							let (g0, g1) = (base[frame0 + i] as f64 * amp(pp), base[frame0 + i] as f64 * amp(p));
							let o = buf[2 * i] as f64;
							if o < g0.min(g1) - 2e-5 || o > g0.max(g1) + 2e-5 {
								failed = true;
								ctx.fail(
									format!("link: gain inside a chunk leaves the interval between the previous and the current parameter value :: target={}", TK_NAMES[tk]),
									format!("callback {} chunk #{} frame {}: {} not within [{}, {}] :: {}", j, chunk_no, i, o, g0.min(g1), g0.max(g1), c.text()),
								);
								break;
							}
						}
					}
				}
			}
			// -- advance the parts of the reference that integrate the parameter
			if let Some(p) = p_exp {
				clock_pos += p * dtc;
				b_phase = (b_phase + dtc * p).rem_euclid(1.0);
				if tk == 8 && !failed {
					// second stage: the track volume follows B as read in this chunk
					if let Some(b) = b_obs {
						let want = 0.5 * amp(-24.0 + 27.0 * ((b + 1.0) / 4.0).clamp(0.0, 1.0));
						let o = buf[2 * last] as f64;
						if (o - want).abs() > 2e-6 + 2e-5 * want {
							failed = true;
							ctx.fail(
								format!("link: parameter differs from mapping(modulator value of the same chunk) :: target=sub-track volume linked to the chained lfo{}", if c.drop_x.is_some() && c.blame_drop { ", after dropping an older modulator" } else { "" }),
								format!("callback {} chunk #{}: output {} expected {} (B read {}) :: {}", j, chunk_no, o, want, b, c.text()),
							);
						}
					}
				}
			}
			p_prev = if blending { None } else { p_exp.or(p_prev) };
			s_prev = s_obs;
			a += len;
			chunk_no += 1;
		}
		frame0 += n;
	}
	drop(x);
	if observed.iter().any(|v| *v != observed[0]) {
		ctx.nontrivial_extra += 1;
	}
	ctx.outcome(hash64(&observed));
	failed
}

// ---------------------------------------------------------------------------------------------
// E: add/drop histories with counting probe modulators

fn fam_e(ibs: usize, letters: &mut Vec<u8>, depth: usize, ctx: &mut Ctx) {
	if letters.len() == depth {
		ctx.evals += 1;
		ctx.traces += 1;
		let ls = letters.clone();
		let text = || format!("manager(sample_rate 8, internal_buffer_size {}, modulator_capacity 8); history {:?} then 2 callbacks; every callback has {} frames; 'add' = probe modulator #k (value 1000k + its update count) that reads all older probe modulators", ibs, ls.iter().map(|l| LETTERS[*l as usize]).collect::<Vec<_>>(), ibs + 1);
		ctx.count("E_histories", 1);
		ctx.sample(hash64(&ls) % 4096, text);
		if let Err(p) = catch(|| history(ibs, &ls, ctx, &text)) {
			ctx.fail(format!("panic: {} :: modulator add/drop history", p), text());
		}
		return;
	}
	for l in 0..NL as u8 {
		letters.push(l);
		fam_e(ibs, letters, depth, ctx);
		letters.pop();
	}
}

struct PM {
	state: u8, // 0 pending, 1 live, 2 gone
	flagged: bool,
	count: u64,
	handle: Option<PmHandle>,
	shared: Arc<PmShared>,
}

fn history(ibs: usize, letters: &[u8], ctx: &mut Ctx, text: &dyn Fn() -> String) {
	let shared = ReaderShared::new();
	let eshared = ReaderShared::new();
	let probe_effect: Box<dyn Effect> = Box::new(ReaderData { shared: eshared.clone(), level: 0.0 });
	let mut m = rig::manager(SR, ibs, rig::caps(8), MainTrackBuilder::new().with_built_effect(probe_effect));
	m.play(ReaderData { shared: shared.clone(), level: 0.0 }).map_err(|_| "play").unwrap();
	let mut mods: Vec<PM> = vec![];
	let mut ids: Vec<ModulatorId> = vec![];
	let mut order: Vec<usize> = vec![];
	let mut buf = vec![0.0f32; 2 * (ibs + 1)];
	let mut updated_any = false;
	let mut dropped_before = false; // an older modulator was removed while younger ones stay
	let all: Vec<u8> = letters.iter().copied().chain([3, 3]).collect(); // two closing callbacks
	for (step, l) in all.iter().enumerate() {
		ctx.transitions += 1;
		match l {
			0 => {
				if mods.len() < 8 {
					let idx = mods.len();
					let h = m.add_modulator(PmBuilder { idx, reads: ids.clone() }).unwrap();
					ids.push(h.id);
					shared.ids.lock().unwrap().push(h.id);
					eshared.ids.lock().unwrap().push(h.id);
					mods.push(PM { state: 0, flagged: false, count: 0, shared: h.shared.clone(), handle: Some(h) });
				}
			}
			1 | 2 | 4 => {
				let it: Vec<usize> = (0..mods.len()).filter(|i| mods[*i].handle.is_some()).collect();
				let pick = match *l {
					1 => it.first(),
					2 => it.last(),
					_ => it.get(it.len() / 2).filter(|_| it.len() >= 3),
				};
				if let Some(i) = pick {
					mods[*i].handle = None;
					mods[*i].flagged = true;
				}
			}
			_ => {
				// reference: flagged live modulators leave, pending ones join at the end in creation order
				let before = order.len();
				order.retain(|i| {
					if mods[*i].flagged {
						mods[*i].state = 2;
						false
					} else {
						true
					}
				});
				if order.len() < before && !order.is_empty() {
					dropped_before = true;
				}
				for i in 0..mods.len() {
					if mods[i].state == 0 {
						mods[i].state = 1;
						order.push(i);
					}
				}
				let n = ibs + 1;
				let rep = rig::callback(&mut m, &mut buf, n, 2);
				rig::report_cb(ctx, &rep, "modulator add/drop history", &|| text());
				if rep.panic.is_some() {
					return;
				}
				let recs = shared.take();
				let erecs = eshared.take();
				let sizes: Vec<usize> = (0..n).step_by(ibs).map(|a| ibs.min(n - a)).collect();
				if recs.len() != sizes.len() || erecs.len() != sizes.len() {
					ctx.fail("chunking: a sound is not processed once per internal chunk :: history", format!("step {}: {} process calls, expected {} :: {}", step, recs.len(), sizes.len(), text()));
					return;
				}
				for ((rec, erec), &len) in recs.iter().zip(&erecs).zip(&sizes) {
					let dtc = len as f64 / SR as f64;
					for &i in &order {
						mods[i].count += 1;
						updated_any = true;
						let log = mods[i].shared.log.lock().unwrap();
						let Some(r) = log.get(mods[i].count as usize - 1).copied() else {
							drop(log);
							ctx.fail(
								format!("order: modulator not updated in an internal chunk :: {}", if dropped_before { "after dropping an older modulator" } else { "no earlier drop" }),
								format!("step {}: probe #{} has {} updates, reference {} :: {}", step, i, mods[i].shared.log.lock().unwrap().len(), mods[i].count, text()),
							);
							return;
						};
						drop(log);
						if !close(r.dt, dtc, 1.0) {
							ctx.fail("order: modulator updated with a dt that is not the chunk's duration", format!("step {}: probe #{} dt {} expected {} :: {}", step, i, r.dt, dtc, text()));
							return;
						}
						for j in 0..i {
							let want = if mods[j].state == 1 { Some((1000 * j) as f64 + mods[j].count as f64) } else { None };
							if r.seen[j] != want {
								let stale = matches!((r.seen[j], want), (Some(a), Some(b)) if a == b - 1.0);
								ctx.fail(
									format!(
										"order: a modulator reads {} :: {}",
										if stale { "the previous chunk's value of an older modulator (it was updated before its source)" } else if want.is_none() { "a value from a modulator that was removed or not yet added" } else { "a wrong value from an older modulator" },
										if dropped_before { "after dropping an older modulator" } else { "no earlier drop" }
									),
									format!("step {}: probe #{} read {:?} from probe #{}, expected {:?} :: {}", step, i, r.seen[j], j, want, text()),
								);
								return;
							}
						}
					}
					// what a sound reads after all modulators were updated
					for j in 0..mods.len() {
						let want = if mods[j].state == 1 { Some((1000 * j) as f64 + mods[j].count as f64) } else { None };
						if rec.vals[j] != want || erec.vals[j] != want {
							ctx.fail(
								format!("order: a sound/effect reads a modulator value that is not the one of this chunk :: {}", if want.is_none() { "modulator removed or not yet added" } else { "live modulator" }),
								format!("step {}: sound read {:?}, main-track effect read {:?} from probe #{}, expected {:?} :: {}", step, rec.vals[j], erec.vals[j], j, want, text()),
							);
							return;
						}
					}
				}
			}
		}
		ctx.state(hash64(&(mods.iter().map(|p| (p.state, p.flagged)).collect::<Vec<_>>(), &order)));
	}
	for (i, p) in mods.iter().enumerate() {
		let n = p.shared.log.lock().unwrap().len() as u64;
		if n != p.count {
			ctx.fail(
				format!("order: modulator updated {} than once per internal chunk", if n > p.count { "more" } else { "less" }),
				format!("probe #{}: {} updates, {} chunks while it was live :: {}", i, n, p.count, text()),
			);
			return;
		}
	}
	if updated_any {
		ctx.nontrivial_extra += 1;
	}
	ctx.outcome(hash64(&(mods.iter().map(|p| (p.state, p.count)).collect::<Vec<_>>(), &order)));
}

// ---------------------------------------------------------------------------------------------
// F (E2): a parameter linked to a modulator that was added a moment ago. Whatever the interleaving of the
// gameplay thread's (add_modulator; play(sound linked to it)) with the audio thread's adoption of new
// resources, the sound's volume is the mapping of the modulator's value from its first audible frame on,
// and it keeps following the modulator afterwards.

fn fam_f(tier: Tier, which: u64, ctx: &mut Ctx) {
	use crate::rig;
	use crate::sched::{self, Config, Exec};
	use kira::sound::Region;
	use kira::track::{MainTrackBuilder, TrackBuilder};
	fn filt(s: &'static str) -> bool {
		s.starts_with("res.") || s.starts_with("rtrb.") || s.starts_with("arena.")
	}
	let cfg = Config { filter: filt, horizon: 4000, max_spin_rounds: 8, record_sites: true, ..Default::default() };
	#[derive(Debug, Clone, Default, PartialEq)]
	struct Obs {
		heard: Vec<f32>,
		later: Vec<f32>,
		monitors: Vec<String>,
	}
	let mapping = Mapping { input_range: (0.0, 1.0), output_range: (Decibels(-20.0), Decibels(0.0)), easing: Easing::Linear };
	let g = |v: f64| (0.5 * 10f64.powf((-20.0 + 20.0 * v) / 20.0)) as f32;
	let mut body = |prefix: &[u8]| -> (sched::RunResult, Obs) {
		let mut m = rig::manager(SR, 1, rig::caps(2), MainTrackBuilder::new());
		let mut renderer = m.backend_mut().renderer.take().expect("renderer");
		let obs = Arc::new(Mutex::new(Obs::default()));
		let back = Arc::new(Mutex::new(None));
		type Keep = (rig::Manager, kira::modulator::tweener::TweenerHandle, Option<kira::track::TrackHandle>, kira::sound::static_sound::StaticSoundHandle);
		let keep: Arc<Mutex<Option<Keep>>> = Arc::new(Mutex::new(None));
		let mut ex = Exec::begin(&cfg, prefix);
		{
			let keep = keep.clone();
			ex.spawn("game", move || {
				let tw = m.add_modulator(TweenerBuilder { initial_value: 0.25 }).expect("tweener");
				let vol: Value<Decibels> = Value::FromModulator { id: tw.id(), mapping };
				let data = rig::static_data(SR, rig::dc_frames(4, 0.5)).loop_region(Region::from(..)).volume(vol);
				if which == 0 {
					let h = m.play(data).expect("play");
					*keep.lock().unwrap() = Some((m, tw, None, h));
				} else {
					let mut t = m.add_sub_track(TrackBuilder::new()).expect("track");
					let h = t.play(data).expect("play");
					*keep.lock().unwrap() = Some((m, tw, Some(t), h));
				}
			});
		}
		{
			let (obs, back) = (obs.clone(), back.clone());
			ex.spawn("audio", move || {
				let mut buf = [0.0f32; 2];
				for _ in 0..3 {
					let rep = rig::callback_on(&mut renderer, &mut buf, 1, 2);
					let mut o = obs.lock().unwrap();
					if !rep.ok() {
						o.monitors.push(format!("{:?}", rep));
					}
					o.heard.push(buf[0]);
				}
				*back.lock().unwrap() = Some(renderer);
			});
		}
		let res = ex.run();
		let mut o = obs.lock().unwrap().clone();
		let kept = keep.lock().unwrap().take();
		if let (Some(mut r), Some((m, mut tw, t, h))) = (back.lock().unwrap().take(), kept) {
			let mut b = [0.0f32; 2];
			for _ in 0..2 {
				rig::callback_on(&mut r, &mut b, 1, 2);
				o.heard.push(b[0]);
			}
			tw.set(1.0, Tween { duration: Duration::ZERO, ..Default::default() });
			for _ in 0..3 {
				rig::callback_on(&mut r, &mut b, 1, 2);
				o.later.push(b[0]);
			}
			drop(r);
			drop((m, tw, t, h));
		}
		(res, o)
	};
	let mut outcomes = std::collections::HashSet::new();
	let mut fails: Vec<(String, String)> = vec![];
	let mut nontrivial = 0u64;
	let mut judge = |res: &sched::RunResult, o: &Obs, choices: &[u8]| {
		outcomes.insert(hash64(&format!("{:?}", o)));
		if choices.iter().any(|c| *c != 0) {
			nontrivial += 1;
		}
		for p in &res.panics {
			fails.push((format!("panic in a controlled thread: {} :: F #{}", p, which), sched::fmt_schedule(res)));
		}
		if let Some(mn) = o.monitors.first() {
			fails.push((format!("a callback racing with add_modulator / play panics, allocates or writes an ill-formed sample :: F #{}", which), format!("{}; {}", mn, sched::fmt_schedule(res))));
		}
		if let Some((k, x)) = o.heard.iter().enumerate().find(|(_, x)| **x != 0.0 && (**x - g(0.25)).abs() > 1e-6) {
			fails.push((
				format!("a parameter linked to a freshly added modulator is not the mapping of the modulator's value :: F #{}", which),
				format!("frame {} = {}, expected silence (not adopted yet) or {} (mapping of 0.25); heard {:?}; {}", k, x, g(0.25), o.heard, sched::fmt_schedule(res)),
			));
			return;
		}
		if o.later.last().map(|x| (*x - g(1.0)).abs() > 1e-6).unwrap_or(true) {
			fails.push((
				format!("a parameter linked to a freshly added modulator does not follow the modulator afterwards :: F #{}", which),
				format!("after tweener.set(1.0, instant): heard {:?}, expected {}; before {:?}; {}", o.later, g(1.0), o.heard, sched::fmt_schedule(res)),
			));
		}
	};
	let stats = sched::explore(tier.pick(Some(2), Some(3)), 3_000_000, &mut body, &mut judge);
	sched::report(ctx, &stats);
	if let Some(e) = stats.error {
		ctx.fail(format!("MACHINERY: scheduler error: {}", e), "");
	}
	ctx.schedules += stats.schedules;
	ctx.evals += stats.schedules;
	ctx.traces += stats.schedules;
	ctx.transitions += stats.schedules * stats.max_points as u64;
	ctx.count(&format!("f_schedules[#{}]", which), stats.schedules);
	ctx.count(&format!("f_max_points[#{}]", which), stats.max_points as u64);
	ctx.count("f_capped", stats.capped as u64);
	for o in outcomes {
		ctx.outcome(o);
		ctx.state(o);
	}
	ctx.nontrivial_extra += nontrivial;
	for (s, d) in fails {
		ctx.fail(s, d);
	}
}

// ---------------------------------------------------------------------------------------------
// G: linked parameters of a sound that is waiting (delayed start, pause, decoder underrun) keep following the modulator

/// (a) a tweener tween scheduled on a clock: it waits while the clock is short of the time, runs while the clock exists, and
///     HOLDS (never starts / stops where it is) once the clock no longer exists;
/// (b) vector-valued links (emitter and listener position) go through the same mapping as scalar ones: clamped, EASED, interpolated.
fn fam_h(ctx: &mut Ctx) {
	// ---- (a)
	for (d, e) in [(0.0f64, Easing::Linear), (1.0, Easing::Linear), (1.0, Easing::InPowi(2))] {
		for gone_after in [0usize, 2, 4, 7] {
			ctx.evals += 1;
			ctx.traces += 1;
			let mut with_clock = |ticks: u64, frac: f64| {
				let mut b = MockInfoBuilder::new();
				let m = b.add_modulator(0.0);
				let c = b.add_clock(true, ticks, frac);
				(m, c, b.build())
			};
			let (mid, cid, _) = with_clock(0, 0.0);
			let no_clock = {
				let mut b = MockInfoBuilder::new();
				b.add_modulator(0.0);
				b.build()
			};
			let (mut tw, mut h) = TweenerBuilder { initial_value: 0.25 }.build(mid);
			h.set(1.0, Tween { start_time: StartTime::ClockTime(kira::clock::ClockTime { clock: cid, ticks: 2, fraction: 0.0 }), duration: dur(d), easing: e });
			let dt = 0.25;
			let mut model = TwM { v: 0.25, st: None };
			let mut started = false;
			let mut vals = vec![];
			let mut bad = None;
			for k in 0..12usize {
				// the clock advances half a tick per update: it reaches tick 2 at update 4
				let ticks_f = 0.5 * k as f64;
				let info = if k >= gone_after { None } else { Some(with_clock(ticks_f as u64, ticks_f.fract()).2) };
				tw.on_start_processing();
				match &info {
					Some(i) => tw.update(dt, i),
					None => tw.update(dt, &no_clock),
				}
				if info.is_some() && ticks_f >= 2.0 {
					if !started {
						started = true;
						model.set(1.0, d, e, None);
					}
					model.update(dt);
				}
				vals.push(tw.value());
				ctx.transitions += 1;
				if !close(tw.value(), model.v, 4.0) && bad.is_none() {
					bad = Some(format!("update #{}: value {}, expected {} ({})", k, tw.value(), model.v, if info.is_none() { "the clock no longer exists: the value holds" } else if ticks_f < 2.0 { "the clock is short of the time" } else { "the tween runs" }));
				}
			}
			if let Some(b) = bad {
				ctx.fail(
					"tweener: a tween scheduled on a clock does not wait for / run with / hold without that clock :: clock-timed tween".to_string(),
					format!("tweener(0.25).set(1.0, Tween {{ start at tick 2 of a clock, duration {} s, {:?} }}); 12 updates of 0.25 s, the clock advances half a tick per update and no longer exists from update #{} on; {}; values {:?}", d, e, gone_after, b, vals),
				);
			} else {
				ctx.nontrivial_extra += 1;
			}
			ctx.state(hash64(&("fam_h a", quant(d), format!("{:?}", e), gone_after)));
		}
	}
	// ---- (b)
	use kira::track::SpatialTrackBuilder;
	for e in [Easing::Linear, Easing::InPowi(2), Easing::OutPowi(2), Easing::InOutPowi(3)] {
		for at in [0.0f64, 0.25, 0.5, 1.0, 1.5] {
			for on_listener in [false, true] {
				ctx.evals += 1;
				ctx.traces += 1;
				let mut m = rig::manager(SR, 4, rig::caps(4), MainTrackBuilder::new());
				let tw = m.add_modulator(TweenerBuilder { initial_value: at }).unwrap();
				let v = |x: f32| mint::Vector3 { x, y: 0.0f32, z: 0.0f32 };
				let linked: Value<mint::Vector3<f32>> = Value::FromModulator { id: tw.id(), mapping: Mapping { input_range: (0.0, 1.0), output_range: (v(1.0), v(17.0)), easing: e } };
				let q = mint::Quaternion { v: v(0.0), s: 1.0f32 };
				let sp = SpatialTrackBuilder::new().distances((1.0, 17.0)).attenuation_function(Some(Easing::Linear)).spatialization_strength(0.0);
				// the moving end is linked; the other one rests at the origin
				let l = if on_listener { m.add_listener(linked, q).unwrap() } else { m.add_listener(v(0.0), q).unwrap() };
				let mut t = if on_listener { m.add_spatial_sub_track(&l, v(0.0), sp).unwrap() } else { m.add_spatial_sub_track(&l, linked, sp).unwrap() };
				let _s = t.play(rig::static_data(SR, rig::dc_frames(4, 0.5)).loop_region(kira::sound::Region::from(..))).unwrap();
				let mut out = vec![];
				for _ in 0..4 {
					rig::render_stereo(&mut m, 4, &mut out);
				}
				let x = 1.0 + 16.0 * ease(e, at.clamp(0.0, 1.0));
				let rel = (x - 1.0) / 16.0;
				let want = if rel >= 1.0 { 0.0 } else { 0.5 * 10f64.powf(-3.0 * rel) };
				let got = out[out.len() - 1].0 as f64;
				if (got - want).abs() > 2e-5 {
					ctx.fail(
						format!("link: parameter differs from mapping(modulator value of the same chunk) :: target={} position (vector-valued link)", if on_listener { "listener" } else { "spatial track" }),
						format!("{} position linked to a tweener at {} through Mapping{{input (0,1), output ((1,0,0), (17,0,0)), {:?}}}: distance {} expected, level {} expected (linear attenuation over 1..17), got {}", if on_listener { "listener" } else { "emitter" }, at, e, x, want, got),
					);
				} else {
					ctx.nontrivial_extra += 1;
				}
				ctx.state(hash64(&("fam_h b", format!("{:?}", e), quant(at), on_listener)));
				drop((t, l, tw));
			}
		}
	}
	ctx.outcome(hash64(&"fam_h"));
}

fn fam_g(which: u64, ctx: &mut Ctx) {
	use crate::probes::{ScriptedDecoder, SoundHandle};
	use kira::sound::streaming::StreamingSoundData;
	use kira::sound::Region;
	let ibs = 4usize;
	let mapping = Mapping { input_range: (0.0, 1.0), output_range: (Decibels(-20.0), Decibels(0.0)), easing: Easing::Linear };
	let instant = Tween { duration: Duration::ZERO, ..Default::default() };
	// one run: streaming (true) or static (false); returns the left channel of every rendered frame
	let mut run = |streaming: bool, starve: bool| -> Vec<f32> {
		let mut m = rig::manager(SR, ibs, rig::caps(2), MainTrackBuilder::new());
		let mut tw = m.add_modulator(TweenerBuilder { initial_value: 0.0 }).expect("tweener");
		let vol: Value<Decibels> = Value::FromModulator { id: tw.id(), mapping };
		let start = if which == 0 { StartTime::Delayed(Duration::from_secs_f64(3.0 * ibs as f64 / SR as f64)) } else { StartTime::Immediate };
		let first = crate::pacer::count();
		let mut stats = None;
		let mut h: Box<dyn SoundHandle> = if streaming {
			let (dec, st) = ScriptedDecoder::new(rig::dc_frames(16, 0.5), SR, vec![3, 1, 2], 1);
			stats = Some(st);
			Box::new(m.play(StreamingSoundData::from_decoder(dec).loop_region(Region::from(..)).volume(vol).start_time(start)).map_err(|_| ()).expect("play"))
		} else {
			Box::new(m.play(rig::static_data(SR, rig::dc_frames(16, 0.5)).loop_region(Region::from(..)).volume(vol).start_time(start)).expect("play"))
		};
		let mut out = vec![];
		for cb in 0..9usize {
			match (which, cb) {
				(0, 1) | (1, 2) | (2, 2) => tw.set(1.0, instant),
				(1, 1) => h.pause(instant),
				(1, 5) => h.resume(instant),
				_ => {}
			}
			if streaming {
				// underrun script: the decoder gets nothing before callbacks 1..=4
				let steps = if starve && (1..=4).contains(&cb) { 0 } else { ibs as u64 + 6 };
				if steps > 0 {
					crate::pacer::step_all_from(first, steps);
				}
			}
			let mut sink = vec![];
			let rep = rig::render_stereo(&mut m, ibs, &mut sink);
			if !rep.ok() {
				panic!("callback monitor: {:?}", rep);
			}
			out.extend(sink.iter().map(|f| f.0));
		}
		if let Some(st) = stats {
			h.stop(instant);
			let mut sink = vec![];
			rig::render_stereo(&mut m, ibs, &mut sink);
			drop(m);
			crate::probes::reap_decoder(first, &st);
		}
		out
	};
	ctx.evals += 2;
	ctx.traces += 2;
	let script = ["delayed start of 3 chunks; tweener set to 1 (instant) before callback 1", "pause before callback 1; tweener set to 1 before callback 2; resume before callback 5", "decoder starved during callbacks 1..=4; tweener set to 1 before callback 2"][which as usize];
	let desc = format!("looping DC 0.5 sound, volume = mapping(tweener) with 0..1 -> -20..0 dB, internal buffer {} = callback size, 9 callbacks; {}", ibs, script);
	if which < 2 {
		let (a, b) = (run(false, false), run(true, false));
		if let Some(i) = (0..a.len()).find(|&i| (a[i] - b[i]).abs() > 1e-6) {
			ctx.fail(
				format!("a streaming sound's linked parameter does not follow the modulator while the sound {} (differs from a static sound in the same script) :: G", ["waits for its start time", "is paused"][which as usize]),
				format!("{}; frame {}: static {} streaming {}; static {:?}; streaming {:?}", desc, i, a[i], b[i], a, b),
			);
		}
		if a.iter().any(|x| *x != 0.0) {
			ctx.nontrivial_extra += 1;
		}
		ctx.outcome(hash64(&a.iter().map(|x| x.to_bits()).collect::<Vec<_>>()));
	} else {
		let b = run(true, true);
		// after the gap (callbacks 5..) the modulator has been at 1 for three chunks: every audible frame is 0.5 x 0 dB
		let tail = &b[5 * ibs..];
		if let Some((i, x)) = tail.iter().enumerate().find(|(_, x)| **x != 0.0 && (**x - 0.5).abs() > 1e-6) {
			ctx.fail(
				"a streaming sound's linked parameter does not follow the modulator while the sound waits for its decoder :: G",
				format!("{}; frame {} after the gap = {}, expected 0.5 (the mapping of the tweener's value 1); all frames {:?}", desc, i, x, b),
			);
		}
		if !tail.iter().any(|x| *x != 0.0) {
			ctx.fail("the streaming sound is never heard again after the underrun :: G", format!("{}; {:?}", desc, b));
		}
		ctx.nontrivial_extra += 1;
		ctx.outcome(hash64(&b.iter().map(|x| x.to_bits()).collect::<Vec<_>>()));
	}
	ctx.state(hash64(&("G", which)));
}
