//! C07 — handle commands reach the audio thread exactly once; last write wins; none torn.
//!
//! E2: every interleaving (preemption-bounded DFS, switching before each atomic operation of the
//!     triple buffer and at kira's own sync points) of a gameplay thread issuing k in {1,2,3}
//!     writes with an audio thread performing reads / callbacks: the generic command channel,
//!     two channels side by side, a built-in handle (sound volume), a multi-write method
//!     (ClockHandle::stop) and a command issued before the resource's first callback.
//! E1: for every command kind of every built-in handle: differential laws on rendered audio
//!     (command before the first callback == built with that value; burst == last alone;
//!     takes effect in the next callback, not later).

use crate::engine::{hash64, Check, Ctx, Level, Tier};
use crate::json::J;
use crate::pacer;
use crate::probes::ScriptedDecoder;
use crate::rig::{self, catch, Manager};
use crate::sched::{self, Config, Exec};
use kira::clock::ClockSpeed;
use kira::command::{command_writer_and_reader, CommandReader, CommandWriter};
use kira::effect::compressor::CompressorBuilder;
use kira::effect::delay::DelayBuilder;
use kira::effect::distortion::{DistortionBuilder, DistortionKind};
use kira::effect::eq_filter::{EqFilterBuilder, EqFilterKind};
use kira::effect::filter::{FilterBuilder, FilterMode};
use kira::effect::panning_control::PanningControlBuilder;
use kira::effect::reverb::ReverbBuilder;
use kira::effect::volume_control::VolumeControlBuilder;
use kira::modulator::lfo::{LfoBuilder, Waveform};
use kira::modulator::tweener::TweenerBuilder;
use kira::sound::streaming::StreamingSoundData;
use kira::sound::{EndPosition, PlaybackPosition, Region};
use kira::track::{MainTrackBuilder, SendTrackBuilder, SpatialTrackBuilder, TrackBuilder};
use kira::{Decibels, Easing, Frame, Mapping, Mix, Panning, PlaybackRate, StartTime, Tween, Value};
use std::sync::atomic::{AtomicU64, Ordering};
use std::sync::{Arc, Mutex};
use std::time::Duration;

pub struct C07;

/// monitor reports (panic / allocation / ill-formed sample) from callbacks that ran under the scheduler
static MON: Mutex<Vec<String>> = Mutex::new(Vec::new());

const E2_NAMES: [&str; 7] = [
	"generic command channel: game writes k=1 payload || audio reads x3",
	"generic command channel: game writes k=2 payloads || audio reads x3",
	"generic command channel: game writes k=3 payloads || audio reads x3",
	"two channels of different kinds: game writes A1 B1 A2 || audio reads (A,B) x3",
	"static sound handle: set_volume x2 || 3 callbacks",
	"ClockHandle::stop() (multi-write) || 3 callbacks",
	"command before the first callback: play(sound); set_volume || 3 callbacks",
];

/// (index into kinds(), host) for every sound-handle command kind on every non-main host
fn hosted() -> Vec<(usize, u8)> {
	let mut v = vec![];
	for (i, k) in kinds().iter().enumerate() {
		if k.name.starts_with("static.") || k.name.starts_with("streaming.") {
			for host in 1..=3u8 {
				v.push((i, host));
			}
		}
	}
	v
}

fn e2_cases() -> u64 {
	E2_NAMES.len() as u64
}

impl Check for C07 {
	fn id(&self) -> &'static str {
		"C07"
	}
	fn level(&self) -> Level {
		Level::ModelChecking
	}
	fn num_cases(&self, _tier: Tier) -> u64 {
		e2_cases() + kinds().len() as u64 + 1 + hosted().len() as u64
	}
	fn describe(&self, _tier: Tier, idx: u64) -> String {
		if idx > e2_cases() + kinds().len() as u64 {
			let (ki, host) = hosted()[(idx - e2_cases() - kinds().len() as u64 - 1) as usize];
			format!("E1 command kind '{}' with the sound played on a {}: same three laws", kinds()[ki].name, HOST_NAMES[host as usize])
		} else if idx < e2_cases() {
			format!("E2 interleavings: {}", E2_NAMES[idx as usize])
		} else if idx == e2_cases() + kinds().len() as u64 {
			"E1 cross-kind / cross-resource non-interference scenarios".to_string()
		} else {
			format!("E1 command kind '{}': builder-equivalence, burst == last, applied in the next callback", kinds()[(idx - e2_cases()) as usize].name)
		}
	}
	fn sig_hint(&self, _tier: Tier, idx: u64) -> String {
		if idx > e2_cases() + kinds().len() as u64 {
			let (ki, host) = hosted()[(idx - e2_cases() - kinds().len() as u64 - 1) as usize];
			format!("kind {} @ {}", kinds()[ki].name, HOST_NAMES[host as usize])
		} else if idx < e2_cases() {
			format!("E2 {}", E2_NAMES[idx as usize])
		} else if idx == e2_cases() + kinds().len() as u64 {
			"cross-kind".to_string()
		} else {
			format!("kind {}", kinds()[(idx - e2_cases()) as usize].name)
		}
	}
	fn rule(&self) -> String {
		"E2: all schedules (preemption bound 3 quick / unbounded or 4 thorough) of 7 two-thread harnesses, scheduling points before every atomic operation of triple_buffer / rtrb / atomic-arena (instrumented copies) and at kira's verif sync points; oracle: applied sequence is a duplicate-free subsequence of the written one, payload redundancy intact, last write in force at the end, a write that returned before a read began is visible to that read. E1: for each of the command kinds of all built-in handles, rendered-audio differential laws at command positions 0..3. states = distinct observation traces; non-trivial = schedules with at least one preemption / scenes whose command changed the audio".into()
	}
	fn assumptions(&self) -> Vec<String> {
		vec![
			"interleavings are sequentially consistent; weak-memory reorderings inside triple_buffer are not modelled".into(),
			"the E1 part decides per-kind wiring (right writer, right reader, read once per callback); the concurrency of the shared command channel is decided by the E2 part".into(),
		]
	}
	fn extra_evidence(&self, tier: Tier) -> Vec<(String, J)> {
		vec![
			("preemption_bound".into(), J::s(tier.pick("unbounded (channel harnesses), 5 (two channels), 3 (manager harnesses)", "unbounded (channel harnesses, two channels), 5 (sound volume, clock stop), 4 (first callback)"))),
			("command_kinds".into(), J::arr_str(kinds().iter().map(|k| k.name.to_string()))),
		]
	}
	fn case_timeout_ms(&self, _tier: Tier) -> u64 {
		900_000
	}
	fn run_case(&self, tier: Tier, idx: u64, ctx: &mut Ctx) {
		if idx < e2_cases() {
			match idx {
				0..=2 => e2_channel(tier, idx as usize + 1, ctx),
				3 => e2_two_channels(tier, ctx),
				4 => e2_sound_volume(tier, ctx),
				5 => e2_clock_stop(tier, ctx),
				_ => e2_first_callback(tier, ctx),
			}
		} else if idx > e2_cases() + kinds().len() as u64 {
			let (ki, host) = hosted()[(idx - e2_cases() - kinds().len() as u64 - 1) as usize];
			let base = &kinds()[ki];
			let name: &'static str = Box::leak(format!("{} @ {}", base.name, HOST_NAMES[host as usize]).into_boxed_str());
			let k = CmdKind { name, run: base.run, builder_equiv: base.builder_equiv, immediate: base.immediate };
			CUR_HOST.with(|h| h.set(host));
			e1_kind(&k, ctx);
			CUR_HOST.with(|h| h.set(0));
		} else if idx == e2_cases() + kinds().len() as u64 {
			if let Err(p) = catch(|| cross_kind(ctx)) {
				ctx.fail(format!("panic: {} :: cross-kind", p), "");
			}
		} else {
			let k = &kinds()[(idx - e2_cases()) as usize];
			e1_kind(k, ctx);
		}
	}
}

// ---------------------------------------------------------------------------------------------
// E2 helpers

fn finish_e2(ctx: &mut Ctx, name: &str, stats: sched::ExploreStats, outcomes: std::collections::HashSet<u64>, nontrivial: u64, fails: Vec<(String, String)>) {
	if let Some(e) = stats.error {
		ctx.fail(format!("MACHINERY: scheduler error: {}", e), name.to_string());
	}
	ctx.schedules += stats.schedules;
	ctx.evals += stats.schedules;
	ctx.traces += stats.schedules;
	ctx.transitions += stats.schedules * stats.max_points as u64;
	ctx.count(&format!("schedules[{}]", name), stats.schedules);
	ctx.count(&format!("max_points[{}]", name), stats.max_points as u64);
	ctx.count("capped", stats.capped as u64);
	ctx.count("horizon_hits", stats.horizon_hits);
	ctx.count("livelocks", stats.livelocks);
	for o in outcomes {
		ctx.outcome(o);
		ctx.state(o);
	}
	ctx.nontrivial_extra += nontrivial;
	for (s, d) in fails {
		ctx.fail(s, d);
	}
	let mon: Vec<String> = std::mem::take(&mut *MON.lock().unwrap());
	if let Some(m) = mon.first() {
		ctx.fail(format!("a callback racing with handle calls panics, allocates or writes an ill-formed sample :: E2 {}", name), format!("{} report(s), first: {}", mon.len(), m));
	}
}

/// multi-word payload with a redundancy invariant (a torn command is detectable)
#[derive(Debug, Clone, Copy, PartialEq)]
struct Payload {
	seq: u64,
	inv: u64,
	pad: [u64; 3],
}
fn payload(seq: u64) -> Payload {
	Payload {
		seq,
		inv: !seq,
		pad: [seq * 3, seq * 5, seq * 7],
	}
}
fn intact(p: &Payload) -> bool {
	p.inv == !p.seq && p.pad == [p.seq * 3, p.seq * 5, p.seq * 7]
}

#[derive(Debug, Clone, Default, PartialEq)]
struct ChanObs {
	/// (logical time at which the read began, what it returned)
	reads: Vec<(u64, Option<Payload>)>,
	/// logical time at which write i returned
	write_done: Vec<u64>,
	epilogue: Option<Payload>,
}

fn judge_channel(k: usize, o: &ChanObs, tag: &str, sched_desc: &str, fails: &mut Vec<(String, String)>) {
	let mut last = 0u64;
	let mut applied: Vec<u64> = vec![];
	for (_, r) in &o.reads {
		if let Some(p) = r {
			if !intact(p) {
				fails.push((format!("the audio thread observes a half-written command :: {}", tag), format!("{:?}; {}", o, sched_desc)));
				return;
			}
			if p.seq <= last {
				fails.push((
					format!(
						"{} :: {}",
						if p.seq == last { "a command is applied twice" } else { "an older command is applied after a newer one" },
						tag
					),
					format!("{:?}; {}", o, sched_desc),
				));
				return;
			}
			if p.seq as usize > k {
				fails.push((format!("a command that was never written is applied :: {}", tag), format!("{:?}; {}", o, sched_desc)));
				return;
			}
			last = p.seq;
			applied.push(p.seq);
		}
	}
	// a write that returned before a read began is visible to that read (or was applied earlier)
	let mut seen = 0u64;
	for (t, r) in &o.reads {
		let must: u64 = o.write_done.iter().enumerate().filter(|(_, w)| **w < *t).map(|(i, _)| i as u64 + 1).max().unwrap_or(0);
		if let Some(p) = r {
			seen = seen.max(p.seq);
		}
		if seen < must {
			fails.push((
				format!("a command written before the read began is not applied by that read (applied late or lost) :: {}", tag),
				format!("read at t={} returned {:?} but write #{} had returned; {:?}; {}", t, r.map(|p| p.seq), must, o, sched_desc),
			));
			return;
		}
	}
	// after everything: the last write is in force
	let final_seen = o.epilogue.map(|p| p.seq).unwrap_or(0).max(last);
	if let Some(p) = &o.epilogue {
		if !intact(p) || p.seq <= last {
			fails.push((format!("the final read returns a stale / duplicate / torn command :: {}", tag), format!("{:?}; {}", o, sched_desc)));
			return;
		}
	}
	if final_seen != k as u64 {
		fails.push((format!("the last written command is lost :: {}", tag), format!("{:?}; {}", o, sched_desc)));
	}
}

fn chan_filter(s: &'static str) -> bool {
	s.starts_with("cmd.") || s.starts_with("tb.")
}

fn e2_channel(tier: Tier, k: usize, ctx: &mut Ctx) {
	let cfg = Config {
		filter: chan_filter,
		horizon: 300,
		max_spin_rounds: 8,
		record_sites: true,
		..Default::default()
	};
	let mut body = |prefix: &[u8]| -> (sched::RunResult, ChanObs) {
		let (mut w, mut r): (CommandWriter<Payload>, CommandReader<Payload>) = command_writer_and_reader();
		let clock = Arc::new(AtomicU64::new(1));
		let obs = Arc::new(Mutex::new(ChanObs::default()));
		let back: Arc<Mutex<Option<CommandReader<Payload>>>> = Arc::new(Mutex::new(None));
		let mut ex = Exec::begin(&cfg, prefix);
		{
			let (clock, obs) = (clock.clone(), obs.clone());
			ex.spawn("game", move || {
				for i in 1..=k as u64 {
					w.write(payload(i));
					let t = clock.fetch_add(1, Ordering::SeqCst);
					obs.lock().unwrap().write_done.push(t);
				}
				std::mem::forget(w); // the writer stays alive (a dropped handle is a different scenario)
			});
		}
		{
			let (clock, obs, back) = (clock.clone(), obs.clone(), back.clone());
			ex.spawn("audio", move || {
				for _ in 0..3 {
					let t = clock.fetch_add(1, Ordering::SeqCst);
					let v = r.read();
					obs.lock().unwrap().reads.push((t, v));
				}
				*back.lock().unwrap() = Some(r);
			});
		}
		let res = ex.run();
		let mut o = obs.lock().unwrap().clone();
		if let Some(mut r) = back.lock().unwrap().take() {
			o.epilogue = r.read();
		}
		(res, o)
	};
	let mut outcomes = std::collections::HashSet::new();
	let mut fails = vec![];
	let mut nontrivial = 0u64;
	let tag = format!("generic channel k={}", k);
	let mut judge = |res: &sched::RunResult, o: &ChanObs, choices: &[u8]| {
		outcomes.insert(hash64(&format!("{:?}", o.reads.iter().map(|r| r.1.map(|p| p.seq)).collect::<Vec<_>>())));
		if choices.iter().any(|c| *c != 0) {
			nontrivial += 1;
		}
		for p in &res.panics {
			fails.push((format!("panic in a controlled thread: {} :: {}", p, tag), sched::fmt_schedule(res)));
		}
		judge_channel(k, o, &tag, &sched::fmt_schedule(res), &mut fails);
	};
	let stats = sched::explore(tier.pick(None, None), 3_000_000, &mut body, &mut judge);
	sched::report(ctx, &stats);
	finish_e2(ctx, &tag, stats, outcomes, nontrivial, fails);
}

fn e2_two_channels(tier: Tier, ctx: &mut Ctx) {
	let cfg = Config {
		filter: chan_filter,
		horizon: 400,
		max_spin_rounds: 8,
		record_sites: true,
		..Default::default()
	};
	type Obs = (ChanObs, ChanObs);
	let mut body = |prefix: &[u8]| -> (sched::RunResult, Obs) {
		let (mut wa, mut ra): (CommandWriter<Payload>, CommandReader<Payload>) = command_writer_and_reader();
		let (mut wb, mut rb): (CommandWriter<(u64, f64)>, CommandReader<(u64, f64)>) = command_writer_and_reader();
		let clock = Arc::new(AtomicU64::new(1));
		let oa = Arc::new(Mutex::new(ChanObs::default()));
		let ob = Arc::new(Mutex::new(ChanObs::default()));
		let back: Arc<Mutex<Option<(CommandReader<Payload>, CommandReader<(u64, f64)>)>>> = Arc::new(Mutex::new(None));
		let mut ex = Exec::begin(&cfg, prefix);
		{
			let (clock, oa, ob) = (clock.clone(), oa.clone(), ob.clone());
			ex.spawn("game", move || {
				wa.write(payload(1));
				oa.lock().unwrap().write_done.push(clock.fetch_add(1, Ordering::SeqCst));
				wb.write((1, 1.5));
				ob.lock().unwrap().write_done.push(clock.fetch_add(1, Ordering::SeqCst));
				wa.write(payload(2));
				oa.lock().unwrap().write_done.push(clock.fetch_add(1, Ordering::SeqCst));
				std::mem::forget(wa);
				std::mem::forget(wb);
			});
		}
		{
			let (clock, oa, ob, back) = (clock.clone(), oa.clone(), ob.clone(), back.clone());
			ex.spawn("audio", move || {
				for _ in 0..3 {
					let t = clock.fetch_add(1, Ordering::SeqCst);
					let v = ra.read();
					oa.lock().unwrap().reads.push((t, v));
					let t = clock.fetch_add(1, Ordering::SeqCst);
					let v = rb.read();
					ob.lock().unwrap().reads.push((t, v.map(|(s, x)| Payload { seq: s, inv: !s, pad: [s * 3, s * 5, if x == 1.5 { s * 7 } else { 0 }] })));
				}
				*back.lock().unwrap() = Some((ra, rb));
			});
		}
		let res = ex.run();
		let mut a = oa.lock().unwrap().clone();
		let mut b = ob.lock().unwrap().clone();
		if let Some((mut ra, mut rb)) = back.lock().unwrap().take() {
			a.epilogue = ra.read();
			b.epilogue = rb.read().map(|(s, x)| Payload { seq: s, inv: !s, pad: [s * 3, s * 5, if x == 1.5 { s * 7 } else { 0 }] });
		}
		(res, (a, b))
	};
	let mut outcomes = std::collections::HashSet::new();
	let mut fails = vec![];
	let mut nontrivial = 0u64;
	let mut judge = |res: &sched::RunResult, o: &Obs, choices: &[u8]| {
		outcomes.insert(hash64(&format!("{:?}{:?}", o.0.reads.iter().map(|r| r.1.map(|p| p.seq)).collect::<Vec<_>>(), o.1.reads.iter().map(|r| r.1.map(|p| p.seq)).collect::<Vec<_>>())));
		if choices.iter().any(|c| *c != 0) {
			nontrivial += 1;
		}
		judge_channel(2, &o.0, "two channels, kind A", &sched::fmt_schedule(res), &mut fails);
		judge_channel(1, &o.1, "two channels, kind B", &sched::fmt_schedule(res), &mut fails);
	};
	let stats = sched::explore(tier.pick(Some(5), None), 3_000_000, &mut body, &mut judge);
	sched::report(ctx, &stats);
	finish_e2(ctx, "two channels", stats, outcomes, nontrivial, fails);
}

fn dc_loop(sr: u32, v: f32) -> kira::sound::static_sound::StaticSoundData {
	rig::static_data(sr, rig::dc_frames(4, v)).loop_region(Region::from(..))
}
fn instant() -> Tween {
	Tween {
		start_time: StartTime::Immediate,
		duration: Duration::ZERO,
		easing: Easing::Linear,
	}
}

fn e2_sound_volume(tier: Tier, ctx: &mut Ctx) {
	let cfg = Config {
		filter: chan_filter,
		horizon: 3000,
		max_spin_rounds: 8,
		record_sites: true,
		..Default::default()
	};
	// gains heard in the 3 explored callbacks + 1 epilogue callback
	type Obs = Vec<f32>;
	let mut body = |prefix: &[u8]| -> (sched::RunResult, Obs) {
		let mut m = rig::manager(8, 1, rig::caps(2), MainTrackBuilder::new());
		let mut h = m.play(dc_loop(8, 1.0)).expect("play");
		let mut buf = vec![0.0f32; 4];
		rig::callback(&mut m, &mut buf, 1, 2);
		let mut renderer = m.backend_mut().renderer.take().unwrap();
		let heard = Arc::new(Mutex::new(vec![]));
		let back = Arc::new(Mutex::new(None));
		let keep = Arc::new(Mutex::new(None));
		let mut ex = Exec::begin(&cfg, prefix);
		{
			let keep = keep.clone();
			ex.spawn("game", move || {
				h.set_volume(Value::Fixed(Decibels(-6.0)), instant());
				h.set_volume(Value::Fixed(Decibels(-12.0)), instant());
				*keep.lock().unwrap() = Some(h);
			});
		}
		{
			let (heard, back) = (heard.clone(), back.clone());
			ex.spawn("audio", move || {
				let mut buf = [0.0f32; 2];
				for _ in 0..3 {
					let rep = rig::callback_on(&mut renderer, &mut buf, 1, 2);
					if !rep.ok() {
						MON.lock().unwrap().push(format!("{:?}", rep));
					}
					heard.lock().unwrap().push(buf[0]);
				}
				*back.lock().unwrap() = Some(renderer);
			});
		}
		let res = ex.run();
		let mut o = heard.lock().unwrap().clone();
		if let Some(mut r) = back.lock().unwrap().take() {
			let mut b = [0.0f32; 2];
			r.on_start_processing();
			r.process(&mut b, 2);
			o.push(b[0]);
			m.backend_mut().renderer = Some(r);
		}
		drop(keep);
		(res, o)
	};
	let mut outcomes = std::collections::HashSet::new();
	let mut fails = vec![];
	let mut nontrivial = 0u64;
	let levels = [1.0f32, Decibels(-6.0).as_amplitude(), Decibels(-12.0).as_amplitude()];
	let mut judge = |res: &sched::RunResult, o: &Obs, choices: &[u8]| {
		outcomes.insert(hash64(&format!("{:?}", o)));
		if choices.iter().any(|c| *c != 0) {
			nontrivial += 1;
		}
		for p in &res.panics {
			fails.push((format!("panic in a controlled thread: {} :: sound volume", p), sched::fmt_schedule(res)));
		}
		// each gain is one of the written levels, in write order (never back to an older one), last one at the end
		let mut stage = 0usize;
		for g in o {
			match levels.iter().position(|l| (l - g).abs() < 1e-6) {
				Some(p) if p >= stage => stage = p,
				Some(_) => {
					fails.push(("an older set_volume is applied after a newer one :: sound volume".into(), format!("gains {:?}; {}", o, sched::fmt_schedule(res))));
					return;
				}
				None => {
					fails.push(("a gain that was never commanded is heard (torn or invented command) :: sound volume".into(), format!("gains {:?}; {}", o, sched::fmt_schedule(res))));
					return;
				}
			}
		}
		if stage != 2 {
			fails.push(("the last set_volume is not in force one callback after the writes :: sound volume".into(), format!("gains {:?}; {}", o, sched::fmt_schedule(res))));
		}
	};
	let stats = sched::explore(tier.pick(Some(3), Some(5)), 4_000_000, &mut body, &mut judge);
	sched::report(ctx, &stats);
	finish_e2(ctx, "sound volume", stats, outcomes, nontrivial, fails);
}

fn e2_clock_stop(tier: Tier, ctx: &mut Ctx) {
	fn filt(s: &'static str) -> bool {
		s.starts_with("cmd.") || s.starts_with("tb.") || s.starts_with("clock.")
	}
	let cfg = Config {
		filter: filt,
		horizon: 3000,
		max_spin_rounds: 8,
		record_sites: true,
		..Default::default()
	};
	// after each explored callback: (ticking as published, published ticks, published fraction)
	type Obs = Vec<(bool, u64, f64)>;
	let mut body = |prefix: &[u8]| -> (sched::RunResult, Obs) {
		let mut m = rig::manager(4, 1, rig::caps(2), MainTrackBuilder::new());
		let mut clock = m.add_clock(ClockSpeed::TicksPerSecond(3.0)).unwrap();
		clock.start();
		let mut buf = vec![0.0f32; 4];
		rig::callback(&mut m, &mut buf, 1, 2);
		rig::callback(&mut m, &mut buf, 1, 2);
		let mut renderer = m.backend_mut().renderer.take().unwrap();
		let seen = Arc::new(Mutex::new(vec![]));
		let keep = Arc::new(Mutex::new(None));
		let stop_returned = Arc::new(AtomicU64::new(0));
		let mut ex = Exec::begin(&cfg, prefix);
		{
			let (keep, stop_returned) = (keep.clone(), stop_returned.clone());
			ex.spawn("game", move || {
				clock.stop();
				stop_returned.store(1, Ordering::SeqCst);
				*keep.lock().unwrap() = Some(clock);
			});
		}
		{
			let (seen, keep, stop_returned) = (seen.clone(), keep.clone(), stop_returned.clone());
			ex.spawn("audio", move || {
				let mut buf = [0.0f32; 2];
				for _ in 0..3 {
					let rep = rig::callback_on(&mut renderer, &mut buf, 1, 2);
					if !rep.ok() {
						MON.lock().unwrap().push(format!("{:?}", rep));
					}
					// observed on the audio thread at the callback boundary; only meaningful once stop() has returned
					if stop_returned.load(Ordering::SeqCst) == 1 {
						if let Some(c) = keep.lock().unwrap().as_ref() {
							// uninstrumented peek: the scheduler must not switch here
							let t = c.time();
							seen.lock().unwrap().push((c.ticking(), t.ticks, t.fraction));
						}
					}
				}
				drop(renderer);
			});
		}
		let res = ex.run();
		let o = seen.lock().unwrap().clone();
		drop(keep);
		drop(m);
		(res, o)
	};
	let mut outcomes = std::collections::HashSet::new();
	let mut fails = vec![];
	let mut nontrivial = 0u64;
	let mut judge = |res: &sched::RunResult, o: &Obs, choices: &[u8]| {
		outcomes.insert(hash64(&format!("{:?}", o)));
		if choices.iter().any(|c| *c != 0) {
			nontrivial += 1;
		}
		// after stop() has returned and a callback has *started after that*, the clock must be fully stopped:
		// not ticking and at zero. A callback that shows "not ticking" with a non-zero time, or zero time while
		// still ticking, has applied only half of stop().
		for (i, (ticking, ticks, frac)) in o.iter().enumerate() {
			let zero = *ticks == 0 && *frac == 0.0;
			if i >= 1 && (*ticking || !zero) {
				fails.push((
					"ClockHandle::stop() is observed half-applied across a callback boundary (ticking flag and reset reach the audio thread in different callbacks, or the zeroed time is overwritten by a stale publication) :: clock stop".into(),
					format!("observations after stop() returned {:?}; {}", o, sched::fmt_schedule(res)),
				));
				return;
			}
		}
	};
	let stats = sched::explore(tier.pick(Some(3), Some(5)), 4_000_000, &mut body, &mut judge);
	sched::report(ctx, &stats);
	finish_e2(ctx, "clock stop", stats, outcomes, nontrivial, fails);
}

fn e2_first_callback(tier: Tier, ctx: &mut Ctx) {
	fn filt(s: &'static str) -> bool {
		s.starts_with("cmd.") || s.starts_with("tb.") || s.starts_with("res.") || s.starts_with("rtrb.") || s.starts_with("arena.")
	}
	let cfg = Config {
		filter: filt,
		horizon: 4000,
		max_spin_rounds: 8,
		record_sites: true,
		..Default::default()
	};
	type Obs = Vec<f32>;
	let mut body = |prefix: &[u8]| -> (sched::RunResult, Obs) {
		let mut m = rig::manager(8, 1, rig::caps(2), MainTrackBuilder::new());
		let mut renderer = m.backend_mut().renderer.take().unwrap();
		let heard = Arc::new(Mutex::new(vec![]));
		let back = Arc::new(Mutex::new(None));
		let keep = Arc::new(Mutex::new(None));
		let mut ex = Exec::begin(&cfg, prefix);
		{
			let keep = keep.clone();
			ex.spawn("game", move || {
				let mut h = m.play(dc_loop(8, 1.0)).expect("play");
				h.set_volume(Value::Fixed(Decibels(-6.0)), instant());
				*keep.lock().unwrap() = Some((m, h));
			});
		}
		{
			let (heard, back) = (heard.clone(), back.clone());
			ex.spawn("audio", move || {
				let mut buf = [0.0f32; 2];
				for _ in 0..3 {
					let rep = rig::callback_on(&mut renderer, &mut buf, 1, 2);
					if !rep.ok() {
						MON.lock().unwrap().push(format!("{:?}", rep));
					}
					heard.lock().unwrap().push(buf[0]);
				}
				*back.lock().unwrap() = Some(renderer);
			});
		}
		let res = ex.run();
		let mut o = heard.lock().unwrap().clone();
		if let Some(mut r) = back.lock().unwrap().take() {
			for _ in 0..2 {
				let mut b = [0.0f32; 2];
				r.on_start_processing();
				r.process(&mut b, 2);
				o.push(b[0]);
			}
			drop(r);
		}
		drop(keep);
		(res, o)
	};
	let mut outcomes = std::collections::HashSet::new();
	let mut fails = vec![];
	let mut nontrivial = 0u64;
	let half = Decibels(-6.0).as_amplitude();
	let mut judge = |res: &sched::RunResult, o: &Obs, choices: &[u8]| {
		outcomes.insert(hash64(&format!("{:?}", o)));
		if choices.iter().any(|c| *c != 0) {
			nontrivial += 1;
		}
		for p in &res.panics {
			fails.push((format!("panic in a controlled thread: {} :: first callback", p), sched::fmt_schedule(res)));
		}
		// silence until adopted, then possibly full level only if the command had not been written when the
		// sound's first callback read it, then -6 dB for good; never back up; -6 dB at the end
		let mut stage = 0;
		for g in o {
			let s = if *g == 0.0 {
				0
			} else if (*g - 1.0).abs() < 1e-6 {
				1
			} else if (*g - half).abs() < 1e-6 {
				2
			} else {
				fails.push(("a gain that was never commanded is heard :: first callback".into(), format!("gains {:?}; {}", o, sched::fmt_schedule(res))));
				return;
			};
			if s < stage {
				fails.push(("the command issued before the first callback is undone / applied out of order :: first callback".into(), format!("gains {:?}; {}", o, sched::fmt_schedule(res))));
				return;
			}
			stage = s;
		}
		if stage != 2 {
			fails.push(("a command issued before the resource's first callback is lost :: first callback".into(), format!("gains {:?}; {}", o, sched::fmt_schedule(res))));
		}
	};
	let stats = sched::explore(tier.pick(Some(3), Some(4)), 6_000_000, &mut body, &mut judge);
	sched::report(ctx, &stats);
	finish_e2(ctx, "first callback", stats, outcomes, nontrivial, fails);
}

// ---------------------------------------------------------------------------------------------
// E1: every command kind of every built-in handle

#[derive(Clone, Copy, Debug, PartialEq)]
enum Mode {
	/// no command at all (component built with value 0)
	None,
	/// component built with value `v`
	Built(usize),
	/// built with value 0, command(v) before the first callback
	BeforeFirst(usize),
	/// built with value 0, command(v) right before callback `at`
	Single(usize, usize),
	/// built with value 0, commands (v2, v0, v) in a burst right before callback `at`
	Burst(usize, usize),
}

pub struct CmdKind {
	pub name: &'static str,
	/// renders 8 callbacks of 1 frame (internal buffer 1) and returns the stereo samples
	run: fn(Mode) -> Vec<f32>,
	/// has a builder equivalent (law 1 applies)
	builder_equiv: bool,
	/// a change is audible in the very callback that applies it (law 3 applies)
	immediate: bool,
}

fn noise(i: usize) -> f32 {
	// fixed pseudo-noise table, exactly representable
	let x = ((i * 7919 + 13) % 64) as f32 / 64.0 - 0.5;
	x * 0.5
}
fn noise_sound(sr: u32) -> kira::sound::static_sound::StaticSoundData {
	rig::static_data(sr, (0..16).map(|i| Frame::new(noise(i), noise(i + 5))).collect()).loop_region(Region::from(..))
}

const SR: u32 = 8000;
const NCB: usize = 8;

/// number of callbacks rendered for a kind (the reverb needs its 200-frame combs to come round)
fn ncb_of(name: &str) -> usize {
	if name.starts_with("reverb.") {
		520
	} else {
		NCB
	}
}

/// leading callbacks after a command in which the new value is still being interpolated in
/// (spatial parameters are interpolated with i/n, so with one-frame buffers they arrive one buffer later)
fn settle_of(name: &str) -> usize {
	if name.starts_with("listener.") || name.starts_with("spatial_track.") {
		1
	} else {
		0
	}
}

thread_local! {
	static CUR_NCB: std::cell::Cell<usize> = const { std::cell::Cell::new(NCB) };
}

fn render(m: &mut Manager, out: &mut Vec<f32>) {
	let mut buf = [0.0f32; 2];
	let rep = rig::callback(m, &mut buf, 1, 2);
	if rep.panic.is_some() {
		panic!("callback panicked: {:?}", rep.panic);
	}
	out.push(buf[0]);
	out.push(buf[1]);
}

/// drives a scene: `apply(v)` issues the command with value index v
fn drive(mode: Mode, m: &mut Manager, apply: &mut dyn FnMut(usize), pace: &mut dyn FnMut()) -> Vec<f32> {
	let mut out = vec![];
	for cb in 0..CUR_NCB.with(|c| c.get()) {
		match mode {
			Mode::BeforeFirst(v) if cb == 0 => apply(v),
			Mode::Single(at, v) if cb == at => apply(v),
			Mode::Burst(at, v) if cb == at => {
				apply(2);
				apply(0);
				apply(v);
			}
			_ => {}
		}
		pace();
		render(m, &mut out);
	}
	out
}

thread_local! {
	/// where the sound kinds play their sound: 0 main track, 1 sub-track, 2 nested sub-track, 3 spatial sub-track
	static CUR_HOST: std::cell::Cell<u8> = const { std::cell::Cell::new(0) };
	static HOST_KEEP: std::cell::RefCell<Vec<Box<dyn std::any::Any>>> = const { std::cell::RefCell::new(Vec::new()) };
}
const HOST_NAMES: [&str; 4] = ["main track", "sub-track", "nested sub-track", "spatial sub-track"];

fn play_hosted<D: kira::sound::SoundData>(m: &mut Manager, data: D) -> Result<D::Handle, kira::PlaySoundError<D::Error>> {
	let host = CUR_HOST.with(|h| h.get());
	match host {
		0 => m.play(data),
		1 => {
			let mut t = m.add_sub_track(TrackBuilder::new()).unwrap();
			let r = t.play(data);
			HOST_KEEP.with(|k| k.borrow_mut().push(Box::new(t)));
			r
		}
		2 => {
			let mut t = m.add_sub_track(TrackBuilder::new()).unwrap();
			let mut u = t.add_sub_track(TrackBuilder::new()).unwrap();
			let r = u.play(data);
			HOST_KEEP.with(|k| {
				k.borrow_mut().push(Box::new(u));
				k.borrow_mut().push(Box::new(t));
			});
			r
		}
		_ => {
			let l = m.add_listener(glam::Vec3::ZERO, glam::Quat::IDENTITY).unwrap();
			let mut t = m.add_spatial_sub_track(&l, glam::Vec3::new(0.0, 0.0, -1.0), SpatialTrackBuilder::new()).unwrap();
			let r = t.play(data);
			HOST_KEEP.with(|k| {
				k.borrow_mut().push(Box::new(t));
				k.borrow_mut().push(Box::new(l));
			});
			r
		}
	}
}

fn built_idx(mode: Mode) -> usize {
	match mode {
		Mode::Built(v) => v,
		_ => 0,
	}
}

macro_rules! effect_kind {
	($name:expr, $builder:expr, $vals:expr, $set:expr, $immediate:expr) => {
		CmdKind {
			name: $name,
			builder_equiv: true,
			immediate: $immediate,
			run: |mode| {
				let vals = $vals;
				let mut tb = TrackBuilder::new();
				let mut h = tb.add_effect(($builder)(vals[built_idx(mode)]));
				let mut m = rig::manager(SR, 1, rig::caps(4), MainTrackBuilder::new());
				let mut t = m.add_sub_track(tb).unwrap();
				let _s = t.play(noise_sound(SR)).unwrap();
				let mut apply = |v: usize| ($set)(&mut h, vals[v]);
				drive(mode, &mut m, &mut apply, &mut || {})
			},
		}
	};
}

fn region(a: usize, b: usize) -> Region {
	Region {
		start: PlaybackPosition::Samples(a),
		end: EndPosition::Custom(PlaybackPosition::Samples(b)),
	}
}

pub fn kinds() -> Vec<CmdKind> {
	let mut k: Vec<CmdKind> = vec![];
	// ---- static sound handle
	macro_rules! static_kind {
		($name:expr, $vals:expr, $build:expr, $set:expr, $be:expr, $imm:expr) => {
			k.push(CmdKind {
				name: $name,
				builder_equiv: $be,
				immediate: $imm,
				run: |mode| {
					let vals = $vals;
					let mut m = rig::manager(SR, 1, rig::caps(4), MainTrackBuilder::new());
					let data = ($build)(noise_sound(SR), vals[built_idx(mode)]);
					let mut h = play_hosted(&mut m, data).unwrap();
					if $name.ends_with(".resume") {
						h.pause(instant());
						let mut sink = vec![];
						render(&mut m, &mut sink);
					}
					let mut apply = |v: usize| ($set)(&mut h, vals[v]);
					drive(mode, &mut m, &mut apply, &mut || {})
				},
			});
		};
	}
	static_kind!("static.set_volume", [0.0f32, -6.0, -20.0], |d: kira::sound::static_sound::StaticSoundData, v: f32| d.volume(v), |h: &mut kira::sound::static_sound::StaticSoundHandle, v: f32| h.set_volume(v, instant()), true, true);
	static_kind!("static.set_panning", [0.0f32, -0.5, 1.0], |d: kira::sound::static_sound::StaticSoundData, v: f32| d.panning(v), |h: &mut kira::sound::static_sound::StaticSoundHandle, v: f32| h.set_panning(v, instant()), true, true);
	static_kind!("static.set_playback_rate", [1.0f64, 2.0, 0.5], |d: kira::sound::static_sound::StaticSoundData, v: f64| d.playback_rate(v), |h: &mut kira::sound::static_sound::StaticSoundHandle, v: f64| h.set_playback_rate(v, instant()), true, false);
	static_kind!("static.set_loop_region", [(0usize, 16usize), (2, 5), (1, 3)], |d: kira::sound::static_sound::StaticSoundData, v: (usize, usize)| d.loop_region(region(v.0, v.1)), |h: &mut kira::sound::static_sound::StaticSoundHandle, v: (usize, usize)| h.set_loop_region(region(v.0, v.1)), false, false);
	static_kind!("static.pause", [0u8, 1, 1], |d: kira::sound::static_sound::StaticSoundData, _v: u8| d, |h: &mut kira::sound::static_sound::StaticSoundHandle, _v: u8| h.pause(instant()), false, true);
	static_kind!("static.resume", [0u8, 1, 1], |d: kira::sound::static_sound::StaticSoundData, _v: u8| d, |h: &mut kira::sound::static_sound::StaticSoundHandle, v: u8| if v == 9 { h.pause(instant()) } else { h.resume(instant()) }, false, true);
	static_kind!("static.stop", [0u8, 1, 1], |d: kira::sound::static_sound::StaticSoundData, _v: u8| d, |h: &mut kira::sound::static_sound::StaticSoundHandle, v: u8| if v == 1 { h.stop(instant()) }, false, true);
	static_kind!("static.seek_to", [0.0f64, 6.0 / 8000.0, 11.0 / 8000.0], |d: kira::sound::static_sound::StaticSoundData, _v: f64| d, |h: &mut kira::sound::static_sound::StaticSoundHandle, v: f64| h.seek_to(v), false, false);
	// the superseding command has the "neutral" argument: it still replaces the one before it
	static_kind!("static.seek_by (then seek_by(0))", [9.0f64 / 8000.0, 0.0, 4.0 / 8000.0], |d: kira::sound::static_sound::StaticSoundData, _v: f64| d, |h: &mut kira::sound::static_sound::StaticSoundHandle, v: f64| h.seek_by(v), false, false);
	static_kind!("static.seek_by", [0.0f64, 4.0 / 8000.0, 9.0 / 8000.0], |d: kira::sound::static_sound::StaticSoundData, _v: f64| d, |h: &mut kira::sound::static_sound::StaticSoundHandle, v: f64| h.seek_by(v), false, false);
	// ---- streaming sound handle (decoder paced ahead)
	macro_rules! stream_kind {
		($name:expr, $vals:expr, $build:expr, $set:expr, $be:expr, $imm:expr) => {
			k.push(CmdKind {
				name: $name,
				builder_equiv: $be,
				immediate: $imm,
				run: |mode| {
					pacer::set_mode(pacer::Mode::Pacer);
					let vals = $vals;
					let mut m = rig::manager(SR, 1, rig::caps(4), MainTrackBuilder::new());
					let first = pacer::count();
					let frames: Vec<Frame> = (0..16).map(|i| Frame::new(noise(i), noise(i + 5))).collect();
					let (dec, stats) = ScriptedDecoder::new(frames, SR, vec![3, 1, 2], 2);
					let data = ($build)(StreamingSoundData::from_decoder(dec).loop_region(Region::from(..)), vals[built_idx(mode)]);
					let mut h = play_hosted(&mut m, data).map_err(|_| ()).unwrap();
					if $name.ends_with(".resume") {
						h.pause(instant());
						pacer::step_all_from(first, 8);
						let mut sink = vec![];
						render(&mut m, &mut sink);
					}
					let out = {
						let mut apply = |v: usize| ($set)(&mut h, vals[v]);
						drive(mode, &mut m, &mut apply, &mut || pacer::step_all_from(first, 8))
					};
					h.stop(instant());
					let mut sink = vec![];
					render(&mut m, &mut sink);
					drop(m);
					crate::probes::reap_decoder(first, &stats);
					out
				},
			});
		};
	}
	type SH = kira::sound::streaming::StreamingSoundHandle<crate::probes::DecErr>;
	type SD = StreamingSoundData<crate::probes::DecErr>;
	stream_kind!("streaming.set_volume", [0.0f32, -6.0, -20.0], |d: SD, v: f32| d.volume(v), |h: &mut SH, v: f32| h.set_volume(v, instant()), true, true);
	stream_kind!("streaming.set_panning", [0.0f32, -0.5, 1.0], |d: SD, v: f32| d.panning(v), |h: &mut SH, v: f32| h.set_panning(v, instant()), true, true);
	stream_kind!("streaming.set_playback_rate", [1.0f64, 2.0, 0.5], |d: SD, v: f64| d.playback_rate(v), |h: &mut SH, v: f64| h.set_playback_rate(v, instant()), true, false);
	stream_kind!("streaming.pause", [0u8, 1, 1], |d: SD, _v: u8| d, |h: &mut SH, _v: u8| h.pause(instant()), false, true);
	stream_kind!("streaming.stop", [0u8, 1, 1], |d: SD, _v: u8| d, |h: &mut SH, v: u8| if v == 1 { h.stop(instant()) }, false, true);
	stream_kind!("streaming.resume", [0u8, 1, 1], |d: SD, _v: u8| d, |h: &mut SH, v: u8| if v == 9 { h.pause(instant()) } else { h.resume(instant()) }, false, true);
	// ---- tracks
	k.push(CmdKind {
		name: "track.set_volume",
		builder_equiv: true,
		immediate: true,
		run: |mode| {
			let vals = [0.0f32, -6.0, -20.0];
			let mut m = rig::manager(SR, 1, rig::caps(4), MainTrackBuilder::new());
			let mut t = m.add_sub_track(TrackBuilder::new().volume(vals[built_idx(mode)])).unwrap();
			let _s = t.play(noise_sound(SR)).unwrap();
			drive(mode, &mut m, &mut |v| t.set_volume(vals[v], instant()), &mut || {})
		},
	});
	k.push(CmdKind {
		name: "track.pause",
		builder_equiv: false,
		immediate: true,
		run: |mode| {
			let mut m = rig::manager(SR, 1, rig::caps(4), MainTrackBuilder::new());
			let mut t = m.add_sub_track(TrackBuilder::new()).unwrap();
			let _s = t.play(noise_sound(SR)).unwrap();
			drive(mode, &mut m, &mut |_v| t.pause(instant()), &mut || {})
		},
	});
	k.push(CmdKind {
		name: "track.resume",
		builder_equiv: false,
		immediate: true,
		run: |mode| {
			let mut m = rig::manager(SR, 1, rig::caps(4), MainTrackBuilder::new());
			let mut t = m.add_sub_track(TrackBuilder::new()).unwrap();
			let _s = t.play(noise_sound(SR)).unwrap();
			t.pause(instant());
			let mut sink = vec![];
			render(&mut m, &mut sink);
			drive(mode, &mut m, &mut |_v| t.resume(instant()), &mut || {})
		},
	});
	k.push(CmdKind {
		name: "track.set_send",
		builder_equiv: true,
		immediate: true,
		run: |mode| {
			let vals = [0.0f32, -6.0, -20.0];
			let mut m = rig::manager(SR, 1, rig::caps(4), MainTrackBuilder::new());
			let send = m.add_send_track(SendTrackBuilder::new()).unwrap();
			let mut t = m.add_sub_track(TrackBuilder::new().with_send(&send, vals[built_idx(mode)])).unwrap();
			let _s = t.play(noise_sound(SR)).unwrap();
			drive(mode, &mut m, &mut |v| t.set_send(&send, vals[v], instant()).unwrap(), &mut || {})
		},
	});
	k.push(CmdKind {
		name: "main_track.set_volume",
		builder_equiv: true,
		immediate: true,
		run: |mode| {
			let vals = [0.0f32, -6.0, -20.0];
			let mut m = rig::manager(SR, 1, rig::caps(4), MainTrackBuilder::new().volume(vals[built_idx(mode)]));
			let _s = m.play(noise_sound(SR)).unwrap();
			let mut out = vec![];
			for cb in 0..CUR_NCB.with(|c| c.get()) {
				match mode {
					Mode::BeforeFirst(v) if cb == 0 => m.main_track().set_volume(vals[v], instant()),
					Mode::Single(at, v) if cb == at => m.main_track().set_volume(vals[v], instant()),
					Mode::Burst(at, v) if cb == at => {
						m.main_track().set_volume(vals[2], instant());
						m.main_track().set_volume(vals[0], instant());
						m.main_track().set_volume(vals[v], instant());
					}
					_ => {}
				}
				render(&mut m, &mut out);
			}
			out
		},
	});
	k.push(CmdKind {
		name: "send_track.set_volume",
		builder_equiv: true,
		immediate: true,
		run: |mode| {
			let vals = [0.0f32, -6.0, -20.0];
			let mut m = rig::manager(SR, 1, rig::caps(4), MainTrackBuilder::new());
			let mut send = m.add_send_track(SendTrackBuilder::new().volume(vals[built_idx(mode)])).unwrap();
			let mut t = m.add_sub_track(TrackBuilder::new().with_send(&send, 0.0)).unwrap();
			let _s = t.play(noise_sound(SR)).unwrap();
			drive(mode, &mut m, &mut |v| send.set_volume(vals[v], instant()), &mut || {})
		},
	});
	k.push(CmdKind {
		name: "spatial_track.set_position",
		builder_equiv: true,
		immediate: true,
		run: |mode| {
			let vals = [glam::Vec3::new(0.0, 0.0, 2.0), glam::Vec3::new(30.0, 0.0, 0.0), glam::Vec3::new(-8.0, 3.0, 1.0)];
			let mut m = rig::manager(SR, 1, rig::caps(4), MainTrackBuilder::new());
			let l = m.add_listener(glam::Vec3::ZERO, glam::Quat::IDENTITY).unwrap();
			let mut t = m.add_spatial_sub_track(&l, vals[built_idx(mode)], SpatialTrackBuilder::new()).unwrap();
			let _s = t.play(noise_sound(SR)).unwrap();
			drive(mode, &mut m, &mut |v| t.set_position(vals[v], instant()), &mut || {})
		},
	});
	k.push(CmdKind {
		name: "spatial_track.set_spatialization_strength",
		builder_equiv: true,
		immediate: true,
		run: |mode| {
			let vals = [0.75f32, 0.0, 1.0];
			let mut m = rig::manager(SR, 1, rig::caps(4), MainTrackBuilder::new());
			let l = m.add_listener(glam::Vec3::ZERO, glam::Quat::IDENTITY).unwrap();
			let mut t = m
				.add_spatial_sub_track(&l, glam::Vec3::new(3.0, 0.0, 1.0), SpatialTrackBuilder::new().spatialization_strength(vals[built_idx(mode)]))
				.unwrap();
			let _s = t.play(noise_sound(SR)).unwrap();
			drive(mode, &mut m, &mut |v| t.set_spatialization_strength(vals[v], instant()), &mut || {})
		},
	});
	k.push(CmdKind {
		name: "listener.set_position",
		builder_equiv: true,
		immediate: false,
		run: |mode| {
			let vals = [glam::Vec3::ZERO, glam::Vec3::new(20.0, 0.0, 0.0), glam::Vec3::new(-5.0, 1.0, 4.0)];
			let mut m = rig::manager(SR, 1, rig::caps(4), MainTrackBuilder::new());
			let mut l = m.add_listener(vals[built_idx(mode)], glam::Quat::IDENTITY).unwrap();
			let mut t = m.add_spatial_sub_track(&l, glam::Vec3::new(3.0, 0.0, 1.0), SpatialTrackBuilder::new()).unwrap();
			let _s = t.play(noise_sound(SR)).unwrap();
			drive(mode, &mut m, &mut |v| l.set_position(vals[v], instant()), &mut || {})
		},
	});
	k.push(CmdKind {
		name: "listener.set_orientation",
		builder_equiv: true,
		immediate: false,
		run: |mode| {
			let vals = [glam::Quat::IDENTITY, glam::Quat::from_rotation_y(1.2), glam::Quat::from_rotation_y(-2.0)];
			let mut m = rig::manager(SR, 1, rig::caps(4), MainTrackBuilder::new());
			let mut l = m.add_listener(glam::Vec3::ZERO, vals[built_idx(mode)]).unwrap();
			let mut t = m.add_spatial_sub_track(&l, glam::Vec3::new(3.0, 0.0, 1.0), SpatialTrackBuilder::new()).unwrap();
			let _s = t.play(noise_sound(SR)).unwrap();
			drive(mode, &mut m, &mut |v| l.set_orientation(vals[v], instant()), &mut || {})
		},
	});
	// ---- clock (observed through a sound's start on the clock and through the handle)
	k.push(CmdKind {
		name: "clock.set_speed",
		builder_equiv: true,
		immediate: false,
		run: |mode| {
			let vals = [ClockSpeed::TicksPerSecond(2000.0), ClockSpeed::TicksPerSecond(8000.0), ClockSpeed::SecondsPerTick(0.001)];
			let mut m = rig::manager(SR, 1, rig::caps(4), MainTrackBuilder::new());
			let mut c = m.add_clock(vals[built_idx(mode)]).unwrap();
			c.start();
			let _s = m.play(noise_sound(SR).start_time(c.time() + 1u64)).unwrap();
			let mut out = drive(mode, &mut m, &mut |v| c.set_speed(vals[v], instant()), &mut || {});
			let t = c.time();
			out.push(t.ticks as f32);
			out.push(t.fraction as f32);
			out
		},
	});
	k.push(CmdKind {
		name: "clock.start/pause",
		builder_equiv: false,
		immediate: false,
		run: |mode| {
			let mut m = rig::manager(SR, 1, rig::caps(4), MainTrackBuilder::new());
			let mut c = m.add_clock(ClockSpeed::TicksPerSecond(4000.0)).unwrap();
			let _s = m.play(noise_sound(SR).start_time(c.time() + 1u64)).unwrap();
			let mut out = drive(mode, &mut m, &mut |v| if v == 0 { c.pause() } else { c.start() }, &mut || {});
			let t = c.time();
			out.push(t.ticks as f32);
			out.push(t.fraction as f32);
			out.push(c.ticking() as u8 as f32);
			out
		},
	});
	k.push(CmdKind {
		name: "clock.stop",
		builder_equiv: false,
		immediate: false,
		run: |mode| {
			let mut m = rig::manager(SR, 1, rig::caps(4), MainTrackBuilder::new());
			let mut c = m.add_clock(ClockSpeed::TicksPerSecond(4000.0)).unwrap();
			c.start();
			let mut out = drive(mode, &mut m, &mut |v| if v == 0 { c.start() } else { c.stop() }, &mut || {});
			let t = c.time();
			out.push(t.ticks as f32);
			out.push(t.fraction as f32);
			out.push(c.ticking() as u8 as f32);
			out
		},
	});
	// ---- modulators (observed through a sound volume mapped from the modulator)
	fn map() -> Mapping<Decibels> {
		Mapping {
			input_range: (-2.0, 2.0),
			output_range: (Decibels(-40.0), Decibels(0.0)),
			easing: Easing::Linear,
		}
	}
	k.push(CmdKind {
		name: "tweener.set",
		builder_equiv: true,
		immediate: true,
		run: |mode| {
			let vals = [0.0f64, 1.5, -1.0];
			let mut m = rig::manager(SR, 1, rig::caps(4), MainTrackBuilder::new());
			let mut tw = m.add_modulator(TweenerBuilder { initial_value: vals[built_idx(mode)] }).unwrap();
			let _s = m.play(noise_sound(SR).volume(Value::from_modulator(&tw, map()))).unwrap();
			drive(mode, &mut m, &mut |v| tw.set(vals[v], instant()), &mut || {})
		},
	});
	macro_rules! lfo_kind {
		($name:expr, $vals:expr, $build:expr, $set:expr) => {
			k.push(CmdKind {
				name: $name,
				builder_equiv: true,
				immediate: true,
				run: |mode| {
					let vals = $vals;
					let mut m = rig::manager(SR, 1, rig::caps(4), MainTrackBuilder::new());
					let b = ($build)(LfoBuilder::new().frequency(500.0).starting_phase(0.3), vals[built_idx(mode)]);
					let mut l = m.add_modulator(b).unwrap();
					let _s = m.play(noise_sound(SR).volume(Value::from_modulator(&l, map()))).unwrap();
					drive(mode, &mut m, &mut |v| ($set)(&mut l, vals[v]), &mut || {})
				},
			});
		};
	}
	lfo_kind!("lfo.set_waveform", [Waveform::Sine, Waveform::Saw, Waveform::Pulse { width: 0.3 }], |b: LfoBuilder, v: Waveform| b.waveform(v), |l: &mut kira::modulator::lfo::LfoHandle, v: Waveform| l.set_waveform(v));
	lfo_kind!("lfo.set_frequency", [500.0f64, 1300.0, 70.0], |b: LfoBuilder, v: f64| b.frequency(v), |l: &mut kira::modulator::lfo::LfoHandle, v: f64| l.set_frequency(v, instant()));
	lfo_kind!("lfo.set_amplitude", [1.0f64, 0.25, 2.0], |b: LfoBuilder, v: f64| b.amplitude(v), |l: &mut kira::modulator::lfo::LfoHandle, v: f64| l.set_amplitude(v, instant()));
	lfo_kind!("lfo.set_offset", [0.0f64, 0.5, -1.0], |b: LfoBuilder, v: f64| b.offset(v), |l: &mut kira::modulator::lfo::LfoHandle, v: f64| l.set_offset(v, instant()));
	lfo_kind!("lfo.set_phase", [0.3f64, 2.0, 4.5], |b: LfoBuilder, v: f64| b.starting_phase(v), |l: &mut kira::modulator::lfo::LfoHandle, v: f64| l.set_phase(v));
	// ---- effects
	k.push(effect_kind!("filter.set_mode", |v: FilterMode| FilterBuilder::new().mode(v), [FilterMode::LowPass, FilterMode::HighPass, FilterMode::BandPass], |h: &mut kira::effect::filter::FilterHandle, v: FilterMode| h.set_mode(v), true));
	k.push(effect_kind!("filter.set_cutoff", |v: f64| FilterBuilder::new().cutoff(v), [1000.0f64, 300.0, 3000.0], |h: &mut kira::effect::filter::FilterHandle, v: f64| h.set_cutoff(v, instant()), true));
	k.push(effect_kind!("filter.set_resonance", |v: f64| FilterBuilder::new().resonance(v), [0.0f64, 0.7, 1.0], |h: &mut kira::effect::filter::FilterHandle, v: f64| h.set_resonance(v, instant()), true));
	k.push(effect_kind!("filter.set_mix", |v: f32| FilterBuilder::new().mix(v), [1.0f32, 0.25, 0.0], |h: &mut kira::effect::filter::FilterHandle, v: f32| h.set_mix(Mix(v), instant()), true));
	k.push(effect_kind!("eq_filter.set_kind", |v: EqFilterKind| EqFilterBuilder::new(v, 1000.0, 6.0, 1.0), [EqFilterKind::Bell, EqFilterKind::LowShelf, EqFilterKind::HighShelf], |h: &mut kira::effect::eq_filter::EqFilterHandle, v: EqFilterKind| h.set_kind(v), true));
	k.push(effect_kind!("eq_filter.set_frequency", |v: f64| EqFilterBuilder::new(EqFilterKind::Bell, v, 6.0, 1.0), [1000.0f64, 300.0, 3000.0], |h: &mut kira::effect::eq_filter::EqFilterHandle, v: f64| h.set_frequency(v, instant()), true));
	k.push(effect_kind!("eq_filter.set_gain", |v: f32| EqFilterBuilder::new(EqFilterKind::Bell, 1000.0, v, 1.0), [6.0f32, -9.0, 12.0], |h: &mut kira::effect::eq_filter::EqFilterHandle, v: f32| h.set_gain(Decibels(v), instant()), true));
	k.push(effect_kind!("eq_filter.set_q", |v: f64| EqFilterBuilder::new(EqFilterKind::Bell, 1000.0, 6.0, v), [1.0f64, 0.3, 4.0], |h: &mut kira::effect::eq_filter::EqFilterHandle, v: f64| h.set_q(v, instant()), true));
	k.push(effect_kind!("delay.set_feedback", |v: f32| DelayBuilder::new().delay_time(Duration::from_micros(250)).feedback(v), [-6.0f32, -1.0, -20.0], |h: &mut kira::effect::delay::DelayHandle, v: f32| h.set_feedback(Decibels(v), instant()), false));
	k.push(effect_kind!("delay.set_mix", |v: f32| DelayBuilder::new().delay_time(Duration::from_micros(250)).mix(v), [0.5f32, 0.9, 0.1], |h: &mut kira::effect::delay::DelayHandle, v: f32| h.set_mix(Mix(v), instant()), true));
	k.push(effect_kind!("reverb.set_feedback", |v: f64| ReverbBuilder::new().feedback(v), [0.9f64, 0.3, 0.6], |h: &mut kira::effect::reverb::ReverbHandle, v: f64| h.set_feedback(v, instant()), false));
	k.push(effect_kind!("reverb.set_damping", |v: f64| ReverbBuilder::new().damping(v), [0.1f64, 0.8, 0.4], |h: &mut kira::effect::reverb::ReverbHandle, v: f64| h.set_damping(v, instant()), false));
	k.push(effect_kind!("reverb.set_stereo_width", |v: f64| ReverbBuilder::new().stereo_width(v), [1.0f64, 0.0, 0.5], |h: &mut kira::effect::reverb::ReverbHandle, v: f64| h.set_stereo_width(v, instant()), false));
	k.push(effect_kind!("reverb.set_mix", |v: f32| ReverbBuilder::new().mix(v), [0.5f32, 0.9, 0.1], |h: &mut kira::effect::reverb::ReverbHandle, v: f32| h.set_mix(Mix(v), instant()), true));
	k.push(effect_kind!("compressor.set_threshold", |v: f64| CompressorBuilder::new().ratio(4.0).threshold(v), [-30.0f64, -10.0, -50.0], |h: &mut kira::effect::compressor::CompressorHandle, v: f64| h.set_threshold(v, instant()), true));
	k.push(effect_kind!("compressor.set_ratio", |v: f64| CompressorBuilder::new().threshold(-30.0).ratio(v), [4.0f64, 2.0, 10.0], |h: &mut kira::effect::compressor::CompressorHandle, v: f64| h.set_ratio(v, instant()), true));
	k.push(effect_kind!("compressor.set_attack_duration", |v: u64| CompressorBuilder::new().threshold(-30.0).ratio(4.0).attack_duration(Duration::from_micros(v)), [1000u64, 100, 10000], |h: &mut kira::effect::compressor::CompressorHandle, v: u64| h.set_attack_duration(Duration::from_micros(v), instant()), true));
	k.push(effect_kind!("compressor.set_release_duration", |v: u64| CompressorBuilder::new().threshold(-30.0).ratio(4.0).release_duration(Duration::from_micros(v)), [1000u64, 100, 10000], |h: &mut kira::effect::compressor::CompressorHandle, v: u64| h.set_release_duration(Duration::from_micros(v), instant()), false));
	k.push(effect_kind!("compressor.set_makeup_gain", |v: f32| CompressorBuilder::new().makeup_gain(v), [0.0f32, 3.0, -6.0], |h: &mut kira::effect::compressor::CompressorHandle, v: f32| h.set_makeup_gain(Decibels(v), instant()), true));
	k.push(effect_kind!("compressor.set_mix", |v: f32| CompressorBuilder::new().threshold(-30.0).ratio(4.0).mix(v), [1.0f32, 0.3, 0.0], |h: &mut kira::effect::compressor::CompressorHandle, v: f32| h.set_mix(Mix(v), instant()), true));
	k.push(effect_kind!("distortion.set_kind", |v: DistortionKind| DistortionBuilder::new().drive(20.0).kind(v), [DistortionKind::HardClip, DistortionKind::SoftClip, DistortionKind::HardClip], |h: &mut kira::effect::distortion::DistortionHandle, v: DistortionKind| h.set_kind(v), true));
	k.push(effect_kind!("distortion.set_drive", |v: f32| DistortionBuilder::new().kind(DistortionKind::SoftClip).drive(v), [0.0f32, 12.0, 24.0], |h: &mut kira::effect::distortion::DistortionHandle, v: f32| h.set_drive(Decibels(v), instant()), true));
	k.push(effect_kind!("distortion.set_mix", |v: f32| DistortionBuilder::new().kind(DistortionKind::SoftClip).drive(12.0).mix(v), [1.0f32, 0.3, 0.0], |h: &mut kira::effect::distortion::DistortionHandle, v: f32| h.set_mix(Mix(v), instant()), true));
	k.push(effect_kind!("volume_control.set_volume", |v: f32| VolumeControlBuilder::new(v), [0.0f32, -6.0, -20.0], |h: &mut kira::effect::volume_control::VolumeControlHandle, v: f32| h.set_volume(Decibels(v), instant()), true));
	k.push(effect_kind!("panning_control.set_panning", |v: f32| PanningControlBuilder(Value::Fixed(Panning(v))), [0.0f32, -0.5, 1.0], |h: &mut kira::effect::panning_control::PanningControlHandle, v: f32| h.set_panning(Panning(v), instant()), true));
	let _ = PlaybackRate(1.0);
	k
}

fn e1_kind(k: &CmdKind, ctx: &mut Ctx) {
	let ncb = ncb_of(k.name);
	let settle = settle_of(k.name);
	CUR_NCB.with(|c| c.set(ncb));
	let run = |mode: Mode, ctx: &mut Ctx| -> Option<Vec<f32>> {
		ctx.evals += 1;
		ctx.traces += 1;
		ctx.transitions += ncb as u64;
		HOST_KEEP.with(|k| k.borrow_mut().clear());
		match catch(|| (k.run)(mode)) {
			Ok(v) => Some(v),
			Err(p) => {
				ctx.fail(format!("panic: {} :: {}", p, k.name), format!("{:?}", mode));
				None
			}
		}
	};
	let Some(none) = run(Mode::None, ctx) else { return };
	ctx.state(hash64(&(k.name, "none")));
	// law 1: a command issued before the resource's first callback is not lost and is applied in that callback
	if k.builder_equiv {
		for v in [1usize, 2] {
			let (Some(a), Some(b)) = (run(Mode::BeforeFirst(v), ctx), run(Mode::Built(v), ctx)) else { return };
			if a[2 * settle..] != b[2 * settle..] {
				ctx.fail(
					format!("a command issued before the first callback does not equal building with that value :: {}", k.name),
					format!("value #{}: command {:?} built {:?}", v, &a[..a.len().min(12)], &b[..b.len().min(12)]),
				);
				return;
			}
			if a != none {
				ctx.nontrivial(hash64(&(k.name, "l1", v)));
			}
		}
	}
	for at in 0..4usize {
		let Some(single) = run(Mode::Single(at, 1), ctx) else { return };
		ctx.state(hash64(&(k.name, at)));
		// law 2: a burst between two callbacks == its last command alone
		let Some(burst) = run(Mode::Burst(at, 1), ctx) else { return };
		if burst != single {
			ctx.fail(
				format!("a burst of commands between two callbacks does not equal its last command (last write wins / exactly once) :: {}", k.name),
				format!("at callback {}: burst {:?} single {:?}", at, &burst[..burst.len().min(16)], &single[..single.len().min(16)]),
			);
			return;
		}
		// law 3: takes effect at the start of the next callback: nothing before `at` changes, and (if the effect
		// is immediately audible) callback `at` itself differs
		let first_diff = single.iter().zip(none.iter()).position(|(a, b)| a != b).map(|i| i / 2);
		match first_diff {
			Some(d) if d < at && d < ncb => {
				ctx.fail(format!("a command changes audio before it was issued :: {}", k.name), format!("at {} first difference {}", at, d));
				return;
			}
			Some(d) if k.immediate && d > at + settle && d < ncb => {
				ctx.fail(
					format!("a command is applied later than the next callback :: {}", k.name),
					format!("issued before callback {}, first audible difference in callback {}", at, d),
				);
				return;
			}
			None => {
				ctx.fail(format!("a command has no effect at all :: {}", k.name), format!("issued before callback {}", at));
				return;
			}
			_ => {
				ctx.nontrivial(hash64(&(k.name, "l3", at)));
			}
		}
	}
	ctx.outcome(hash64(&k.name));
}

/// commands of different kinds or to different resources do not interfere
fn cross_kind(ctx: &mut Ctx) {
	let mut buf = [0.0f32; 2];
	// 1. clock: stop(); start() between the same two callbacks restarts the clock from zero and leaves it ticking
	for gap in [false, true] {
		ctx.evals += 1;
		let mut m = rig::manager(4, 1, rig::caps(2), MainTrackBuilder::new());
		let mut c = m.add_clock(ClockSpeed::TicksPerSecond(1.0)).unwrap();
		c.start();
		for _ in 0..3 {
			rig::callback(&mut m, &mut buf, 1, 2);
		}
		c.stop();
		if gap {
			rig::callback(&mut m, &mut buf, 1, 2);
		}
		c.start();
		for _ in 0..3 {
			rig::callback(&mut m, &mut buf, 1, 2);
		}
		let t = c.time();
		if !c.ticking() || (t.ticks, t.fraction) != (0, 0.5) {
			ctx.fail(
				"clock stop() then start(): the start is lost or the clock does not restart from zero (commands of different kinds interfere) :: cross-kind",
				format!("callback between stop and start: {}; ticking {} time ({}, {}) expected ticking at (0, 0.5)", gap, c.ticking(), t.ticks, t.fraction),
			);
		}
		ctx.nontrivial(hash64(&("clock", gap)));
	}
	// 2. one sound: volume and panning commands issued together are both applied
	{
		ctx.evals += 1;
		let mut m = rig::manager(8, 1, rig::caps(2), MainTrackBuilder::new());
		let mut h = m.play(dc_loop(8, 0.5)).unwrap();
		rig::callback(&mut m, &mut buf, 1, 2);
		h.set_volume(-6.0, instant());
		h.set_panning(1.0, instant());
		h.set_playback_rate(2.0, instant());
		rig::callback(&mut m, &mut buf, 1, 2);
		rig::callback(&mut m, &mut buf, 1, 2);
		let want_r = 0.5 * Decibels(-6.0).as_amplitude() * std::f32::consts::SQRT_2;
		if buf[0] != 0.0 || (buf[1] - want_r).abs() > 1e-6 {
			ctx.fail("volume + panning + rate commands issued together: not all applied :: cross-kind", format!("out {:?} expected (0, {})", buf, want_r));
		}
		ctx.nontrivial(hash64(&"sound"));
	}
	// 3. two sounds / two tracks: a command to one does not affect the other
	{
		ctx.evals += 1;
		let mut m = rig::manager(8, 1, rig::caps(4), MainTrackBuilder::new());
		let mut ta = m.add_sub_track(TrackBuilder::new()).unwrap();
		let mut tb = m.add_sub_track(TrackBuilder::new()).unwrap();
		let mut a = ta.play(dc_loop(8, 0.5).panning(-1.0)).unwrap();
		let _b = tb.play(dc_loop(8, 0.25).panning(1.0)).unwrap();
		rig::callback(&mut m, &mut buf, 1, 2);
		let before = buf;
		a.set_volume(-6.0, instant());
		ta.set_volume(-6.0, instant());
		rig::callback(&mut m, &mut buf, 1, 2);
		rig::callback(&mut m, &mut buf, 1, 2);
		let g = Decibels(-6.0).as_amplitude();
		if buf[1] != before[1] || (buf[0] - before[0] * g * g).abs() > 1e-6 {
			ctx.fail("a command to one sound/track changes another :: cross-kind", format!("before {:?} after {:?}", before, buf));
		}
		ctx.nontrivial(hash64(&"two"));
	}
	// 4. two life-cycle commands of different kinds between the same two callbacks: both are consumed by the next
	// callback - afterwards the state only moves along the fade that is in force (a command applied a callback
	// late would switch it to another fade)
	{
		use kira::sound::PlaybackState as PS;
		let slow = Tween { duration: Duration::from_secs_f64(3.0 / 8.0), ..Default::default() };
		let names = ["pause", "resume", "stop"];
		for streaming in [false, true] {
			for a in 0..3usize {
				for b in 0..3usize {
					if a == b {
						continue;
					}
					ctx.evals += 1;
					let mut m = rig::manager(8, 1, rig::caps(2), MainTrackBuilder::new());
					let first = pacer::count();
					let mut stats = None;
					let mut h: Box<dyn crate::probes::SoundHandle> = if streaming {
						pacer::set_mode(pacer::Mode::Pacer);
						let frames: Vec<Frame> = (0..16).map(|i| Frame::new(noise(i), noise(i + 5))).collect();
						let (dec, st) = ScriptedDecoder::new(frames, 8, vec![3, 1, 2], 2);
						stats = Some(st);
						Box::new(m.play(StreamingSoundData::from_decoder(dec).loop_region(Region::from(..))).map_err(|_| ()).unwrap())
					} else {
						Box::new(m.play(dc_loop(8, 0.5)).unwrap())
					};
					let mut pace = || {
						if streaming {
							pacer::step_all_from(first, 8);
						}
					};
					pace();
					rig::callback(&mut m, &mut buf, 1, 2);
					let mut apply = |h: &mut Box<dyn crate::probes::SoundHandle>, c: usize| match c {
						0 => h.pause(slow),
						1 => h.resume(slow),
						_ => h.stop(slow),
					};
					apply(&mut h, a);
					apply(&mut h, b);
					let mut states = vec![];
					for _ in 0..6 {
						pace();
						rig::callback(&mut m, &mut buf, 1, 2);
						states.push(h.state());
					}
					let class = |s: PS| match s {
						PS::Pausing | PS::Paused => 0,
						PS::Resuming | PS::Playing => 1,
						PS::Stopping | PS::Stopped => 2,
						PS::WaitingToResume => 3,
					};
					if states.iter().any(|s| class(*s) != class(states[0])) {
						ctx.fail(
							format!("one of two commands of different kinds issued between the same two callbacks is applied a callback late :: cross-kind {}", if streaming { "streaming" } else { "static" }),
							format!("{}(3 callbacks fade); {}(3 callbacks fade) -> states {:?}", names[a], names[b], states),
						);
					}
					// both commands were consumed: the state is the one the later command leads to - later in the order of issue,
					// or later in kira's fixed reading order pause < resume < stop (the statement does not fix the order among kinds)
					let accepted = [b, a.max(b)];
					if !accepted.contains(&class(states[0])) {
						ctx.fail(
							format!("one of two commands of different kinds issued between the same two callbacks is lost :: cross-kind {}", if streaming { "streaming" } else { "static" }),
							format!("{}(3 callbacks fade); {}(3 callbacks fade) -> states {:?}; expected the fade of '{}' or of '{}'", names[a], names[b], states, names[b], names[a.max(b)]),
						);
					}
					ctx.nontrivial(hash64(&("pair", streaming, a, b)));
					if let Some(st) = stats {
						h.stop(instant());
						pace();
						rig::callback(&mut m, &mut buf, 1, 2);
						drop(m);
						crate::probes::reap_decoder(first, &st);
					}
				}
			}
		}
	}
	// 5. commands to things hosted by a track that is paused: the track's output is frozen, the commands are still
	// consumed by the next callback (handle-visible state / position)
	for spatial in [false, true] {
		ctx.evals += 1;
		use kira::sound::PlaybackState as PS;
		let slow = Tween { duration: Duration::from_secs_f64(3.0 / 8.0), ..Default::default() };
		let mut m = rig::manager(8, 1, rig::caps(4), MainTrackBuilder::new());
		let l = m.add_listener(glam::Vec3::ZERO, glam::Quat::IDENTITY).unwrap();
		enum T {
			Plain(kira::track::TrackHandle),
			Spatial(kira::track::SpatialTrackHandle),
		}
		let mut t = if spatial { T::Spatial(m.add_spatial_sub_track(&l, glam::Vec3::new(0.0, 0.0, -1.0), SpatialTrackBuilder::new()).unwrap()) } else { T::Plain(m.add_sub_track(TrackBuilder::new()).unwrap()) };
		let (mut s1, mut s2, mut child) = match &mut t {
			T::Plain(t) => (t.play(dc_loop(8, 0.5)).unwrap(), t.play(rig::static_data(8, rig::dc_frames(8 * 64, 0.25))).unwrap(), t.add_sub_track(TrackBuilder::new()).unwrap()),
			T::Spatial(t) => (t.play(dc_loop(8, 0.5)).unwrap(), t.play(rig::static_data(8, rig::dc_frames(8 * 64, 0.25))).unwrap(), t.add_sub_track(TrackBuilder::new()).unwrap()),
		};
		rig::callback(&mut m, &mut buf, 1, 2);
		match &mut t {
			T::Plain(t) => t.pause(instant()),
			T::Spatial(t) => t.pause(instant()),
		}
		rig::callback(&mut m, &mut buf, 1, 2);
		rig::callback(&mut m, &mut buf, 1, 2);
		s1.stop(slow);
		child.pause(slow);
		let p0 = s2.position();
		s2.seek_by(10.0);
		rig::callback(&mut m, &mut buf, 1, 2);
		let (st1, stc) = (s1.state(), child.state());
		s2.seek_by(10.0);
		rig::callback(&mut m, &mut buf, 1, 2);
		// (the position a handle reports is refreshed when the sound is processed: resume the track to read it)
		match &mut t {
			T::Plain(t) => t.resume(instant()),
			T::Spatial(t) => t.resume(instant()),
		}
		// (... and it names the frame being heard, which trails the transport by the resampler's 3 look-ahead frames)
		for _ in 0..8 {
			rig::callback(&mut m, &mut buf, 1, 2);
		}
		let p1 = s2.position();
		let host = if spatial { "spatial track" } else { "track" };
		if st1 != PS::Stopping {
			ctx.fail(format!("a command to a sound on a paused {} is not consumed by the next callback :: cross-kind", host), format!("stop(3 callbacks fade) -> state {:?}, expected Stopping", st1));
		}
		if stc != kira::track::TrackPlaybackState::Pausing {
			ctx.fail(format!("a command to a child track of a paused {} is not consumed by the next callback :: cross-kind", host), format!("pause(3 callbacks fade) -> state {:?}, expected Pausing", stc));
		}
		if (p1 - p0 - 20.0).abs() > 1.5 {
			ctx.fail(
				format!("two seek_by commands issued in two different callback intervals to a sound on a paused {} are not both applied :: cross-kind", host),
				format!("position {} -> {} (expected + 20 s)", p0, p1),
			);
		}
		ctx.nontrivial(hash64(&("paused host", spatial)));
	}
	// 6. a later command of the same kind supersedes an earlier one that is still pending (delayed start), also when it
	// asks for exactly the value the parameter has at that moment
	{
		ctx.evals += 1;
		let mut m = rig::manager(8, 1, rig::caps(2), MainTrackBuilder::new());
		let mut h = m.play(dc_loop(8, 0.5)).unwrap();
		let mut tb = TrackBuilder::new();
		let mut vc = tb.add_effect(VolumeControlBuilder::new(0.0));
		let mut t = m.add_sub_track(tb).unwrap();
		let _s = t.play(dc_loop(8, 0.25)).unwrap();
		rig::callback(&mut m, &mut buf, 1, 2);
		let later = Tween { start_time: StartTime::Delayed(Duration::from_secs_f64(4.0 / 8.0)), duration: Duration::ZERO, easing: Easing::Linear };
		h.set_volume(-60.0, later);
		vc.set_volume(-60.0, later);
		rig::callback(&mut m, &mut buf, 1, 2);
		h.set_volume(0.0, instant());
		vc.set_volume(0.0, instant());
		let mut heard = vec![];
		for _ in 0..8 {
			rig::callback(&mut m, &mut buf, 1, 2);
			heard.push(buf[0]);
		}
		if heard.iter().any(|x| (*x - 0.75).abs() > 1e-6) {
			ctx.fail(
				"a later command of the same kind does not supersede an earlier, still pending one (the older command is applied late) :: cross-kind",
				format!("set_volume(-60 dB, delayed 4 callbacks); callback; set_volume(0 dB, instant) on a sound (0.5) and a volume-control effect (0.25): heard {:?}, expected 0.75 throughout", heard),
			);
		}
		ctx.nontrivial(hash64(&"supersede"));
	}
	// 7. a pause issued while a scheduled resume is pending cancels it (sound, streaming sound, track)
	for subject in 0..3usize {
		ctx.evals += 1;
		let mut m = rig::manager(8, 1, rig::caps(2), MainTrackBuilder::new());
		let first = pacer::count();
		let mut stats = None;
		let mut track = None;
		let mut h: Option<Box<dyn crate::probes::SoundHandle>> = None;
		match subject {
			0 => h = Some(Box::new(m.play(dc_loop(8, 0.5)).unwrap())),
			1 => {
				pacer::set_mode(pacer::Mode::Pacer);
				let frames: Vec<Frame> = (0..16).map(|i| Frame::new(noise(i), noise(i + 5))).collect();
				let (dec, st) = ScriptedDecoder::new(frames, 8, vec![3, 1, 2], 2);
				stats = Some(st);
				h = Some(Box::new(m.play(StreamingSoundData::from_decoder(dec).loop_region(Region::from(..))).map_err(|_| ()).unwrap()));
			}
			_ => {
				let mut t = m.add_sub_track(TrackBuilder::new()).unwrap();
				let _ = t.play(dc_loop(8, 0.5)).unwrap();
				track = Some(t);
			}
		}
		let mut cb = |m: &mut Manager| {
			if subject == 1 {
				pacer::step_all_from(first, 8);
			}
			let mut b = [0.0f32; 2];
			rig::callback(m, &mut b, 1, 2);
		};
		let later = StartTime::Delayed(Duration::from_secs_f64(4.0 / 8.0));
		cb(&mut m);
		match (&mut h, &mut track) {
			(Some(h), _) => h.pause(instant()),
			(_, Some(t)) => t.pause(instant()),
			_ => {}
		}
		cb(&mut m);
		match (&mut h, &mut track) {
			(Some(h), _) => h.resume_at(later, instant()),
			(_, Some(t)) => t.resume_at(later, instant()),
			_ => {}
		}
		cb(&mut m);
		match (&mut h, &mut track) {
			(Some(h), _) => h.pause(instant()),
			(_, Some(t)) => t.pause(instant()),
			_ => {}
		}
		let mut states = vec![];
		for _ in 0..8 {
			cb(&mut m);
			states.push(match (&h, &track) {
				(Some(h), _) => format!("{:?}", h.state()),
				(_, Some(t)) => format!("{:?}", t.state()),
				_ => String::new(),
			});
		}
		if states.iter().any(|s| s != "Paused") {
			ctx.fail(
				format!("a pause issued while a scheduled resume is pending is lost (the superseded resume fires) :: cross-kind {}", ["static sound", "streaming sound", "track"][subject]),
				format!("pause; callback; resume_at(delayed 4 callbacks); callback; pause; then states {:?}, expected Paused throughout", states),
			);
		}
		ctx.nontrivial(hash64(&("pause cancels", subject)));
		if let (Some(st), Some(mut h)) = (stats, h) {
			h.stop(instant());
			cb(&mut m);
			drop(m);
			crate::probes::reap_decoder(first, &st);
		}
	}
	// 8. commands to a streaming sound whose decoder has not delivered anything yet (or has run dry) are still consumed by the
	// next callback
	for (ci, cname) in ["stop", "pause", "set_volume + stop"].iter().enumerate() {
		ctx.evals += 1;
		pacer::set_mode(pacer::Mode::Pacer);
		let mut m = rig::manager(8, 1, rig::caps(2), MainTrackBuilder::new());
		let first = pacer::count();
		let frames: Vec<Frame> = (0..16).map(|i| Frame::new(noise(i), noise(i + 5))).collect();
		let (dec, st) = ScriptedDecoder::new(frames, 8, vec![3, 1, 2], 2);
		let mut h = m.play(StreamingSoundData::from_decoder(dec).loop_region(Region::from(..))).map_err(|_| ()).unwrap();
		// no decoder step at all: the ring is empty
		match ci {
			0 => h.stop(instant()),
			1 => h.pause(instant()),
			_ => {
				h.set_volume(-6.0, instant());
				h.stop(instant());
			}
		}
		rig::callback(&mut m, &mut buf, 1, 2);
		rig::callback(&mut m, &mut buf, 1, 2);
		let st_now = format!("{:?}", h.state());
		let want = if ci == 1 { "Paused" } else { "Stopped" };
		if st_now != want {
			ctx.fail(
				"a command to a streaming sound that is waiting for its decoder is not consumed by the next callback :: cross-kind",
				format!("{}(instant) before the first callback, decoder never stepped: state {} after two callbacks, expected {}", cname, st_now, want),
			);
		}
		ctx.nontrivial(hash64(&("starved command", ci)));
		h.stop(instant());
		rig::callback(&mut m, &mut buf, 1, 2);
		drop(m);
		crate::probes::reap_decoder(first, &st);
	}
	// 9. clearing the loop region of a streaming sound (a command the decoder thread consumes): the sound then plays to its end
	{
		ctx.evals += 1;
		pacer::set_mode(pacer::Mode::Pacer);
		let mut m = rig::manager(8, 1, rig::caps(2), MainTrackBuilder::new());
		let first = pacer::count();
		let frames: Vec<Frame> = (0..16).map(|i| Frame::new(noise(i), noise(i + 5))).collect();
		let (dec, st) = ScriptedDecoder::new(frames, 8, vec![3, 1, 2], 2);
		let mut h = m.play(StreamingSoundData::from_decoder(dec).loop_region(region(2, 6))).map_err(|_| ()).unwrap();
		for _ in 0..6 {
			pacer::step_all_from(first, 2);
			rig::callback(&mut m, &mut buf, 1, 2);
		}
		h.set_loop_region(region(1, 5));
		h.set_loop_region(None);
		let mut stopped_after = None;
		for k in 0..80 {
			pacer::step_all_from(first, 2);
			rig::callback(&mut m, &mut buf, 1, 2);
			if h.state() == kira::sound::PlaybackState::Stopped {
				stopped_after = Some(k);
				break;
			}
		}
		if stopped_after.is_none() {
			ctx.fail(
				"set_loop_region(None) on a looping streaming sound is lost (the sound keeps looping) :: cross-kind",
				format!("16-frame stream looping 2..6; set_loop_region(1..5); set_loop_region(None) in one interval; still {:?} at position {} after 80 more frames", h.state(), h.position()),
			);
		}
		ctx.nontrivial(hash64(&"clear loop"));
		h.stop(instant());
		rig::callback(&mut m, &mut buf, 1, 2);
		drop(m);
		crate::probes::reap_decoder(first, &st);
	}
	// 10. a command on a track handle followed by the drop of that handle in the same interval, on a track that outlives its
	//     handle (it persists until its sounds finish, or a child track of it is alive): the command still takes effect
	for variant in 0..3 {
		for cmd in 0..2 {
			for warm in [0usize, 2] {
				ctx.evals += 1;
				let mut m = rig::manager(8, 1, rig::caps(4), MainTrackBuilder::new());
				let mut keep: Vec<Box<dyn std::any::Any>> = vec![];
				let mut t = match variant {
					0 => {
						let mut t = m.add_sub_track(TrackBuilder::new().persist_until_sounds_finish(true)).unwrap();
						keep.push(Box::new(t.play(dc_loop(8, 0.5)).unwrap()));
						t
					}
					1 => {
						let mut t = m.add_sub_track(TrackBuilder::new()).unwrap();
						let mut c = t.add_sub_track(TrackBuilder::new()).unwrap();
						keep.push(Box::new(c.play(dc_loop(8, 0.5)).unwrap()));
						keep.push(Box::new(c));
						t
					}
					_ => {
						// both: a persisting parent whose own sound plays, plus a live child
						let mut t = m.add_sub_track(TrackBuilder::new().persist_until_sounds_finish(true)).unwrap();
						keep.push(Box::new(t.play(dc_loop(8, 0.25)).unwrap()));
						let mut c = t.add_sub_track(TrackBuilder::new()).unwrap();
						keep.push(Box::new(c.play(dc_loop(8, 0.25)).unwrap()));
						keep.push(Box::new(c));
						t
					}
				};
				for _ in 0..warm {
					rig::callback(&mut m, &mut buf, 1, 2);
				}
				if cmd == 0 {
					t.set_volume(Decibels::SILENCE, instant());
				} else {
					t.pause(instant());
				}
				drop(t);
				let mut heard = vec![];
				for _ in 0..4 {
					rig::callback(&mut m, &mut buf, 1, 2);
					heard.push(buf[0]);
				}
				// (the first callback may still carry the old level: an instant tween completes at its first update, the fade is
				// interpolated inside that buffer)
				if heard[1..].iter().any(|v| *v != 0.0) {
					ctx.fail(
						"a command issued on a track handle just before the handle is dropped is lost although the track lives on :: cross-kind",
						format!(
							"{}; {} callback(s); {}; drop(handle); 4 callbacks of 1 frame: left channel {:?}, expected silence from the second on",
							["persist_until_sounds_finish(true) track with a looping DC sound", "track whose child track (handle alive) carries a looping DC sound", "persisting track with its own sound and a live child track with a sound"][variant],
							warm,
							["set_volume(SILENCE, instant)", "pause(instant)"][cmd],
							heard
						),
					);
				}
				ctx.nontrivial(hash64(&("cmd then drop", variant, cmd, warm)));
				drop(keep);
			}
		}
	}
	// 11. static sound: a loop-region change and a seek issued (in this order) in one interval: the seek lands where it would
	//     with the new region in force (commands of different kinds do not interfere)
	for (new_lp, seek_by) in [(None, false), (None, true), (Some((8usize, 14usize)), false)] {
		for gap in [true, false] {
			ctx.evals += 1;
			let mut m = rig::manager(8, 1, rig::caps(2), MainTrackBuilder::new());
			let frames: Vec<Frame> = (0..16).map(|i| Frame::from_mono((i + 1) as f32 / 32.0)).collect();
			let mut h = m.play(rig::static_data(8, frames).loop_region(region(1, 4))).unwrap();
			for _ in 0..3 {
				rig::callback(&mut m, &mut buf, 1, 2);
			}
			let before = h.position();
			h.set_loop_region(new_lp.map(|(a, b)| region(a, b)));
			if gap {
				rig::callback(&mut m, &mut buf, 1, 2);
			}
			let base = h.position();
			if seek_by {
				h.seek_by(1.0);
			} else {
				h.seek_to(10.0 / 8.0);
			}
			// (the reported position is that of the frame being heard, which trails the transport by the interpolation window)
			for _ in 0..4 {
				rig::callback(&mut m, &mut buf, 1, 2);
			}
			let pos = h.position() * 8.0;
			let target = if seek_by { base * 8.0 + 8.0 } else { 10.0 };
			// anything wrapped into the old loop region lies below frame 4
			if !(pos >= target - 2.5 && pos <= target + 4.5) {
				ctx.fail(
					"a seek issued together with (after) a loop-region change lands as if the old loop region were still in force :: cross-kind",
					format!(
						"16-frame static sound looping frames 1..4 at position {:.3} s; set_loop_region({:?}); {}{}; four callbacks later position = frame {:.2}, expected frame {:.2} to {:.2} + 4 (or inside the new loop region)",
						before,
						new_lp,
						if gap { "one callback; " } else { "" },
						if seek_by { "seek_by(1 s)" } else { "seek_to(frame 10)" },
						pos,
						target,
						target
					),
				);
			}
			ctx.nontrivial(hash64(&("loop then seek", new_lp, seek_by, gap)));
		}
	}
	// 12. a setter issued while the sound itself is not audible (paused, waiting for a delayed start): it takes effect at the next
	//     callback all the same - when the sound is heard again the tween has long ended
	for kind in 0..2 {
		for state in 0..2 {
			ctx.evals += 1;
			let mut m = rig::manager(8, 1, rig::caps(2), MainTrackBuilder::new());
			let first = pacer::count();
			let mut dec_stats = None;
			let mut h: Box<dyn crate::probes::SoundHandle> = if kind == 0 {
				let d = dc_loop(8, 0.5);
				let d = if state == 1 { d.start_time(StartTime::Delayed(Duration::from_secs(1))) } else { d };
				Box::new(m.play(d).unwrap())
			} else {
				pacer::set_mode(pacer::Mode::Pacer);
				let (dec, st) = ScriptedDecoder::new(rig::dc_frames(4096, 0.5), 8, vec![3, 1, 2], 1);
				dec_stats = Some(st);
				let d = StreamingSoundData::from_decoder(dec);
				let d = if state == 1 { d.start_time(StartTime::Delayed(Duration::from_secs(1))) } else { d };
				Box::new(m.play(d).map_err(|_| ()).unwrap())
			};
			let mut cb = |m: &mut rig::Manager, buf: &mut [f32; 2]| {
				if kind == 1 {
					pacer::step_all_from(first, 4);
				}
				rig::callback(m, buf, 1, 2);
			};
			cb(&mut m, &mut buf);
			if state == 0 {
				h.pause(instant());
				cb(&mut m, &mut buf);
			}
			// -20 dB over 2 frames, then 6 silent callbacks (paused / still waiting for its start time)
			h.set_volume(kira::Value::Fixed(Decibels(-20.0)), Tween { start_time: StartTime::Immediate, duration: Duration::from_millis(250), easing: Easing::Linear });
			let mut heard_meanwhile = false;
			for _ in 0..6 {
				cb(&mut m, &mut buf);
				heard_meanwhile |= buf[0] != 0.0;
			}
			if state == 0 {
				h.resume(instant());
			}
			let mut heard = vec![];
			for _ in 0..6 {
				cb(&mut m, &mut buf);
				heard.push(buf[0]);
			}
			let want = 0.5 * 0.1f32;
			let audible: Vec<f32> = heard.iter().copied().filter(|v| *v != 0.0).collect();
			// (a resume with an instant fade may take one more callback to be heard; a streaming sound starts a few frames in)
			if heard_meanwhile || audible.len() < 2 || audible.iter().any(|v| (*v - want).abs() > 1e-6) {
				ctx.fail(
					"a setter issued while the sound is paused / waiting for its start time is applied late (the tween only runs once the sound is audible) :: cross-kind",
					format!(
						"{} DC sound 0.5, {}; set_volume(-20 dB, 250 ms tween = 2 frames at 8 Hz); 6 callbacks of 1 frame; {}; the next 6 callbacks: {:?}, expected {} whenever audible (heard in between: {})",
						["static", "streaming"][kind],
						["paused (instant fade)", "start time Delayed(1 s), 1 callback played so far"][state],
						["resume(instant)", "its start time arrives"][state],
						heard,
						want,
						heard_meanwhile
					),
				);
			}
			ctx.nontrivial(hash64(&("setter while not audible", kind, state)));
			if let Some(st) = dec_stats {
				h.stop(instant());
				rig::callback(&mut m, &mut buf, 1, 2);
				drop(m);
				crate::probes::reap_decoder(first, &st);
			}
		}
	}
	// 13. a command written WHILE a callback is being rendered (here: from inside the callback, between two internal chunks)
	//     takes effect at the start of the NEXT callback, not in the remaining chunks of this one
	for kind in 0..4 {
		ctx.evals += 1;
		use std::sync::{Arc, Mutex};
		type Job = Arc<Mutex<Option<Box<dyn FnOnce() + Send>>>>;
		struct Trigger(Job, usize);
		impl kira::sound::Sound for Trigger {
			fn process(&mut self, out: &mut [Frame], _dt: f64, _info: &kira::info::Info) {
				out.fill(Frame::ZERO);
				self.1 += 1;
				// first chunk of the third callback (3 chunks per callback)
				if self.1 == 7 {
					if let Some(job) = self.0.lock().unwrap().take() {
						job();
					}
				}
			}
			fn finished(&self) -> bool {
				false
			}
		}
		struct TriggerData(Job);
		impl kira::sound::SoundData for TriggerData {
			type Error = ();
			type Handle = ();
			fn into_sound(self) -> Result<(Box<dyn kira::sound::Sound>, ()), ()> {
				Ok((Box::new(Trigger(self.0, 0)), ()))
			}
		}
		let mut m = rig::manager(8, 2, rig::caps(4), MainTrackBuilder::new());
		let job: Job = Arc::new(Mutex::new(None));
		// the trigger is played first: it is processed before the track it talks to
		m.play(TriggerData(job.clone())).map_err(|_| ()).unwrap();
		let send = m.add_send_track(SendTrackBuilder::new()).unwrap();
		let mut t = m.add_sub_track(TrackBuilder::new().with_send(&send, 0.0)).unwrap();
		let mut snd = t.play(dc_loop(8, 0.25)).unwrap();
		let send_id = send.id();
		*job.lock().unwrap() = Some(match kind {
			0 => Box::new(move || t.set_send(send_id, -20.0, instant()).unwrap()) as Box<dyn FnOnce() + Send>,
			1 => Box::new(move || t.set_volume(-20.0, instant())),
			2 => Box::new(move || t.pause(instant())),
			_ => Box::new(move || snd.set_volume(-20.0, instant())),
		});
		let mut out: Vec<(f32, f32)> = vec![];
		for _ in 0..5 {
			rig::render_stereo(&mut m, 6, &mut out);
		}
		// callbacks 0..2 (frames 0..18) carry the old level 0.25 + 0.25 (the first chunk may ramp in); the command was
		// written in the first chunk of callback 2 (frames 12..14)
		let old = 0.5f32;
		let cb2 = &out[12..18];
		let later_changed = out[24..].iter().any(|f| (f.0 - old).abs() > 1e-6);
		if cb2.iter().any(|f| (f.0 - old).abs() > 1e-6) || !later_changed {
			ctx.fail(
				"a command written while a callback is being rendered takes effect in the middle of that callback (or never) instead of at the start of the next one :: cross-kind".to_string(),
				format!(
					"{} issued from inside the first internal chunk of callback 2 (callbacks of 6 frames, internal buffer 2); left channel per callback {:?}; callback 2 must still be {} throughout, later callbacks must differ",
					["track.set_send(-20 dB, instant)", "track.set_volume(-20 dB, instant)", "track.pause(instant)", "sound.set_volume(-20 dB, instant)"][kind],
					out.chunks(6).map(|c| c.iter().map(|f| f.0).collect::<Vec<_>>()).collect::<Vec<_>>(),
					old
				),
			);
		}
		ctx.nontrivial(hash64(&("mid-callback write", kind)));
	}
	// 14. commands to an effect that lives in the feedback loop of a delay (its handle comes from DelayBuilder::add_feedback_effect):
	//     they reach it like commands to any other effect
	for (warm, line_frames) in [(0usize, 1u64), (4, 1), (0, 3), (4, 3)] {
		ctx.evals += 1;
		use kira::effect::delay::DelayBuilder;
		use kira::effect::volume_control::VolumeControlBuilder;
		let mut m = rig::manager(8, 2, rig::caps(4), MainTrackBuilder::new());
		let mut db = DelayBuilder::new().delay_time(Duration::from_secs_f64(line_frames as f64 / 8.0)).feedback(Decibels(-6.0)).mix(kira::Mix::WET);
		let mut vh = db.add_feedback_effect(VolumeControlBuilder::new(Decibels(0.0)));
		let mut t = m.add_sub_track(TrackBuilder::new().with_effect(db)).unwrap();
		let _s = t.play(dc_loop(8, 0.5)).unwrap();
		let mut out: Vec<(f32, f32)> = vec![];
		for _ in 0..warm {
			rig::render_stereo(&mut m, 4, &mut out);
		}
		let before = out.last().map(|f| f.0).unwrap_or(f32::NAN);
		vh.set_volume(Decibels::SILENCE, instant());
		out.clear();
		for _ in 0..6 {
			rig::render_stereo(&mut m, 4, &mut out);
		}
		// with the loop gain at zero the (fully wet) delay falls silent once the line has run out
		if out[12..].iter().any(|f| f.0 != 0.0) {
			ctx.fail(
				"a command to an effect hosted in a delay's feedback loop never reaches it :: cross-kind".to_string(),
				format!("track with Delay(line {} frame(s), feedback -6 dB, fully wet) hosting VolumeControl(0 dB) in its feedback loop, DC 0.5; {} callbacks of 4 frames (output then {}); hosted_volume.set_volume(SILENCE, instant); the next 24 frames: {:?}, expected silence from frame 12 on", line_frames, warm, before, out.iter().map(|f| f.0).collect::<Vec<_>>()),
			);
		}
		ctx.nontrivial(hash64(&("hosted effect command", warm, line_frames)));
	}
	// 15. streaming sound: seek_by and seek_to issued in one interval (either order of issue): both are consumed by the decoder's next
	//     step - the stream continues where the static twin, given the same two commands, continues, and stays there
	for to_first in [false, true] {
		for (d, p) in [(2.0f64, 5.0f64), (-0.5, 3.0)] {
			ctx.evals += 1;
			pacer::set_mode(pacer::Mode::Pacer);
			let mut m = rig::manager(8, 1, rig::caps(2), MainTrackBuilder::new());
			let first = pacer::count();
			let frames: Vec<Frame> = (0..96).map(|i| Frame::new((i + 1) as f32 / 128.0, 0.0)).collect();
			let (dec, st) = ScriptedDecoder::new(frames.clone(), 8, vec![3, 1, 2], 1);
			let mut h = m.play(StreamingSoundData::from_decoder(dec)).map_err(|_| ()).unwrap();
			let mut hs = m.play(rig::static_data(8, frames.iter().map(|f| Frame::new(0.0, f.left)).collect())).unwrap();
			for _ in 0..4 {
				pacer::step_all_from(first, 2);
				rig::callback(&mut m, &mut buf, 1, 2);
			}
			if to_first {
				h.seek_to(p);
				h.seek_by(d);
				hs.seek_to(p);
				hs.seek_by(d);
			} else {
				h.seek_by(d);
				h.seek_to(p);
				hs.seek_by(d);
				hs.seek_to(p);
			}
			// (left channel: the stream; right channel: the static twin)
			let mut heard = vec![];
			for _ in 0..16 {
				pacer::step_all_from(first, 3);
				rig::callback(&mut m, &mut buf, 1, 2);
				heard.push(((buf[0] * 128.0).round() as i64 - 1, (buf[1] * 128.0).round() as i64 - 1));
			}
			// after the buffered frames have played out both advance one frame per callback, on the same line
			let tail = &heard[8..];
			let same_line = tail.iter().all(|(a, b)| (a - b).abs() <= 2);
			let advancing = tail.windows(2).all(|w| w[1].0 == w[0].0 + 1 && w[1].1 == w[0].1 + 1);
			if !same_line || !advancing {
				ctx.fail(
					"streaming sound: seek_by and seek_to issued in one interval are not both consumed at once (the stream does not continue where the static twin continues) :: cross-kind",
					format!("96-frame sounds at 8 Hz (frame i = (i+1)/128), 4 frames heard; {} in one interval; (stream frame, static frame) per callback afterwards {:?}", if to_first { format!("seek_to({} s); seek_by({} s)", p, d) } else { format!("seek_by({} s); seek_to({} s)", d, p) }, heard),
				);
			}
			ctx.nontrivial(hash64(&("two seeks", to_first, d.to_bits())));
			h.stop(instant());
			rig::callback(&mut m, &mut buf, 1, 2);
			drop(m);
			crate::probes::reap_decoder(first, &st);
		}
	}
	ctx.traces += 26 + 36 + 6 + 4 + 4 + 4;
	ctx.transitions += 20 + 12 * 7 + 26 + 36 + 100 + 36 * 6 + 6 * 6;
	ctx.state(hash64(&"cross"));
	ctx.outcome(hash64(&"cross"));
}
