//! C11 — rendered audio does not depend on buffer sizes.
//!
//! E1: fixed-parameter scenes x internal buffer sizes {1,2,3,4,5,7,8,16,64,4096} x ALL 128
//! compositions of N = 8 frames into callbacks x channel counts {1,2,3}, plus N = 200 (and 600 for
//! the reverb) with a family of fixed partitions; every rendering is compared with the reference
//! rendering (one callback, internal buffer = N).

use crate::engine::{hash64, Check, Ctx, Level, Tier};
use crate::json::J;
use crate::pacer;
use crate::probes::{DecStats, ScriptedDecoder};
use crate::rig::{self, catch, Manager};
use kira::effect::compressor::CompressorBuilder;
use kira::effect::delay::DelayBuilder;
use kira::effect::distortion::{DistortionBuilder, DistortionKind};
use kira::effect::eq_filter::{EqFilterBuilder, EqFilterKind};
use kira::effect::filter::{FilterBuilder, FilterMode};
use kira::effect::panning_control::PanningControlBuilder;
use kira::effect::reverb::ReverbBuilder;
use kira::effect::volume_control::VolumeControlBuilder;
use kira::sound::streaming::StreamingSoundData;
use kira::sound::{EndPosition, PlaybackPosition, Region};
use kira::track::{MainTrackBuilder, SendTrackBuilder, SpatialTrackBuilder, TrackBuilder};
use kira::{Frame, Panning, Value};
use std::any::Any;
use std::sync::Arc;
use std::time::Duration;

pub struct C11;

const SR: u32 = 8000;
const IBS: [usize; 10] = [1, 2, 3, 4, 5, 7, 8, 16, 64, 4096];

fn noise(i: usize) -> f32 {
	(((i * 7919 + 13) % 64) as f32 / 64.0 - 0.5) * 0.5
}
fn noise_sound(n: usize) -> kira::sound::static_sound::StaticSoundData {
	rig::static_data(SR, (0..n).map(|i| Frame::new(noise(i), noise(i + 5))).collect())
}
fn region(a: usize, b: usize) -> Region {
	Region {
		start: PlaybackPosition::Samples(a),
		end: EndPosition::Custom(PlaybackPosition::Samples(b)),
	}
}

struct Scene {
	name: &'static str,
	/// bit-identical expected (true) or 1e-6 (recursive effects)
	exact: bool,
	/// needs the long run to show anything
	long_only: bool,
	build: fn(usize) -> Built,
}
struct Built {
	m: Manager,
	_keep: Vec<Box<dyn Any>>,
	stream: Option<(usize, Arc<DecStats>)>,
}

fn on_track(ibs: usize, tb: TrackBuilder, looped: bool) -> Built {
	on_track_n(ibs, tb, looped, 23)
}
/// a short burst followed by digital silence: the effect rings out on all-zero input
fn on_track_burst(ibs: usize, tb: TrackBuilder) -> Built {
	on_track_n(ibs, tb, false, 2)
}
fn on_track_n(ibs: usize, tb: TrackBuilder, looped: bool, n: usize) -> Built {
	let mut m = rig::manager(SR, ibs, rig::caps(4), MainTrackBuilder::new());
	let mut t = m.add_sub_track(tb).unwrap();
	let d = if looped { noise_sound(n).loop_region(Region::from(..)) } else { noise_sound(n) };
	let s = t.play(d).unwrap();
	Built {
		m,
		_keep: vec![Box::new(t), Box::new(s)],
		stream: None,
	}
}

fn scenes() -> Vec<Scene> {
	macro_rules! snd {
		($name:expr, $f:expr) => {
			Scene {
				name: $name,
				exact: true,
				long_only: false,
				build: |ibs| {
					let mut m = rig::manager(SR, ibs, rig::caps(4), MainTrackBuilder::new());
					let d: kira::sound::static_sound::StaticSoundData = ($f)(noise_sound(23));
					let s = m.play(d).unwrap();
					Built {
						m,
						_keep: vec![Box::new(s)],
						stream: None,
					}
				},
			}
		};
	}
	macro_rules! fx {
		($name:expr, $exact:expr, $long:expr, $b:expr) => {
			Scene {
				name: $name,
				exact: $exact,
				long_only: $long,
				build: |ibs| on_track(ibs, TrackBuilder::new().with_effect($b), true),
			}
		};
	}
	macro_rules! fxb {
		($name:expr, $b:expr) => {
			Scene {
				name: $name,
				exact: false,
				long_only: false,
				build: |ibs| on_track_burst(ibs, TrackBuilder::new().with_effect($b)),
			}
		};
	}
	vec![
		snd!("static sound, rate 1", |d: kira::sound::static_sound::StaticSoundData| d),
		snd!("static sound, rate 0.37", |d: kira::sound::static_sound::StaticSoundData| d.playback_rate(0.37)),
		snd!("static sound, rate 2.5", |d: kira::sound::static_sound::StaticSoundData| d.playback_rate(2.5)),
		snd!("static sound, loop 3..9, rate 1.3", |d: kira::sound::static_sound::StaticSoundData| d.loop_region(region(3, 9)).playback_rate(1.3)),
		snd!("static sound, panned -0.5, -6 dB", |d: kira::sound::static_sound::StaticSoundData| d.panning(-0.5).volume(-6.0)),
		snd!("static sound, reverse, start 4", |d: kira::sound::static_sound::StaticSoundData| d.reverse(true).start_position(PlaybackPosition::Samples(4))),
		Scene {
			name: "two sounds on main, rates 1 and 0.75",
			exact: true,
			long_only: false,
			build: |ibs| {
				let mut m = rig::manager(SR, ibs, rig::caps(4), MainTrackBuilder::new());
				let a = m.play(noise_sound(23).loop_region(Region::from(..))).unwrap();
				let b = m.play(noise_sound(17).playback_rate(0.75).panning(0.3)).unwrap();
				Built {
					m,
					_keep: vec![Box::new(a), Box::new(b)],
					stream: None,
				}
			},
		},
		Scene {
			name: "streaming sound, rate 1",
			exact: true,
			long_only: false,
			build: |ibs| stream_scene(ibs, 1.0),
		},
		Scene {
			name: "streaming sound, rate 0.75, looping",
			exact: true,
			long_only: false,
			build: |ibs| stream_scene(ibs, 0.75),
		},
		Scene {
			name: "streaming sound, rate 0.3, finite: the whole sound incl. the interpolator's ring-out after its last (non-zero) frame",
			exact: true,
			long_only: false,
			build: |ibs| stream_scene(ibs, 0.3),
		},
		Scene {
			name: "streaming sound, rate 1.7, finite",
			exact: true,
			long_only: false,
			build: |ibs| stream_scene(ibs, 1.7),
		},
		Scene {
			name: "nested tracks with volumes",
			exact: true,
			long_only: false,
			build: |ibs| {
				let mut m = rig::manager(SR, ibs, rig::caps(4), MainTrackBuilder::new().volume(-3.0));
				let mut a = m.add_sub_track(TrackBuilder::new().volume(-6.0)).unwrap();
				let mut b = a.add_sub_track(TrackBuilder::new().volume(-2.0)).unwrap();
				let s1 = a.play(noise_sound(23).loop_region(Region::from(..))).unwrap();
				let s2 = b.play(noise_sound(19).loop_region(Region::from(..)).playback_rate(1.5)).unwrap();
				let s3 = m.play(noise_sound(11).loop_region(Region::from(..))).unwrap();
				Built {
					m,
					_keep: vec![Box::new(a), Box::new(b), Box::new(s1), Box::new(s2), Box::new(s3)],
					stream: None,
				}
			},
		},
		Scene {
			name: "send track with a filter, routed from a sub-track",
			exact: false,
			long_only: false,
			build: |ibs| {
				let mut m = rig::manager(SR, ibs, rig::caps(4), MainTrackBuilder::new());
				let send = m
					.add_send_track(SendTrackBuilder::new().volume(-3.0).with_effect(FilterBuilder::new().cutoff(900.0)))
					.unwrap();
				let mut t = m.add_sub_track(TrackBuilder::new().with_send(&send, -6.0)).unwrap();
				let s = t.play(noise_sound(23).loop_region(Region::from(..))).unwrap();
				Built {
					m,
					_keep: vec![Box::new(send), Box::new(t), Box::new(s)],
					stream: None,
				}
			},
		},
		Scene {
			name: "send track with a 5-frame delay, routed from a sub-track",
			exact: false,
			long_only: false,
			build: |ibs| {
				let mut m = rig::manager(SR, ibs, rig::caps(4), MainTrackBuilder::new());
				let send = m
					.add_send_track(SendTrackBuilder::new().with_effect(DelayBuilder::new().delay_time(Duration::from_micros(625)).feedback(-3.0)))
					.unwrap();
				let mut t = m.add_sub_track(TrackBuilder::new().with_send(&send, 0.0)).unwrap();
				let s = t.play(noise_sound(23).loop_region(Region::from(..))).unwrap();
				Built {
					m,
					_keep: vec![Box::new(send), Box::new(t), Box::new(s)],
					stream: None,
				}
			},
		},
		Scene {
			name: "filter on the main track",
			exact: false,
			long_only: false,
			build: |ibs| {
				let mut m = rig::manager(SR, ibs, rig::caps(4), MainTrackBuilder::new().with_effect(FilterBuilder::new().cutoff(700.0).resonance(0.5)));
				let s = m.play(noise_sound(23).loop_region(Region::from(..))).unwrap();
				Built {
					m,
					_keep: vec![Box::new(s)],
					stream: None,
				}
			},
		},
		fx!("filter low-pass", false, false, FilterBuilder::new().cutoff(1000.0)),
		fx!("filter band-pass, resonance 0.8, mix 0.5", false, false, FilterBuilder::new().mode(FilterMode::BandPass).cutoff(1500.0).resonance(0.8).mix(0.5)),
		fx!("eq bell +6 dB", false, false, EqFilterBuilder::new(EqFilterKind::Bell, 1200.0, 6.0, 1.0)),
		fx!("eq high shelf -9 dB", false, false, EqFilterBuilder::new(EqFilterKind::HighShelf, 2000.0, -9.0, 0.7)),
		fx!("delay of 3 frames, feedback -3 dB", false, false, DelayBuilder::new().delay_time(Duration::from_micros(375)).feedback(-3.0)),
		fx!("delay of 20 frames", false, false, DelayBuilder::new().delay_time(Duration::from_micros(2500))),
		fx!(
			"delay of 6 frames with a filter in the feedback loop",
			false,
			false,
			DelayBuilder::new().delay_time(Duration::from_micros(750)).feedback(-2.0).with_feedback_effect(FilterBuilder::new().cutoff(800.0))
		),
		fx!(
			"delay of 9 frames with a 4-frame delay in the feedback loop",
			false,
			false,
			DelayBuilder::new()
				.delay_time(Duration::from_micros(1125))
				.feedback(-2.0)
				.with_feedback_effect(DelayBuilder::new().delay_time(Duration::from_micros(500)))
		),
		fxb!("2-frame burst then silence into a resonant low-pass (ring-out)", FilterBuilder::new().cutoff(300.0).resonance(0.9)),
		fxb!("2-frame burst then silence into an eq bell +12 dB", EqFilterBuilder::new(EqFilterKind::Bell, 500.0, 12.0, 4.0)),
		fxb!(
			"2-frame burst then silence into a 3-frame delay with a low-pass in the feedback loop",
			DelayBuilder::new().delay_time(Duration::from_micros(375)).feedback(-2.0).with_feedback_effect(FilterBuilder::new().cutoff(400.0).resonance(0.5))
		),
		fxb!(
			"2-frame burst then silence into a 20-frame delay with a low-pass in the feedback loop",
			DelayBuilder::new().delay_time(Duration::from_micros(2500)).feedback(-2.0).with_feedback_effect(FilterBuilder::new().cutoff(400.0).resonance(0.5))
		),
		fxb!("2-frame burst then silence into a compressor (release on silence)", CompressorBuilder::new().threshold(-40.0).ratio(8.0).attack_duration(Duration::from_micros(200)).release_duration(Duration::from_millis(1))),
		Scene {
			name: "DC sound whose volume is linked to a tweener that jumped and was then removed (the parameter holds its last value)",
			exact: true,
			long_only: false,
			build: |ibs| {
				use kira::modulator::tweener::TweenerBuilder;
				let mut m = rig::manager(SR, ibs, rig::caps(4), MainTrackBuilder::new());
				let mut tw = m.add_modulator(TweenerBuilder { initial_value: 0.0 }).unwrap();
				let vol: Value<kira::Decibels> = Value::FromModulator {
					id: tw.id(),
					mapping: kira::Mapping { input_range: (0.0, 1.0), output_range: (kira::Decibels(-12.0), kira::Decibels(0.0)), easing: kira::Easing::Linear },
				};
				let s = m.play(rig::static_data(SR, rig::dc_frames(4, 0.5)).loop_region(Region::from(..)).volume(vol)).unwrap();
				// history (one internal buffer per step, so that it ends in the same state whatever the buffer size): adopt; the
				// tweener jumps to 1; its handle is dropped; the rendering that is compared starts with the callback that removes it
				let mut buf = vec![0.0f32; 2 * ibs.min(4096)];
				let n = ibs.min(4096);
				rig::callback(&mut m, &mut buf, n, 2);
				tw.set(1.0, kira::Tween { duration: Duration::ZERO, ..Default::default() });
				rig::callback(&mut m, &mut buf, n, 2);
				drop(tw);
				Built { m, _keep: vec![Box::new(s)], stream: None }
			},
		},
		Scene {
			name: "DC sound whose volume follows a tweener that ran a 10.3 ms tween and has come to rest",
			exact: true,
			long_only: false,
			build: |ibs| {
				use kira::modulator::tweener::TweenerBuilder;
				let mut m = rig::manager(SR, ibs, rig::caps(4), MainTrackBuilder::new());
				let mut tw = m.add_modulator(TweenerBuilder { initial_value: 0.0 }).unwrap();
				let vol: Value<kira::Decibels> = Value::FromModulator {
					id: tw.id(),
					mapping: kira::Mapping { input_range: (0.0, 1.0), output_range: (kira::Decibels(-12.0), kira::Decibels(0.0)), easing: kira::Easing::Linear },
				};
				let s = m.play(rig::static_data(SR, rig::dc_frames(4, 0.5)).loop_region(Region::from(..)).volume(vol)).unwrap();
				// history: the tween (82.4 frames: never a whole number of internal buffers) runs to its end and two buffers beyond
				tw.set(0.5, kira::Tween { duration: Duration::from_micros(10_300), ..Default::default() });
				let n = ibs.min(4096);
				let mut buf = vec![0.0f32; 2 * n];
				let mut done = 0;
				while done < 83 + 2 * n {
					rig::callback(&mut m, &mut buf, n, 2);
					done += n;
				}
				Built { m, _keep: vec![Box::new(s), Box::new(tw)], stream: None }
			},
		},
		Scene {
			name: "2-frame burst on a sub-track with a 3-frame feedback delay that is also routed to a send track",
			exact: false,
			long_only: false,
			build: |ibs| {
				let mut m = rig::manager(SR, ibs, rig::caps(4), MainTrackBuilder::new());
				let send = m.add_send_track(SendTrackBuilder::new().volume(-3.0)).unwrap();
				let mut t = m
					.add_sub_track(TrackBuilder::new().with_effect(DelayBuilder::new().delay_time(Duration::from_micros(375)).feedback(-2.0)).with_send(&send, -1.0))
					.unwrap();
				let s = t.play(noise_sound(2)).unwrap();
				Built { m, _keep: vec![Box::new(send), Box::new(t), Box::new(s)], stream: None }
			},
		},
		Scene {
			name: "2-frame burst on a nested sub-track with a 20-frame feedback delay, parent routed to a send track with a filter",
			exact: false,
			long_only: false,
			build: |ibs| {
				let mut m = rig::manager(SR, ibs, rig::caps(4), MainTrackBuilder::new());
				let send = m.add_send_track(SendTrackBuilder::new().with_effect(FilterBuilder::new().cutoff(900.0))).unwrap();
				let mut p = m.add_sub_track(TrackBuilder::new().with_send(&send, 0.0)).unwrap();
				let mut t = p
					.add_sub_track(TrackBuilder::new().with_effect(DelayBuilder::new().delay_time(Duration::from_micros(2500)).feedback(-2.0)).with_send(&send, -6.0))
					.unwrap();
				let s = t.play(noise_sound(2)).unwrap();
				Built { m, _keep: vec![Box::new(send), Box::new(p), Box::new(t), Box::new(s)], stream: None }
			},
		},
		fx!("reverb", false, true, ReverbBuilder::new().feedback(0.8).damping(0.3).stereo_width(0.5)),
		fx!("compressor", false, false, CompressorBuilder::new().threshold(-30.0).ratio(4.0).attack_duration(Duration::from_micros(500)).release_duration(Duration::from_millis(2))),
		fx!("distortion soft clip +12 dB", true, false, DistortionBuilder::new().kind(DistortionKind::SoftClip).drive(12.0)),
		fx!("volume control -4 dB", true, false, VolumeControlBuilder::new(-4.0)),
		fx!("panning control 0.4", true, false, PanningControlBuilder(Value::Fixed(Panning(0.4)))),
		Scene {
			name: "spatial track",
			// the listener orientation is re-normalised per frame (Quat::lerp): 1 ulp differences
			exact: false,
			long_only: false,
			build: |ibs| {
				let mut m = rig::manager(SR, ibs, rig::caps(4), MainTrackBuilder::new());
				let l = m.add_listener(glam::Vec3::new(1.0, 0.0, 0.0), glam::Quat::from_rotation_y(0.4)).unwrap();
				let mut t = m.add_spatial_sub_track(&l, glam::Vec3::new(4.0, 1.0, -2.0), SpatialTrackBuilder::new()).unwrap();
				let s = t.play(noise_sound(23).loop_region(Region::from(..))).unwrap();
				Built {
					m,
					_keep: vec![Box::new(l), Box::new(t), Box::new(s)],
					stream: None,
				}
			},
		},
		Scene {
			name: "spatial track, listener orientation given as a quaternion of length 0.5 (nothing moves)",
			exact: false,
			long_only: false,
			build: |ibs| {
				let mut m = rig::manager(SR, ibs, rig::caps(4), MainTrackBuilder::new());
				let l = m.add_listener(glam::Vec3::new(1.0, 0.0, 0.0), glam::Quat::from_rotation_y(0.6) * 0.5).unwrap();
				let mut t = m.add_spatial_sub_track(&l, glam::Vec3::new(4.0, 1.0, -2.0), SpatialTrackBuilder::new().spatialization_strength(1.0)).unwrap();
				let s = t.play(noise_sound(23).loop_region(Region::from(..))).unwrap();
				Built {
					m,
					_keep: vec![Box::new(l), Box::new(t), Box::new(s)],
					stream: None,
				}
			},
		},
	]
}

fn stream_scene(ibs: usize, rate: f64) -> Built {
	pacer::set_mode(pacer::Mode::Pacer);
	let mut m = rig::manager(SR, ibs, rig::caps(4), MainTrackBuilder::new());
	let first = pacer::count();
	// (rates 0.3 and 1.7: a short finite stream that ends inside the compared rendering, last frame non-zero)
	let finite = rate == 0.3 || rate == 1.7;
	let n = if rate == 0.3 { 9 } else if rate == 1.7 { 61 } else { 37 };
	let frames: Vec<Frame> = (0..n).map(|i| Frame::new(noise(i), noise(i + 5))).collect();
	let (dec, stats) = ScriptedDecoder::new(frames, SR, vec![3, 1, 4], 2);
	let mut d = StreamingSoundData::from_decoder(dec).playback_rate(rate);
	if rate != 1.0 && !finite {
		d = d.loop_region(region(2, 30));
	}
	let h = m.play(d).map_err(|_| ()).unwrap();
	Built {
		m,
		_keep: vec![Box::new(h)],
		stream: Some((first, stats)),
	}
}

fn compositions(total: usize, cur: &mut Vec<usize>, out: &mut Vec<Vec<usize>>) {
	if total == 0 {
		out.push(cur.clone());
		return;
	}
	for p in 1..=total {
		cur.push(p);
		compositions(total - p, cur, out);
		cur.pop();
	}
}

fn render(scene: &Scene, ibs: usize, parts: &[usize], channels: u16) -> Result<Vec<f32>, String> {
	let mut b = (scene.build)(ibs);
	let mut out = vec![];
	for &n in parts {
		if let Some((first, _)) = &b.stream {
			pacer::step_all_from(*first, (n as u64) * 3 + 8);
		}
		let mut buf = vec![0.0f32; n * channels as usize];
		let rep = rig::callback(&mut b.m, &mut buf, n, channels);
		if let Some(p) = rep.panic {
			return Err(format!("callback panic: {}", p));
		}
		if rep.allocs + rep.frees > 0 {
			return Err("callback allocates/frees on the audio thread".into());
		}
		if let Some(bad) = rep.bad_sample {
			return Err(format!("callback output ill-formed: {}", bad));
		}
		out.extend(buf);
	}
	if let Some((first, stats)) = b.stream.take() {
		// teardown of the decoder thread
		drop(b);
		crate::probes::reap_decoder(first, &stats);
	}
	Ok(out)
}

/// a sound that is silent for a while keeps its place: a static sound (44100 Hz on the 48000 Hz device at rate 0.75, so every
/// output frame advances the source by a fraction of a frame) plays at -60 dB for 9600 frames, is set to 0 dB at frame 9600 (a
/// multiple of every callback size used) and goes on; what it plays afterwards does not depend on the buffer sizes in force while
/// it was silent. (The buffer in which the volume changes ramps over its own length: frames 9600..9856 are not compared.)
fn muted_playhead(ctx: &mut Ctx) {
	use kira::{Decibels, PlaybackRate, Tween};
	let shapes: [(usize, usize); 7] = [(1, 1), (128, 128), (64, 64), (32, 96), (128, 100), (16, 48), (128, 300)];
	for rate in [0.75f64, 1.0, 1.3] {
		let mut reference: Option<Vec<f32>> = None;
		for (ibs, cb) in shapes {
			ctx.evals += 1;
			let mut m = rig::manager(48000, ibs, rig::caps(2), MainTrackBuilder::new());
			let data = rig::static_data(44100, (0..3000).map(|i| Frame::new(noise(i), noise(i + 5))).collect()).loop_region(Region::from(..)).playback_rate(PlaybackRate(rate)).volume(Decibels::SILENCE);
			let mut h = m.play(data).unwrap();
			let mut out: Vec<f32> = vec![];
			let mut failed = None;
			let mut done = 0usize;
			while done < 19200 {
				if done == 9600 {
					h.set_volume(Decibels::IDENTITY, Tween { duration: Duration::ZERO, ..Default::default() });
				}
				let mut buf = vec![0.0f32; 2 * cb];
				let rep = rig::callback(&mut m, &mut buf, cb, 2);
				if !rep.ok() {
					failed = Some(format!("callback monitor {:?}", rep));
					break;
				}
				out.extend(buf);
				done += cb;
			}
			let desc = format!("3000-frame looping static sound at 44100 Hz, playback rate {}, device 48000 Hz, volume -60 dB; set_volume(0 dB, instant) before frame 9600; internal buffer {}, callbacks of {} frames", rate, ibs, cb);
			if let Some(f) = failed {
				ctx.fail(format!("{} :: silent sound keeps its place", f), desc);
				continue;
			}
			let window = 2 * 9856..2 * 19200;
			match &reference {
				None => {
					if out[window.clone()].iter().all(|v| *v == 0.0) {
						ctx.fail("machinery: the unmuted sound is not heard :: silent sound keeps its place", desc);
					}
					reference = Some(out);
				}
				Some(r) => {
					if let Some(i) = window.clone().find(|&i| (out[i] - r[i]).abs() > 1e-6) {
						ctx.fail(
							"output depends on the buffer sizes in force while a sound was silent (the sound lost its place) :: silent sound keeps its place".to_string(),
							format!("{}: sample {} (frame {}) = {:e}, rendered with internal buffer 1 and one-frame callbacks it is {:e}", desc, i, i / 2, out[i], r[i]),
						);
					} else {
						ctx.nontrivial_extra += 1;
					}
				}
			}
		}
	}
}

/// a long streaming sound whose decoder keeps its 16384-frame ring topped up (before every callback it is given time for as
/// many iterations as the callback will consume, and then some), rendered in large callbacks of several shapes: same audio
fn huge_stream(ctx: &mut Ctx) {
	pacer::set_mode(pacer::Mode::Pacer);
	let total = 24576usize;
	let shapes: Vec<(usize, Vec<usize>)> = vec![
		(4096, vec![4096, 4000, 12288, 4192]),
		(255, vec![1020; 24].into_iter().chain([96]).collect()),
		(64, vec![12288, 12288]),
	];
	let mut reference: Option<Vec<f32>> = None;
	for (ibs, parts) in shapes {
		ctx.evals += 1;
		assert_eq!(parts.iter().sum::<usize>(), total);
		let mut m = rig::manager(SR, ibs, rig::caps(2), MainTrackBuilder::new());
		let first = pacer::count();
		let frames: Vec<Frame> = (0..30000).map(|i| Frame::new(noise(i), noise(i + 5))).collect();
		let (dec, stats) = ScriptedDecoder::new(frames, SR, vec![64, 3, 1], 2);
		let h = m.play(StreamingSoundData::from_decoder(dec)).map_err(|_| ()).unwrap();
		// the ring is filled to the brim before the first callback
		pacer::step_all_from(first, 16400);
		let mut out: Vec<f32> = vec![];
		let mut failed = None;
		for &n in &parts {
			pacer::step_all_from(first, n as u64 + 8);
			let mut buf = vec![0.0f32; 2 * n];
			let rep = rig::callback(&mut m, &mut buf, n, 2);
			if !rep.ok() {
				failed = Some(format!("callback monitor {:?}", rep));
				break;
			}
			out.extend(buf);
		}
		let desc = format!("30000-frame streaming sound at rate 1, internal buffer {}, callbacks {:?}; the decoder runs 16400 iterations before the first callback and (callback size + 8) iterations before each callback", ibs, if parts.len() > 8 { parts[..8].to_vec() } else { parts.clone() });
		if let Some(f) = failed {
			ctx.fail(format!("{} :: long stream, large callbacks", f), desc);
		} else if let Some(r) = &reference {
			if let Some(i) = (0..out.len()).find(|&i| out[i] != r[i]) {
				ctx.fail(
					"output depends on the callback partition (a long streaming sound rendered in large callbacks) :: long stream, large callbacks".to_string(),
					format!("{}: sample {} (frame {}) = {:e}, with callbacks [4096, 4000, 12288, 4192] and internal buffer 4096 it is {:e}", desc, i, i / 2, out[i], r[i]),
				);
			} else {
				ctx.nontrivial_extra += 1;
			}
		} else {
			// the first shape is the reference; it must at least be the source, frame by frame (rate 1: exact copies)
			if let Some(f) = (3..total).find(|&f| out[2 * f] == 0.0 && out[2 * f + 1] == 0.0 && noise(f) != 0.0 && f + 8 < total && (f..f + 8).all(|g| out[2 * g] == 0.0)) {
				ctx.fail("a streaming sound whose decoder is kept ahead goes silent inside a large callback :: long stream, large callbacks".to_string(), format!("{}: silence from frame {} on", desc, f));
			}
			reference = Some(out);
		}
		drop(h);
		drop(m);
		crate::probes::reap_decoder(first, &stats);
	}
	ctx.outcome(hash64(&"huge stream"));
}

impl Check for C11 {
	fn id(&self) -> &'static str {
		"C11"
	}
	fn level(&self) -> Level {
		Level::Exploration
	}
	fn num_cases(&self, _tier: Tier) -> u64 {
		scenes().len() as u64 * IBS.len() as u64
	}
	fn describe(&self, tier: Tier, idx: u64) -> String {
		let sc = &scenes()[(idx / IBS.len() as u64) as usize];
		format!(
			"scene '{}' internal buffer {}: all 128 compositions of 8 frames x channels {{1,2,3}}; {} frames with partitions {{all 1, one callback, 7s, ibs-1, ibs+1, N-1 then 1, 3 then rest{}}}",
			sc.name,
			IBS[(idx % IBS.len() as u64) as usize],
			if sc.long_only { 700 } else { 200 },
			tier.pick("", ", 2s, 5s, 13s, 64s")
		)
	}
	fn sig_hint(&self, _tier: Tier, idx: u64) -> String {
		format!("scene {}", scenes()[(idx / IBS.len() as u64) as usize].name)
	}
	fn rule(&self) -> String {
		"28 fixed-parameter scenes (static sounds at rates 1/0.37/2.5, loop, pan, reverse; streaming sounds; nested tracks; send tracks with stateful effects; every built-in effect incl. nested delays; spatial track) x internal buffer {1,2,3,4,5,7,8,16,64,4096} x all 128 compositions of 8 frames x channels {1,2,3} + long runs (200 / 700 frames) with fixed partitions; each rendering compared with the reference (single callback, internal buffer = N): bit-identical for sound/mix/volume scenes, 1e-6 for recursive effects. non-trivial = renderings with non-silent output that used a partition or buffer size different from the reference".into()
	}
	fn assumptions(&self) -> Vec<String> {
		vec![
			"scenes exclude what the statement excludes: tweens in progress, commands in flight, delayed and clock-scheduled starts (quantised to internal buffers by design), modulators (updated once per chunk by design)".into(),
			"the streaming decoder is kept ahead of playback through the gate hook".into(),
		]
	}
	fn extra_evidence(&self, _tier: Tier) -> Vec<(String, J)> {
		vec![("scenes".into(), J::arr_str(scenes().iter().map(|s| s.name.to_string())))]
	}
	fn run_case(&self, tier: Tier, idx: u64, ctx: &mut Ctx) {
		if idx == 0 {
			if let Err(p) = catch(|| muted_playhead(ctx)) {
				ctx.fail(format!("panic: {} :: silent sound keeps its place", p), "");
			}
			if let Err(p) = catch(|| huge_stream(ctx)) {
				ctx.fail(format!("panic: {} :: long stream, large callbacks", p), "");
			}
		}
		let all = scenes();
		let sc = &all[(idx / IBS.len() as u64) as usize];
		let ibs = IBS[(idx % IBS.len() as u64) as usize];
		let tol = if sc.exact { 0.0 } else { 1e-6 };
		let mut comps = vec![];
		compositions(8, &mut vec![], &mut comps);
		let mut jobs: Vec<(usize, Vec<usize>, u16)> = vec![];
		if !sc.long_only {
			for c in &comps {
				for ch in [1u16, 2, 3] {
					jobs.push((8, c.clone(), ch));
				}
			}
		}
		let n = if sc.long_only { 700 } else { 200 };
		let fill = |step: usize| -> Vec<usize> {
			let mut v = vec![];
			let mut left = n;
			while left > 0 {
				let k = step.min(left);
				v.push(k);
				left -= k;
			}
			v
		};
		let mut longs = vec![fill(1), vec![n], fill(7), fill(ibs.saturating_sub(1).clamp(1, n)), fill((ibs + 1).min(n)), vec![n - 1, 1], {
			let mut v = vec![3];
			v.push(n - 3);
			v
		}];
		if tier == Tier::Thorough {
			longs.extend([fill(2), fill(5), fill(13), fill(64)]);
		}
		for p in longs {
			jobs.push((n, p, 2));
		}
		let mut refs: std::collections::HashMap<usize, Vec<f32>> = Default::default();
		for (total, parts, ch) in jobs {
			ctx.evals += 1;
			let desc = || format!("scene '{}' internal buffer {} callbacks {:?} channels {}", sc.name, ibs, if parts.len() > 12 { parts[..12].to_vec() } else { parts.clone() }, ch);
			if !refs.contains_key(&total) {
				match catch(|| render(sc, total, &[total], 2)) {
					Ok(Ok(r)) => {
						refs.insert(total, r);
					}
					Ok(Err(e)) => {
						ctx.fail(format!("{} (reference rendering) :: scene {}", e, sc.name), desc());
						return;
					}
					Err(p) => {
						ctx.fail(format!("panic: {} (reference rendering) :: scene {}", p, sc.name), desc());
						return;
					}
				}
			}
			let reference = &refs[&total];
			let got = match catch(|| render(sc, ibs, &parts, ch)) {
				Ok(Ok(r)) => r,
				Ok(Err(e)) => {
					ctx.fail(format!("{} :: scene {}", e, sc.name), desc());
					continue;
				}
				Err(p) => {
					ctx.fail(format!("panic: {} :: scene {}", p, sc.name), desc());
					continue;
				}
			};
			let mut nonsilent = false;
			let mut bad: Option<String> = None;
			for f in 0..total {
				let (rl, rr) = (reference[2 * f], reference[2 * f + 1]);
				let want: Vec<f32> = match ch {
					1 => vec![(rl + rr) / 2.0],
					2 => vec![rl, rr],
					_ => vec![rl, rr, 0.0],
				};
				for c in 0..ch as usize {
					let g = got[f * ch as usize + c];
					if g != 0.0 {
						nonsilent = true;
					}
					if (g - want[c]).abs() > tol || (tol == 0.0 && g != want[c]) {
						bad = Some(format!("frame {} channel {}: got {:e} reference {:e}", f, c, g, want[c]));
						break;
					}
				}
				if bad.is_some() {
					break;
				}
			}
			if let Some(b) = bad {
				let kind = if parts.iter().all(|p| p % ibs == 0) {
					"output depends on the internal buffer size"
				} else {
					"output depends on the callback partition (callbacks not a multiple of the internal buffer)"
				};
				ctx.fail(format!("{} :: scene {}", kind, sc.name), format!("{} {}", desc(), b));
			}
			if nonsilent && !(parts.len() == 1 && ibs >= total) {
				ctx.nontrivial_extra += 1;
			}
		}
		ctx.outcome(hash64(&(sc.name, ibs)));
	}
}
