//! C12 — pausing a track freezes its subtree; removal follows handle / persistence rules; the
//! state reported by a track handle is always one of the five states and never panics.
//!
//! E1: three tree shapes x persistence variants x all histories to depth 3/4 over a per-node
//! alphabet (pause / resume with instant and 2-frame fades, resume_at delayed / on a clock, drop
//! track handle, finish sound, add a nested child) plus start clock / remove clock, in lock-step
//! with the tree-freeze reference (`MixWorld`): exact audio (index-coded ramps => positions),
//! removal timing, handle states.

use crate::engine::{hash64, Check, Ctx, Level, Tier};
use crate::json::J;
use crate::models::mix::{MixWorld, NodeCfg, Target};
use crate::models::playback::StartM;
use crate::rig::catch;
use kira::clock::ClockTime;
use kira::{Easing, StartTime, Tween};
use std::time::Duration;

pub struct C12;

const SHAPES: [&[i8]; 3] = [&[-1, 0], &[-1, 0, 1], &[-1, 0, 0]];
const SR: u32 = 8;
const IBS: usize = 2;
const NODE_LETTERS: [&str; 15] = [
	"pause(instant)",
	"pause(2 frames)",
	"resume(instant)",
	"resume(2 frames)",
	"resume_at(Delayed 3 frames, instant)",
	"resume_at(clock time (0,0), 2 frames)",
	"drop handle",
	"finish sound",
	"add nested child track with a sound",
	"add nested child track with a sound, then drop this track's handle (no callback in between)",
	"play another sound on this track, then drop this track's handle (no callback in between)",
	"pause(instant), then resume(instant) (no callback in between)",
	"resume_at(Delayed 3 frames), then resume(2 frames) (no callback in between)",
	"pause(instant), then drop this track's handle (no callback in between)",
	"resume(2 frames), then drop this track's handle (no callback in between)",
];
const GLOBAL_LETTERS: [&str; 3] = ["none", "start clock", "remove clock"];

fn nletters(n: usize) -> usize {
	GLOBAL_LETTERS.len() + n * NODE_LETTERS.len()
}
fn letter_name(n: usize, l: usize) -> String {
	let _ = n;
	if l < GLOBAL_LETTERS.len() {
		GLOBAL_LETTERS[l].to_string()
	} else {
		let i = (l - GLOBAL_LETTERS.len()) / NODE_LETTERS.len();
		format!("track {}: {}", i, NODE_LETTERS[(l - GLOBAL_LETTERS.len()) % NODE_LETTERS.len()])
	}
}

fn depth(tier: Tier) -> usize {
	tier.pick(3, 4)
}

/// persistence variants: bit i = track i persists until its sounds finish
const PERSIST: [u8; 3] = [0b000, 0b001, 0b110];

fn ncases() -> u64 {
	// shape x persist x first letter
	SHAPES.iter().map(|s| 3 * nletters(s.len()) as u64).sum()
}

fn decode(idx: u64) -> (usize, u8, usize) {
	let mut i = idx;
	for (si, s) in SHAPES.iter().enumerate() {
		let per = 3 * nletters(s.len()) as u64;
		if i < per {
			let first = (i % nletters(s.len()) as u64) as usize;
			let pv = PERSIST[(i / nletters(s.len()) as u64) as usize];
			return (si, pv, first);
		}
		i -= per;
	}
	unreachable!()
}

impl Check for C12 {
	fn id(&self) -> &'static str {
		"C12"
	}
	fn level(&self) -> Level {
		Level::ModelChecking
	}
	fn num_cases(&self, _tier: Tier) -> u64 {
		ncases() + E2_NAMES.len() as u64
	}
	fn describe(&self, tier: Tier, idx: u64) -> String {
		if idx >= ncases() {
			return format!("E2 interleavings: {}", E2_NAMES[(idx - ncases()) as usize]);
		}
		let (s, pv, first) = decode(idx);
		format!(
			"tree {:?} persistence bits {:#05b} first letter '{}', all continuations to depth {} (each letter followed by a 3-frame callback, internal buffer 2)",
			SHAPES[s],
			pv,
			letter_name(SHAPES[s].len(), first),
			depth(tier)
		)
	}
	fn sig_hint(&self, _tier: Tier, idx: u64) -> String {
		if idx >= ncases() {
			return format!("E2 #{}", idx - ncases());
		}
		let (s, pv, _) = decode(idx);
		format!("tree {:?} persist {:#05b}", SHAPES[s], pv)
	}
	fn rule(&self) -> String {
		"3 tree shapes (chain of 2, chain of 3, parent with two children), every track carrying an index-coded looping sound, x 3 persistence variants x all histories of length <= depth over {none, start clock, remove clock} + per track {pause 0/2f, resume 0/2f, resume_at delayed/clock, drop handle, finish sound, add nested child, pause-then-resume and resume_at-then-resume within one callback interval}; after every callback: exact audio vs the tree-freeze reference (positions are read off the index-coded ramps), TrackHandle::state() of every live handle inside catch_unwind. plus E2: all interleavings (preemption bound 2 / 3) of a thread reading TrackHandle::state() three times with the audio thread running 2 callbacks, in 4 life-cycle situations (pause fade in flight, resume fade in flight, scheduled resume whose clock has just been removed, scheduled resume falling due). states = distinct (adopted, marked, removed, pause state) vectors; non-trivial = histories in which some track left the Playing state or was removed".into()
	}
	fn assumptions(&self) -> Vec<String> {
		vec![
			"a track whose scheduled resume can never happen (clock removed) is expected to report one of the five track states; which one is not fixed by the statement (the reference uses Paused)".into(),
			"callbacks of 3 frames with internal buffer 2 stand for all partitions (C11 covers partition independence)".into(),
		]
	}
	fn extra_evidence(&self, tier: Tier) -> Vec<(String, J)> {
		vec![("depth".into(), J::u(depth(tier) as u64))]
	}
	fn case_timeout_ms(&self, tier: Tier) -> u64 {
		tier.pick(60_000, 1_200_000)
	}
	fn run_case(&self, tier: Tier, idx: u64, ctx: &mut Ctx) {
		if idx >= ncases() {
			e2_state(tier, idx - ncases(), ctx);
			return;
		}
		let (s, pv, first) = decode(idx);
		let mut seq = vec![first];
		enumerate(s, pv, &mut seq, depth(tier), ctx);
	}
}

fn enumerate(shape: usize, pv: u8, seq: &mut Vec<usize>, depth: usize, ctx: &mut Ctx) {
	if seq.len() == depth {
		let sq = seq.clone();
		ctx.evals += 1;
		ctx.traces += 1;
		if let Err(p) = catch(|| run_history(shape, pv, &sq, ctx)) {
			ctx.fail(format!("panic: {} :: history", p), hist(shape, pv, &sq));
		}
		return;
	}
	for l in 0..nletters(SHAPES[shape].len()) {
		seq.push(l);
		enumerate(shape, pv, seq, depth, ctx);
		seq.pop();
	}
}

fn hist(shape: usize, pv: u8, seq: &[usize]) -> String {
	format!(
		"tree {:?} persistence bits {:#05b} history=[{}]",
		SHAPES[shape],
		pv,
		seq.iter().map(|l| letter_name(SHAPES[shape].len(), *l)).collect::<Vec<_>>().join("; ")
	)
}

fn code(k: usize) -> ((f32, f32), (f32, f32)) {
	let base = 1.0 / (16 << k) as f32;
	((base, 1.0 / 8192.0), (-base / 2.0, 1.0 / 16384.0))
}

fn run_history(shape: usize, pv: u8, seq: &[usize], ctx: &mut Ctx) {
	let parents = SHAPES[shape];
	let n = parents.len();
	let mut w = MixWorld::new(SR, IBS, 0.0, &[], 8);
	w.add_clock();
	for (i, p) in parents.iter().enumerate() {
		let cfg = NodeCfg {
			persist: pv & (1 << i) != 0,
			..Default::default()
		};
		w.add_node(if *p < 0 { None } else { Some(*p as usize) }, &cfg).expect("node");
		let (l, r) = code(i);
		w.play(Target::Node(i), l, r).expect("sound");
	}
	let desc = |k: usize| format!("{} at step #{} ('{}')", hist(shape, pv, seq), k, letter_name(n, seq[k]));
	// warm-up: everything adopted
	let f = w.callback(3);
	if let Some((s, d)) = f.into_iter().next() {
		ctx.fail(format!("{} :: warm-up", s), format!("{} {}", hist(shape, pv, seq), d));
		return;
	}
	let mut nontrivial = false;
	let mut extra = 0usize;
	for (k, &l) in seq.iter().enumerate() {
		if l < GLOBAL_LETTERS.len() {
			match l {
				1 => w.start_clock(),
				2 => w.drop_clock(),
				_ => {}
			}
		} else {
			let i = (l - GLOBAL_LETTERS.len()) / NODE_LETTERS.len();
			match (l - GLOBAL_LETTERS.len()) % NODE_LETTERS.len() {
				0 => w.pause_node(i, 0.0),
				1 => w.pause_node(i, 2.0 / SR as f64),
				2 => w.resume_node(i, 0.0),
				3 => w.resume_node(i, 2.0 / SR as f64),
				4 => w.resume_node_at(i, StartTime::Delayed(Duration::from_secs_f64(3.0 / SR as f64)), StartM::Delayed(3.0 / SR as f64), 0.0),
				5 => {
					if let Some(id) = w.clock_id {
						w.resume_node_at(
							i,
							StartTime::ClockTime(ClockTime {
								clock: id,
								ticks: 0,
								fraction: 0.0,
							}),
							StartM::Clock(0, 0.0),
							2.0 / SR as f64,
						);
					}
				}
				6 => w.drop_node_handle(i),
				7 => {
					if let Some(si) = (0..w.sounds.len()).find(|s| w.sounds[*s].on == Target::Node(i) && !w.sounds[*s].shared.finished.load(std::sync::atomic::Ordering::SeqCst)) {
						w.finish_sound(si);
					}
				}
				11 => {
					w.pause_node(i, 0.0);
					w.resume_node(i, 0.0);
				}
				12 => {
					w.resume_node_at(i, StartTime::Delayed(Duration::from_secs_f64(3.0 / SR as f64)), StartM::Delayed(3.0 / SR as f64), 0.0);
					w.resume_node(i, 2.0 / SR as f64);
				}
				13 => {
					w.pause_node(i, 0.0);
					w.drop_node_handle(i);
				}
				14 => {
					w.resume_node(i, 2.0 / SR as f64);
					w.drop_node_handle(i);
				}
				10 => {
					if w.nodes[i].handle.is_some() {
						let (a, b) = code(4 + extra % 3);
						extra += 1;
						let _ = w.play(Target::Node(i), a, b);
						w.drop_node_handle(i);
					}
				}
				which => {
					if w.nodes[i].handle.is_some() {
						if let Ok(c) = w.add_node(Some(i), &NodeCfg::default()) {
							let (a, b) = code(4 + extra % 3);
							extra += 1;
							let _ = w.play(Target::Node(c), a, b);
						}
						if which == 9 {
							w.drop_node_handle(i);
						}
					}
				}
			}
		}
		let fails = w.callback(3);
		ctx.transitions += 1;
		ctx.state(w.state_hash());
		if let Some((s, d)) = fails.into_iter().next() {
			let s = if s.starts_with("silence where") {
				"a track / sound that should be audible is silent (frozen, removed too early, or lost)".to_string()
			} else if s.starts_with("audio where") {
				"a frozen / removed / paused subtree is audible".to_string()
			} else if s.starts_with("output differs") {
				"audio differs from the tree-freeze reference (a position, start delay or fade advanced while frozen, or a fade is wrong)".to_string()
			} else {
				s
			};
			ctx.fail(format!("{} :: history", s), format!("{} {}", desc(k), d));
			return;
		}
		// handle states
		for i in 0..w.nodes.len() {
			let want = w.node_state_name(i);
			let removed = w.nodes[i].removed;
			if let Some(h) = w.nodes[i].handle.as_ref() {
				match catch(|| h.state()) {
					Ok(st) => {
						let got = format!("{:?}", st);
						if got != want && !removed {
							ctx.fail(
								"track handle state differs from the model :: history".to_string(),
								format!("{} track {}: handle {} model {}", desc(k), i, got, want),
							);
							return;
						}
					}
					Err(p) => {
						ctx.fail(
							format!("TrackHandle::state() panics: {} :: history", p),
							format!("{} track {} (model state {})", desc(k), i, want),
						);
						return;
					}
				}
			}
			if want != "Playing" || removed {
				nontrivial = true;
			}
		}
	}
	if nontrivial {
		ctx.nontrivial_extra += 1;
	}
	ctx.outcome(w.state_hash() % 4096);
	ctx.sample(ctx.traces, || hist(shape, pv, seq));
}

// ---------------------------------------------------------------------------------------------
// E2: "querying it never panics" with the query on another thread than the audio callback

const E2_NAMES: [&str; 4] = [
	"reader(state() x3) || audio(2 callbacks) while a 1-frame pause fade completes",
	"reader(state() x3) || audio(2 callbacks) while a paused track resumes",
	"reader(state() x3) || audio(2 callbacks) after pause; resume_at(clock time); the clock's handle dropped",
	"reader(state() x3) || audio(2 callbacks) while a resume_at(delayed 1 frame) falls due",
];

fn e2_state(tier: Tier, which: u64, ctx: &mut Ctx) {
	use crate::rig;
	use crate::sched::{self, Config, Exec};
	use kira::track::{MainTrackBuilder, TrackBuilder, TrackPlaybackState};
	use std::sync::{Arc, Mutex};
	fn filt(s: &'static str) -> bool {
		s.starts_with("track.state.") || s.starts_with("cmd.") || s.starts_with("tb.")
	}
	let cfg = Config { filter: filt, horizon: 4000, max_spin_rounds: 8, record_sites: true, ..Default::default() };
	#[derive(Debug, Clone, Default, PartialEq)]
	struct Obs {
		reads: Vec<String>,
		monitors: Vec<String>,
	}
	let frames = |n: f64| Tween { start_time: StartTime::Immediate, duration: Duration::from_secs_f64(n / SR as f64), easing: Easing::Linear };
	let mut body = |prefix: &[u8]| -> (sched::RunResult, Obs) {
		let mut m = rig::manager(SR, 1, rig::caps(2), MainTrackBuilder::new());
		let mut buf = vec![0.0f32; 2];
		let mut t = m.add_sub_track(TrackBuilder::new()).expect("track");
		let mut clock = Some(m.add_clock(kira::clock::ClockSpeed::TicksPerSecond(1.0)).expect("clock"));
		rig::callback(&mut m, &mut buf, 1, 2);
		match which {
			0 => t.pause(frames(1.0)),
			1 => {
				t.pause(frames(0.0));
				rig::callback(&mut m, &mut buf, 1, 2);
				t.resume(frames(1.0));
			}
			2 => {
				t.pause(frames(0.0));
				t.resume_at(StartTime::ClockTime(kira::clock::ClockTime { clock: clock.as_ref().unwrap().id(), ticks: 50, fraction: 0.0 }), frames(0.0));
				rig::callback(&mut m, &mut buf, 1, 2);
				clock = None;
			}
			_ => {
				t.pause(frames(0.0));
				rig::callback(&mut m, &mut buf, 1, 2);
				t.resume_at(StartTime::Delayed(Duration::from_secs_f64(1.0 / SR as f64)), frames(1.0));
			}
		}
		let mut renderer = m.backend_mut().renderer.take().unwrap();
		let obs = Arc::new(Mutex::new(Obs::default()));
		let back = Arc::new(Mutex::new(None));
		let keep = Arc::new(Mutex::new(None));
		let mut ex = Exec::begin(&cfg, prefix);
		{
			let (obs, keep) = (obs.clone(), keep.clone());
			ex.spawn("reader", move || {
				for _ in 0..3 {
					let r = rig::catch(|| t.state());
					obs.lock().unwrap().reads.push(match r {
						Ok(s) => format!("{:?}", s),
						Err(p) => format!("PANIC: {}", p),
					});
				}
				*keep.lock().unwrap() = Some(t);
			});
		}
		{
			let (obs, back) = (obs.clone(), back.clone());
			ex.spawn("audio", move || {
				let mut buf = [0.0f32; 2];
				for _ in 0..2 {
					let rep = rig::callback_on(&mut renderer, &mut buf, 1, 2);
					if !rep.ok() {
						obs.lock().unwrap().monitors.push(format!("{:?}", rep));
					}
				}
				*back.lock().unwrap() = Some(renderer);
			});
		}
		let res = ex.run();
		let o = obs.lock().unwrap().clone();
		let r = back.lock().unwrap().take();
		drop(r);
		drop(keep);
		drop(clock);
		drop(m);
		let _ = TrackPlaybackState::Playing;
		(res, o)
	};
	let mut outcomes = std::collections::HashSet::new();
	let mut fails: Vec<(String, String)> = vec![];
	let mut nontrivial = 0u64;
	let mut judge = |res: &sched::RunResult, o: &Obs, choices: &[u8]| {
		outcomes.insert(hash64(&format!("{:?}", o)));
		if choices.iter().any(|c| *c != 0) {
			nontrivial += 1;
		}
		for p in &res.panics {
			fails.push((format!("panic in a controlled thread: {} :: E2 #{}", p, which), sched::fmt_schedule(res)));
		}
		if let Some(mn) = o.monitors.first() {
			fails.push((format!("a callback racing with TrackHandle::state() panics, allocates or writes an ill-formed sample :: E2 #{}", which), format!("{}; {}", mn, sched::fmt_schedule(res))));
		}
		if let Some(r) = o.reads.iter().find(|r| r.starts_with("PANIC")) {
			fails.push((
				format!("TrackHandle::state() panics when it is read while the audio thread publishes the state :: E2 #{}", which),
				format!("reads {:?} ({}); {}", o.reads, r, sched::fmt_schedule(res)),
			));
		}
	};
	let stats = sched::explore(tier.pick(Some(2), Some(3)), 3_000_000, &mut body, &mut judge);
	sched::report(ctx, &stats);
	if let Some(e) = stats.error {
		ctx.fail(format!("MACHINERY: scheduler error: {}", e), "");
	}
	ctx.schedules += stats.schedules;
	ctx.evals += stats.schedules;
	ctx.traces += stats.schedules;
	ctx.transitions += stats.schedules * stats.max_points as u64;
	ctx.count(&format!("e2_schedules[#{}]", which), stats.schedules);
	ctx.count(&format!("e2_max_points[#{}]", which), stats.max_points as u64);
	ctx.count("e2_capped", stats.capped as u64);
	for o in outcomes {
		ctx.outcome(o);
		ctx.state(o);
	}
	ctx.nontrivial_extra += nontrivial;
	for (s, d) in fails {
		ctx.fail(s, d);
	}
}
