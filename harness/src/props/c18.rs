//! C18 — decoding is faithful; streaming a file equals loading it; bad files give errors.
//!
//! E1 + E3. An independent PCM WAV encoder (value level) and an independent RIFF/WAVE reader
//! (byte level) bracket kira's Symphonia glue:
//!   A  every generated WAV (format x channels x length x rate x chunk layout) loaded with
//!      `StaticSoundData::from_cursor` equals the encoder's values (count, rate, mono duplicated, >2 channels => error);
//!   B  the same files streamed (`StreamingSoundData::from_cursor`, real decoder thread paced one
//!      frame per step) from every lattice start position and after every sequence of <= 2 (thorough: 3) seeks;
//!   C  the shipped assets: streaming == static (differential) on a position lattice;
//!   D  every truncation length of the base files; E every header byte x 256 values (thorough: payload too).

use crate::engine::{hash64, Check, Ctx, Level, Tier};
use crate::json::J;
use crate::pacer;
use crate::rig::{catch, normalize_panic};
use kira::info::MockInfoBuilder;
use kira::sound::static_sound::StaticSoundData;
use kira::sound::streaming::StreamingSoundData;
use kira::sound::{FromFileError, PlaybackPosition, PlaybackState, SoundData};
use kira::{Frame, Tween};
use std::io::Cursor;
use std::sync::Arc;

pub struct C18;

// ---------------------------------------------------------------------------------------------
// independent encoder (value level)

#[derive(Clone, Copy, Debug, PartialEq, Eq, Hash)]
enum Fmt {
	U8,
	S16,
	S24,
	S32,
	F32,
	F64,
}
const FMTS: [Fmt; 6] = [Fmt::U8, Fmt::S16, Fmt::S24, Fmt::S32, Fmt::F32, Fmt::F64];
impl Fmt {
	fn bits(self) -> u16 {
		match self {
			Fmt::U8 => 8,
			Fmt::S16 => 16,
			Fmt::S24 => 24,
			Fmt::S32 | Fmt::F32 => 32,
			Fmt::F64 => 64,
		}
	}
	fn float(self) -> bool {
		matches!(self, Fmt::F32 | Fmt::F64)
	}
}

/// chunk layout of the generated file
#[derive(Clone, Copy, Debug, PartialEq, Eq, Hash)]
enum Layout {
	/// 16-byte fmt chunk, data chunk (the canonical 44-byte header)
	Plain,
	/// 18-byte fmt chunk (cbSize = 0)
	Fmt18,
	/// WAVE_FORMAT_EXTENSIBLE (40-byte fmt chunk, PCM / IEEE-float sub-format GUID)
	Ext,
	/// an unknown odd-sized chunk (padded) between fmt and data
	Junk,
	/// an unknown chunk after the data chunk
	Trail,
}
const LAYOUTS: [Layout; 5] = [Layout::Plain, Layout::Fmt18, Layout::Ext, Layout::Junk, Layout::Trail];

#[derive(Clone, Copy, Debug)]
struct Spec {
	fmt: Fmt,
	ch: u16,
	n: usize,
	rate: u32,
	layout: Layout,
}
impl Spec {
	fn desc(&self) -> String {
		format!("wav {:?} channels={} frames={} rate={} layout={:?}", self.fmt, self.ch, self.n, self.rate, self.layout)
	}
}

/// k-th sample of a file (k = frame * channels + channel): appends its encoding, returns the value an ideal decoder yields.
/// The first samples are the extremes of the format, the rest a deterministic full-width ramp.
fn sample(fmt: Fmt, k: usize, out: &mut Vec<u8>) -> f32 {
	let r = (k as i64) * 2_654_435_761 + 12_345;
	let pick = |t: &[i64], m: i64| t.get(k).copied().unwrap_or(r.rem_euclid(m) - if t[0] < 0 { m / 2 } else { 0 });
	match fmt {
		Fmt::U8 => {
			let v = pick(&[0, 255, 128, 1, 127, 129], 256);
			out.push(v as u8);
			(v - 128) as f32 / 128.0
		}
		Fmt::S16 => {
			let v = pick(&[-32768, 32767, 0, 1, -1], 1 << 16);
			out.extend_from_slice(&(v as i16).to_le_bytes());
			v as f32 / 32768.0
		}
		Fmt::S24 => {
			let v = pick(&[-8_388_608, 8_388_607, 0, 1, -1], 1 << 24);
			out.extend_from_slice(&(v as i32).to_le_bytes()[..3]);
			v as f32 / 8_388_608.0
		}
		Fmt::S32 => {
			let v = pick(&[i32::MIN as i64, i32::MAX as i64, 0, 1, -1, 256, -16_777_216], 1 << 32);
			out.extend_from_slice(&(v as i32).to_le_bytes());
			(v as f64 / 2_147_483_648.0) as f32
		}
		Fmt::F32 => {
			let v = [-1.0f32, 1.0, 0.0, 0.5, -0.25, 1.5, -3.0, 1e-20].get(k).copied().unwrap_or((r.rem_euclid(1 << 20) - (1 << 19)) as f32 / (1 << 19) as f32);
			out.extend_from_slice(&v.to_le_bytes());
			v
		}
		Fmt::F64 => {
			let v = [-1.0f64, 1.0, 0.0, 0.1, 1.0 / 3.0, -2.5].get(k).copied().unwrap_or((r.rem_euclid(1 << 30) - (1 << 29)) as f64 / (1u64 << 29) as f64);
			out.extend_from_slice(&v.to_le_bytes());
			v as f32
		}
	}
}

const GUID_TAIL: [u8; 14] = [0x00, 0x00, 0x00, 0x00, 0x10, 0x00, 0x80, 0x00, 0x00, 0xaa, 0x00, 0x38, 0x9b, 0x71];

/// returns (file bytes, offset of the first payload byte, expected interleaved sample values)
fn encode(s: &Spec) -> (Vec<u8>, usize, Vec<f32>) {
	let block = s.ch as usize * (s.fmt.bits() as usize / 8);
	let mut data = Vec::with_capacity(s.n * block);
	let vals: Vec<f32> = (0..s.n * s.ch as usize).map(|k| sample(s.fmt, k, &mut data)).collect();
	let code: u16 = if s.fmt.float() { 3 } else { 1 };
	let mut fmt = vec![];
	fmt.extend_from_slice(&(if s.layout == Layout::Ext { 0xFFFE } else { code }).to_le_bytes());
	fmt.extend_from_slice(&s.ch.to_le_bytes());
	fmt.extend_from_slice(&s.rate.to_le_bytes());
	fmt.extend_from_slice(&(s.rate.wrapping_mul(block as u32)).to_le_bytes());
	fmt.extend_from_slice(&(block as u16).to_le_bytes());
	fmt.extend_from_slice(&s.fmt.bits().to_le_bytes());
	match s.layout {
		Layout::Fmt18 => fmt.extend_from_slice(&0u16.to_le_bytes()),
		Layout::Ext => {
			fmt.extend_from_slice(&22u16.to_le_bytes());
			fmt.extend_from_slice(&s.fmt.bits().to_le_bytes());
			fmt.extend_from_slice(&((1u32 << s.ch) - 1).to_le_bytes());
			fmt.extend_from_slice(&code.to_le_bytes());
			fmt.extend_from_slice(&GUID_TAIL);
		}
		_ => {}
	}
	let mut body = b"WAVE".to_vec();
	let chunk = |body: &mut Vec<u8>, tag: &[u8; 4], payload: &[u8]| {
		body.extend_from_slice(tag);
		body.extend_from_slice(&(payload.len() as u32).to_le_bytes());
		body.extend_from_slice(payload);
		if payload.len() % 2 == 1 {
			body.push(0);
		}
	};
	chunk(&mut body, b"fmt ", &fmt);
	if s.layout == Layout::Junk {
		chunk(&mut body, b"junk", &[1, 2, 3, 4, 5]);
	}
	let payload_at = 8 + body.len() + 8;
	chunk(&mut body, b"data", &data);
	if s.layout == Layout::Trail {
		chunk(&mut body, b"cue ", &[0, 0, 0, 0]);
	}
	let mut file = b"RIFF".to_vec();
	file.extend_from_slice(&(body.len() as u32).to_le_bytes());
	file.extend_from_slice(&body);
	(file, payload_at, vals)
}

fn to_frames(vals: &[f32], ch: usize) -> Vec<Frame> {
	match ch {
		1 => vals.iter().map(|v| Frame::new(*v, *v)).collect(),
		_ => vals.chunks(ch).map(|c| Frame::new(c[0], c[1])).collect(),
	}
}

// ---------------------------------------------------------------------------------------------
// independent reader (byte level): what a (possibly corrupted) file says, for the PCM family this check models

struct Wav {
	ch: usize,
	rate: u32,
	/// data bytes declared by the data chunk fit in the file
	complete: bool,
	/// interleaved, whole frames only, decoded from the bytes that are really there
	vals: Vec<f32>,
}

fn pcm_to_f32(float: bool, bits: u16, s: &[u8]) -> f32 {
	match (float, bits) {
		(false, 8) => (s[0] as i32 - 128) as f32 / 128.0,
		(false, 16) => i16::from_le_bytes([s[0], s[1]]) as f32 / 32768.0,
		(false, 24) => ((s[0] as i32) | (s[1] as i32) << 8 | ((s[2] as i8) as i32) << 16) as f32 / 8_388_608.0,
		(false, 32) => (i32::from_le_bytes([s[0], s[1], s[2], s[3]]) as f64 / 2_147_483_648.0) as f32,
		(true, 32) => f32::from_le_bytes([s[0], s[1], s[2], s[3]]),
		_ => f64::from_le_bytes([s[0], s[1], s[2], s[3], s[4], s[5], s[6], s[7]]) as f32,
	}
}

/// Err(reason) = not a file of the modelled family (then only the generic fault oracle applies)
fn model_parse(b: &[u8]) -> Result<Wav, &'static str> {
	let u16at = |o: usize| u16::from_le_bytes([b[o], b[o + 1]]);
	let u32at = |o: usize| u32::from_le_bytes([b[o], b[o + 1], b[o + 2], b[o + 3]]);
	if b.len() < 12 || &b[0..4] != b"RIFF" || &b[8..12] != b"WAVE" {
		return Err("not RIFF/WAVE");
	}
	let riff_end = 8 + u32at(4) as usize;
	let mut o = 12;
	let mut fmt: Option<(bool, u16, usize, u32)> = None;
	loop {
		if o + 8 > b.len() {
			return Err("no data chunk");
		}
		let (tag, len, body) = (&b[o..o + 4], u32at(o + 4) as usize, o + 8);
		if body + len > riff_end {
			return Err("chunk exceeds the RIFF chunk");
		}
		match tag {
			b"data" => {
				let (float, bits, ch, rate) = fmt.ok_or("data before fmt")?;
				let block = ch * bits as usize / 8;
				let usable = len.min(b.len() - body) / block * block;
				let vals = b[body..body + usable].chunks(bits as usize / 8).map(|s| pcm_to_f32(float, bits, s)).collect();
				return Ok(Wav { ch, rate, complete: len <= b.len() - body, vals });
			}
			b"fmt " => {
				if fmt.is_some() || !matches!(len, 16 | 18 | 40) || body + len > b.len() {
					return Err("unmodelled fmt chunk");
				}
				let (code, ch, rate, block, bits) = (u16at(body), u16at(body + 2) as usize, u32at(body + 4), u16at(body + 12) as usize, u16at(body + 14));
				let float = match (code, len) {
					(1, 16) | (1, 18) => false,
					(3, 16) => true,
					(3, 18) if u16at(body + 16) == 0 => true,
					(0xFFFE, 40) if u16at(body + 16) == 22 && u16at(body + 18) == bits && b[body + 26..body + 40] == GUID_TAIL && matches!(u16at(body + 24), 1 | 3) => u16at(body + 24) == 3,
					_ => return Err("unmodelled format tag"),
				};
				if !(if float { matches!(bits, 32 | 64) } else { matches!(bits, 8 | 16 | 24 | 32) }) {
					return Err("unmodelled sample width");
				}
				if ch == 0 || rate == 0 || block != ch * bits as usize / 8 {
					return Err("inconsistent fmt chunk");
				}
				fmt = Some((float, bits, ch, rate));
			}
			b"fact" | b"LIST" => return Err("unmodelled chunk"),
			_ => {}
		}
		o = body + len + (len & 1);
	}
}

// ---------------------------------------------------------------------------------------------
// observations of kira

fn err_name(e: &FromFileError) -> String {
	let mut s = normalize_panic(&format!("{:?}", e));
	s.truncate(90);
	s
}

enum Loaded {
	Ok(StaticSoundData),
	Err(String),
	Panic(String),
}

fn load_static(bytes: &Arc<[u8]>) -> Loaded {
	let b = bytes.clone();
	match catch(move || StaticSoundData::from_cursor(Cursor::new(b))) {
		Ok(Ok(d)) => Loaded::Ok(d),
		Ok(Err(e)) => Loaded::Err(err_name(&e)),
		Err(p) => Loaded::Panic(p),
	}
}

fn same(a: f32, b: f32) -> bool {
	a == b || (a.is_nan() && b.is_nan())
}
fn same_frame(a: Frame, b: Frame) -> bool {
	same(a.left, b.left) && same(a.right, b.right)
}
fn frames_hash(f: &[Frame]) -> u64 {
	hash64(&f.iter().map(|f| (f.left.to_bits(), f.right.to_bits())).collect::<Vec<_>>())
}
fn nonsilent(f: &[Frame]) -> bool {
	f.iter().any(|f| f.left != 0.0 || f.right != 0.0)
}

/// one piece of a streaming run: optional seek, then `steps` decoder iterations, then `render` output frames
#[derive(Clone, Copy, Debug)]
struct Seg {
	/// seek_by(seconds) issued before the piece
	seek_by: Option<f64>,
	seek: Option<usize>,
	steps: usize,
	render: usize,
}

#[derive(Default, Debug)]
struct StreamObs {
	open_err: Option<String>,
	start_err: Option<String>,
	num_frames: usize,
	out: Vec<Vec<Frame>>,
	errors: Vec<String>,
	leaked: bool,
	/// the decoder thread did not finish one loop iteration within the time limit (it spins or blocks inside decode/seek)
	hung: bool,
}

/// decoder hangs seen by this worker process: every one leaves a spinning thread behind, so fault streaming stops after a few
static HANGS: std::sync::atomic::AtomicUsize = std::sync::atomic::AtomicUsize::new(0);
const MAX_HANGS: usize = 3;

/// `k` decoder iterations; a decoder that neither parks at its gate again nor exits within 1.5 s (+0.2 ms per step;
/// a step normally takes microseconds) is written off as hung
fn paced_step(dec: usize, k: usize, hung: &mut bool) {
	if *hung {
		return;
	}
	let t0 = std::time::Instant::now();
	let limit = std::time::Duration::from_micros(1_500_000 + 200 * k as u64);
	let timed_out = std::cell::Cell::new(false);
	pacer::step_or(dec, k as u64, &|| {
		timed_out.set(t0.elapsed() > limit);
		timed_out.get()
	});
	if timed_out.get() {
		*hung = true;
		HANGS.fetch_add(1, std::sync::atomic::Ordering::SeqCst);
	}
}

const POISON: f32 = 7.0;

/// Streams `bytes` with the decoder thread paced exactly: every decoder step pushes one frame, every rendered
/// frame consumes one (rate 1, dt = 1/rate), so the output is a function of the file and the commands only.
fn stream_play(bytes: &Arc<[u8]>, rate: u32, start: usize, segs: &[Seg]) -> StreamObs {
	stream_play_lp(bytes, rate, start, None, segs)
}

thread_local! {
	/// slice (in frames) applied to the streaming data by stream_play_lp
	static SLICE: std::cell::Cell<Option<(usize, usize)>> = const { std::cell::Cell::new(None) };
	/// a second, open-ended slice `c..` applied after SLICE
	static RESLICE: std::cell::Cell<Option<usize>> = const { std::cell::Cell::new(None) };
}

/// the same with an optional loop region (in frames)
fn stream_play_lp(bytes: &Arc<[u8]>, rate: u32, start: usize, lp: Option<(usize, usize)>, segs: &[Seg]) -> StreamObs {
	let mut obs = StreamObs::default();
	let data = match StreamingSoundData::from_cursor(Cursor::new(bytes.clone())) {
		Ok(d) => d,
		Err(e) => {
			obs.open_err = Some(err_name(&e));
			return obs;
		}
	};
	obs.num_frames = data.num_frames();
	let data = match SLICE.with(|s| s.get()) {
		Some((a, b)) => data.slice(kira::sound::Region { start: PlaybackPosition::Samples(a), end: kira::sound::EndPosition::Custom(PlaybackPosition::Samples(b)) }),
		None => data,
	};
	let data = match RESLICE.with(|s| s.get()) {
		Some(c) => data.slice(kira::sound::Region { start: PlaybackPosition::Samples(c), end: kira::sound::EndPosition::EndOfAudio }),
		None => data,
	};
	if SLICE.with(|s| s.get()).is_some() {
		obs.num_frames = data.num_frames();
	}
	let data = match lp {
		Some((a, b)) => data.loop_region(kira::sound::Region { start: PlaybackPosition::Samples(a), end: kira::sound::EndPosition::Custom(PlaybackPosition::Samples(b)) }),
		None => data,
	};
	let dec = pacer::count();
	let (mut sound, mut handle) = match data.start_position(PlaybackPosition::Samples(start)).into_sound() {
		Ok(x) => x,
		Err(e) => {
			obs.start_err = Some(err_name(&e));
			return obs;
		}
	};
	let info = MockInfoBuilder::new().build();
	let dt = 1.0 / rate as f64;
	for seg in segs {
		if let Some(p) = seg.seek {
			handle.seek_to(p as f64 / rate as f64);
		}
		if let Some(d) = seg.seek_by {
			handle.seek_by(d);
		}
		paced_step(dec, seg.steps, &mut obs.hung);
		let mut out = vec![Frame::new(POISON, POISON); seg.render];
		sound.on_start_processing();
		sound.process(&mut out, dt, &info);
		obs.out.push(out);
	}
	while let Some(e) = handle.pop_error() {
		obs.errors.push(err_name(&e));
	}
	// teardown: the decoder thread only ends when it sees the Stopped state (or the end of the sound)
	handle.stop(Tween { duration: std::time::Duration::ZERO, ..Default::default() });
	for _ in 0..2 {
		sound.on_start_processing();
		sound.process(&mut [Frame::ZERO; 1], dt, &info);
	}
	paced_step(dec, 3, &mut obs.hung);
	obs.leaked = !obs.hung && !pacer::exited(dec);
	obs
}

fn exact_dt(rate: u32) -> bool {
	rate > 0 && rate as f64 * (1.0 / rate as f64) == 1.0
}

// ---------------------------------------------------------------------------------------------
// streaming == reference over a position lattice

struct StreamSubject<'a> {
	/// "wav" / "ogg": part of the signature
	kind: &'a str,
	desc: &'a str,
	bytes: &'a Arc<[u8]>,
	rate: u32,
	reference: &'a [Frame],
	/// frames per packet of the container (position classes of the signature), 0 = unknown
	packet: usize,
}

/// position feature of a signature: only the packet a WAV position lies in matters (seek-then-decode-forward)
fn pos_class(s: &StreamSubject, p: usize) -> &'static str {
	if s.packet == 0 {
		""
	} else if p >= s.packet {
		" in a later packet"
	} else {
		" in the first packet"
	}
}

/// runs one (start, seeks) scenario; returns false when it was pruned (a non-final piece could not render a frame without ending the sound)
fn stream_scenario(s: &StreamSubject, start: usize, seeks: &[usize], k: usize, ctx: &mut Ctx) -> bool {
	let n = s.reference.len();
	let mut segs: Vec<Seg> = vec![];
	let mut expect: Vec<(usize, usize)> = vec![]; // (from, count) per piece
	let mut pos = start;
	for i in 0..=seeks.len() {
		let seek = if i == 0 { None } else { Some(seeks[i - 1]) };
		if let Some(p) = seek {
			pos = p;
		}
		let remaining = n - pos;
		if i == seeks.len() {
			let kk = k.min(remaining);
			let ends = kk == remaining;
			segs.push(Seg { seek_by: None, seek, steps: kk + ends as usize, render: kk + 2 * ends as usize });
			expect.push((pos, kk));
		} else {
			// keep the decoder alive: what a seek does after the sound has ended is life-cycle, not decoding
			let kk = k.min(remaining.saturating_sub(1));
			if kk == 0 {
				return false;
			}
			segs.push(Seg { seek_by: None, seek, steps: kk, render: kk });
			expect.push((pos, kk));
			pos += kk;
		}
	}
	ctx.evals += 1;
	ctx.count(if s.desc.starts_with("asset") { "runs: asset streaming scenarios" } else { "runs: generated-wav streaming scenarios" }, 1);
	let detail = || format!("{}: stream from start position {} (frames), seeks {:?} (seek_to(frame/rate)), {} frames rendered per piece at playback rate 1, dt=1/{}; pieces {:?}", s.desc, start, seeks, k, s.rate, segs);
	// streaming from the very beginning is its own feature: the known Ogg finding concerns non-zero start positions and seeks
	let phase = |i: usize| if i == 0 && start == 0 { "from the beginning of the file" } else { ["from the start position", "after 1 seek", "after 2 seeks", "after 3 seeks"][i.min(3)] };
	let obs = match catch(|| stream_play(s.bytes, s.rate, start, &segs)) {
		Ok(o) => o,
		Err(p) => {
			ctx.fail(format!("panic: {} :: streaming a valid {} file", p, s.kind), detail());
			return true;
		}
	};
	if obs.leaked {
		ctx.count("decoder_threads_not_ended_after_stop", 1);
	}
	if obs.hung {
		ctx.fail(format!("hang: the streaming decoder thread never finishes a decode-loop iteration :: a valid {} file", s.kind), detail());
		return true;
	}
	if let Some(e) = obs.open_err.as_ref().or(obs.start_err.as_ref()) {
		let stage = if obs.open_err.is_some() { "from_cursor" } else { "into_sound" };
		let at = if start >= n { "at the end" } else { "before the end" };
		ctx.fail(format!("stream: valid {} file refused by {}: {} :: start position {}", s.kind, stage, e, at), detail());
		return true;
	}
	if obs.num_frames != n {
		ctx.fail(format!("stream: num_frames() differs from the number of frames the loaded file has :: {}", s.kind), format!("num_frames()={} loaded={} {}", obs.num_frames, n, detail()));
	}
	// first rendered frame that is not the reference frame (silence after the end)
	let want = |i: usize, j: usize| if j < expect[i].1 { s.reference[expect[i].0 + j] } else { Frame::ZERO };
	let bad = obs.out.iter().enumerate().find_map(|(i, out)| out.iter().enumerate().find(|(j, f)| !same_frame(**f, want(i, *j))).map(|(j, f)| (i, j, *f)));
	if !obs.errors.is_empty() {
		let i = bad.map(|b| b.0).unwrap_or(seeks.len());
		ctx.fail(format!("stream: decode error reported for a valid file: {} :: {} {}", obs.errors[0], s.kind, phase(i)), format!("rendered {:?}; {}", obs.out, detail()));
		return true;
	}
	if let Some((i, j, f)) = bad {
		let (from, cnt) = expect[i];
		let (w, out) = (want(i, j), &obs.out[i]);
		let what = if j >= cnt { "output not silent after the end" } else { "frames differ from the loaded file" };
		// diagnosis only: which file frame (within +-4096 of the wanted one) was heard instead
		let lo = (from + j).saturating_sub(4096);
		let heard = (lo..(from + j + 4096).min(n)).find(|q| same_frame(s.reference[*q], f) && out.get(j + 1).map_or(true, |g| s.reference.get(q + 1).map_or(false, |r| same_frame(*r, *g))));
		ctx.fail(
			format!("stream: {} :: {} {}{}", what, s.kind, phase(i), pos_class(s, from)),
			format!("piece {} frame {} (file frame {}): got ({},{}) want ({},{}); what was heard is file frame {:?}; {}", i, j, from + j, f.left, f.right, w.left, w.right, heard, detail()),
		);
		return true;
	}
	let all: Vec<Frame> = obs.out.concat();
	if nonsilent(&all) {
		ctx.nontrivial_extra += 1;
	}
	ctx.outcome(frames_hash(&all));
	true
}

/// every lattice start position x every sequence of at most `depth` seeks over the lattice
fn stream_matrix(s: &StreamSubject, lattice: &[usize], k: usize, depth: usize, ctx: &mut Ctx) {
	let mut seqs: Vec<Vec<usize>> = vec![vec![]];
	let mut from = 0;
	for _ in 0..depth {
		let upto = seqs.len();
		for i in from..upto {
			for &a in lattice {
				let mut q = seqs[i].clone();
				q.push(a);
				seqs.push(q);
			}
		}
		from = upto;
	}
	let mut ord = 0u64;
	for &start in lattice {
		for seq in &seqs {
			if !stream_scenario(s, start, seq, k, ctx) {
				ctx.count("stream_scenarios_pruned_sound_would_end_before_the_seek", 1);
			}
			ord += 1;
			ctx.sample(ord, || format!("{}: start {} seeks {:?}", s.desc, start, seq));
		}
	}
}

fn lattice(points: &[usize], n: usize) -> Vec<usize> {
	let mut l: Vec<usize> = points.iter().copied().filter(|p| *p <= n).collect();
	l.sort();
	l.dedup();
	l
}

// ---------------------------------------------------------------------------------------------
// A: static load of generated files

fn lens(tier: Tier) -> Vec<usize> {
	tier.pick(vec![0, 1, 2, 5, 9, 1152, 1153, 2311], vec![0, 1, 2, 3, 4, 5, 9, 1151, 1152, 1153, 2311, 3456, 5000])
}
fn rates(tier: Tier) -> Vec<u32> {
	tier.pick(vec![8000, 44100], vec![1, 200, 8000, 44100, 48000, 192000])
}

fn static_case(tier: Tier, fmt: Fmt, ch: u16, ctx: &mut Ctx) {
	for n in lens(tier) {
		for rate in rates(tier) {
			for layout in LAYOUTS {
				let spec = Spec { fmt, ch, n, rate, layout };
				let (file, _, vals) = encode(&spec);
				let bytes: Arc<[u8]> = file.into();
				ctx.evals += 1;
				ctx.count("runs: generated-wav static loads", 1);
				ctx.sample(ctx.evals, || spec.desc());
				// the two halves of the reference (value-level encoder, byte-level reader) must agree with each other
				match model_parse(&bytes) {
					Ok(w) if w.complete && w.rate == rate && w.ch == ch as usize && w.vals.len() == vals.len() && w.vals.iter().zip(&vals).all(|(a, b)| same(*a, *b)) => {}
					Ok(_) => ctx.fail("machinery: byte-level reader disagrees with the encoder", spec.desc()),
					Err(e) => ctx.fail(format!("machinery: byte-level reader rejects a generated file: {}", e), spec.desc()),
				}
				let want = if ch <= 2 { to_frames(&vals, ch as usize) } else { vec![] };
				judge_valid(&spec.desc(), &format!("{:?} channels={}", fmt, ch), &bytes, ch as usize, rate, &want, n, true, ctx);
			}
		}
	}
}

/// the file is a valid PCM WAV of the modelled family: the static load must be exact (or the documented error for > 2 channels)
#[allow(clippy::too_many_arguments)]
fn judge_valid(desc: &str, feature: &str, bytes: &Arc<[u8]>, ch: usize, rate: u32, want: &[Frame], n: usize, pristine: bool, ctx: &mut Ctx) -> Option<StaticSoundData> {
	let origin = if pristine { "" } else { " (single-byte variant of a generated file that is still a valid PCM WAV)" };
	match load_static(bytes) {
		Loaded::Panic(p) => ctx.fail(format!("panic: {} :: loading a valid wav {}", p, feature), desc),
		Loaded::Err(e) if ch > 2 => {
			ctx.outcome(hash64(&e));
			ctx.nontrivial_extra += 1;
			if pristine && !e.contains("UnsupportedChannelConfiguration") {
				ctx.fail(format!("static: file with more than 2 channels gives {} instead of UnsupportedChannelConfiguration", e), desc);
			}
		}
		Loaded::Err(e) => ctx.fail(format!("static: valid PCM WAV rejected: {} :: {}{}", e, feature, origin), desc),
		Loaded::Ok(d) if ch > 2 => {
			if n > 0 {
				ctx.fail("static: file with more than 2 channels is accepted", format!("{} -> {} frames", desc, d.frames.len()));
			}
		}
		Loaded::Ok(d) => {
			ctx.outcome(frames_hash(&d.frames));
			if nonsilent(&d.frames) {
				ctx.nontrivial_extra += 1;
			}
			if d.sample_rate != rate {
				ctx.fail(format!("static: sample rate differs from the file{}", origin), format!("{} -> sample_rate {}", desc, d.sample_rate));
			}
			if d.frames.len() != want.len() {
				let size = if want.len() > 1152 { "multi-packet file" } else { "single-packet file" };
				ctx.fail(format!("static: frame count differs from the file :: {}{}", size, origin), format!("{} -> {} frames", desc, d.frames.len()));
			} else if let Some(i) = (0..want.len()).find(|i| !same_frame(d.frames[*i], want[*i])) {
				let (g, w) = (d.frames[i], want[i]);
				let sig = if ch == 1 && same(g.left, w.left) {
					"static: mono sample not duplicated to both channels".to_string()
				} else {
					format!("static: sample values differ from the file :: {}", feature)
				};
				ctx.fail(format!("{}{}", sig, origin), format!("{} frame {}: got ({},{}) want ({},{})", desc, i, g.left, g.right, w.left, w.right));
			}
			return Some(d);
		}
	}
	None
}

// ---------------------------------------------------------------------------------------------
// B: streaming of generated files

fn stream_case(tier: Tier, fmt: Fmt, ch: u16, rate: u32, ctx: &mut Ctx) {
	pacer::set_mode(pacer::Mode::Pacer);
	for n in tier.pick(vec![0, 1, 2, 5, 9, 2311], vec![0, 1, 2, 3, 5, 9, 1153, 2311, 3456]) {
		let layout = LAYOUTS[(n + ch as usize) % LAYOUTS.len()];
		let spec = Spec { fmt, ch, n, rate, layout };
		let (file, _, vals) = encode(&spec);
		let bytes: Arc<[u8]> = file.into();
		let reference = to_frames(&vals, ch as usize);
		let desc = spec.desc();
		let subject = StreamSubject { kind: "wav", desc: &desc, bytes: &bytes, rate, reference: &reference, packet: 1152 };
		let lat = lattice(&[0, 1, n / 2, 1151, 1152, 1153, n.saturating_sub(1), n], n);
		stream_matrix(&subject, &lat, 3, tier.pick(2, 3), ctx);
	}
}

/// seek_by is relative to what is HEARD when the command is consumed, however far ahead the decoder has buffered: the frames
/// already buffered are played out, then the stream continues at (heard position + d)
fn seek_by_case(fmt: Fmt, ch: u16, ctx: &mut Ctx) {
	pacer::set_mode(pacer::Mode::Pacer);
	let (n, rate) = (6000usize, 8000u32);
	let spec = Spec { fmt, ch, n, rate, layout: Layout::Plain };
	let (file, _, vals) = encode(&spec);
	let bytes: Arc<[u8]> = file.into();
	let reference = to_frames(&vals, ch as usize);
	let locate = |a: Frame, b: Frame, near: usize| -> Option<usize> {
		// the file frame at which the pair (a, b) occurs, nearest to `near`
		(0..n - 1).filter(|&j| same_frame(reference[j], a) && same_frame(reference[j + 1], b)).min_by_key(|&j| (j as i64 - near as i64).abs())
	};
	let heard0 = 100usize;
	for &ahead in &[0usize, 64, 1000, 3000] {
		for &d_frames in &[400i64, -80, 1600, 8] {
			ctx.evals += 1;
			ctx.count("runs: seek_by scenarios", 1);
			let d = d_frames as f64 / rate as f64;
			let k = ahead + 400;
			// (the position a handle / the decoder sees is published at the start of a callback: the last callback before the
			// command renders a single frame, so that position is frame heard0 - 1)
			let segs = [
				Seg { seek_by: None, seek: None, steps: heard0 + ahead, render: heard0 - 1 },
				Seg { seek_by: None, seek: None, steps: 0, render: 1 },
				Seg { seek_by: Some(d), seek: None, steps: k, render: k },
			];
			let detail = format!("{}: {} frames heard while the decoder is {} frames ahead, then seek_by({} frames / rate), {} frames rendered", spec.desc(), heard0, ahead, d_frames, k);
			let obs = match catch(|| stream_play(&bytes, rate, 0, &segs)) {
				Ok(o) => o,
				Err(p) => {
					ctx.fail(format!("panic: {} :: seek_by on a stream", p), detail);
					continue;
				}
			};
			if obs.hung || obs.open_err.is_some() || obs.start_err.is_some() || !obs.errors.is_empty() {
				ctx.fail("stream: seek_by on a valid file hangs / is refused / reports a decode error", format!("{:?} {:?} {:?} hung={}; {}", obs.open_err, obs.start_err, obs.errors, obs.hung, detail));
				continue;
			}
			let out = &obs.out[2];
			// walk the output: consecutive file frames until the jump
			let mut prev: Option<usize> = Some(heard0 - 1);
			let mut landing: Option<(usize, usize)> = None;
			for j in 0..out.len().saturating_sub(1) {
				let near = prev.map(|p| p + 1).unwrap_or(heard0);
				let Some(r) = locate(out[j], out[j + 1], near) else { continue };
				if let Some(p) = prev {
					if r != p + 1 {
						landing = Some((j, r));
						break;
					}
				}
				prev = Some(r);
			}
			let want = heard0 as i64 - 1 + d_frames;
			match landing {
				Some((j, r)) => {
					if (r as i64 - want).abs() > 3 {
						ctx.fail(
							format!("stream: seek_by does not continue at the heard position + the requested amount :: decoder {} ahead", if ahead == 0 { "not" } else { "frames" }),
							format!("after {} more frames the stream continues at file frame {}, expected {} (+-3); {}", j, r, want, detail),
						);
					} else {
						ctx.nontrivial_extra += 1;
					}
				}
				None => {
					if d_frames != 0 {
						ctx.fail("stream: seek_by has no visible effect", format!("no discontinuity in {} rendered frames; {}", out.len(), detail));
					}
				}
			}
			ctx.outcome(frames_hash(out));
		}
	}
	// seek_to and seek_by issued between the same two callbacks: the stream continues where the loaded sound continues when it is
	// given the same two commands (the loaded sound is the oracle for which of the two wins)
	for &ahead in &[0usize, 64] {
		for &d_frames in &[400i64, -80] {
			for &p in &[1000usize, 3000] {
				ctx.evals += 1;
				ctx.count("runs: seek_to + seek_by in one interval", 1);
				let d = d_frames as f64 / rate as f64;
				let k = ahead + 400;
				let detail = format!("{}: {} frames heard while the decoder is {} frames ahead, then seek_to(frame {}) and seek_by({} frames) before the next callback, {} frames rendered", spec.desc(), heard0, ahead, p, d_frames, k);
				// where the loaded sound lands
				let stat = catch(|| -> Option<usize> {
					use kira::sound::SoundData;
					let data = StaticSoundData::from_cursor(Cursor::new(bytes.clone())).ok()?;
					let (mut sound, mut h) = data.into_sound().ok()?;
					let info = MockInfoBuilder::new().build();
					let dt = 1.0 / rate as f64;
					for len in [heard0 - 1, 1] {
						let mut o = vec![Frame::ZERO; len];
						sound.on_start_processing();
						sound.process(&mut o, dt, &info);
					}
					h.seek_to(p as f64 / rate as f64);
					h.seek_by(d);
					let mut o = vec![Frame::ZERO; 64];
					sound.on_start_processing();
					sound.process(&mut o, dt, &info);
					(8..40).find_map(|j| locate(o[j], o[j + 1], p).map(|r| r - j))
				});
				let Ok(Some(stat_origin)) = stat else {
					ctx.fail("MACHINERY: the loaded twin could not be located after its seeks :: seek_to + seek_by in one interval", detail);
					continue;
				};
				let segs = [
					Seg { seek_by: None, seek: None, steps: heard0 + ahead, render: heard0 - 1 },
					Seg { seek_by: None, seek: None, steps: 0, render: 1 },
					Seg { seek_by: Some(d), seek: Some(p), steps: k, render: k },
				];
				let obs = match catch(|| stream_play(&bytes, rate, 0, &segs)) {
					Ok(o) => o,
					Err(pn) => {
						ctx.fail(format!("panic: {} :: seek_to + seek_by on a stream", pn), detail);
						continue;
					}
				};
				if obs.hung || obs.open_err.is_some() || obs.start_err.is_some() || !obs.errors.is_empty() {
					ctx.fail("stream: seek_to + seek_by on a valid file hangs / is refused / reports a decode error", format!("{:?} {:?} {:?} hung={}; {}", obs.open_err, obs.start_err, obs.errors, obs.hung, detail));
					continue;
				}
				let out = &obs.out[2];
				// the frames of the last quarter of the rendering: consecutive file frames, continuing the loaded twin's line
				let j0 = out.len() * 3 / 4;
				let got = locate(out[j0], out[j0 + 1], stat_origin + j0);
				let want = stat_origin as i64 + j0 as i64;
				match got {
					Some(r) if (r as i64 - want).abs() <= ahead as i64 + 4 => ctx.nontrivial_extra += 1,
					_ => ctx.fail(
						"stream: after seek_to and seek_by in one interval the stream does not continue where the loaded sound continues :: two seeks in one interval",
						format!("rendered frame {} is file frame {:?}; the loaded sound, given the same commands, is at file frame {} there (+- the {} buffered frames + 4); {}", j0, got, want, ahead, detail),
					),
				}
				ctx.outcome(frames_hash(out));
			}
		}
	}
}

/// "after any sequence of seeks" on a stream that loops: the frames heard after the seek are the file's frames from the
/// (wrapped) target on, wrapping from the loop end to the loop start
fn loop_seek_case(fmt: Fmt, ch: u16, ctx: &mut Ctx) {
	pacer::set_mode(pacer::Mode::Pacer);
	let (n, rate) = (3000usize, 8000u32);
	let (a, b) = (1500usize, 2200usize);
	let spec = Spec { fmt, ch, n, rate, layout: Layout::Plain };
	let (file, _, vals) = encode(&spec);
	let bytes: Arc<[u8]> = file.into();
	let reference = to_frames(&vals, ch as usize);
	// a forward seek that lands at or beyond the loop end is wrapped back into the region (documented transport rule)
	let wrap = |mut p: usize| {
		while p >= b {
			p -= b - a;
		}
		p
	};
	for &start in &[0usize, 1600] {
		for &played in &[16usize, 900] {
			for &target in &[0usize, 700, 1499, 1500, 1900, 2199, 2200, 2201, 2600, 2899, 2900] {
				ctx.evals += 1;
				ctx.count("runs: looping-stream seek scenarios", 1);
				let k = 800usize;
				let segs = [Seg { seek_by: None, seek: None, steps: played, render: played }, Seg { seek_by: None, seek: Some(target), steps: k, render: k }];
				let detail = format!("{}: loop region {}..{}, start position {}, {} frames played, then seek_to(frame {} / rate), {} frames rendered (exactly paced)", spec.desc(), a, b, start, played, target, k);
				let obs = match catch(|| stream_play_lp(&bytes, rate, start, Some((a, b)), &segs)) {
					Ok(o) => o,
					Err(p) => {
						ctx.fail(format!("panic: {} :: seek on a looping stream", p), detail);
						continue;
					}
				};
				if obs.hung {
					ctx.fail("hang: the streaming decoder thread never finishes a decode-loop iteration :: seek on a looping stream", detail);
					continue;
				}
				if let Some(e) = obs.open_err.as_ref().or(obs.start_err.as_ref()) {
					ctx.fail(format!("stream: valid file refused: {} :: looping stream", e), detail);
					continue;
				}
				let class = if target >= b { "target at or beyond the loop end" } else if target >= a { "target inside the loop" } else { "target before the loop" };
				if !obs.errors.is_empty() {
					ctx.fail(format!("stream: decode error reported for a valid file: {} :: seek on a looping stream, {}", obs.errors[0], class), detail);
					continue;
				}
				// expected: the first piece from `start` (wrapping), the second from the wrapped target
				let mut want = vec![];
				let mut p = start;
				for _ in 0..played {
					want.push(reference[p]);
					p += 1;
					if p >= b {
						p = a;
					}
				}
				// (a backward seek to a frame before the loop start is wrapped forward into the region - the same transport rule
				// the static sound follows, see C04)
				let forward = target > p;
				let mut q = if forward {
					wrap(target)
				} else {
					let mut t = target;
					while t < a {
						t += b - a;
					}
					t
				};
				let mut want2 = vec![];
				for _ in 0..k {
					want2.push(if q < n { reference[q] } else { Frame::ZERO });
					q += 1;
					if q == b {
						q = a;
					}
				}
				let got1 = &obs.out[0];
				let got2 = &obs.out[1];
				let bad1 = (0..played).find(|&i| !same_frame(got1[i], want[i]));
				let bad2 = (0..k).find(|&i| !same_frame(got2[i], want2[i]));
				if let Some(i) = bad1 {
					ctx.fail("stream: frames differ from the loaded file :: looping stream before any seek", format!("frame {} of the first piece: got ({},{}) want ({},{}); {}", i, got1[i].left, got1[i].right, want[i].left, want[i].right, detail));
				} else if let Some(i) = bad2 {
					// diagnosis: which file frame was heard instead
					let heard = (0..n).find(|j| same_frame(reference[*j], got2[i]));
					ctx.fail(
						format!("stream: frames after a seek differ from the loaded file :: looping stream, {}", class),
						format!("frame {} after the seek: got ({},{}) = file frame {:?}, want ({},{}); {}", i, got2[i].left, got2[i].right, heard, want2[i].left, want2[i].right, detail),
					);
				} else {
					ctx.nontrivial_extra += 1;
				}
				ctx.outcome(frames_hash(got2));
			}
		}
	}
}

/// the whole of a file longer than two decoder rings, streamed in pieces: every frame equals the loaded file's
fn long_stream_case(fmt: Fmt, ch: u16, ctx: &mut Ctx) {
	pacer::set_mode(pacer::Mode::Pacer);
	let (n, rate, piece) = (40000usize, 8000u32, 1000usize);
	let spec = Spec { fmt, ch, n, rate, layout: Layout::Plain };
	let (file, _, vals) = encode(&spec);
	let bytes: Arc<[u8]> = file.into();
	let reference = to_frames(&vals, ch as usize);
	let mut segs = vec![];
	let mut left = n;
	while left > 0 {
		let k = piece.min(left);
		left -= k;
		let ends = left == 0;
		segs.push(Seg { seek_by: None, seek: None, steps: k + ends as usize, render: k + 2 * ends as usize });
	}
	ctx.evals += 1;
	ctx.count("runs: long streaming scenarios", 1);
	let detail = format!("{}: streamed from the start to the end in pieces of {} frames at playback rate 1, dt=1/{}", spec.desc(), piece, rate);
	let obs = match catch(|| stream_play(&bytes, rate, 0, &segs)) {
		Ok(o) => o,
		Err(p) => return ctx.fail(format!("panic: {} :: streaming a valid long wav file", p), detail),
	};
	if obs.hung {
		return ctx.fail("hang: the streaming decoder thread never finishes a decode-loop iteration :: a valid long wav file", detail);
	}
	if let Some(e) = obs.open_err.as_ref().or(obs.start_err.as_ref()) {
		return ctx.fail(format!("stream: valid long wav file refused: {}", e), detail);
	}
	if !obs.errors.is_empty() {
		return ctx.fail(format!("stream: decode error reported for a valid file: {} :: long wav", obs.errors[0]), detail);
	}
	let all: Vec<Frame> = obs.out.concat();
	let mut bad = vec![];
	for (i, f) in all.iter().enumerate() {
		let want = if i < n { reference[i] } else { Frame::ZERO };
		if !same_frame(*f, want) {
			bad.push((i, *f, want));
		}
	}
	if let Some((i, f, w)) = bad.first() {
		ctx.fail(
			"stream: frames differ from the loaded file :: wav streamed beyond the length of the decoder ring",
			format!("{} frame(s) differ, first: file frame {} got ({},{}) want ({},{}); differing frames {:?}; {}", bad.len(), i, f.left, f.right, w.left, w.right, bad.iter().take(8).map(|b| b.0).collect::<Vec<_>>(), detail),
		);
	} else {
		ctx.nontrivial_extra += 1;
	}
	ctx.outcome(frames_hash(&all));
}

/// a slice of the file, streamed: the frames of the slice, from every start position of a small lattice and after a seek
fn slice_case(fmt: Fmt, ch: u16, ctx: &mut Ctx) {
	pacer::set_mode(pacer::Mode::Pacer);
	let (n, rate) = (4000usize, 8000u32);
	let spec = Spec { fmt, ch, n, rate, layout: Layout::Plain };
	let (file, _, vals) = encode(&spec);
	let bytes: Arc<[u8]> = file.into();
	let reference = to_frames(&vals, ch as usize);
	// slice starts: inside the first packet (1152 frames), on its border, in a later packet
	for (a, b) in [(100usize, 3900usize), (1, 1500), (1152, 3000), (2500, 4000), (0, 700)] {
		let len = b - a;
		for start in [0usize, 1, 37, len / 2] {
			for seek in [None, Some(5usize), Some(len / 3), Some(len - 40)] {
				let k = 64usize;
				let mut segs = vec![Seg { seek_by: None, seek: None, steps: k, render: k }];
				let mut expect: Vec<(usize, usize)> = vec![(start, k)];
				if let Some(p) = seek {
					let kk = k.min(len - p);
					let ends = kk == len - p;
					segs.push(Seg { seek_by: None, seek: Some(p), steps: kk + ends as usize, render: kk });
					expect.push((p, kk));
				}
				ctx.evals += 1;
				ctx.count("runs: sliced streaming scenarios", 1);
				let detail = format!("{}: slice {}..{} (frames), streamed from start position {} (relative to the slice), {} frames, then seek_to {:?} (relative) and {} frames; playback rate 1, dt=1/{}", spec.desc(), a, b, start, k, seek, k, rate);
				SLICE.with(|s| s.set(Some((a, b))));
				let r = catch(|| stream_play(&bytes, rate, start, &segs));
				SLICE.with(|s| s.set(None));
				let obs = match r {
					Ok(o) => o,
					Err(p) => {
						ctx.fail(format!("panic: {} :: streaming a slice of a valid wav file", p), detail);
						continue;
					}
				};
				if obs.hung {
					ctx.fail("hang: the streaming decoder thread never finishes a decode-loop iteration :: a slice of a valid wav file", detail);
					return;
				}
				if let Some(e) = obs.open_err.as_ref().or(obs.start_err.as_ref()) {
					ctx.fail(format!("stream: slice of a valid wav file refused: {}", e), detail);
					continue;
				}
				if !obs.errors.is_empty() {
					ctx.fail(format!("stream: decode error reported for a valid file: {} :: sliced wav", obs.errors[0]), detail);
					continue;
				}
				let mut bad = None;
				'pieces: for (i, out) in obs.out.iter().enumerate() {
					for (j, f) in out.iter().enumerate() {
						let want = if j < expect[i].1 { reference[a + expect[i].0 + j] } else { Frame::ZERO };
						if !same_frame(*f, want) {
							bad = Some((i, j, *f, want));
							break 'pieces;
						}
					}
				}
				if let Some((i, j, f, w)) = bad {
					ctx.fail(
						format!("stream: frames of a sliced stream differ from the same frames of the loaded file :: slice start {}", if a == 0 { "0" } else if a < 1152 { "inside the first packet" } else { "in a later packet" }),
						format!("piece {} frame {} (file frame {}): got ({},{}) want ({},{}); {}", i, j, a + expect[i].0 + j, f.left, f.right, w.left, w.right, detail),
					);
				} else {
					ctx.nontrivial_extra += 1;
				}
				ctx.outcome(frames_hash(&obs.out.concat()));
			}
		}
	}
}

/// the end of the file while the audio thread runs inside a decoder iteration: a short file is streamed, the decoder is parked at every
/// one of its sync points in turn (between decoding a frame, publishing it and announcing the end) while callbacks run, and whatever the
/// schedule the frames heard are the frames of the loaded file, in order, up to and including the last one (a wait for the decoder is a
/// gap of silence that may cost the one frame that arrives first after the ring ran dry - C10's allowance - and nothing else)
fn file_end_case(fmt: Fmt, ch: u16, ctx: &mut Ctx) {
	use kira::sound::Sound;
	pacer::set_mode(pacer::Mode::Pacer);
	let (rate, ibs) = (8000u32, 2usize);
	let info = MockInfoBuilder::new().build();
	let dt = 1.0 / rate as f64;
	for n in [6usize, 7] {
		let spec = Spec { fmt, ch, n, rate, layout: Layout::Plain };
		let (file, _, vals) = encode(&spec);
		let bytes: Arc<[u8]> = file.into();
		let reference = to_frames(&vals, ch as usize);
		if reference.iter().any(|f| *f == Frame::ZERO) || (0..n).any(|i| (0..i).any(|j| same_frame(reference[i], reference[j]))) {
			ctx.fail("MACHINERY: the generated file has silent or repeated frames :: end of file", spec.desc());
			return;
		}
		for pre in 3..=n as u64 {
			for (drained, parked_cbs) in [(true, 1usize), (false, 1), (false, 3)] {
				let mut nth = 0u64;
				loop {
					nth += 1;
					ctx.evals += 1;
					ctx.count("runs: end-of-file schedules", 1);
					let data = match StreamingSoundData::from_cursor(Cursor::new(bytes.clone())) {
						Ok(d) => d,
						Err(e) => {
							ctx.fail(format!("stream: valid wav file refused: {} :: end of file", err_name(&e)), spec.desc());
							return;
						}
					};
					let dec = pacer::count();
					let Ok((mut sound, mut handle)) = data.into_sound() else {
						ctx.fail("stream: valid wav file refused at into_sound :: end of file", spec.desc());
						return;
					};
					let mut heard: Vec<Frame> = vec![];
					let mut states: Vec<PlaybackState> = vec![];
					let mut hung = false;
					let mut cb = |sound: &mut Box<dyn Sound>, handle: &kira::sound::streaming::StreamingSoundHandle<FromFileError>, heard: &mut Vec<Frame>, states: &mut Vec<PlaybackState>| {
						let mut out = vec![Frame::new(POISON, POISON); ibs];
						sound.on_start_processing();
						sound.process(&mut out, dt, &info);
						heard.extend(out);
						states.push(handle.state());
					};
					paced_step(dec, pre as usize, &mut hung);
					let ncb = if drained { pre as usize / ibs + 2 } else { 1 };
					for _ in 0..ncb {
						cb(&mut sound, &handle, &mut heard, &mut states);
					}
					pacer::arm_decoder_park(dec, nth);
					paced_step(dec, 3, &mut hung);
					for _ in 0..parked_cbs {
						cb(&mut sound, &handle, &mut heard, &mut states);
					}
					let (site, _) = pacer::release_decoder_park(dec);
					let fired = site.is_some();
					for _ in 0..6 {
						paced_step(dec, 4, &mut hung);
						cb(&mut sound, &handle, &mut heard, &mut states);
					}
					let detail = format!("{} streamed with callbacks of {} frames; the decoder delivers {} frames, {}; then it is parked at its pass #{} through a stream.* sync point ({}) while {} callback(s) run; then it keeps ahead", spec.desc(), ibs, pre, if drained { "the ring is played dry" } else { "one callback" }, nth, site.unwrap_or("-"), parked_cbs);
					let mut bad: Option<(String, String)> = None;
					if hung {
						bad = Some(("the decoder thread hangs".into(), String::new()));
					}
					let mut errs = vec![];
					while let Some(e) = handle.pop_error() {
						errs.push(err_name(&e));
					}
					if bad.is_none() && !errs.is_empty() {
						bad = Some(("a decode error is reported for a valid file".into(), format!("{:?}", errs)));
					}
					if bad.is_none() && fired {
						let mut last: Option<usize> = None;
						let mut gap = false;
						for (j, f) in heard.iter().enumerate() {
							if *f == Frame::ZERO {
								gap = true;
								continue;
							}
							match reference.iter().position(|r| same_frame(*r, *f)) {
								None => {
									bad = Some(("a frame that is not in the file is heard".into(), format!("output frame {} = ({},{})", j, f.left, f.right)));
									break;
								}
								Some(i) => {
									if let Some(l) = last {
										if !(i == l + 1 || (gap && i == l + 2)) {
											let kind = if i <= l { "frames are repeated or reordered".to_string() } else { format!("{} file frames are lost in one gap", i - l - 1) };
											bad = Some((kind, format!("output frame {}: file frame {} after file frame {}", j, i, l)));
											break;
										}
									}
									last = Some(i);
									gap = false;
								}
							}
						}
						if bad.is_none() && last != Some(n - 1) {
							let j_last = heard.iter().rposition(|f| *f != Frame::ZERO).unwrap_or(0);
							let waited = states.iter().enumerate().any(|(c, st)| *st != PlaybackState::Stopped && (c * ibs..(c + 1) * ibs).any(|j| j > j_last && heard.get(j) == Some(&Frame::ZERO)));
							if last.map(|l| l + 2 < n).unwrap_or(true) || !waited {
								bad = Some(("the last frame of the file is never heard".into(), format!("last file frame heard {:?} of {}, and the sound never waited for the decoder after that; states {:?}", last, n, states)));
							}
						}
						if bad.is_none() && handle.state() != PlaybackState::Stopped {
							bad = Some(("the sound is not Stopped long after the last frame of the file".into(), format!("state {:?}", handle.state())));
						}
					}
					if let Some((kind, b)) = bad {
						ctx.fail(
							format!("stream: streaming does not yield the frames of the loaded file up to its end: {} :: a callback inside a decoder iteration near the end of the file", kind),
							format!("{}; {}; heard (left channel) {:?}", detail, b, heard.iter().map(|f| f.left).collect::<Vec<_>>()),
						);
					}
					if fired {
						ctx.nontrivial_extra += 1;
						ctx.outcome(hash64(&(n, pre, drained, parked_cbs, nth, frames_hash(&heard))));
					}
					handle.stop(Tween { duration: std::time::Duration::ZERO, ..Default::default() });
					for _ in 0..2 {
						sound.on_start_processing();
						sound.process(&mut [Frame::ZERO; 1], dt, &info);
					}
					paced_step(dec, 3, &mut hung);
					if !fired || nth > 40 || hung {
						break;
					}
				}
			}
		}
	}
}

/// a truncated file streamed while the audio thread runs inside the decoder's iterations: whenever the handle shows Stopped
/// because the decoder failed, the error value is already there to be popped - a bad file never looks like a sound that ended
fn error_visible_case(fmt: Fmt, ch: u16, ctx: &mut Ctx) {
	use kira::sound::Sound;
	pacer::set_mode(pacer::Mode::Pacer);
	let (rate, ibs) = (8000u32, 2usize);
	let info = MockInfoBuilder::new().build();
	let dt = 1.0 / rate as f64;
	let spec = Spec { fmt, ch, n: 12, rate, layout: Layout::Plain };
	let (file, payload_at, _) = encode(&spec);
	let block = ch as usize * (fmt.bits() as usize / 8);
	// the header promises 12 frames, 7 and a half are there
	let cut = payload_at + 7 * block + block / 2;
	let bytes: Arc<[u8]> = file[..cut].to_vec().into();
	// does this file end in an error at all (or is the valid prefix simply played)?
	let base = stream_play(&bytes, rate, 0, &[Seg { seek_by: None, seek: None, steps: 40, render: 16 }, Seg { seek_by: None, seek: None, steps: 8, render: 4 }]);
	if base.open_err.is_some() || base.start_err.is_some() {
		ctx.count("error-visible: file refused when opened", 1);
		return;
	}
	if base.errors.is_empty() {
		ctx.count("error-visible: the truncated file plays its prefix without an error", 1);
		return;
	}
	for pre in 0..=10u64 {
		let mut nth = 0u64;
		loop {
			nth += 1;
			ctx.evals += 1;
			ctx.count("runs: error-visibility schedules", 1);
			let Ok(data) = StreamingSoundData::from_cursor(Cursor::new(bytes.clone())) else { return };
			let dec = pacer::count();
			let Ok((mut sound, mut handle)) = data.into_sound() else { return };
			let mut hung = false;
			let mut error_seen = false;
			let mut bad: Option<String> = None;
			let mut states = vec![];
			let mut cb = |sound: &mut Box<dyn Sound>, handle: &mut kira::sound::streaming::StreamingSoundHandle<FromFileError>, error_seen: &mut bool, bad: &mut Option<String>, states: &mut Vec<PlaybackState>, when: &str| {
				let mut out = vec![Frame::new(POISON, POISON); ibs];
				sound.on_start_processing();
				sound.process(&mut out, dt, &info);
				let st = handle.state();
				states.push(st);
				while handle.pop_error().is_some() {
					*error_seen = true;
				}
				if st == PlaybackState::Stopped && !*error_seen && bad.is_none() {
					*bad = Some(format!("the handle shows Stopped {} and pop_error() returns None", when));
				}
			};
			paced_step(dec, pre as usize, &mut hung);
			cb(&mut sound, &mut handle, &mut error_seen, &mut bad, &mut states, "before the decoder was parked");
			pacer::arm_decoder_park(dec, nth);
			paced_step(dec, 3, &mut hung);
			for _ in 0..2 {
				cb(&mut sound, &mut handle, &mut error_seen, &mut bad, &mut states, "while the decoder stands inside an iteration");
			}
			let (site, _) = pacer::release_decoder_park(dec);
			let fired = site.is_some();
			for _ in 0..4 {
				paced_step(dec, 8, &mut hung);
				cb(&mut sound, &mut handle, &mut error_seen, &mut bad, &mut states, "after the decoder went on");
			}
			if bad.is_none() && !hung && !error_seen {
				bad = Some("the error never reaches the handle".to_string());
			}
			if let Some(b) = bad {
				ctx.fail(
					"stream: a file that ends in a decode error looks like a sound that simply ended (Stopped with no error value to show for it) :: callbacks inside the decoder's iterations",
					format!("{} cut after 7.5 frames, streamed in callbacks of {} frames; the decoder runs {} iterations, then is parked at its pass #{} through a stream.* sync point ({}) while 2 callbacks run: {}; states {:?}", spec.desc(), ibs, pre, nth, site.unwrap_or("-"), b, states),
				);
			}
			if fired {
				ctx.nontrivial_extra += 1;
				ctx.outcome(hash64(&("errvis", pre, nth, site)));
			}
			handle.stop(Tween { duration: std::time::Duration::ZERO, ..Default::default() });
			for _ in 0..2 {
				sound.on_start_processing();
				sound.process(&mut [Frame::ZERO; 1], dt, &info);
			}
			paced_step(dec, 3, &mut hung);
			if !fired || nth > 40 || hung {
				break;
			}
		}
	}
}

/// slicing already sliced data with an open-ended region: whatever the static sound makes of it, the stream makes the same
fn reslice_case(fmt: Fmt, ch: u16, ctx: &mut Ctx) {
	pacer::set_mode(pacer::Mode::Pacer);
	let (n, rate) = (4000usize, 8000u32);
	let spec = Spec { fmt, ch, n, rate, layout: Layout::Plain };
	let (file, _, _) = encode(&spec);
	let bytes: Arc<[u8]> = file.into();
	let Loaded::Ok(loaded) = load_static(&bytes) else {
		return ctx.fail("machinery: generated wav not loadable", spec.desc());
	};
	let reg = |a: usize, b: Option<usize>| kira::sound::Region { start: PlaybackPosition::Samples(a), end: b.map(|b| kira::sound::EndPosition::Custom(PlaybackPosition::Samples(b))).unwrap_or(kira::sound::EndPosition::EndOfAudio) };
	for (a, b) in [(1000usize, 2000usize), (0, 1500), (2500, 4000)] {
		for c in [0usize, 500, 1500, 2500, 3990] {
			let stat = loaded.slice(reg(a, Some(b))).slice(reg(c, None));
			let len = stat.num_frames();
			let k = 64usize.min(len);
			let ends = k == len;
			let segs = vec![Seg { seek_by: None, seek: None, steps: k + ends as usize, render: k + 2 * ends as usize }];
			ctx.evals += 1;
			ctx.count("runs: re-sliced streaming scenarios", 1);
			let detail = format!("{}: .slice({}..{}).slice({}..) on the static and on the streaming data; the static sound then has {} frames; {} frames streamed from its start", spec.desc(), a, b, c, len, k);
			SLICE.with(|s| s.set(Some((a, b))));
			RESLICE.with(|s| s.set(Some(c)));
			let r = catch(|| stream_play(&bytes, rate, 0, &segs));
			SLICE.with(|s| s.set(None));
			RESLICE.with(|s| s.set(None));
			let obs = match r {
				Ok(o) => o,
				Err(p) => {
					ctx.fail(format!("panic: {} :: streaming a re-sliced valid wav file", p), detail);
					continue;
				}
			};
			if obs.hung {
				ctx.fail("hang: the streaming decoder thread never finishes a decode-loop iteration :: a re-sliced valid wav file", detail);
				return;
			}
			if obs.open_err.is_some() || obs.start_err.is_some() || !obs.errors.is_empty() {
				ctx.fail("stream: a re-sliced valid wav file is refused / reports a decode error", format!("{:?} {:?} {:?}; {}", obs.open_err, obs.start_err, obs.errors, detail));
				continue;
			}
			if obs.num_frames != len {
				ctx.fail("stream: num_frames() of re-sliced streaming data differs from the static sound sliced the same way", format!("streaming {} static {}; {}", obs.num_frames, len, detail));
				continue;
			}
			let out = &obs.out[0];
			if let Some(j) = (0..out.len()).find(|&j| !same_frame(out[j], if j < k { stat.frame_at_index(j).unwrap_or(Frame::ZERO) } else { Frame::ZERO })) {
				ctx.fail("stream: frames of a re-sliced stream differ from the static sound sliced the same way", format!("frame {}: got ({},{}); {}", j, out[j].left, out[j].right, detail));
			} else if len > 0 {
				ctx.nontrivial_extra += 1;
			}
			ctx.outcome(frames_hash(out));
		}
	}
}

// ---------------------------------------------------------------------------------------------
// C: shipped assets (differential)

const ASSETS: [&str; 9] = ["sine.wav", "blip.ogg", "score.ogg", "drums.ogg", "dynamic/arp.ogg", "dynamic/bass.ogg", "dynamic/drums.ogg", "dynamic/lead.ogg", "dynamic/pad.ogg"];

fn asset_bytes(name: &str) -> Option<Vec<u8>> {
	let mut dirs = vec![];
	if let Ok(r) = std::env::var("KVH_KIRA_REPO") {
		dirs.push(r);
	}
	dirs.push(concat!(env!("CARGO_MANIFEST_DIR"), "/../repo").to_string());
	dirs.push("/repo".to_string());
	dirs.iter().find_map(|d| std::fs::read(format!("{}/crates/examples/assets/{}", d, name)).ok())
}

fn asset_case(tier: Tier, name: &str, ctx: &mut Ctx) {
	pacer::set_mode(pacer::Mode::Pacer);
	let Some(file) = asset_bytes(name) else {
		ctx.fail("machinery: shipped asset not found", name);
		return;
	};
	let bytes: Arc<[u8]> = file.into();
	ctx.evals += 1;
	let d = match load_static(&bytes) {
		Loaded::Ok(d) => d,
		Loaded::Err(e) => return ctx.fail(format!("static: shipped asset rejected: {}", e), name),
		Loaded::Panic(p) => return ctx.fail(format!("panic: {} :: loading a shipped asset", p), name),
	};
	let n = d.frames.len();
	if n == 0 || !nonsilent(&d.frames) || !exact_dt(d.sample_rate) {
		return ctx.fail("machinery: shipped asset is empty, silent or has a rate the exact pacing cannot use", format!("{} frames={} rate={}", name, n, d.sample_rate));
	}
	ctx.nontrivial_extra += 1;
	ctx.outcome(frames_hash(&d.frames));
	let kind = if name.ends_with(".wav") { "wav" } else { "ogg" };
	let desc = format!("asset {} ({} frames at {} Hz)", name, n, d.sample_rate);
	let subject = StreamSubject { kind, desc: &desc, bytes: &bytes, rate: d.sample_rate, reference: &d.frames, packet: if kind == "wav" { 1152 } else { 0 } };
	let lat = match tier {
		Tier::Quick => lattice(&[0, 1, n / 3 + 1, n - 1, n], n),
		Tier::Thorough => lattice(&[0, 1, 64, n / 7, n / 3 + 1, n / 2, 2 * n / 3 + 5, n.saturating_sub(1025), n - 1, n], n),
	};
	stream_matrix(&subject, &lat, tier.pick(16, 64), 2, ctx);
}

// ---------------------------------------------------------------------------------------------
// D / E: faults

fn bases(tier: Tier) -> Vec<Spec> {
	use Fmt::*;
	use Layout::*;
	let s = |fmt, ch, n, rate, layout| Spec { fmt, ch, n, rate, layout };
	let mut v = vec![
		s(U8, 1, 9, 8000, Plain),
		s(S16, 2, 9, 44100, Plain),
		s(S24, 1, 5, 8000, Plain),
		s(S32, 2, 5, 44100, Plain),
		s(F32, 1, 9, 8000, Plain),
		s(F64, 2, 5, 44100, Plain),
		s(S16, 1, 9, 200, Plain),
		s(S16, 2, 5, 8000, Fmt18),
		s(F32, 2, 5, 8000, Fmt18),
		s(S24, 2, 5, 44100, Ext),
		s(S16, 1, 9, 8000, Junk),
		s(S16, 3, 5, 8000, Plain),
	];
	if tier == Tier::Thorough {
		v.extend([s(U8, 1, 1200, 8000, Plain), s(U8, 2, 9, 8000, Fmt18), s(F64, 1, 5, 44100, Ext), s(S32, 1, 5, 8000, Trail)]);
	}
	v
}

struct Base {
	spec: Spec,
	bytes: Vec<u8>,
	payload_at: usize,
	frames: Vec<Frame>,
}
fn base(spec: Spec) -> Base {
	let (bytes, payload_at, vals) = encode(&spec);
	let frames = if spec.ch <= 2 { to_frames(&vals, spec.ch as usize) } else { vec![] };
	Base { spec, bytes, payload_at, frames }
}

fn is_prefix(got: &[Frame], of: &[Frame]) -> bool {
	got.len() <= of.len() && got.iter().zip(of).all(|(a, b)| same_frame(*a, *b))
}

/// stream a faulty file from position 0 to its declared end: no panic; what is heard is a prefix of `valid` followed by silence
fn stream_fault(desc: &dyn Fn() -> String, feature: &str, bytes: &Arc<[u8]>, rate: u32, valid: Option<&[Frame]>, ctx: &mut Ctx) {
	if HANGS.load(std::sync::atomic::Ordering::SeqCst) >= MAX_HANGS {
		return ctx.count("fault_streams_skipped_after_3_decoder_hangs_in_this_worker", 1);
	}
	let n = valid.map(|v| v.len()).unwrap_or(4).min(1400);
	let segs = [Seg { seek_by: None, seek: None, steps: n + 1, render: n + 2 }];
	ctx.evals += 1;
	let obs = match catch(|| stream_play(bytes, rate, 0, &segs)) {
		Ok(o) => o,
		Err(p) => return ctx.fail(format!("panic: {} :: streaming {}", p, feature), desc()),
	};
	if obs.leaked {
		ctx.count("decoder_threads_not_ended_after_stop", 1);
	}
	if obs.hung {
		return ctx.fail(format!("hang: the streaming decoder thread never finishes a decode-loop iteration :: {}", feature), desc());
	}
	ctx.outcome(hash64(&(&obs.open_err, &obs.start_err, &obs.errors, obs.out.first().map(|o| frames_hash(o)))));
	let (Some(valid), Some(out)) = (valid, obs.out.first()) else { return };
	let heard = out.iter().rposition(|f| f.left != 0.0 || f.right != 0.0).map(|i| i + 1).unwrap_or(0);
	if heard > 0 {
		ctx.nontrivial_extra += 1;
	}
	if !is_prefix(&out[..heard], valid) {
		ctx.fail(
			format!("stream: a faulty file plays samples that are not a prefix of its valid audio :: {}", feature),
			format!("{}; heard {:?}; valid audio {:?}; errors popped {:?}", desc(), &out[..heard.min(12)], &valid[..valid.len().min(12)], obs.errors),
		);
	}
}

/// cuts per truncation case (long files are split so that the shards stay balanced)
const TRUNC_PART: usize = 128;

fn truncation_case(b: &Base, part: usize, ctx: &mut Ctx) {
	pacer::set_mode(pacer::Mode::Pacer);
	for cut in (part * TRUNC_PART..(part + 1) * TRUNC_PART).take_while(|c| *c <= b.bytes.len()) {
		let bytes: Arc<[u8]> = b.bytes[..cut].to_vec().into();
		let desc = || format!("{} ({} bytes, payload at {}) truncated to its first {} bytes", b.spec.desc(), b.bytes.len(), b.payload_at, cut);
		let payload_end = b.payload_at + b.spec.n * b.spec.ch as usize * (b.spec.fmt.bits() as usize / 8);
		let region = if cut < b.payload_at { "cut inside the header" } else if cut < payload_end { "cut inside the payload" } else { "cut after the payload" };
		ctx.evals += 1;
		ctx.count("runs: truncated files (each loaded and streamed)", 1);
		ctx.sample(cut as u64, desc);
		match load_static(&bytes) {
			Loaded::Panic(p) => ctx.fail(format!("panic: {} :: loading a truncated wav, {}", p, region), desc()),
			Loaded::Err(e) => {
				ctx.outcome(hash64(&e));
				ctx.nontrivial_extra += 1;
			}
			Loaded::Ok(d) => {
				ctx.outcome(frames_hash(&d.frames));
				if nonsilent(&d.frames) {
					ctx.nontrivial_extra += 1;
				}
				if !is_prefix(&d.frames, &b.frames) || d.sample_rate != b.spec.rate {
					ctx.fail(
						format!("static: a truncated file loads as something that is not a prefix of the original :: {}", region),
						format!("{} -> rate {} frames {:?}; original {:?}", desc(), d.sample_rate, &d.frames[..d.frames.len().min(12)], &b.frames[..b.frames.len().min(12)]),
					);
				}
			}
		}
		// frames beyond what the remaining bytes can hold (+8) need not be rendered: hearing any of them is already a failure
		let block = b.spec.ch as usize * (b.spec.fmt.bits() as usize / 8);
		let holds = (cut.saturating_sub(b.payload_at) / block + 8).min(b.frames.len());
		stream_fault(&desc, &format!("a truncated wav, {}", region), &bytes, b.spec.rate, Some(&b.frames[..holds]), ctx);
	}
}

fn corruption_case(b: &Base, off: usize, ctx: &mut Ctx) {
	pacer::set_mode(pacer::Mode::Pacer);
	let region = if off < b.payload_at { "header" } else { "payload" };
	for v in 0..=255u8 {
		if v == b.bytes[off] {
			continue;
		}
		let mut m = b.bytes.clone();
		m[off] = v;
		let bytes: Arc<[u8]> = m.into();
		let desc = || format!("{} ({} bytes) with byte {} set to {:#04x} (was {:#04x})", b.spec.desc(), b.bytes.len(), off, v, b.bytes[off]);
		ctx.evals += 1;
		ctx.count("runs: single-byte corrupted files (each loaded and streamed)", 1);
		ctx.sample(off as u64 * 256 + v as u64, desc);
		let feature = format!("a wav with one corrupted {} byte", region);
		let model = model_parse(&bytes);
		let mut stream_ref: Option<(u32, Vec<Frame>)> = None;
		match &model {
			// still a complete, valid PCM WAV (another rate, length, sample value, ...): the first sentence of the property applies
			Ok(w) if w.complete => {
				let want = if w.ch <= 2 { to_frames(&w.vals, w.ch) } else { vec![] };
				let n = w.vals.len() / w.ch;
				judge_valid(&desc(), &format!("corrupted {} byte", region), &bytes, w.ch, w.rate, &want, n, false, ctx);
				if w.ch <= 2 {
					stream_ref = Some((w.rate, want));
				}
			}
			// data chunk longer than the file (= truncated), or not of the modelled family
			_ => match load_static(&bytes) {
				Loaded::Panic(p) => ctx.fail(format!("panic: {} :: loading {}", p, feature), desc()),
				Loaded::Err(e) => {
					ctx.outcome(hash64(&e));
					ctx.nontrivial_extra += 1;
				}
				Loaded::Ok(d) => {
					ctx.outcome(frames_hash(&d.frames));
					if nonsilent(&d.frames) {
						ctx.nontrivial_extra += 1;
					}
					ctx.count(&format!("corrupted_file_loaded_ok_outside_the_model ({})", model.as_ref().err().copied().unwrap_or("declared data longer than the file")), 1);
					let invented = match &model {
						Ok(w) if w.ch <= 2 => !is_prefix(&d.frames, &to_frames(&w.vals, w.ch)) || d.sample_rate != w.rate,
						// at least one byte per sample: more frames than bytes cannot have been in the file
						_ => d.frames.len() > bytes.len(),
					};
					if invented {
						ctx.fail(
							format!("static: {} loads as audio the file cannot hold", feature),
							format!("{} -> rate {} {} frames {:?}", desc(), d.sample_rate, d.frames.len(), &d.frames[..d.frames.len().min(12)]),
						);
					}
					if let Ok(w) = &model {
						if w.ch <= 2 {
							stream_ref = Some((w.rate, to_frames(&w.vals, w.ch)));
						}
					}
				}
			},
		}
		// streaming the same bytes: never a panic; samples judged only where the reference is exact and finite
		let judged = stream_ref.filter(|(r, f)| exact_dt(*r) && f.iter().all(|f| f.left.abs() < 1e30 && f.right.abs() < 1e30));
		match &judged {
			Some((rate, frames)) => stream_fault(&desc, &feature, &bytes, *rate, Some(frames), ctx),
			None => stream_fault(&desc, &feature, &bytes, 8000, None, ctx),
		}
	}
}

// ---------------------------------------------------------------------------------------------
// case table

enum Case {
	Static(Fmt, u16),
	Stream(Fmt, u16, u32),
	Asset(&'static str),
	Trunc(usize, usize),
	Corrupt(usize, usize),
	/// a generated wav longer than two decoder rings, streamed from start to end in pieces
	LongStream(Fmt, u16),
	Sliced(Fmt, u16),
	/// seeks on a looping stream (targets before, inside, at the end of and beyond the loop region)
	LoopSeek(Fmt, u16),
	/// seek_by while the decoder is a number of frames ahead of what is heard
	SeekBy(Fmt, u16),
	/// callbacks inside the decoder's iterations around the last frame of a short file
	FileEnd(Fmt, u16),
}

fn cases(tier: Tier) -> Vec<Case> {
	let mut v = vec![];
	for f in FMTS {
		for ch in [1u16, 2, 3] {
			v.push(Case::Static(f, ch));
		}
	}
	for f in FMTS {
		for ch in [1u16, 2] {
			for r in tier.pick(vec![8000u32, 44100], vec![1, 8000, 44100, 48000]) {
				v.push(Case::Stream(f, ch, r));
			}
		}
	}
	v.extend(ASSETS.iter().map(|a| Case::Asset(a)));
	v.push(Case::LongStream(Fmt::S16, 2));
	v.push(Case::LongStream(Fmt::F32, 1));
	v.push(Case::Sliced(Fmt::S16, 2));
	v.push(Case::Sliced(Fmt::F32, 1));
	v.push(Case::LoopSeek(Fmt::S16, 2));
	v.push(Case::LoopSeek(Fmt::U8, 1));
	v.push(Case::SeekBy(Fmt::S16, 1));
	v.push(Case::SeekBy(Fmt::F32, 2));
	v.push(Case::FileEnd(Fmt::S16, 2));
	for (i, s) in bases(tier).into_iter().enumerate() {
		let b = base(s);
		v.extend((0..=b.bytes.len() / TRUNC_PART).map(|part| Case::Trunc(i, part)));
		let upto = if tier == Tier::Thorough && b.bytes.len() < 200 { b.bytes.len() } else { b.payload_at };
		v.extend((0..upto).map(|off| Case::Corrupt(i, off)));
	}
	v
}

impl Check for C18 {
	fn id(&self) -> &'static str {
		"C18"
	}
	fn level(&self) -> Level {
		Level::FaultEnumeration
	}
	fn num_cases(&self, tier: Tier) -> u64 {
		cases(tier).len() as u64
	}
	fn describe(&self, tier: Tier, idx: u64) -> String {
		match &cases(tier)[idx as usize] {
			Case::Static(f, ch) => format!("static load of generated wavs {:?} channels={} x lengths {:?} x rates {:?} x layouts {:?}", f, ch, lens(tier), rates(tier), LAYOUTS),
			Case::Stream(f, ch, r) => format!("streaming of generated wavs {:?} channels={} rate={}: every lattice start position x every sequence of <={} seeks", f, ch, r, tier.pick(2, 3)),
			Case::Asset(a) => format!("shipped asset {}: streaming == static on a position lattice (start x <=2 seeks)", a),
			Case::Trunc(i, part) => format!("every truncation length in {}.. (at most {}) of base file {} [{}]", part * TRUNC_PART, TRUNC_PART, i, bases(tier)[*i].desc()),
			Case::Corrupt(i, off) => format!("byte {} of base file {} [{}] set to each of the 255 other values", off, i, bases(tier)[*i].desc()),
			Case::SeekBy(f, ch) => format!("generated wav {:?} channels={} of 6000 frames at 8000 Hz: seek_by(d) for d in a lattice, issued after 100 frames were heard while the decoder is 0 / 64 / 1000 / 3000 frames ahead: after the buffered frames the stream continues at heard position + d", f, ch),
			Case::LoopSeek(f, ch) => format!("generated wav {:?} channels={} of 3000 frames at 8000 Hz streamed with loop region 1500..2200: start x one seek over a lattice of targets (before / inside / at the end of / beyond the region), early (decoder has not reached the loop) and late", f, ch),
			Case::Sliced(f, ch) => format!("generated wav {:?} channels={} of 4000 frames at 8000 Hz, streamed through StreamingSoundData::slice for 5 slices (start inside the first packet / on the packet border / in a later packet / 0) x 4 start positions x {{no seek, 3 seeks}} == the same frames of the loaded file", f, ch),
			Case::FileEnd(f, ch) => format!("generated wav {:?} channels={} of 6 and 7 frames at 8000 Hz streamed in callbacks of 2 frames: the decoder delivers 3..n frames, then is parked at each of its sync points in turn (every pass, until none is left) while 1 or 3 callbacks run: the frames heard are the file's, in order, to the last; and the same file cut after 7.5 frames: whenever the handle shows Stopped the error value is already there", f, ch),
			Case::LongStream(f, ch) => format!("generated wav {:?} channels={} of 40000 frames at 8000 Hz streamed from start to end in pieces of 1000 frames (crosses the 16384-frame decoder ring twice) == loaded", f, ch),
		}
	}
	fn sig_hint(&self, tier: Tier, idx: u64) -> String {
		match &cases(tier)[idx as usize] {
			Case::Static(f, ch) => format!("static load {:?} channels={}", f, ch),
			Case::Stream(f, ch, _) => format!("streaming {:?} channels={}", f, ch),
			Case::Asset(a) => format!("asset {}", a),
			Case::Trunc(i, _) => format!("truncations of base file {} [{}]", i, bases(tier)[*i].desc()),
			Case::Corrupt(i, off) => format!("corruption of byte {} of base file {} [{}]", off, i, bases(tier)[*i].desc()),
			Case::LongStream(f, ch) => format!("long stream {:?} channels={}", f, ch),
			Case::Sliced(f, ch) => format!("sliced stream {:?} channels={}", f, ch),
			Case::LoopSeek(f, ch) => format!("looping stream seeks {:?} channels={}", f, ch),
			Case::SeekBy(f, ch) => format!("seek_by with read-ahead {:?} channels={}", f, ch),
			Case::FileEnd(f, ch) => format!("end of file {:?} channels={}", f, ch),
		}
	}
	fn run_case(&self, tier: Tier, idx: u64, ctx: &mut Ctx) {
		let r = catch(|| match &cases(tier)[idx as usize] {
			Case::Static(f, ch) => static_case(tier, *f, *ch, ctx),
			Case::Stream(f, ch, r) => stream_case(tier, *f, *ch, *r, ctx),
			Case::Asset(a) => asset_case(tier, a, ctx),
			Case::Trunc(i, part) => truncation_case(&base(bases(tier)[*i]), *part, ctx),
			Case::Corrupt(i, off) => corruption_case(&base(bases(tier)[*i]), *off, ctx),
			Case::LongStream(f, ch) => long_stream_case(*f, *ch, ctx),
			Case::Sliced(f, ch) => {
				slice_case(*f, *ch, ctx);
				reslice_case(*f, *ch, ctx);
			}
			Case::LoopSeek(f, ch) => loop_seek_case(*f, *ch, ctx),
			Case::SeekBy(f, ch) => seek_by_case(*f, *ch, ctx),
			Case::FileEnd(f, ch) => {
				file_end_case(*f, *ch, ctx);
				error_visible_case(*f, *ch, ctx);
			}
		});
		if let Err(p) = r {
			ctx.fail(format!("panic: {} :: outside the guarded kira calls (harness)", p), self.describe(tier, idx));
		}
	}
	fn case_timeout_ms(&self, _tier: Tier) -> u64 {
		120_000
	}
	fn track_progress(&self) -> bool {
		true
	}
	fn worker_mem_limit(&self) -> u64 {
		4 << 30
	}
	fn rule(&self) -> String {
		"one evaluation = one decode of one file (static load, or one streaming run = start position + seek sequence); non-trivial = kira returned at least one non-zero sample (loaded or rendered) or, for a faulty file, an error value; all counted evaluations are distinct by construction (enumeration without repetition)".into()
	}
	fn assumptions(&self) -> Vec<String> {
		vec![
			"the reference for generated WAVs is an independent encoder (value level) cross-checked against an independent byte-level RIFF reader; for the shipped Ogg/WAV assets the oracle is differential (streaming vs kira's own static load), no independent Vorbis decoder".into(),
			"streaming runs use the real decoder thread, paced through the verif-hooks gate so that exactly one frame is decoded per rendered frame; the sound is driven through Sound::process at playback rate 1 with dt = 1/file rate (rates where rate*(1/rate) != 1.0 in f64 are not judged sample-wise)".into(),
			"a seek issued after the streamed sound already reached its end is not exercised here (life cycle, C03/C09/C10)".into(),
			"corrupted files that are still valid PCM WAVs of the modelled family (fmt 16/18/extensible, tag 1/3, consistent block align) are judged exactly; other corrupted files by: error, or a prefix of the decodable audio, or at most one frame per byte of the file; never a panic, hang or worker death (4 GiB address-space limit)".into(),
		]
	}
	fn extra_evidence(&self, tier: Tier) -> Vec<(String, J)> {
		let b = bases(tier);
		vec![
			("generated_formats".into(), J::arr_str(FMTS.iter().map(|f| format!("{:?}", f)))),
			("generated_lengths".into(), J::arr_str(lens(tier).iter().map(|n| n.to_string()))),
			("generated_rates".into(), J::arr_str(rates(tier).iter().map(|n| n.to_string()))),
			("layouts".into(), J::arr_str(LAYOUTS.iter().map(|l| format!("{:?}", l)))),
			("assets".into(), J::arr_str(ASSETS.iter().map(|a| a.to_string()))),
			("fault_base_files".into(), J::arr_str(b.iter().map(|s| s.desc()))),
		]
	}
}
