//! C14 — each effect realises its documented transfer behaviour.
//!
//! E1 grid: every public effect builder x a parameter lattice over the documented ranges x sample
//! rates 8 k..192 k x fixed input signals / probe frequencies. Two oracles per lattice point:
//!  (a) an independent reference implementation written from the CITED source (Simper trapezoidal
//!      SVF as in baseplug's svf_simper.rs, Cytomic SvfLinearTrapOptimised2 bell/shelves, Freeverb,
//!      integer delay line with feedback path, musicdsp dB-domain compressor, clip curves, 10^(dB/20)),
//!      same precision regime (f64 coefficients, f32 state), compared sample by sample (<= 1e-5 peak);
//!  (b) facts derived from the statement and judged on kira's output alone: steady-state sine gain
//!      vs the analytic |H| of the cited design (+-0.1 dB) incl. DC and Nyquist (unity pass band,
//!      requested EQ gain at centre / half gain at the shelf corner / full gain on the shelf), echo
//!      times and amplitudes, reverb energy decay, compressor static curve + 1-1/e time constants,
//!      clip curves and small-signal transparency, decibel law, equal-power pan law.

use crate::engine::{hash64, Check, Ctx, Level, Tier};
use crate::json::J;
use crate::rig::catch;
use kira::effect::compressor::CompressorBuilder;
use kira::effect::delay::DelayBuilder;
use kira::effect::distortion::{DistortionBuilder, DistortionKind};
use kira::effect::eq_filter::{EqFilterBuilder, EqFilterKind};
use kira::effect::filter::{FilterBuilder, FilterMode};
use kira::effect::panning_control::PanningControlBuilder;
use kira::effect::reverb::ReverbBuilder;
use kira::effect::volume_control::VolumeControlBuilder;
use kira::effect::{Effect, EffectBuilder};
use kira::info::{Info, MockInfoBuilder};
use kira::{Decibels, Frame, Mix, Panning, Value};
use std::f64::consts::PI;
use std::time::Duration;

pub struct C14;

const IBS: usize = 512;
type S2 = [f32; 2];
/// 0.1 dB as a relative amplitude error, plus an absolute floor of -94 dB (f32 state noise)
const TOL_DB: f64 = 0.011579;
const TOL_ABS: f64 = 2e-5;

// ---------------------------------------------------------------------------------------------
// driver: a kira effect behind its public trait

struct Fx {
	e: Box<dyn Effect>,
	dt: f64,
	info: Info<'static>,
	_handle: Option<Box<dyn std::any::Any>>,
}
thread_local! {
	/// second pass over every case: the effect is built with OTHER parameters and brought to the parameters of the
	/// lattice point through its handle (zero-length tween, one silent frame processed) before the first signal
	static VIA_HANDLE: std::cell::Cell<bool> = const { std::cell::Cell::new(false) };
}
fn via() -> bool {
	VIA_HANDLE.with(|v| v.get())
}
fn via_tag() -> &'static str {
	if via() { " [built with other parameters, then every parameter set through the handle (zero-length tween) and one silent frame processed]" } else { "" }
}
const NOW: kira::Tween = kira::Tween { start_time: kira::StartTime::Immediate, duration: Duration::ZERO, easing: kira::Easing::Linear };
impl Fx {
	fn new<B: EffectBuilder>(b: B, sr: u32) -> Fx {
		let (mut e, _handle) = b.build();
		e.init(sr, IBS);
		Fx { e, dt: 1.0 / sr as f64, info: MockInfoBuilder::new().build(), _handle: None }
	}
	/// `other` is built, then `set` brings it to the wanted parameters through the handle
	fn new_set<B: EffectBuilder>(other: B, sr: u32, set: impl FnOnce(&mut B::Handle)) -> Fx
	where
		B::Handle: 'static,
	{
		let (mut e, mut handle) = other.build();
		e.init(sr, IBS);
		set(&mut handle);
		let mut fx = Fx { e, dt: 1.0 / sr as f64, info: MockInfoBuilder::new().build(), _handle: Some(Box::new(handle)) };
		let mut z = [Frame::ZERO; 1];
		fx.process(&mut z);
		fx
	}
	fn process(&mut self, buf: &mut [Frame]) {
		for c in buf.chunks_mut(IBS) {
			self.e.on_start_processing();
			self.e.process(c, self.dt, &self.info);
		}
	}
	/// the device sample rate changes under the effect
	fn retune(&mut self, sr: u32) {
		self.e.on_change_sample_rate(sr);
		self.dt = 1.0 / sr as f64;
	}
	fn run(&mut self, x: &[S2]) -> Vec<S2> {
		let mut buf: Vec<Frame> = x.iter().map(|s| Frame::new(s[0], s[1])).collect();
		self.process(&mut buf);
		buf.iter().map(|f| [f.left, f.right]).collect()
	}
	/// steady-state gain of both channels for a sinusoid of frequency f (0 = DC, sr/2 = Nyquist allowed):
	/// least-squares fit of a*cos + b*sin to the output after `settle` frames
	fn sine_gain(&mut self, f: f64, sr: f64, settle: usize) -> [f64; 2] {
		const AMP: [f64; 2] = [0.5, -0.25];
		let window = if f > 0.0 { ((sr / f).ceil() as usize).max(128) } else { 128 };
		let total = settle + window;
		let (mut scc, mut sss, mut scs) = (0.0f64, 0.0f64, 0.0f64);
		let mut syc = [0.0f64; 2];
		let mut sys = [0.0f64; 2];
		let mut buf = [Frame::ZERO; IBS];
		let mut n = 0usize;
		while n < total {
			let len = IBS.min(total - n);
			let mut cs = [(0.0f64, 0.0f64); IBS];
			for i in 0..len {
				let ph = 2.0 * PI * (f * (n + i) as f64 / sr).fract();
				cs[i] = (ph.cos(), ph.sin());
				buf[i] = Frame::new((AMP[0] * cs[i].0) as f32, (AMP[1] * cs[i].0) as f32);
			}
			self.process(&mut buf[..len]);
			for i in 0..len {
				if n + i >= settle {
					let (c, s) = cs[i];
					scc += c * c;
					sss += s * s;
					scs += c * s;
					for (ch, y) in [buf[i].left as f64, buf[i].right as f64].into_iter().enumerate() {
						syc[ch] += y * c;
						sys[ch] += y * s;
					}
				}
			}
			n += len;
		}
		let mut g = [0.0; 2];
		for ch in 0..2 {
			let (a, b) = if sss < 1e-9 * scc {
				(syc[ch] / scc, 0.0)
			} else {
				let det = scc * sss - scs * scs;
				((syc[ch] * sss - sys[ch] * scs) / det, (sys[ch] * scc - syc[ch] * scs) / det)
			};
			g[ch] = (a * a + b * b).sqrt() / AMP[ch].abs();
		}
		g
	}
}

// ---------------------------------------------------------------------------------------------
// signals and comparison

fn table() -> [f32; 64] {
	let mut t = [0.0f32; 64];
	let mut s: u32 = 0x1234_5678;
	for v in t.iter_mut() {
		s = s.wrapping_mul(1664525).wrapping_add(1013904223);
		*v = (s >> 8) as f32 / 8388608.0 - 1.0;
	}
	t
}
const SIGNALS: [&str; 3] = ["impulse(1,-0.5)", "step(0.5,0.25)", "noise table (64 fixed values, repeated)"];
fn signal(kind: usize, n: usize) -> Vec<S2> {
	let t = table();
	(0..n)
		.map(|i| match kind {
			0 => {
				if i == 0 {
					[1.0, -0.5]
				} else {
					[0.0, 0.0]
				}
			}
			1 => [0.5, 0.25],
			_ => [t[i % 64], 0.5 * t[(i * 7 + 3) % 64]],
		})
		.collect()
}
fn peak(x: &[S2]) -> f64 {
	x.iter().flat_map(|s| s.iter()).fold(0.0f64, |a, v| a.max(v.abs() as f64))
}
/// first frame where kira and the reference differ by more than 1e-5 of the peak (None = agreement)
fn differs(got: &[S2], want: &[S2], x: &[S2]) -> Option<String> {
	let tol = 1e-5 * peak(want).max(peak(x)).max(1e-30);
	for i in 0..want.len() {
		for ch in 0..2 {
			let d = (got[i][ch] as f64 - want[i][ch] as f64).abs();
			if !(d <= tol) {
				return Some(format!("first at frame {} channel {}: kira {:e}, reference {:e}, tolerance {:e}", i, ch, got[i][ch], want[i][ch], tol));
			}
		}
	}
	None
}
/// measured gain == gain of the cited design within 0.1 dB; a stop band deeper than -60 dB only has to be deeper than -60 dB
/// (notch depth and DC rejection are limited by the f32 coefficients/state that the cited designs use as well)
fn close(got: f64, want: f64) -> bool {
	(got - want).abs() <= TOL_DB * want + TOL_ABS || (want < 1e-3 && got < 1e-3)
}
fn finite(y: &[S2]) -> bool {
	y.iter().all(|s| s[0].is_finite() && s[1].is_finite())
}
fn db(x: f64) -> f64 {
	20.0 * x.log10()
}
fn mixf(wet: f32, dry: f32, mix: f32) -> f32 {
	wet * mix.sqrt() + dry * (1.0 - mix).sqrt()
}
/// documented decibel law: 10^(dB/20), -60 dB or lower is silence
fn amp(dbv: f32) -> f32 {
	if dbv <= -60.0 {
		0.0
	} else {
		10.0f32.powf(dbv / 20.0)
	}
}
/// evidence bookkeeping for one run of an effect
fn note(ctx: &mut Ctx, x: &[S2], y: &[S2]) {
	ctx.evals += 1;
	if y.iter().any(|s| s[0] != 0.0 || s[1] != 0.0) && x != y {
		ctx.nontrivial_extra += 1;
	}
	let bits: Vec<u32> = y.iter().take(256).flat_map(|s| [s[0].to_bits(), s[1].to_bits()]).collect();
	ctx.outcome(hash64(&bits));
}

// ---------------------------------------------------------------------------------------------
// reference: Simper trapezoidal SVF core (shared by the filter and the EQ), f64 coefficients -> f32 state

#[derive(Clone, Copy)]
struct Svf {
	a1: f32,
	a2: f32,
	a3: f32,
	ic1: S2,
	ic2: S2,
}
impl Svf {
	fn new(g: f64, k: f64) -> Svf {
		let a1 = 1.0 / (1.0 + g * (g + k));
		let a2 = g * a1;
		let a3 = g * a2;
		Svf { a1: a1 as f32, a2: a2 as f32, a3: a3 as f32, ic1: [0.0; 2], ic2: [0.0; 2] }
	}
	/// returns (v1 = band, v2 = low) for one channel
	fn tick(&mut self, ch: usize, v0: f32) -> (f32, f32) {
		let v3 = v0 - self.ic2[ch];
		let v1 = self.a1 * self.ic1[ch] + self.a2 * v3;
		let v2 = self.ic2[ch] + self.a2 * self.ic1[ch] + self.a3 * v3;
		self.ic1[ch] = 2.0 * v1 - self.ic1[ch];
		self.ic2[ch] = 2.0 * v2 - self.ic2[ch];
		(v1, v2)
	}
}
/// out = m0*v0 + m1*v1 + m2*v2 (the general form of the Cytomic paper); the plain filter modes are special cases
#[derive(Clone, Copy)]
struct Sos {
	g: f64,
	k: f64,
	m: [f64; 3],
	mix: f32,
}
impl Sos {
	fn run(&self, x: &[S2]) -> Vec<S2> {
		let mut f = Svf::new(self.g, self.k);
		let m = [self.m[0] as f32, self.m[1] as f32, self.m[2] as f32];
		x.iter()
			.map(|s| {
				let mut o = [0.0f32; 2];
				for ch in 0..2 {
					let (v1, v2) = f.tick(ch, s[ch]);
					// m0 == 1 and m2 == -1 etc. are exact in f32, so this also is `v0 - k*v1 - v2`
					let wet = if m[0] == 0.0 { 0.0 } else { s[ch] * m[0] } + v1 * m[1] + v2 * m[2];
					o[ch] = mixf(wet, s[ch], self.mix);
				}
				o
			})
			.collect()
	}
	/// |H| at tan(pi f / sr) = wt (bilinear transform of the analogue prototype, incl. the dry leg)
	fn h(&self, wt: f64) -> f64 {
		let w = wt / self.g;
		// D = 1 - w^2 + j k w ; N = m0 D + m1 j w + m2
		let (dr, di) = (1.0 - w * w, self.k * w);
		let (nr, ni) = (self.m[0] * dr + self.m[2], self.m[0] * di + self.m[1] * w);
		let d2 = dr * dr + di * di;
		let (hr, hi) = ((nr * dr + ni * di) / d2, (ni * dr - nr * di) / d2);
		let (sm, sd) = ((self.mix as f64).sqrt(), (1.0 - self.mix as f64).sqrt());
		let (tr, ti) = (sm * hr + sd, sm * hi);
		(tr * tr + ti * ti).sqrt()
	}
	/// frames until the transient has decayed by 1e-7 (slowest pole of the discretised prototype)
	fn settle(&self) -> usize {
		let (g, k) = (self.g, self.k);
		let r2 = if k >= 2.0 {
			// both real poles: z = (1 + g s)/(1 - g s) is close to the unit circle for |g s| << 1 and for |g s| >> 1
			let z = |s: f64| ((1.0 + g * s) / (1.0 - g * s)).powi(2);
			z((-k + (k * k - 4.0).sqrt()) / 2.0).max(z((-k - (k * k - 4.0).sqrt()) / 2.0))
		} else {
			let (re, im2) = (-k / 2.0 * g, g * g * (1.0 - k * k / 4.0));
			((1.0 + re).powi(2) + im2) / ((1.0 - re).powi(2) + im2)
		};
		let n = (1e-14f64).ln() / r2.min(0.999_999_999).ln();
		(n.ceil() as usize).clamp(64, 3_000_000)
	}
}

/// common judgement of a second-order section: sample-by-sample vs reference, sine gains vs |H|, stated laws
struct SosCase<'a> {
	eff: &'a str,
	feature: String,
	detail: String,
	sr: u32,
	sos: Sos,
	/// the same design at sample_rate/10000, when the requested corner lies below that
	clamped: Option<Sos>,
	probes: Vec<f64>,
	/// (frequency, expected linear gain, name) facts stated by the property, judged without the reference
	laws: Vec<(f64, f64, &'static str)>,
}
fn check_sos(c: &SosCase, mk: &dyn Fn(u32) -> Fx, ctx: &mut Ctx) {
	let srf = c.sr as f64;
	if let Some(alt) = &c.clamped {
		// one root cause, one signature: kira silently moves a corner below sample_rate/10000 up to sample_rate/10000
		let x = signal(2, 2048);
		let y = mk(c.sr).run(&x);
		note(ctx, &x, &y);
		if differs(&y, &c.sos.run(&x), &x).is_some() && differs(&y, &alt.run(&x), &x).is_none() {
			ctx.fail(
				format!("{}: corner is at sample_rate/10000 instead of the requested frequency :: requested frequency below sample_rate/10000", c.eff),
				format!("{}: the output equals the cited design tuned to {} Hz, not to the requested frequency", c.detail, srf * 1e-4),
			);
			return;
		}
	}
	for (si, name) in SIGNALS.iter().enumerate() {
		let x = signal(si, 2048);
		let y = mk(c.sr).run(&x);
		note(ctx, &x, &y);
		if !finite(&y) {
			ctx.fail(format!("{}: output not finite :: {}", c.eff, c.feature), format!("{} input={}", c.detail, name));
			return;
		}
		if let Some(d) = differs(&y, &c.sos.run(&x), &x) {
			ctx.fail(
				format!("{}: output differs from the cited SVF design, sample by sample :: {}", c.eff, c.feature),
				format!("{} input={} 2048 frames; {}", c.detail, name, d),
			);
			break;
		}
	}
	if c.sos.mix == 0.0 {
		return;
	}
	let settle = c.sos.settle();
	let mut measured: Vec<(f64, [f64; 2])> = vec![];
	for &f in &c.probes {
		let g = mk(c.sr).sine_gain(f, srf, settle);
		ctx.evals += 1;
		ctx.nontrivial_extra += 1;
		ctx.outcome(hash64(&((db(g[0].max(1e-9)) * 10.0).round() as i64, (f / srf * 1e4) as i64)));
		let want = c.sos.h((PI * f / srf).tan());
		for ch in 0..2 {
			if !close(g[ch], want) {
				ctx.fail(
					format!("{}: steady-state sine gain differs from |H| of the cited design by more than 0.1 dB :: {}", c.eff, c.feature),
					format!("{} probe={} Hz channel {}: measured {:.3} dB, cited design {:.3} dB (settle {} frames)", c.detail, f, ch, db(g[ch]), db(want), settle),
				);
				break;
			}
		}
		measured.push((f, g));
	}
	// "at any sample rate": the same effect instance after the device rate changed under it (it ran at another rate
	// first, then on_change_sample_rate) has the response of the design at the new rate
	for &prev in &[c.sr / 2 + 1000, c.sr * 2] {
		for &f in &c.probes {
			let mut fx = mk(prev);
			let _ = fx.run(&signal(2, 96));
			fx.retune(c.sr);
			let g = fx.sine_gain(f, srf, settle);
			ctx.evals += 1;
			ctx.nontrivial_extra += 1;
			let want = c.sos.h((PI * f / srf).tan());
			for ch in 0..2 {
				if !close(g[ch], want) {
					ctx.fail(
						format!("{}: after a sample-rate change the steady-state sine gain differs from |H| of the cited design at the new rate by more than 0.1 dB :: {}", c.eff, c.feature),
						format!("{} (first run at {} Hz, then changed) probe={} Hz channel {}: measured {:.3} dB, cited design {:.3} dB", c.detail, prev, f, ch, db(g[ch]), db(want)),
					);
					break;
				}
			}
		}
	}
	for &(f, want, name) in &c.laws {
		let Some((_, g)) = measured.iter().find(|(pf, _)| *pf == f) else { continue };
		for ch in 0..2 {
			if !close(g[ch], want) {
				ctx.fail(
					format!("{}: {} :: {}", c.eff, name, c.feature),
					format!("{} probe={} Hz channel {}: measured {:.3} dB, stated {:.3} dB", c.detail, f, ch, db(g[ch]), db(want)),
				);
				break;
			}
		}
	}
}

const SRS_Q: [u32; 4] = [8000, 44100, 48000, 192000];
const SRS_T: [u32; 6] = [8000, 22050, 44100, 48000, 96000, 192000];
fn srs(tier: Tier) -> &'static [u32] {
	tier.pick(&SRS_Q[..], &SRS_T[..])
}
fn centre_freqs(tier: Tier, sr: u32) -> Vec<f64> {
	let s = sr as f64;
	// (0.497 sr: a corner just below Nyquist is still a corner of its own)
	let mut v = vec![10.0, 100.0, 1000.0, 3000.0, 0.25 * s, 0.45 * s, 0.497 * s];
	if tier == Tier::Thorough {
		v.extend([20.0, 300.0, 0.49 * s]);
	}
	v
}
/// DC, {10, 100, 1k, fc/2, fc, 2fc, 0.45 sr} below Nyquist, Nyquist
fn probes(fc: f64, sr: u32) -> Vec<f64> {
	let s = sr as f64;
	let mut v = vec![0.0];
	for f in [10.0, 100.0, 1000.0, fc / 2.0, fc, 2.0 * fc, 0.45 * s] {
		if f < 0.5 * s && !v.contains(&f) {
			v.push(f);
		}
	}
	v.push(0.5 * s);
	v
}

const MODES: [FilterMode; 4] = [FilterMode::LowPass, FilterMode::BandPass, FilterMode::HighPass, FilterMode::Notch];
fn run_filter(tier: Tier, mode: FilterMode, sr: u32, ctx: &mut Ctx) {
	let resonances: &[f64] = tier.pick(&[0.0, 0.5, 1.0], &[0.0, 0.25, 0.5, 0.75, 1.0]);
	let mixes: &[f32] = tier.pick(&[0.0, 0.5, 1.0], &[0.0, 0.25, 0.5, 1.0]);
	for fc in centre_freqs(tier, sr) {
		for &res in resonances {
			for &mix in mixes {
				// baseplug svf_simper.rs: g = tan(pi fc/fs), k = 2 - 1.9 res; low = v2, band = v1, high = v0 - k v1 - v2, notch = v0 - k v1
				let k = 2.0 - 1.9 * res;
				let m = match mode {
					FilterMode::LowPass => [0.0, 0.0, 1.0],
					FilterMode::BandPass => [0.0, 1.0, 0.0],
					FilterMode::HighPass => [1.0, -(k as f32 as f64), -1.0],
					FilterMode::Notch => [1.0, -(k as f32 as f64), 0.0],
				};
				let sos = Sos { g: (PI * fc / sr as f64).tan(), k, m, mix };
				let low = fc / (sr as f64) < 1e-4;
				let clamp = if low { " cutoff below sample_rate/10000" } else { "" };
				let c = SosCase {
					eff: "filter",
					feature: format!("mode={:?}{}", mode, clamp),
					detail: format!("FilterBuilder mode={:?} cutoff={} Hz resonance={} mix={} sample_rate={}{}", mode, fc, res, mix, sr, via_tag()),
					sr,
					sos,
					clamped: low.then(|| Sos { g: (PI * 1e-4).tan(), ..sos }),
					probes: probes(fc, sr),
					laws: match mode {
						FilterMode::LowPass if mix == 1.0 => vec![(0.0, 1.0, "pass band is not unity (DC)")],
						FilterMode::HighPass if mix == 1.0 => vec![(0.5 * sr as f64, 1.0, "pass band is not unity (Nyquist)")],
						FilterMode::Notch if mix == 1.0 => vec![(0.0, 1.0, "pass band is not unity (DC)"), (0.5 * sr as f64, 1.0, "pass band is not unity (Nyquist)")],
						_ => vec![],
					},
				};
				let mk = |r: u32| {
					if via() {
						let other = MODES[(MODES.iter().position(|m| *m == mode).unwrap() + 1) % MODES.len()];
						Fx::new_set(FilterBuilder::new().mode(other).cutoff(1234.0).resonance(0.3).mix(Mix(0.3)), r, |h| {
							h.set_mode(mode);
							h.set_cutoff(fc, NOW);
							h.set_resonance(res, NOW);
							h.set_mix(Mix(mix), NOW);
						})
					} else {
						Fx::new(FilterBuilder::new().mode(mode).cutoff(fc).resonance(res).mix(Mix(mix)), r)
					}
				};
				if let Err(p) = catch(|| check_sos(&c, &mk, ctx)) {
					ctx.fail(format!("panic: {} :: filter {}", p, c.feature), c.detail.clone());
				}
			}
		}
	}
}

const KINDS: [EqFilterKind; 3] = [EqFilterKind::Bell, EqFilterKind::LowShelf, EqFilterKind::HighShelf];
fn eq_qs(tier: Tier) -> &'static [f64] {
	tier.pick(&[0.5, 0.7071, 4.0], &[0.3, 0.5, 0.7071, 1.0, 4.0, 10.0])
}
fn run_eq(tier: Tier, kind: EqFilterKind, sr: u32, q: f64, ctx: &mut Ctx) {
	let gains: &[f32] = tier.pick(&[-12.0, -3.0, 0.0, 6.0, 12.0], &[-24.0, -12.0, -3.0, 0.0, 3.0, 6.0, 12.0, 24.0]);
	for fc in centre_freqs(tier, sr) {
		for &gain in gains {
			{
				// Cytomic SvfLinearTrapOptimised2, "bell", "low shelf", "high shelf"
				let a = 10.0f64.powf(gain as f64 / 40.0);
				let design = |rel: f64| {
					let t = (PI * rel).tan();
					let (g, k, m) = match kind {
						EqFilterKind::Bell => (t, 1.0 / (q * a), [1.0, (1.0 / (q * a)) * (a * a - 1.0), 0.0]),
						EqFilterKind::LowShelf => (t / a.sqrt(), 1.0 / q, [1.0, (1.0 / q) * (a - 1.0), a * a - 1.0]),
						EqFilterKind::HighShelf => (t * a.sqrt(), 1.0 / q, [a * a, (1.0 / q) * (1.0 - a) * a, 1.0 - a * a]),
					};
					Sos { g, k, m, mix: 1.0 }
				};
				let ny = 0.5 * sr as f64;
				let full = a * a;
				let low = fc / (sr as f64) < 1e-4;
				let clamp = if low { " frequency below sample_rate/10000" } else { "" };
				let c = SosCase {
					eff: "eq",
					feature: format!("kind={:?}{}", kind, clamp),
					detail: format!("EqFilterBuilder kind={:?} frequency={} Hz gain={} dB q={} sample_rate={}{}", kind, fc, gain, q, sr, via_tag()),
					sr,
					sos: design(fc / sr as f64),
					clamped: low.then(|| design(1e-4)),
					probes: probes(fc, sr),
					laws: match kind {
						EqFilterKind::Bell => vec![
							(fc, full, "gain at the centre frequency is not the requested gain"),
							(0.0, 1.0, "pass band is not unity (DC)"),
							(ny, 1.0, "pass band is not unity (Nyquist)"),
						],
						EqFilterKind::LowShelf => vec![
							(fc, a, "gain at the requested corner is not half the shelf gain (corner misplaced)"),
							(0.0, full, "gain on the shelf (DC) is not the requested gain"),
							(ny, 1.0, "pass band is not unity (Nyquist)"),
						],
						EqFilterKind::HighShelf => vec![
							(fc, a, "gain at the requested corner is not half the shelf gain (corner misplaced)"),
							(ny, full, "gain on the shelf (Nyquist) is not the requested gain"),
							(0.0, 1.0, "pass band is not unity (DC)"),
						],
					},
				};
				let mk = |r: u32| {
					if via() {
						let other = KINDS[(KINDS.iter().position(|k| *k == kind).unwrap() + 1) % KINDS.len()];
						Fx::new_set(EqFilterBuilder::new(other, 1234.0, Decibels(4.5), 1.3), r, |h| {
							h.set_kind(kind);
							h.set_frequency(fc, NOW);
							h.set_gain(Decibels(gain), NOW);
							h.set_q(q, NOW);
						})
					} else {
						Fx::new(EqFilterBuilder::new(kind, fc, Decibels(gain), q), r)
					}
				};
				if let Err(p) = catch(|| check_sos(&c, &mk, ctx)) {
					ctx.fail(format!("panic: {} :: eq {}", p, c.feature), c.detail.clone());
				}
			}
		}
	}
}

// ---------------------------------------------------------------------------------------------
// delay: integer delay line with feedback path and feedback effects

const DELAY_FX: [&str; 4] = ["none", "VolumeControl(-3 dB)", "Filter(LowPass, 0.1*sample_rate)", "Distortion(HardClip, +12 dB)"];
fn ref_delay(x: &[S2], d: usize, fb: f32, mix: f32, fxk: usize) -> Vec<S2> {
	let mut line = vec![[0.0f32; 2]; d];
	let mut pos = 0;
	let mut lp = Svf::new((PI * 0.1).tan(), 2.0);
	x.iter()
		.map(|s| {
			let mut o = [0.0f32; 2];
			for ch in 0..2 {
				let mut r = line[pos][ch];
				match fxk {
					1 => r *= amp(-3.0),
					2 => r = lp.tick(ch, r).1,
					// a nonlinear effect in the loop: the order "effects, then feedback gain" is observable
					3 => {
						let d = 10.0f32.powf(12.0 / 20.0);
						r = (r * d).clamp(-1.0, 1.0) / d;
					}
					_ => {}
				}
				r *= fb;
				line[pos][ch] = s[ch] + r;
				o[ch] = mixf(r, s[ch], mix);
			}
			pos = (pos + 1) % d;
			o
		})
		.collect()
}
/// the same delay hosted on a SEND track whose only source stops feeding it (its track is paused / removed): the echoes
/// go on exactly as the reference delay line prescribes
fn run_hosted_send(sr: u32, ctx: &mut Ctx) {
	use crate::rig;
	use kira::sound::{Sound, SoundData};
	use kira::track::{MainTrackBuilder, SendTrackBuilder, TrackBuilder};
	struct Imp(bool);
	impl Sound for Imp {
		fn process(&mut self, out: &mut [Frame], _dt: f64, _info: &Info) {
			out.fill(Frame::ZERO);
			if !self.0 {
				self.0 = true;
				out[0] = Frame::new(0.5, -0.25);
			}
		}
		fn finished(&self) -> bool {
			false
		}
	}
	struct ImpData;
	impl SoundData for ImpData {
		type Error = ();
		type Handle = ();
		fn into_sound(self) -> Result<(Box<dyn Sound>, ()), ()> {
			Ok((Box::new(Imp(false)), ()))
		}
	}
	const N: usize = 128;
	let d = 100usize;
	for fb_db in [-6.0f32, -1.0] {
		for how in 0..3 {
			ctx.evals += 1;
			let detail = format!(
				"send track with DelayBuilder delay_time={} frames feedback={} dB mix=1 at {} Hz; a sub-track routed to it (0 dB) plays one impulse frame (0.5, -0.25); after the first callback of {} frames {}; 8 callbacks",
				d,
				fb_db,
				sr,
				N,
				["the sub-track is paused (instant)", "the sub-track's handle is dropped (the track is removed)", "nothing happens (control)"][how]
			);
			let r = catch(|| -> Result<Vec<S2>, String> {
				let mut m = rig::manager(sr, 64, rig::caps(4), MainTrackBuilder::new());
				let send = m
					.add_send_track(SendTrackBuilder::new().with_effect(DelayBuilder::new().delay_time(Duration::from_secs_f64(d as f64 / sr as f64)).feedback(Decibels(fb_db)).mix(Mix::WET)))
					.map_err(|_| "send track")?;
				let mut t = Some(m.add_sub_track(TrackBuilder::new().with_send(send.id(), Decibels::IDENTITY)).map_err(|_| "sub-track")?);
				t.as_mut().unwrap().play(ImpData).map_err(|_| "play")?;
				let mut out: Vec<(f32, f32)> = vec![];
				for cb in 0..8 {
					if cb == 1 {
						match how {
							0 => t.as_mut().unwrap().pause(NOW),
							1 => t = None,
							_ => {}
						}
					}
					let rep = rig::render_stereo(&mut m, N, &mut out);
					if let Some(p) = rep.panic {
						return Err(p);
					}
				}
				drop((t, send));
				Ok(out.iter().map(|f| [f.0, f.1]).collect())
			})
			.and_then(|r| r);
			let y = match r {
				Ok(y) => y,
				Err(p) => {
					ctx.fail(format!("panic: {} :: delay on a send track", p), detail);
					continue;
				}
			};
			let mut x = vec![[0.0f32; 2]; y.len()];
			x[0] = [0.5, -0.25];
			note(ctx, &x, &y);
			let wet = ref_delay(&x, d, amp(fb_db), 1.0, 0);
			let want: Vec<S2> = (0..x.len()).map(|i| [x[i][0] + wet[i][0], x[i][1] + wet[i][1]]).collect();
			if let Some(df) = differs(&y, &want, &x) {
				ctx.fail(
					"delay: output differs from the reference delay line with feedback path :: hosted on a send track whose source stops feeding it".to_string(),
					format!("{}; {}", detail, df),
				);
			}
		}
	}
}

/// a delay on a main / sub / nested / nested-under-spatial track of a manager whose device rate changes before the
/// impulse: the echoes come after delay_time seconds at the rate in force
fn run_hosted_rate_change(ctx: &mut Ctx, pre: bool) {
	use crate::rig;
	use kira::sound::{Sound, SoundData};
	use kira::track::{MainTrackBuilder, SpatialTrackBuilder, TrackBuilder};
	use std::sync::atomic::{AtomicBool, Ordering};
	use std::sync::Arc;
	struct Imp(Arc<AtomicBool>);
	impl Sound for Imp {
		fn process(&mut self, out: &mut [Frame], _dt: f64, _info: &Info) {
			out.fill(Frame::ZERO);
			if self.0.swap(false, Ordering::SeqCst) {
				out[0] = Frame::new(0.5, -0.25);
			}
		}
		fn finished(&self) -> bool {
			false
		}
	}
	struct ImpData(Arc<AtomicBool>);
	impl SoundData for ImpData {
		type Error = ();
		type Handle = ();
		fn into_sound(self) -> Result<(Box<dyn Sound>, ()), ()> {
			Ok((Box::new(Imp(self.0)), ()))
		}
	}
	const N: usize = 64;
	let us = 2500u64;
	for (r1, r2) in [(48000u32, 96000u32), (96000, 44100), (8000, 48000)] {
		for host in 0..5 {
			ctx.evals += 1;
			let d = ((us as f64 * 1e-6 * r2 as f64).round() as usize).max(1);
			let detail = format!(
				"DelayBuilder delay_time={} us feedback=-6 dB mix=1 on {}; manager started at {} Hz, {}2 callbacks, on_change_sample_rate({}), 1 callback, {}; expected echoes every {} frames",
				us,
				["the main track", "a sub-track", "a nested sub-track (depth 2)", "a nested sub-track (depth 3)", "a plain track nested under a spatial track"][host],
				r1,
				if pre { "an impulse (0.5, -0.25) at the start of " } else { "" },
				r2,
				if pre { "no further input" } else { "then an impulse (0.5, -0.25)" },
				d
			);
			let r = catch(|| -> Result<Vec<S2>, String> {
				let fx = || DelayBuilder::new().delay_time(Duration::from_micros(us)).feedback(Decibels(-6.0)).mix(Mix::WET);
				let main = if host == 0 { MainTrackBuilder::new().with_effect(fx()) } else { MainTrackBuilder::new() };
				let mut m = rig::manager(r1, 32, rig::caps(4), main);
				let fire = Arc::new(AtomicBool::new(false));
				let mut keep: Vec<Box<dyn std::any::Any>> = vec![];
				let lim = |_| "resource limit".to_string();
				match host {
					0 => {
						m.play(ImpData(fire.clone())).map_err(|_| "play")?;
					}
					1 => {
						let mut t = m.add_sub_track(TrackBuilder::new().with_effect(fx())).map_err(lim)?;
						t.play(ImpData(fire.clone())).map_err(|_| "play")?;
						keep.push(Box::new(t));
					}
					2 | 3 => {
						let mut p = m.add_sub_track(TrackBuilder::new()).map_err(lim)?;
						let mut q = if host == 3 { Some(p.add_sub_track(TrackBuilder::new()).map_err(lim)?) } else { None };
						let mut t = match q.as_mut() {
							Some(q) => q.add_sub_track(TrackBuilder::new().with_effect(fx())).map_err(lim)?,
							None => p.add_sub_track(TrackBuilder::new().with_effect(fx())).map_err(lim)?,
						};
						t.play(ImpData(fire.clone())).map_err(|_| "play")?;
						keep.push(Box::new(t));
						keep.push(Box::new(q));
						keep.push(Box::new(p));
					}
					_ => {
						let l = m.add_listener(glam::Vec3::ZERO, glam::Quat::IDENTITY).map_err(lim)?;
						let mut p = m.add_spatial_sub_track(&l, glam::Vec3::new(0.0, 0.0, -1.0), SpatialTrackBuilder::new().attenuation_function(None).spatialization_strength(0.0)).map_err(lim)?;
						let mut t = p.add_sub_track(TrackBuilder::new().with_effect(fx())).map_err(lim)?;
						t.play(ImpData(fire.clone())).map_err(|_| "play")?;
						keep.push(Box::new(t));
						keep.push(Box::new(p));
						keep.push(Box::new(l));
					}
				}
				let mut sink = vec![];
				fire.store(pre, Ordering::SeqCst);
				for _ in 0..2 {
					rig::render_stereo(&mut m, N, &mut sink);
				}
				m.backend_mut().renderer.as_mut().unwrap().on_change_sample_rate(r2);
				if !pre {
					rig::render_stereo(&mut m, N, &mut sink);
				}
				fire.store(!pre, Ordering::SeqCst);
				let mut out: Vec<(f32, f32)> = vec![];
				let total = (4 * d + 2 * N).max(8 * N);
				while out.len() < total {
					let rep = rig::render_stereo(&mut m, N, &mut out);
					if let Some(p) = rep.panic {
						return Err(p);
					}
				}
				drop(keep);
				Ok(out.iter().map(|f| [f.0, f.1]).collect())
			})
			.and_then(|r| r);
			let y = match r {
				Ok(y) => y,
				Err(p) => {
					ctx.fail(format!("panic: {} :: delay on a hosted track across a rate change", p), detail);
					continue;
				}
			};
			if pre {
				// the impulse entered 2*N frames (at the old rate) before the change: whatever comes out afterwards is an echo, so it sits at a whole
				// multiple of the delay time after the impulse (to within a frame of either rate), and echo k is no louder than the feedback gain allows
				let t0 = 2.0 * N as f64 / r1 as f64;
				let tol = 1.5 / r1.min(r2) as f64;
				let dsec = us as f64 * 1e-6;
				ctx.nontrivial_extra += 1;
				for (j, f) in y.iter().enumerate() {
					if f[0].abs() < 1e-6 && f[1].abs() < 1e-6 {
						continue;
					}
					let t = t0 + j as f64 / r2 as f64;
					let k = (t / dsec).round();
					if (t - k * dsec).abs() > tol || k < 1.0 || (f[0].abs() as f64) > 0.5 * 0.5012f64.powf(k - 1.0) * 1.001 {
						ctx.fail(
							format!("delay: audio that was in the line when the device rate changed comes back at a time that is no multiple of the delay time (or louder than its echo number allows) :: hosted on {}", ["the main track", "a sub-track", "a nested track", "a nested track", "a track nested under a spatial track"][host]),
							format!("{}; frame {} after the change = {:.4} ms after the impulse: ({:e}, {:e})", detail, j, t * 1e3, f[0], f[1]),
						);
						break;
					}
				}
				continue;
			}
			let mut x = vec![[0.0f32; 2]; y.len()];
			x[0] = [0.5, -0.25];
			note(ctx, &x, &y);
			let want = ref_delay(&x, d, amp(-6.0), 1.0, 0);
			if let Some(df) = differs(&y, &want, &x) {
				ctx.fail(
					format!("delay: output differs from the reference delay line with feedback path :: hosted on {} across a device rate change", ["the main track", "a sub-track", "a nested track", "a nested track", "a track nested under a spatial track"][host]),
					format!("{}; {}", detail, df),
				);
			}
		}
	}
}

fn run_delay(tier: Tier, sr: u32, ctx: &mut Ctx) {
	if sr == 48000 && !via() {
		run_hosted_send(sr, ctx);
		run_hosted_rate_change(ctx, false);
		run_hosted_rate_change(ctx, true);
	}
	let times_us: &[u64] = tier.pick(&[10, 1000, 2500, 9000], &[10, 1000, 2500, 9000, 22_675, 100_000, 250_250]);
	for &us in times_us {
		for fb_db in [-60.0f32, -12.0, -6.0, 0.0] {
			for mix in [0.0f32, 0.5, 1.0] {
				for fxk in 0..DELAY_FX.len() {
					let detail = format!("DelayBuilder delay_time={} us feedback={} dB mix={} feedback_effect={} sample_rate={}{}", us, fb_db, mix, DELAY_FX[fxk], sr, via_tag());
					let product = us as u128 * 1000 * sr as u128;
					// delay_time * sample_rate rounded to the nearest whole frame, at least one frame (exact integer arithmetic)
					let d_exact = (((product + 500_000_000) / 1_000_000_000) as usize).max(1);
					let mk = || {
						let b = DelayBuilder::new().delay_time(Duration::from_micros(us));
						let b = if via() { b.feedback(Decibels(-20.0)).mix(Mix(0.3)) } else { b.feedback(Decibels(fb_db)).mix(Mix(mix)) };
						let b = match fxk {
							1 => b.with_feedback_effect(VolumeControlBuilder::new(Decibels(-3.0))),
							2 => b.with_feedback_effect(FilterBuilder::new().cutoff(0.1 * sr as f64)),
							3 => b.with_feedback_effect(DistortionBuilder::new().kind(DistortionKind::HardClip).drive(Decibels(12.0))),
							_ => b,
						};
						if via() {
							Fx::new_set(b, sr, |h| {
								h.set_feedback(Decibels(fb_db), NOW);
								h.set_mix(Mix(mix), NOW);
							})
						} else {
							Fx::new(b, sr)
						}
					};
					let r = catch(|| {
						let fb = amp(fb_db);
						let n = (5 * d_exact + 16).max(2048);
						// impulse: the echo times and amplitudes, judged on kira's output alone
						let x = signal(0, n);
						let y = mk().run(&x);
						note(ctx, &x, &y);
						if d_exact == 0 {
							return; // no frame to delay by: only "does not panic" can be asked
						}
						let mut d = d_exact;
						if mix > 0.0 && fb > 0.0 {
							let first = (1..n).find(|&i| y[i][0].abs() > 1e-9).unwrap_or(0);
							if first != d_exact {
								let why = if product % 1_000_000_000 == 0 { "delay_time*sample_rate is an integer (float rounding)" } else if product < 1_000_000_000 { "delay shorter than one frame" } else { "fractional delay_time*sample_rate" };
								ctx.fail(
									format!("delay: first echo is not delay_time*sample_rate (to the nearest frame) after the input :: {}", why),
									format!("{}; impulse at frame 0, first echo at frame {}, delay_time*sample_rate = {}", detail, first, product as f64 / 1e9),
								);
								if first == 0 {
									return;
								}
								d = first;
							}
						}
						if fxk == 0 {
							for i in 0..n {
								let kth = if i % d == 0 { (i / d) as i32 } else { -1 };
								let wet = if kth >= 1 { (fb as f64).powi(kth) } else { 0.0 };
								for ch in 0..2 {
									let want = wet * x[0][ch] as f64 * (mix as f64).sqrt() + x[i][ch] as f64 * (1.0 - mix as f64).sqrt();
									if !((y[i][ch] as f64 - want).abs() <= 1e-5) {
										ctx.fail(
											"delay: echoes are not at exact multiples of the delay with amplitude feedback^k",
											format!("{}; impulse {:?} at frame 0; frame {} (= {} x {} + {}) channel {}: kira {:e}, expected {:e}", detail, x[0], i, i / d, d, i % d, ch, y[i][ch], want),
										);
										return;
									}
								}
							}
						}
						// any signal: reference delay line (with the feedback effects in the loop)
						for si in [0, 2] {
							let x = signal(si, n);
							let y = if si == 0 { y.clone() } else { mk().run(&x) };
							if si != 0 {
								note(ctx, &x, &y);
							}
							if let Some(df) = differs(&y, &ref_delay(&x, d, fb, mix, fxk), &x) {
								ctx.fail(
									format!("delay: output differs from the reference delay line with feedback path :: feedback_effect={}", DELAY_FX[fxk].split('(').next().unwrap()),
									format!("{} input={} {} frames; {}", detail, SIGNALS[si], n, df),
								);
								break;
							}
						}
					});
					if let Err(p) = r {
						let feat = if d_exact == 0 { "delay_time shorter than one frame" } else { "delay_time of at least one frame" };
						ctx.fail(format!("panic: {} :: delay {}", p, feat), detail);
					}
				}
			}
		}
	}
}

// ---------------------------------------------------------------------------------------------
// reverb: Freeverb (Jezar at Dreampoint), tunings scaled by sample_rate/44100

const COMB_TUNING: [usize; 8] = [1116, 1188, 1277, 1356, 1422, 1491, 1557, 1617];
const ALLPASS_TUNING: [usize; 4] = [556, 441, 341, 225];
struct Ring {
	buf: Vec<f32>,
	i: usize,
	store: f32,
}
impl Ring {
	fn new(tuning: usize, sr: u32) -> Ring {
		Ring { buf: vec![0.0; (tuning as u64 * sr as u64 / 44100) as usize], i: 0, store: 0.0 }
	}
	fn comb(&mut self, input: f32, feedback: f32, damp1: f32) -> f32 {
		let out = self.buf[self.i];
		self.store = out * (1.0 - damp1) + self.store * damp1;
		self.buf[self.i] = input + self.store * feedback;
		self.i = (self.i + 1) % self.buf.len();
		out
	}
	fn allpass(&mut self, input: f32) -> f32 {
		let bufout = self.buf[self.i];
		self.buf[self.i] = input + bufout * 0.5;
		self.i = (self.i + 1) % self.buf.len();
		-input + bufout
	}
}
fn ref_reverb(x: &[S2], sr: u32, feedback: f32, damping: f32, width: f32, mix: f32) -> Vec<S2> {
	let mut combs: Vec<[Ring; 2]> = COMB_TUNING.iter().map(|&t| [Ring::new(t, sr), Ring::new(t + 23, sr)]).collect();
	let mut aps: Vec<[Ring; 2]> = ALLPASS_TUNING.iter().map(|&t| [Ring::new(t, sr), Ring::new(t + 23, sr)]).collect();
	let (wet1, wet2) = (width / 2.0 + 0.5, (1.0 - width) / 2.0);
	x.iter()
		.map(|s| {
			let input = (s[0] + s[1]) * 0.015;
			let mut out = [0.0f32; 2];
			for c in combs.iter_mut() {
				for ch in 0..2 {
					out[ch] += c[ch].comb(input, feedback, damping);
				}
			}
			for a in aps.iter_mut() {
				for ch in 0..2 {
					out[ch] = a[ch].allpass(out[ch]);
				}
			}
			[mixf(out[0] * wet1 + out[1] * wet2, s[0], mix), mixf(out[1] * wet1 + out[0] * wet2, s[1], mix)]
		})
		.collect()
}
const REVERB_FB: [f64; 5] = [0.0, 0.5, 0.9, 0.98, 1.0];
fn run_reverb(tier: Tier, sr: u32, feedback: f64, ctx: &mut Ctx) {
	let longest = ((1617 + 23) as u64 * sr as u64 / 44100) as usize;
	let dampings: &[f64] = tier.pick(&[0.0, 0.1, 0.5, 1.0], &[0.0, 0.1, 0.25, 0.5, 0.9, 1.0]);
	let widths: &[f64] = tier.pick(&[0.0, 0.5, 1.0], &[0.0, 0.25, 0.5, 0.75, 1.0]);
	for &damping in dampings {
		for &width in widths {
			for mix in [0.5f32, 1.0] {
				let detail = format!("ReverbBuilder feedback={} damping={} stereo_width={} mix={} sample_rate={}{}", feedback, damping, width, mix, sr, via_tag());
				let mk = || {
					if via() {
						Fx::new_set(ReverbBuilder::new().feedback(0.3).damping(0.7).stereo_width(0.3).mix(Mix(0.3)), sr, |h| {
							h.set_feedback(feedback, NOW);
							h.set_damping(damping, NOW);
							h.set_stereo_width(width, NOW);
							h.set_mix(Mix(mix), NOW);
						})
					} else {
						Fx::new(ReverbBuilder::new().feedback(feedback).damping(damping).stereo_width(width).mix(Mix(mix)), sr)
					}
				};
				let r = catch(|| {
					const NWIN: usize = 8;
					let win = 2 * longest;
					for si in [0, 2] {
						let n = if si == 0 && mix == 1.0 { NWIN * win } else { 2 * win };
						let mut x = signal(si, n);
						if si == 2 {
							// a burst followed by silence, different on both channels
							for (i, s) in x.iter_mut().enumerate() {
								if i >= win / 2 {
									*s = [0.0, 0.0];
								}
							}
						}
						let y = mk().run(&x);
						note(ctx, &x, &y);
						if mix == 1.0 && width == 0.0 && y.iter().any(|s| (s[0] - s[1]).abs() > 1e-6) {
							ctx.fail("reverb: stereo_width 0 is not fully mono (left != right)", format!("{} input={}", detail, SIGNALS[si]));
						}
						// the same 2^-12 times quieter: the network is linear, the reference scales exactly (tolerance relative to the quiet input)
						if si == 2 {
							let xq: Vec<S2> = x.iter().map(|s| [s[0] / 4096.0, s[1] / 4096.0]).collect();
							let yq = mk().run(&xq);
							note(ctx, &xq, &yq);
							if let Some(df) = differs(&yq, &ref_reverb(&xq, sr, feedback as f32, damping as f32, width as f32, mix), &xq) {
								ctx.fail(
									"reverb: output differs from the Freeverb network for a quiet input (-72 dB re the loud one), sample by sample",
									format!("{} input={} / 4096, {} frames; {}", detail, SIGNALS[si], n, df),
								);
								return;
							}
						}
						// "at any sample rate": an instance that ran at another rate first and was then told the rate of this case
						// (kira rebuilds the network, cleared) is the network of this rate
						if si == 2 && !via() {
							for prev in [48000u32, 44100, 22050] {
								if prev == sr {
									continue;
								}
								let mut fx = Fx::new(ReverbBuilder::new().feedback(feedback).damping(damping).stereo_width(width).mix(Mix(mix)), prev);
								let _ = fx.run(&signal(2, 300));
								fx.retune(sr);
								let yr = fx.run(&x);
								if let Some(df) = differs(&yr, &ref_reverb(&x, sr, feedback as f32, damping as f32, width as f32, mix), &x) {
									ctx.fail(
										"reverb: after a sample-rate change the output differs from the Freeverb network of the new rate, sample by sample".to_string(),
										format!("{} (first 300 frames at {} Hz, then on_change_sample_rate({})) input={} {} frames; {}", detail, prev, sr, SIGNALS[si], n, df),
									);
									return;
								}
							}
						}
						if let Some(df) = differs(&y, &ref_reverb(&x, sr, feedback as f32, damping as f32, width as f32, mix), &x) {
							let which = if width == 1.0 { "stereo_width=1" } else { "stereo_width<1" };
							ctx.fail(
								format!("reverb: output differs from the Freeverb network, sample by sample :: {}", which),
								format!("{} input={} {} frames; {}", detail, SIGNALS[si], n, df),
							);
							return;
						}
						if si == 0 && mix == 1.0 && feedback < 1.0 {
							// energy per window of two periods of the longest comb: theory says x feedback^4 per window in the long run
							// (beating between the combs makes single windows fluctuate); demanded: the second half of the
							// response carries at most feedback^2 of the energy of the first half, and the last window less than the second
							let e: Vec<f64> = (0..NWIN).map(|w| y[w * win..(w + 1) * win].iter().map(|s| (s[0] as f64).powi(2) + (s[1] as f64).powi(2)).sum()).collect();
							let rho = feedback.max(0.5).powi(2);
							let (h1, h2): (f64, f64) = (e[..NWIN / 2].iter().sum(), e[NWIN / 2..].iter().sum());
							if !(h2 <= rho * h1 && (e[NWIN - 1] < e[1] || e[1] < 1e-24)) {
								ctx.fail(
									"reverb: impulse response energy does not decay for feedback < 1",
									format!("{}; energy per window of {} frames: {:?}; second half / first half = {:e}, demanded <= {}", detail, win, e, h2 / h1, rho),
								);
							}
						}
					}
				});
				if let Err(p) = r {
					ctx.fail(format!("panic: {} :: reverb", p), detail);
				}
			}
		}
	}
}

// ---------------------------------------------------------------------------------------------
// compressor: musicdsp "simple compressor" in the dB domain, envelope = in + exp(-dt/tau) (env - in)

struct Comp {
	threshold: f64,
	ratio: f64,
	attack: f64,
	release: f64,
	makeup: f32,
	mix: f32,
}
fn ref_comp(x: &[S2], sr: u32, c: &Comp) -> Vec<S2> {
	let dt = 1.0 / sr as f64;
	let coef = [(-dt / c.attack).exp() as f32, (-dt / c.release).exp() as f32];
	let mut env = [0.0f32; 2];
	x.iter()
		.map(|s| {
			let mut o = [0.0f32; 2];
			for ch in 0..2 {
				let over = (20.0 * s[ch].abs().log10() - c.threshold as f32).max(0.0);
				let k = if over >= env[ch] { coef[0] } else { coef[1] };
				env[ch] = over + k * (env[ch] - over);
				let gr = env[ch] * (1.0 / c.ratio as f32 - 1.0);
				let wet = 10.0f32.powf(gr / 20.0) * s[ch] * 10.0f32.powf(c.makeup / 20.0);
				o[ch] = mixf(wet, s[ch], c.mix);
			}
			o
		})
		.collect()
}
/// more than 60 dB of gain reduction, and a makeup gain below -60 dB: 10^(dB/20) has no floor
fn run_comp_deep(sr: u32, ctx: &mut Ctx) {
	for (threshold, ratio, makeup) in [(-70.0f64, 20.0f64, 0.0f32), (-70.0, 100.0, 40.0), (-20.0, 4.0, -70.0), (-80.0, 100.0, 0.0)] {
		let c = Comp { threshold, ratio, attack: 0.002, release: 0.01, makeup, mix: 1.0 };
		let cfg = format!("CompressorBuilder threshold={} dB ratio={} attack=0.002 s release=0.01 s makeup_gain={} dB mix=1 sample_rate={}{}", threshold, ratio, makeup, sr, via_tag());
		let r = catch(|| {
			let mk = || {
				if via() {
					return Fx::new_set(CompressorBuilder::new().threshold(-13.0).ratio(3.0).makeup_gain(Decibels(1.5)).mix(Mix(0.3)), sr, |h| {
						h.set_threshold(threshold, NOW);
						h.set_ratio(ratio, NOW);
						h.set_attack_duration(Duration::from_millis(2), NOW);
						h.set_release_duration(Duration::from_millis(10), NOW);
						h.set_makeup_gain(Decibels(makeup), NOW);
						h.set_mix(Mix(1.0), NOW);
					});
				}
				Fx::new(CompressorBuilder::new().threshold(threshold).ratio(ratio).attack_duration(Duration::from_millis(2)).release_duration(Duration::from_millis(10)).makeup_gain(Decibels(makeup)).mix(Mix(1.0)), sr)
			};
			// full-scale square wave, the same magnitude on both channels
			let n = (sr as usize / 10).max(2048);
			let x: Vec<S2> = (0..n).map(|i| if (i / 24) % 2 == 0 { [1.0, -1.0] } else { [-1.0, 1.0] }).collect();
			let y = mk().run(&x);
			note(ctx, &x, &y);
			let want = ref_comp(&x, sr, &c);
			// relative to what the reference itself puts out at the end (the signal is 60..70 dB down)
			let level = want[n - 1][0].abs() as f64;
			if let Some(i) = (0..n).find(|&i| (0..2).any(|ch| !(((y[i][ch] - want[i][ch]).abs() as f64) <= 1e-5 + 0.01 * level.max(want[i][ch].abs() as f64)))) {
				ctx.fail(
					"compressor: output differs from the reference (dB-domain gain computer, 10^(dB/20) without a floor) :: more than 60 dB of gain change".to_string(),
					format!("{}; full-scale square wave, frame {}: kira {:?}, reference {:?} (reference level at the end {:e})", cfg, i, y[i], want[i], level),
				);
			}
		});
		if let Err(p) = r {
			ctx.fail(format!("panic: {} :: compressor, deep gain change", p), cfg);
		}
	}
}
fn run_comp(tier: Tier, sr: u32, threshold: f64, ctx: &mut Ctx) {
	if threshold == THRESHOLDS[0] {
		run_comp_deep(sr, ctx);
	}
	let ratios: &[f64] = tier.pick(&[0.5, 1.0, 2.0, 4.0, 100.0], &[0.5, 1.0, 1.5, 2.0, 4.0, 10.0, 100.0]);
	// (incl. time constants that are no whole number of milliseconds, and one below a millisecond)
	let attacks: &[f64] = tier.pick(&[0.001, 0.01, 0.0004, 0.00275], &[0.001, 0.01, 0.05, 0.0004, 0.00275]);
	let releases: &[f64] = tier.pick(&[0.01, 0.1, 0.0125], &[0.005, 0.01, 0.1, 0.0125, 0.0007]);
	let overs: &[f64] = tier.pick(&[6.0, 20.0], &[1.0, 6.0, 20.0, 40.0]);
	let srf = sr as f64;
	for &ratio in ratios {
		for &attack in attacks {
			for &release in releases {
				for makeup in [0.0f32, 6.0] {
					for mix in [1.0f32, 0.5] {
						let c = Comp { threshold, ratio, attack, release, makeup, mix };
						let cfg = format!("CompressorBuilder threshold={} dB ratio={} attack={} s release={} s makeup_gain={} dB mix={} sample_rate={}{}", threshold, ratio, attack, release, makeup, mix, sr, via_tag());
						let mk = || {
							if via() {
								return Fx::new_set(
									CompressorBuilder::new().threshold(-13.0).ratio(3.0).attack_duration(Duration::from_millis(3)).release_duration(Duration::from_millis(30)).makeup_gain(Decibels(1.5)).mix(Mix(0.3)),
									sr,
									|h| {
										h.set_threshold(threshold, NOW);
										h.set_ratio(ratio, NOW);
										h.set_attack_duration(Duration::from_secs_f64(attack), NOW);
										h.set_release_duration(Duration::from_secs_f64(release), NOW);
										h.set_makeup_gain(Decibels(makeup), NOW);
										h.set_mix(Mix(mix), NOW);
									},
								);
							}
							Fx::new(
								CompressorBuilder::new()
									.threshold(threshold)
									.ratio(ratio)
									.attack_duration(Duration::from_secs_f64(attack))
									.release_duration(Duration::from_secs_f64(release))
									.makeup_gain(Decibels(makeup))
									.mix(Mix(mix)),
								sr,
							)
						};
						let r = catch(|| {
							// (1) any signal with equal magnitude on both channels (valid for linked and unlinked detectors): reference
							let t = table();
							let n = 4096;
							let top = 10.0f64.powf((threshold + 12.0) / 20.0) as f32;
							let x: Vec<S2> = (0..n)
								.map(|i| {
									let v = t[i % 64] * top * if (i / 300) % 2 == 0 { 1.0 } else { 0.05 };
									[v, -v]
								})
								.collect();
							let y = mk().run(&x);
							note(ctx, &x, &y);
							if let Some(df) = differs(&y, &ref_comp(&x, sr, &c), &x) {
								ctx.fail(
									"compressor: output differs from the reference dB-domain compressor, sample by sample",
									format!("{} input=noise table x {} with bursts of 300 frames (right = -left), {} frames; {}", cfg, top, n, df),
								);
							}
							// (1b) the same with gaps of exact digital silence (a sound ended, another begins): the envelope keeps
							// following its release time constant through the gap
							let x: Vec<S2> = (0..n)
								.map(|i| {
									let v = match (i / 300) % 3 {
										0 => t[i % 64] * top,
										1 => 0.0,
										_ => t[i % 64] * top * 0.05,
									};
									[v, -v]
								})
								.collect();
							let y = mk().run(&x);
							note(ctx, &x, &y);
							if let Some(df) = differs(&y, &ref_comp(&x, sr, &c), &x) {
								ctx.fail(
									"compressor: output differs from the reference dB-domain compressor on a signal with gaps of exact silence",
									format!("{} input=noise table x {} / 300 frames of 0.0 / noise x 0.05 (right = -left), {} frames; {}", cfg, top, n, df),
								);
							}
							if mix != 1.0 {
								return;
							}
							// (2) stated laws on a quiet / loud / quiet constant-magnitude signal (left +, right -)
							for &over in overs {
								let (n0, na, nr) = (64usize, ((10.0 * attack * srf).ceil() as usize).max(64), ((10.0 * release * srf).ceil() as usize).max(64));
								let lvl = |d: f64| 10.0f64.powf((threshold + d) / 20.0) as f32;
								let (quiet, loud) = (lvl(-10.0), lvl(over));
								let x: Vec<S2> = (0..n0 + na + nr)
									.map(|i| {
										let v = if i >= n0 && i < n0 + na { loud } else { quiet };
										if i % 2 == 0 || over > 6.0 {
											[v, -v]
										} else {
											[-v, v]
										}
									})
									.collect();
								let y = mk().run(&x);
								note(ctx, &x, &y);
								let detail = format!("{}; input magnitude: {} frames at {} dB, {} frames at {} dB, {} frames at {} dB", cfg, n0, threshold - 10.0, na, threshold + over, nr, threshold - 10.0);
								if !finite(&y) {
									ctx.fail("compressor: output not finite", detail);
									return;
								}
								// reduction in dB (makeup removed) at a frame
								let red = |i: usize, ch: usize| -(db((y[i][ch] as f64 / x[i][ch] as f64).abs()) - makeup as f64);
								let stat = over * (1.0 - 1.0 / ratio);
								let (ia, ir) = ((attack * srf).round() as usize, (release * srf).round() as usize);
								let tol_t = |frames: usize| 0.37 * 1.5 / frames as f64 + 2e-3;
								for ch in 0..2 {
									let mut bad: Option<(&str, String)> = None;
									if let Some(i) = (0..n0).find(|&i| red(i, ch).abs() > 1e-4 || (y[i][ch] > 0.0) != (x[i][ch] > 0.0)) {
										bad = Some(("a signal below the threshold is changed", format!("frame {}: reduction {:.5} dB", i, red(i, ch))));
									} else if (red(n0 + na - 1, ch) - stat).abs() > 0.1 {
										bad = Some(("static gain reduction is not (level - threshold) x (1 - 1/ratio) dB", format!("after {} frames above threshold: reduction {:.3} dB, stated {:.3} dB", na, red(n0 + na - 1, ch), stat)));
									} else if stat != 0.0 && (red(n0 + ia - 1, ch) / stat - (1.0 - (-1.0f64).exp())).abs() > tol_t(ia) {
										bad = Some(("attack does not reach 1-1/e of the final reduction after the attack duration", format!("{} frames after the step: {:.4} of the final reduction (expected 0.6321 +- {:.4})", ia, red(n0 + ia - 1, ch) / stat, tol_t(ia))));
									} else if stat != 0.0 && (red(n0 + na + ir - 1, ch) / red(n0 + na - 1, ch) - (-1.0f64).exp()).abs() > tol_t(ir) {
										bad = Some(("release does not fall to 1/e of the reduction after the release duration", format!("{} frames after the drop: {:.4} of the reduction (expected 0.3679 +- {:.4})", ir, red(n0 + na + ir - 1, ch) / red(n0 + na - 1, ch), tol_t(ir))));
									} else if red(n0 + na + nr - 1, ch).abs() > 0.05 {
										bad = Some(("reduction does not return to 0 dB below the threshold", format!("{} frames after the drop: {:.4} dB", nr, red(n0 + na + nr - 1, ch))));
									}
									if let Some((sig, what)) = bad {
										ctx.fail(format!("compressor: {} :: ratio{}1", sig, if ratio > 1.0 { ">" } else if ratio < 1.0 { "<" } else { "=" }), format!("{} channel {}: {}", detail, ch, what));
										return;
									}
								}
							}
						});
						if let Err(p) = r {
							ctx.fail(format!("panic: {} :: compressor", p), cfg);
						}
					}
				}
			}
		}
	}
}

// ---------------------------------------------------------------------------------------------
// per-frame effects: distortion, volume control, panning control

const LEVELS: [f32; 12] = [0.0, 1e-4, 1e-3, 0.01, 0.1, 0.25, 0.5, 0.9, 1.0, 1.5, 4.0, 30.0];
fn level_frames() -> Vec<S2> {
	let mut v = vec![];
	for (i, &a) in LEVELS.iter().enumerate() {
		let b = LEVELS[(i + 5) % LEVELS.len()];
		v.extend([[a, -b], [-a, b]]);
	}
	v
}
fn run_distortion(tier: Tier, ctx: &mut Ctx) {
	let drives: &[f32] = tier.pick(&[-60.0, -30.0, -6.0, 0.0, 6.0, 24.0, 40.0], &[-60.0, -59.0, -30.0, -12.0, -6.0, -1.0, 0.0, 1.0, 6.0, 12.0, 24.0, 40.0, 60.0]);
	let x = level_frames();
	for kind in [DistortionKind::HardClip, DistortionKind::SoftClip] {
		for &drive in drives {
			for mix in [0.0f32, 0.25, 0.5, 1.0] {
				let detail = format!("DistortionBuilder kind={:?} drive={} dB mix={}{}; input frames {:?}", kind, drive, mix, via_tag(), x);
				let r = catch(|| {
					let mut fx = if via() {
						let other = if kind == DistortionKind::HardClip { DistortionKind::SoftClip } else { DistortionKind::HardClip };
						Fx::new_set(DistortionBuilder::new().kind(other).drive(Decibels(3.5)).mix(Mix(0.3)), 48000, |h| {
							h.set_kind(kind);
							h.set_drive(Decibels(drive), NOW);
							h.set_mix(Mix(mix), NOW);
						})
					} else {
						Fx::new(DistortionBuilder::new().kind(kind).drive(Decibels(drive)).mix(Mix(mix)), 48000)
					};
					let y = fx.run(&x);
					note(ctx, &x, &y);
					if !finite(&y) {
						ctx.fail(format!("distortion: output not finite :: drive{}-60dB", if drive <= -60.0 { "<=" } else { ">" }), detail.clone());
						return;
					}
					let d = 10.0f64.powf(drive as f64 / 20.0);
					for i in 0..x.len() {
						for ch in 0..2 {
							let v = x[i][ch] as f64;
							let u = v * d;
							// kira's decibel law makes -60 dB and below an amplitude of exactly 0; the clip curve
							// normalised by drive then has the unchanged signal as its limit
							let wet = if drive <= -60.0 {
								v
							} else {
								match kind {
									DistortionKind::HardClip => u.clamp(-1.0, 1.0) / d,
									DistortionKind::SoftClip => u / (1.0 + u.abs()) / d,
								}
							};
							let want = wet * (mix as f64).sqrt() + v * (1.0 - mix as f64).sqrt();
							let got = y[i][ch] as f64;
							if (got - want).abs() > 2e-6 * want.abs().max(v.abs()) {
								ctx.fail(
									format!("distortion: output is not the clip curve normalised by drive :: kind={:?}", kind),
									format!("{}; input {:e}: kira {:e}, expected {:e}", detail, v, got, want),
								);
								return;
							}
							if mix == 1.0 && u.abs() <= 1e-3 && (got - v).abs() > 1.001e-3 * v.abs() {
								ctx.fail(format!("distortion: not transparent for a small signal :: kind={:?}", kind), format!("{}; input {:e}: kira {:e}", detail, v, got));
								return;
							}
						}
					}
				});
				if let Err(p) = r {
					ctx.fail(format!("panic: {} :: distortion kind={:?}", p, kind), detail);
				}
			}
		}
	}
}
fn run_gain(tier: Tier, ctx: &mut Ctx) {
	let x = level_frames();
	let dbs: &[f32] = tier.pick(&[-100.0, -60.0, -59.9, -40.0, -6.0, -0.1, 0.0, 6.0, 20.0], &[-100.0, -60.0, -59.9, -40.0, -20.0, -12.0, -6.0, -3.0, -0.1, 0.0, 0.1, 3.0, 6.0, 12.0, 20.0, 40.0]);
	for &v in dbs {
		let detail = format!("VolumeControlBuilder({} dB){}; input frames {:?}", v, via_tag(), x);
		let r = catch(|| {
			let mut fx = if via() { Fx::new_set(VolumeControlBuilder::new(Decibels(-7.5)), 48000, |h| h.set_volume(Decibels(v), NOW)) } else { Fx::new(VolumeControlBuilder::new(Decibels(v)), 48000) };
			let y = fx.run(&x);
			note(ctx, &x, &y);
			let a = if v <= -60.0 { 0.0 } else { 10.0f64.powf(v as f64 / 20.0) };
			for i in 0..x.len() {
				for ch in 0..2 {
					let want = x[i][ch] as f64 * a;
					if !((y[i][ch] as f64 - want).abs() <= 2e-6 * want.abs()) {
						ctx.fail(
							format!("volume control: output is not input x 10^(dB/20) :: {}", if v <= -60.0 { "<= -60 dB (documented silence)" } else { "> -60 dB" }),
							format!("{}; input {:e}: kira {:e}, expected {:e}", detail, x[i][ch], y[i][ch], want),
						);
						return;
					}
				}
			}
		});
		if let Err(p) = r {
			ctx.fail(format!("panic: {} :: volume control", p), detail);
		}
	}
	// a fade: the handle's set_volume with a linear tween moves the gain linearly in decibels, chunk by chunk, frame by frame
	for &(from, to) in &[(-24.0f32, 0.0f32), (0.0, -24.0), (-12.0, 6.0), (6.0, 0.0)] {
		for &ms in &[10u64, 3, 40] {
			ctx.evals += 1;
			let detail = format!("VolumeControlBuilder({} dB), set_volume({} dB, linear tween of {} ms) before the first block; 48000 Hz, blocks of {} frames, constant input 0.5", from, to, ms, IBS);
			let r = catch(|| {
				let (mut e, mut h) = VolumeControlBuilder::new(Decibels(from)).build();
				e.init(48000, IBS);
				let info = MockInfoBuilder::new().build();
				let dt = 1.0 / 48000.0;
				h.set_volume(Decibels(to), kira::Tween { start_time: kira::StartTime::Immediate, duration: Duration::from_millis(ms), easing: kira::Easing::Linear });
				let dur = ms as f64 / 1000.0;
				let nblocks = (dur * 48000.0 / IBS as f64).ceil() as usize + 3;
				let (mut prev_db, mut t) = (from as f64, 0.0f64);
				for b in 0..nblocks {
					let mut buf = [Frame::new(0.5, 0.5); IBS];
					e.on_start_processing();
					e.process(&mut buf, dt, &info);
					t += IBS as f64 * dt;
					let cur_db = from as f64 + (to as f64 - from as f64) * (t / dur).min(1.0);
					for (i, f) in buf.iter().enumerate() {
						let db = prev_db + (cur_db - prev_db) * (i + 1) as f64 / IBS as f64;
						let want = 0.5 * 10f64.powf(db / 20.0);
						if (f.left as f64 - want).abs() > 2e-5 * want + 1e-7 {
							ctx.fail(
								"volume control: a fade does not move the gain linearly in decibels from the previous block's value to this block's",
								format!("{}; block {} frame {}: output {:e}, expected {:e} ({:.3} dB)", detail, b, i, f.left, want, db),
							);
							return;
						}
					}
					prev_db = cur_db;
				}
				ctx.nontrivial_extra += 1;
			});
			if let Err(p) = r {
				ctx.fail(format!("panic: {} :: volume control fade", p), detail);
			}
		}
	}
	// a panning sweep: equal power holds at every frame of every block while the panning moves, not only at rest
	for &(from, to) in &[(-1.0f32, 1.0f32), (1.0, -1.0), (0.0, 1.0), (-0.5, 0.25)] {
		for &ms in &[10u64, 3, 40] {
			ctx.evals += 1;
			let detail = format!("PanningControlBuilder(Panning({})), set_panning({}, linear tween of {} ms) before the first block; 48000 Hz, blocks of {} frames, constant input (0.5, 0.5)", from, to, ms, IBS);
			let r = catch(|| {
				let (mut e, mut h) = PanningControlBuilder(Value::Fixed(Panning(from))).build();
				e.init(48000, IBS);
				let info = MockInfoBuilder::new().build();
				let dt = 1.0 / 48000.0;
				h.set_panning(Panning(to), kira::Tween { start_time: kira::StartTime::Immediate, duration: Duration::from_millis(ms), easing: kira::Easing::Linear });
				let dur = ms as f64 / 1000.0;
				let nblocks = (dur * 48000.0 / IBS as f64).ceil() as usize + 3;
				let mut prev_r = f64::NAN;
				let mut moved = false;
				for b in 0..nblocks {
					let mut buf = [Frame::new(0.5, 0.5); IBS];
					e.on_start_processing();
					e.process(&mut buf, dt, &info);
					for (i, f) in buf.iter().enumerate() {
						let (l, rr) = (f.left as f64 / 0.5, f.right as f64 / 0.5);
						if (l * l + rr * rr - 2.0).abs() > 1e-5 {
							ctx.fail(
								"panning control: equal-power law violated during a sweep: left^2 + right^2 gain is not constant (2 = unity at the centre)",
								format!("{}; block {} frame {}: gains left {} right {} (sum of squares {})", detail, b, i, l, rr, l * l + rr * rr),
							);
							return;
						}
						if !prev_r.is_nan() && ((to > from && rr < prev_r - 1e-6) || (to < from && rr > prev_r + 1e-6)) {
							ctx.fail(
								"panning control: the right gain does not move monotonically during a one-way sweep",
								format!("{}; block {} frame {}: right gain {} after {}", detail, b, i, rr, prev_r),
							);
							return;
						}
						moved |= !prev_r.is_nan() && rr != prev_r;
						prev_r = rr;
					}
				}
				let want = Frame::new(1.0, 1.0).panned(Panning(to));
				if (prev_r - want.right as f64).abs() > 1e-6 {
					ctx.fail("panning control: a sweep does not end at the requested panning", format!("{}: final right gain {}, expected {}", detail, prev_r, want.right));
					return;
				}
				ctx.nontrivial_extra += moved as u64;
			});
			if let Err(p) = r {
				ctx.fail(format!("panic: {} :: panning control sweep", p), detail);
			}
		}
	}
	// equal-power pan law, stated without a formula: constant power, hard ends, unity centre, mirror symmetry, monotone
	let steps: i32 = tier.pick(8, 64);
	let gains = |p: f32| -> Result<[f64; 2], String> {
		catch(|| {
			let xin = [[0.5f32, 0.25f32]];
			let mut fx = if via() { Fx::new_set(PanningControlBuilder(Value::Fixed(Panning(0.3))), 48000, |h| h.set_panning(Panning(p), NOW)) } else { Fx::new(PanningControlBuilder(Value::Fixed(Panning(p))), 48000) };
			let y = fx.run(&xin);
			[y[0][0] as f64 / 0.5, y[0][1] as f64 / 0.25]
		})
	};
	let mut prev: Option<[f64; 2]> = None;
	for i in -steps..=steps {
		let p = i as f32 / steps as f32;
		let detail = format!("PanningControlBuilder(Panning({})), input frame (0.5, 0.25)", p);
		ctx.evals += 1;
		match (gains(p), gains(-p)) {
			(Ok(g), Ok(m)) => {
				ctx.nontrivial_extra += (i != 0) as u64;
				ctx.outcome(hash64(&[g[0].to_bits(), g[1].to_bits()]));
				let law = if (g[0] * g[0] + g[1] * g[1] - 2.0).abs() > 1e-5 {
					Some("left^2 + right^2 gain is not constant (2 = unity at the centre)")
				} else if (i == -steps && g[1] != 0.0) || (i == steps && g[0] != 0.0) {
					Some("hard panning leaves signal in the opposite channel")
				} else if i == 0 && g != [1.0, 1.0] {
					Some("centre panning changes the signal")
				} else if (g[0] - m[1]).abs() > 1e-6 || (g[1] - m[0]).abs() > 1e-6 {
					Some("left gain at p is not the right gain at -p")
				} else if prev.map_or(false, |q| g[0] > q[0] || g[1] < q[1]) {
					Some("gains are not monotone in the panning")
				} else {
					None
				};
				if let Some(l) = law {
					ctx.fail(format!("panning control: equal-power law violated: {}", l), format!("{}: gains left {} right {}", detail, g[0], g[1]));
				}
				prev = Some(g);
			}
			(Err(p), _) | (_, Err(p)) => ctx.fail(format!("panic: {} :: panning control", p), detail),
		}
	}
}

// ---------------------------------------------------------------------------------------------
// case table

#[derive(Clone, Copy, Debug)]
enum Case {
	Filter(FilterMode, u32),
	Eq(EqFilterKind, u32, f64),
	Delay(u32),
	Reverb(u32, f64),
	Comp(u32, f64),
	Distortion,
	Gain,
}
const THRESHOLDS: [f64; 3] = [-40.0, -20.0, -6.0];
fn cases(tier: Tier) -> Vec<Case> {
	// family by family, high rates (the long runs) first, so that `idx % 16` spreads cases of similar cost over the workers
	let mut v = vec![];
	let rates: Vec<u32> = srs(tier).iter().rev().copied().collect();
	for &sr in &rates {
		for &k in &KINDS {
			v.extend(eq_qs(tier).iter().map(|&q| Case::Eq(k, sr, q)));
		}
	}
	for &sr in &rates {
		v.extend(THRESHOLDS.iter().map(|&t| Case::Comp(sr, t)));
	}
	v.extend(rates.iter().map(|&sr| Case::Delay(sr)));
	for &sr in &rates {
		v.extend(MODES.iter().map(|&m| Case::Filter(m, sr)));
	}
	for &sr in &rates {
		v.extend(REVERB_FB.iter().map(|&f| Case::Reverb(sr, f)));
	}
	v.push(Case::Distortion);
	v.push(Case::Gain);
	v
}

impl Check for C14 {
	fn id(&self) -> &'static str {
		"C14"
	}
	fn level(&self) -> Level {
		Level::Exploration
	}
	fn num_cases(&self, tier: Tier) -> u64 {
		cases(tier).len() as u64
	}
	fn describe(&self, tier: Tier, idx: u64) -> String {
		match cases(tier)[idx as usize] {
			Case::Filter(m, sr) => format!("filter mode={:?} sample_rate={}: cutoff {:?} x resonance x mix x (3 signals vs reference + sine probes DC, 10, 100, 1k, fc/2, fc, 2fc, 0.45sr, Nyquist)", m, sr, centre_freqs(tier, sr)),
			Case::Eq(k, sr, q) => format!("eq kind={:?} sample_rate={} q={}: frequency {:?} x gain x (3 signals vs reference + sine probes + centre/corner/shelf laws)", k, sr, q, centre_freqs(tier, sr)),
			Case::Delay(sr) => format!("delay sample_rate={}: delay_time x feedback {{-60,-12,-6,0}} dB x mix {{0,0.5,1}} x feedback effect {:?} x (impulse law + 2 signals vs reference)", sr, DELAY_FX),
			Case::Reverb(sr, f) => format!("reverb sample_rate={} feedback={}: damping x stereo_width x mix {{0.5,1}} x (impulse, burst vs Freeverb reference; energy decay)", sr, f),
			Case::Comp(sr, t) => format!("compressor sample_rate={} threshold={} dB: ratio x attack x release x makeup {{0,6}} x mix {{1,0.5}} x (burst noise vs reference; quiet/loud/quiet laws at several levels)", sr, t),
			Case::Distortion => "distortion: kind x drive x mix x 24 input frames".into(),
			Case::Gain => "volume control: dB lattice x 24 input frames; panning control: panning lattice".into(),
		}
	}
	fn sig_hint(&self, tier: Tier, idx: u64) -> String {
		format!("{:?}", cases(tier)[idx as usize])
	}
	fn rule(&self) -> String {
		"full product per effect: filter 4 modes x cutoff {10,100,1k,3k,0.25sr,0.45sr (+20,300,0.49sr)} x resonance {0,0.5,1 (+0.25,0.75)} x mix {0,0.5,1 (+0.25)}; eq 3 kinds x same frequencies x gain {-12,-3,0,6,12 (+-24,3)} dB x q {0.5,0.7071,4 (+0.3,1,10)}; delay time {10us,1ms,2.5ms,9ms (+22.675ms,100ms,250.25ms)} x feedback {-60,-12,-6,0} dB x mix {0,0.5,1} x feedback effect {none, volume, low-pass}; reverb feedback {0,0.5,0.9,0.98,1} x damping {0,0.1,0.5,1 (+0.25,0.9)} x width {0,0.5,1 (+0.25,0.75)} x mix {0.5,1}; compressor threshold {-40,-20,-6} x ratio {0.5,1,2,4,100 (+1.5,10)} x attack {1,10 (+50)} ms x release {10,100 (+5)} ms x makeup {0,6} x mix {1,0.5} x level over threshold {6,20 (+1,40)} dB; distortion 2 kinds x drive {-60..40 (60)} dB x mix {0,0.25,0.5,1}; volume dB lattice; pan lattice; all x sample rate {8000,44100,48000,192000 (+22050,96000)} where the effect depends on it (parenthesised values: thorough only). Every second-order section is run on 3 signals of 2048 frames against the reference and probed with sines at DC, 10, 100, 1k, fc/2, fc, 2fc, 0.45sr, Nyquist after the transient has decayed by 1e-7. evaluation = one run of a freshly built kira effect over one signal / probe; non-trivial = the output is not silent and not bit-identical to the input (every sine probe counts); outcome = distinct output bit patterns (first 256 frames) / distinct measured gains in 0.1 dB steps".into()
	}
	fn assumptions(&self) -> Vec<String> {
		vec![
			"parameters are fixed values (tweened parameters belong to C06/C13); every lattice point is reached twice: through the builder, and through the handle's setters of an effect built with other parameters".into(),
			"sample-by-sample tolerance 1e-5 of the peak; sine gain tolerance 0.1 dB plus an absolute floor of 2e-5 (-94 dB) for f32 state noise".into(),
			"compressor signals have the same magnitude on both channels, so that linked and unlinked level detectors are both accepted".into(),
			"the pan law is judged by constant power, hard ends, unity centre, mirror symmetry and monotonicity, not by a particular formula".into(),
			"time constants: the reduction after round(tau*sample_rate) frames is compared with 1-1/e (1/e) with a slack of 1.5 frames".into(),
			"a delay shorter than one frame is only required not to panic".into(),
		]
	}
	fn extra_evidence(&self, tier: Tier) -> Vec<(String, J)> {
		vec![("sample_rates".into(), J::arr_str(srs(tier).iter().map(|s| s.to_string())))]
	}
	fn run_case(&self, tier: Tier, idx: u64, ctx: &mut Ctx) {
		let case = cases(tier)[idx as usize];
		ctx.sample(idx, || self.describe(tier, idx));
		for pass in [false, true] {
			VIA_HANDLE.with(|v| v.set(pass));
			match case {
				Case::Filter(m, sr) => run_filter(tier, m, sr, ctx),
				Case::Eq(k, sr, q) => run_eq(tier, k, sr, q, ctx),
				Case::Delay(sr) => run_delay(tier, sr, ctx),
				Case::Reverb(sr, f) => run_reverb(tier, sr, f, ctx),
				Case::Comp(sr, t) => run_comp(tier, sr, t, ctx),
				Case::Distortion => run_distortion(tier, ctx),
				Case::Gain => run_gain(tier, ctx),
			}
		}
		VIA_HANDLE.with(|v| v.set(false));
	}
}
