//! C08 — resource life cycle: exact capacity accounting, prompt removal, no stale ids.
//!
//! E1: all create / drop-oldest / drop-newest / finish / callback histories to a depth bound for
//! every resource kind x capacity {0,1,2} against a counting model; stale-id scenarios.
//! (The concurrent create || remove-and-add interleavings are explored by the E2 part, see c08e2.)

use crate::engine::{hash64, Check, Ctx, Level, Tier};
use crate::json::J;
use crate::probes::{ProbeShared, ProbeSoundData, SoundHandle};
use crate::rig::{self, catch, Manager};
use kira::clock::{ClockSpeed, ClockTime};
use kira::modulator::lfo::LfoBuilder;
use kira::modulator::tweener::TweenerBuilder;
use kira::sound::{PlaybackState, Region};
use kira::track::{MainTrackBuilder, SendTrackBuilder, SpatialTrackBuilder, TrackBuilder, TrackHandle};
use kira::{Capacities, Decibels, Easing, Mapping, StartTime, Tween, Value};
use std::any::Any;
use std::sync::atomic::Ordering;
use std::sync::Arc;
use std::time::Duration;

pub struct C08;

#[derive(Debug, Clone, Copy, PartialEq)]
enum Kind {
	ProbeSoundMain,
	StaticSoundMain,
	SoundSub,
	SubTrack,
	NestedSubTrack,
	SendTrack,
	Clock,
	Tweener,
	Lfo,
	Listener,
	SpatialTrack,
	FallibleSoundMain,
	/// child tracks of a parent that is paused throughout
	NestedUnderPaused,
	/// a resource = a child track with its own child; dropping it drops both handles (child first)
	NestedChain,
	/// child tracks of a spatial track built with sub_track_capacity(cap)
	NestedUnderSpatial,
	/// sounds on a spatial track built with sound_capacity(cap)
	SoundOnSpatial,
	/// probe sounds on a sub-track that is created at the beginning of the history (not adopted yet)
	SoundOnFreshTrack,
	/// child tracks of a sub-track that is created at the beginning of the history (not adopted yet)
	NestedOnFreshTrack,
	/// tweeners that are given a tween which never finishes (start time on a clock that does not exist) right after creation
	TweenerMidTween,
}
const KINDS: [Kind; 19] = [
	Kind::ProbeSoundMain,
	Kind::StaticSoundMain,
	Kind::SoundSub,
	Kind::SubTrack,
	Kind::NestedSubTrack,
	Kind::SendTrack,
	Kind::Clock,
	Kind::Tweener,
	Kind::Lfo,
	Kind::Listener,
	Kind::SpatialTrack,
	Kind::FallibleSoundMain,
	Kind::NestedUnderPaused,
	Kind::NestedChain,
	Kind::NestedUnderSpatial,
	Kind::SoundOnSpatial,
	Kind::SoundOnFreshTrack,
	Kind::NestedOnFreshTrack,
	Kind::TweenerMidTween,
];
const CAPS: [usize; 3] = [0, 1, 2];
const LETTERS: [&str; 5] = ["create", "drop oldest handle", "drop newest handle", "finish oldest sound", "callback"];
const NL: u64 = 5;
const STALE_CASES: u64 = 9 + RECYCLE_KINDS.len() as u64;
/// kinds taken through 12 create / drop / callback cycles at capacity 1 and 2 (more removals than any ring holds)
const RECYCLE_KINDS: [Kind; 8] = [Kind::Clock, Kind::Tweener, Kind::Lfo, Kind::Listener, Kind::SendTrack, Kind::SubTrack, Kind::SpatialTrack, Kind::ProbeSoundMain];
pub const E2_CASES: u64 = 6;
pub const E2N_CASES: u64 = 4;
/// long races: {sounds, sub-tracks} x capacity {1, 2}
const E2L_CASES: u64 = 4;

fn depth(tier: Tier) -> usize {
	tier.pick(7, 9)
}

fn decode(idx: u64) -> (Kind, usize, u8) {
	let mut i = idx;
	let first = (i % NL) as u8;
	i /= NL;
	let cap = CAPS[(i % 3) as usize];
	i /= 3;
	(KINDS[i as usize], cap, first)
}

impl Check for C08 {
	fn id(&self) -> &'static str {
		"C08"
	}
	fn level(&self) -> Level {
		Level::ModelChecking
	}
	fn num_cases(&self, _tier: Tier) -> u64 {
		KINDS.len() as u64 * 3 * NL + STALE_CASES + E2_CASES + E2N_CASES + E2L_CASES
	}
	fn describe(&self, tier: Tier, idx: u64) -> String {
		let g = KINDS.len() as u64 * 3 * NL;
		if idx >= g + STALE_CASES {
			return format!("E2 interleavings: {}", e2_name(idx - g - STALE_CASES));
		}
		if idx >= g {
			return format!("stale-id scenario #{}", idx - g);
		}
		let (k, c, f) = decode(idx);
		format!(
			"kind {:?} capacity {} first letter '{}', all continuations to depth {} over {:?}",
			k,
			c,
			LETTERS[f as usize],
			depth(tier),
			LETTERS
		)
	}
	fn sig_hint(&self, _tier: Tier, idx: u64) -> String {
		let g = KINDS.len() as u64 * 3 * NL;
		if idx >= g + STALE_CASES {
			return format!("E2 {}", e2_name(idx - g - STALE_CASES));
		}
		if idx >= g {
			return format!("stale-id scenario #{}", idx - g);
		}
		let (k, c, _) = decode(idx);
		format!("{:?} capacity {}", k, c)
	}
	fn rule(&self) -> String {
		"all histories of length <= depth over {create, drop oldest handle, drop newest handle, finish oldest sound, callback} x 19 resource kinds (incl. tweeners with a pending tween, sounds / child tracks of a track that is itself not adopted yet, child tracks / sounds of a spatial track with non-default capacities, child tracks of a paused parent, and child+grandchild chains dropped together) x capacity {0,1,2}, judged by a counting model (pending / adopted / marked); plus 5 stale-id scenarios (clock, modulator, listener, send track, sub-track slot reuse), 2 orphaned-storage scenarios, the pending-siblings scenario (every subset of 3 children / 3 sounds added in one interval alive, parent handle dropped), and 12-cycle create/drop recycling of 8 kinds at capacity 1 and 2. states = distinct model states (per-resource phase vectors); non-trivial = histories in which at least one creation succeeded and one removal happened".into()
	}
	fn assumptions(&self) -> Vec<String> {
		vec![
			"the count reported by num_*() is compared after every operation of the single gameplay thread; its transient value inside a racing try_reserve is not observed here".into(),
			"destruction on the audio thread is observed through probe Drop impls and through the deallocation monitor of the callback".into(),
		]
	}
	fn case_timeout_ms(&self, _tier: Tier) -> u64 {
		900_000
	}
	fn extra_evidence(&self, tier: Tier) -> Vec<(String, J)> {
		vec![("preemption_bound".into(), J::s(tier.pick("2", "3"))), ("depth".into(), J::u(depth(tier) as u64)), ("alphabet".into(), J::arr_str(LETTERS.iter().map(|s| s.to_string())))]
	}
	fn run_case(&self, tier: Tier, idx: u64, ctx: &mut Ctx) {
		let g = KINDS.len() as u64 * 3 * NL;
		if idx >= g + STALE_CASES + E2_CASES + E2N_CASES {
			e2_long(tier, idx - g - STALE_CASES - E2_CASES - E2N_CASES, ctx);
			return;
		}
		if idx >= g + STALE_CASES + E2_CASES {
			e2_nested(tier, idx - g - STALE_CASES - E2_CASES, ctx);
			return;
		}
		if idx >= g + STALE_CASES {
			e2_create_vs_remove(tier, idx - g - STALE_CASES, ctx);
			return;
		}
		if idx >= g {
			let which = idx - g;
			let r = catch(|| stale_ids(which, ctx));
			if let Err(p) = r {
				ctx.fail(format!("panic: {} :: stale-id scenario {}", p, which), "");
			}
			return;
		}
		let (kind, cap, first) = decode(idx);
		let d = depth(tier);
		let mut letters = vec![first];
		enumerate(kind, cap, &mut letters, d, ctx);
	}
}

fn enumerate(kind: Kind, cap: usize, letters: &mut Vec<u8>, depth: usize, ctx: &mut Ctx) {
	if letters.len() == depth {
		let ls = letters.clone();
		ctx.evals += 1;
		ctx.traces += 1;
		let r = catch(|| run_history(kind, cap, &ls, ctx));
		if let Err(p) = r {
			ctx.fail(
				format!("panic: {} :: {:?} capacity {}", p, kind, if cap == 0 { "0" } else { ">0" }),
				hist(kind, cap, &ls),
			);
		}
		return;
	}
	for l in 0..NL as u8 {
		// "finish oldest sound" only exists for sound kinds; skip the duplicate of "callback"
		if l == 3 && !is_sound(kind) {
			continue;
		}
		letters.push(l);
		enumerate(kind, cap, letters, depth, ctx);
		letters.pop();
	}
}

fn is_sound(k: Kind) -> bool {
	matches!(k, Kind::ProbeSoundMain | Kind::StaticSoundMain | Kind::SoundSub | Kind::FallibleSoundMain | Kind::SoundOnSpatial | Kind::SoundOnFreshTrack)
}

fn hist(kind: Kind, cap: usize, letters: &[u8]) -> String {
	format!(
		"{:?} capacity {} history=[{}]",
		kind,
		cap,
		letters.iter().map(|l| LETTERS[*l as usize]).collect::<Vec<_>>().join("; ")
	)
}

/// one resource of the model
#[derive(Debug, Clone, Copy, PartialEq, Eq, Hash)]
struct Res {
	adopted: bool,
	marked: bool,
	handle_alive: bool,
	/// static sound: stop requested, takes effect in the next processed callback
	stop_requested: bool,
}

fn instant() -> Tween {
	Tween {
		start_time: StartTime::Immediate,
		duration: Duration::ZERO,
		easing: Easing::Linear,
	}
}

struct Rig {
	m: Manager,
	parent: Option<TrackHandle>,
	sparent: Option<kira::track::SpatialTrackHandle>,
	listener: Option<kira::listener::ListenerHandle>,
	handles: Vec<Option<Box<dyn Any>>>,
	probes: Vec<Option<Arc<ProbeShared>>>,
}

fn run_history(kind: Kind, cap: usize, letters: &[u8], ctx: &mut Ctx) {
	let big = 4;
	let caps = Capacities {
		sub_track_capacity: if matches!(kind, Kind::SubTrack | Kind::SpatialTrack) { cap } else { big },
		send_track_capacity: if kind == Kind::SendTrack { cap } else { big },
		clock_capacity: if kind == Kind::Clock { cap } else { big },
		modulator_capacity: if matches!(kind, Kind::Tweener | Kind::Lfo | Kind::TweenerMidTween) { cap } else { big },
		listener_capacity: if kind == Kind::Listener { cap } else { big },
	};
	let main = MainTrackBuilder::new().sound_capacity(if matches!(kind, Kind::ProbeSoundMain | Kind::StaticSoundMain | Kind::FallibleSoundMain) { cap } else { big });
	let sr = 8;
	let ibs = 4;
	let mut m = rig::manager(sr, ibs, caps, main);
	let parent = match kind {
		Kind::SoundSub => Some(m.add_sub_track(TrackBuilder::new().sound_capacity(cap)).expect("parent track")),
		Kind::NestedSubTrack | Kind::NestedChain | Kind::NestedOnFreshTrack => Some(m.add_sub_track(TrackBuilder::new().sub_track_capacity(cap)).expect("parent track")),
		Kind::SoundOnFreshTrack => Some(m.add_sub_track(TrackBuilder::new().sound_capacity(cap)).expect("parent track")),
		Kind::NestedUnderPaused => {
			let mut p = m.add_sub_track(TrackBuilder::new().sub_track_capacity(cap)).expect("parent track");
			p.pause(instant());
			Some(p)
		}
		_ => None,
	};
	let listener = if matches!(kind, Kind::SpatialTrack | Kind::NestedUnderSpatial | Kind::SoundOnSpatial) {
		Some(m.add_listener(glam::Vec3::ZERO, glam::Quat::IDENTITY).expect("listener"))
	} else {
		None
	};
	let sparent = match kind {
		Kind::NestedUnderSpatial => Some(m.add_spatial_sub_track(listener.as_ref().unwrap(), glam::Vec3::new(0.0, 0.0, 1.0), SpatialTrackBuilder::new().sub_track_capacity(cap)).expect("spatial parent")),
		Kind::SoundOnSpatial => Some(m.add_spatial_sub_track(listener.as_ref().unwrap(), glam::Vec3::new(0.0, 0.0, 1.0), SpatialTrackBuilder::new().sound_capacity(cap)).expect("spatial parent")),
		_ => None,
	};
	let mut r = Rig {
		m,
		parent,
		sparent,
		listener,
		handles: vec![],
		probes: vec![],
	};
	let mut buf = vec![0.0f32; 16];
	// let the parent be adopted so that it is not part of the history
	if (r.parent.is_some() || r.listener.is_some() || r.sparent.is_some()) && !matches!(kind, Kind::SoundOnFreshTrack | Kind::NestedOnFreshTrack) {
		let rep = rig::callback(&mut r.m, &mut buf, 4, 2);
		if !rep.ok() {
			ctx.fail(format!("callback monitor (setup): {:?} :: {:?}", rep.panic.clone().or(rep.bad_sample.clone()), kind), hist(kind, cap, letters));
			return;
		}
	}
	let mut model: Vec<Option<Res>> = vec![]; // None = removed
	let mut created_ok = false;
	let mut removed_any = false;
	let desc = |k: usize| format!("{} at step #{} ('{}')", hist(kind, cap, letters), k, LETTERS[letters[k] as usize]);
	for (k, &l) in letters.iter().enumerate() {
		let count = model.iter().flatten().count();
		match l {
			0 => {
				// create
				let want_ok = count < cap;
				let got = create(&mut r, kind, model.len());
				match (&got, want_ok) {
					(Created::Ok(_, _), true) | (Created::Limit, false) => {}
					(Created::IntoSoundError, _) => {}
					(Created::Ok(_, _), false) => {
						ctx.fail(format!("creation succeeds beyond the capacity :: {:?}", kind), desc(k));
						return;
					}
					(Created::Limit, true) => {
						ctx.fail(
							format!("creation refused although fewer than capacity are alive or awaiting removal :: {:?}", kind),
							format!("{} model count {} capacity {}", desc(k), count, cap),
						);
						return;
					}
				}
				if let Created::Ok(h, p) = got {
					r.handles.push(Some(h));
					r.probes.push(p);
					model.push(Some(Res {
						adopted: false,
						marked: false,
						handle_alive: true,
						stop_requested: false,
					}));
					created_ok = true;
				}
			}
			1 | 2 => {
				// drop oldest / newest live handle
				let live: Vec<usize> = (0..r.handles.len()).filter(|i| r.handles[*i].is_some()).collect();
				let pick = if l == 1 { live.first() } else { live.last() };
				if let Some(&i) = pick {
					r.handles[i] = None;
					if let Some(res) = model[i].as_mut() {
						res.handle_alive = false;
						if !is_sound(kind) {
							res.marked = true;
						}
					}
				}
			}
			3 => {
				// finish the oldest sound that is not finished yet
				let pick = (0..model.len()).find(|i| model[*i].map(|m| !m.marked && !m.stop_requested).unwrap_or(false));
				if let Some(i) = pick {
					match kind {
						Kind::ProbeSoundMain | Kind::FallibleSoundMain | Kind::SoundOnSpatial | Kind::SoundOnFreshTrack => {
							if let Some(p) = &r.probes[i] {
								p.finished.store(true, Ordering::SeqCst);
							}
							model[i].as_mut().unwrap().marked = true;
						}
						_ => {
							// static sound: needs its handle to be stopped; without a handle it cannot be finished
							if let Some(h) = r.handles[i].as_mut() {
								if let Some(sh) = h.downcast_mut::<kira::sound::static_sound::StaticSoundHandle>() {
									sh.stop(instant());
									model[i].as_mut().unwrap().stop_requested = true;
								}
							}
						}
					}
				}
			}
			_ => {
				let rep = rig::callback(&mut r.m, &mut buf, 4, 2);
				if !rep.ok() {
					let what = if let Some(p) = &rep.panic {
						format!("panic {}", p)
					} else if rep.allocs + rep.frees > 0 {
						"allocates/frees (resource destroyed on the audio thread?)".to_string()
					} else {
						format!("{:?}", rep.bad_sample)
					};
					ctx.fail(format!("callback: {} :: {:?}", what, kind), format!("{} {:?}", desc(k), rep));
					return;
				}
				// model: remove adopted+marked, adopt pending, process (stop requests take effect)
				for slot in model.iter_mut() {
					if let Some(res) = slot {
						if res.adopted && res.marked {
							*slot = None;
							removed_any = true;
						}
					}
				}
				for res in model.iter_mut().flatten() {
					res.adopted = true;
					if res.stop_requested {
						res.marked = true;
					}
				}
			}
		}
		ctx.transitions += 1;
		// ---- observe
		let count = model.iter().flatten().count();
		let reported = reported_count(&mut r, kind);
		if let Some(n) = reported {
			if n != count {
				ctx.fail(
					format!("reported count differs from created minus removed :: {:?}", kind),
					format!("{} reported {} model {}", desc(k), n, count),
				);
				return;
			}
			if n > cap {
				ctx.fail(format!("reported count exceeds the capacity :: {:?}", kind), desc(k));
				return;
			}
		}
		for (i, p) in r.probes.iter().enumerate() {
			if let Some(p) = p {
				if p.dropped_in_callback.load(Ordering::SeqCst) {
					ctx.fail(format!("resource destroyed on the audio thread :: {:?}", kind), format!("{} resource #{}", desc(k), i));
					return;
				}
				// a static sound whose model says "gone" must report Stopped
				let _ = i;
			}
		}
		let mut st: Vec<Option<Res>> = model.clone();
		st.retain(|x| x.is_some());
		ctx.state(hash64(&(kind as u8, cap, st)));
	}
	if created_ok && removed_any {
		ctx.nontrivial(hash64(&(kind as u8, cap, letters)));
	}
	ctx.outcome(hash64(&(model.iter().flatten().count(), created_ok, removed_any)));
	ctx.sample(ctx.traces, || hist(kind, cap, letters));
}

enum Created {
	Ok(Box<dyn Any>, Option<Arc<ProbeShared>>),
	Limit,
	IntoSoundError,
}

fn dc_loop() -> kira::sound::static_sound::StaticSoundData {
	rig::static_data(8, rig::dc_frames(4, 0.25)).loop_region(Region::from(..))
}

fn create(r: &mut Rig, kind: Kind, serial: usize) -> Created {
	use kira::PlaySoundError;
	match kind {
		Kind::ProbeSoundMain => {
			let d = ProbeSoundData::new((0.1, 0.0), (0.1, 0.0));
			let sh = d.shared.clone();
			match r.m.play(d) {
				Ok(h) => Created::Ok(Box::new(h), Some(sh)),
				Err(PlaySoundError::SoundLimitReached) => Created::Limit,
				Err(_) => Created::IntoSoundError,
			}
		}
		Kind::FallibleSoundMain => {
			// every second creation attempt fails inside into_sound: it must not consume a slot
			let mut d = ProbeSoundData::new((0.1, 0.0), (0.1, 0.0));
			d.fail = serial % 2 == 0 && false;
			let sh = d.shared.clone();
			// first try a failing one, then the real one
			let mut f = ProbeSoundData::new((0.1, 0.0), (0.1, 0.0));
			f.fail = true;
			let _ = r.m.play(f);
			match r.m.play(d) {
				Ok(h) => Created::Ok(Box::new(h), Some(sh)),
				Err(PlaySoundError::SoundLimitReached) => Created::Limit,
				Err(_) => Created::IntoSoundError,
			}
		}
		Kind::StaticSoundMain => match r.m.play(dc_loop()) {
			Ok(h) => Created::Ok(Box::new(h), None),
			Err(_) => Created::Limit,
		},
		Kind::SoundSub => match r.parent.as_mut().unwrap().play(dc_loop()) {
			Ok(h) => Created::Ok(Box::new(h), None),
			Err(_) => Created::Limit,
		},
		Kind::SubTrack => match r.m.add_sub_track(TrackBuilder::new()) {
			Ok(h) => Created::Ok(Box::new(h), None),
			Err(_) => Created::Limit,
		},
		Kind::SoundOnFreshTrack => {
			let d = ProbeSoundData::new((0.1, 0.0), (0.1, 0.0));
			let sh = d.shared.clone();
			match r.parent.as_mut().unwrap().play(d) {
				Ok(h) => Created::Ok(Box::new(h), Some(sh)),
				Err(PlaySoundError::SoundLimitReached) => Created::Limit,
				Err(_) => Created::IntoSoundError,
			}
		}
		Kind::NestedSubTrack | Kind::NestedUnderPaused | Kind::NestedOnFreshTrack => match r.parent.as_mut().unwrap().add_sub_track(TrackBuilder::new()) {
			Ok(h) => Created::Ok(Box::new(h), None),
			Err(_) => Created::Limit,
		},
		Kind::NestedUnderSpatial => match r.sparent.as_mut().unwrap().add_sub_track(TrackBuilder::new()) {
			Ok(h) => Created::Ok(Box::new(h), None),
			Err(_) => Created::Limit,
		},
		Kind::SoundOnSpatial => {
			let d = ProbeSoundData::new((0.1, 0.0), (0.1, 0.0));
			let sh = d.shared.clone();
			match r.sparent.as_mut().unwrap().play(d) {
				Ok(h) => Created::Ok(Box::new(h), Some(sh)),
				Err(PlaySoundError::SoundLimitReached) => Created::Limit,
				Err(_) => Created::IntoSoundError,
			}
		}
		Kind::NestedChain => match r.parent.as_mut().unwrap().add_sub_track(TrackBuilder::new().sub_track_capacity(1)) {
			Ok(mut h) => {
				let g = h.add_sub_track(TrackBuilder::new()).expect("grandchild");
				// tuple fields drop in order: the child's handle first, then the grandchild's
				Created::Ok(Box::new((h, g)), None)
			}
			Err(_) => Created::Limit,
		},
		Kind::SendTrack => match r.m.add_send_track(SendTrackBuilder::new()) {
			Ok(h) => Created::Ok(Box::new(h), None),
			Err(_) => Created::Limit,
		},
		Kind::Clock => match r.m.add_clock(ClockSpeed::TicksPerSecond(1.0)) {
			Ok(h) => Created::Ok(Box::new(h), None),
			Err(_) => Created::Limit,
		},
		Kind::Tweener => match r.m.add_modulator(TweenerBuilder { initial_value: 0.0 }) {
			Ok(h) => Created::Ok(Box::new(h), None),
			Err(_) => Created::Limit,
		},
		Kind::TweenerMidTween => match r.m.add_modulator(TweenerBuilder { initial_value: 0.0 }) {
			Ok(mut h) => {
				// a tween that is still pending when the handle is dropped, whenever that is
				h.set(1.0, Tween { start_time: StartTime::Delayed(Duration::from_secs(100_000)), duration: Duration::from_secs(1), easing: Easing::Linear });
				Created::Ok(Box::new(h), None)
			}
			Err(_) => Created::Limit,
		},
		Kind::Lfo => match r.m.add_modulator(LfoBuilder::new()) {
			Ok(h) => Created::Ok(Box::new(h), None),
			Err(_) => Created::Limit,
		},
		Kind::Listener => match r.m.add_listener(glam::Vec3::ZERO, glam::Quat::IDENTITY) {
			Ok(h) => Created::Ok(Box::new(h), None),
			Err(_) => Created::Limit,
		},
		Kind::SpatialTrack => {
			let id = r.listener.as_ref().unwrap().id();
			match r.m.add_spatial_sub_track(id, glam::Vec3::new(0.0, 0.0, 1.0), SpatialTrackBuilder::new()) {
				Ok(h) => Created::Ok(Box::new(h), None),
				Err(_) => Created::Limit,
			}
		}
	}
}

fn reported_count(r: &mut Rig, kind: Kind) -> Option<usize> {
	match kind {
		Kind::ProbeSoundMain | Kind::StaticSoundMain | Kind::FallibleSoundMain => Some(r.m.main_track().num_sounds()),
		Kind::SoundSub => Some(r.parent.as_ref().unwrap().num_sounds()),
		// the parent track of the SoundSub/NestedSubTrack scenarios lives in the manager's sub-track arena too
		Kind::SubTrack | Kind::SpatialTrack => Some(r.m.num_sub_tracks()),
		Kind::NestedSubTrack | Kind::NestedUnderPaused | Kind::NestedChain | Kind::NestedOnFreshTrack => Some(r.parent.as_ref().unwrap().num_sub_tracks()),
		Kind::SoundOnFreshTrack => Some(r.parent.as_ref().unwrap().num_sounds()),
		Kind::NestedUnderSpatial => Some(r.sparent.as_ref().unwrap().num_sub_tracks()),
		Kind::SoundOnSpatial => Some(r.sparent.as_ref().unwrap().num_sounds()),
		Kind::SendTrack => Some(r.m.num_send_tracks()),
		Kind::Clock => Some(r.m.num_clocks()),
		Kind::Tweener | Kind::Lfo | Kind::TweenerMidTween => Some(r.m.num_modulators()),
		Kind::Listener => None,
	}
}

// ---------------------------------------------------------------------------------------------
// stale ids: an id of a removed resource never resolves to a newer resource that reuses its slot

/// far more create / drop cycles than any hand-over ring holds: every cycle the slot comes back
fn recycle(kind: Kind, ctx: &mut Ctx) {
	for cap in [1usize, 2] {
		ctx.evals += 1;
		ctx.traces += 1;
		let mut letters: Vec<u8> = vec![];
		for _ in 0..12 {
			for _ in 0..cap {
				letters.push(0);
			}
			letters.push(4);
			for _ in 0..cap {
				letters.push(if is_sound(kind) { 3 } else { 1 });
			}
			letters.push(4);
			letters.push(4);
		}
		let r = catch(|| run_history(kind, cap, &letters, ctx));
		if let Err(p) = r {
			ctx.fail(format!("panic: {} :: {:?}", p, kind), format!("12 cycles of (create x {}; callback; drop / finish x {}; callback; callback)", cap, cap));
		}
	}
}

fn stale_ids(which: u64, ctx: &mut Ctx) {
	if which >= 9 {
		recycle(RECYCLE_KINDS[(which - 9) as usize], ctx);
		return;
	}
	ctx.evals += 1;
	ctx.traces += 1;
	let sr = 8;
	let mut m = rig::manager(sr, 4, rig::caps(1), MainTrackBuilder::new());
	let mut buf = vec![0.0f32; 64];
	let cb = |m: &mut Manager, buf: &mut Vec<f32>, ctx: &mut Ctx, what: &str| -> Vec<(f32, f32)> {
		let rep = rig::callback(m, buf, 8, 2);
		if !rep.ok() {
			ctx.fail(format!("callback monitor: {:?} :: stale-id scenario {}", rep.panic.clone().or(rep.bad_sample.clone()), what), format!("{:?}", rep));
		}
		(0..8).map(|i| (buf[2 * i], buf[2 * i + 1])).collect()
	};
	match which {
		0 => {
			// clock: a sound waiting on clock A must become Stopped when A is removed, even though clock B reuses the slot
			let a = m.add_clock(ClockSpeed::TicksPerSecond(8.0)).unwrap();
			let t = ClockTime { clock: a.id(), ticks: 1, fraction: 0.0 };
			let h = m.play(dc_loop().start_time(t)).unwrap();
			cb(&mut m, &mut buf, ctx, "clock");
			drop(a);
			cb(&mut m, &mut buf, ctx, "clock"); // removal
			let mut b = m.add_clock(ClockSpeed::TicksPerSecond(8.0)).expect("slot of the removed clock is reusable");
			b.start();
			let mut heard = false;
			for _ in 0..4 {
				let out = cb(&mut m, &mut buf, ctx, "clock");
				heard |= out.iter().any(|f| f.0 != 0.0);
			}
			if heard || h.state() != PlaybackState::Stopped {
				ctx.fail(
					"stale ClockId resolves to a newer clock in the same slot (or waiting sound not stopped)",
					format!("sound state {:?}, audible {}", h.state(), heard),
				);
			}
		}
		1 => {
			// modulator: a volume linked to tweener A holds its last value after A is removed; tweener B in the same slot has no influence
			let a = m.add_modulator(TweenerBuilder { initial_value: 1.0 }).unwrap();
			let map = Mapping {
				input_range: (0.0, 1.0),
				output_range: (Decibels::SILENCE, Decibels::IDENTITY),
				easing: Easing::Linear,
			};
			let _h = m.play(dc_loop().volume(Value::from_modulator(&a, map))).unwrap();
			let before = cb(&mut m, &mut buf, ctx, "modulator");
			cb(&mut m, &mut buf, ctx, "modulator");
			drop(a);
			cb(&mut m, &mut buf, ctx, "modulator");
			let _b = m.add_modulator(TweenerBuilder { initial_value: 0.0 }).expect("slot of the removed modulator is reusable");
			let mut after = vec![];
			for _ in 0..3 {
				after = cb(&mut m, &mut buf, ctx, "modulator");
			}
			let want = before.last().unwrap().0;
			if after.iter().any(|f| (f.0 - 0.25).abs() > 1e-6) || (want - 0.25).abs() > 1e-6 {
				ctx.fail(
					"stale ModulatorId follows a newer modulator in the same slot (or does not hold its last value)",
					format!("before {:?} after {:?}", before.last(), after),
				);
			}
		}
		2 => {
			// listener: spatial track of a removed listener is silent although a new listener reuses the slot
			let a = m.add_listener(glam::Vec3::ZERO, glam::Quat::IDENTITY).unwrap();
			let mut t = m
				.add_spatial_sub_track(&a, glam::Vec3::new(0.0, 0.0, 0.5), SpatialTrackBuilder::new())
				.unwrap();
			let _s = t.play(dc_loop()).unwrap();
			let with = cb(&mut m, &mut buf, ctx, "listener");
			drop(a);
			cb(&mut m, &mut buf, ctx, "listener");
			let _b = m.add_listener(glam::Vec3::ZERO, glam::Quat::IDENTITY).expect("slot of the removed listener is reusable");
			let mut after = vec![];
			for _ in 0..3 {
				after = cb(&mut m, &mut buf, ctx, "listener");
			}
			if !with.iter().any(|f| f.0 != 0.0) {
				ctx.fail("spatial track silent although its listener exists", format!("{:?}", with));
			}
			if after.iter().any(|f| f.0 != 0.0 || f.1 != 0.0) {
				ctx.fail("stale ListenerId resolves to a newer listener in the same slot", format!("{:?}", after));
			}
		}
		3 => {
			// send track: a route to a removed send track goes nowhere although a new send track reuses the slot
			let a = m.add_send_track(SendTrackBuilder::new()).unwrap();
			let mut t = m.add_sub_track(TrackBuilder::new().volume(-60.0).with_send(&a, 0.0)).unwrap();
			// the track itself is silent (-60 dB) ... its send is post-fader, so use a track at 0 dB and compare levels instead
			drop(t);
			cb(&mut m, &mut buf, ctx, "send");
			cb(&mut m, &mut buf, ctx, "send");
			t = m.add_sub_track(TrackBuilder::new().with_send(&a, 0.0)).unwrap();
			let _s = t.play(dc_loop()).unwrap();
			let with = cb(&mut m, &mut buf, ctx, "send");
			drop(a);
			cb(&mut m, &mut buf, ctx, "send");
			let _b = m.add_send_track(SendTrackBuilder::new()).expect("slot of the removed send track is reusable");
			let mut after = vec![];
			for _ in 0..3 {
				after = cb(&mut m, &mut buf, ctx, "send");
			}
			// with the send: direct 0.25 + send 0.25 = 0.5; after: only the direct path
			if with.iter().any(|f| (f.0 - 0.5).abs() > 1e-6) {
				ctx.fail("send route does not add the routed signal", format!("{:?}", with));
			}
			if after.iter().any(|f| (f.0 - 0.25).abs() > 1e-6) {
				ctx.fail("stale SendTrackId routes into a newer send track in the same slot", format!("{:?}", after));
			}
		}
		5 => {
			// a sound that finishes on a persisting track whose handle is long gone: still destroyed on a caller's thread
			// (the callback monitor - no free on the audio thread - and the probe's Drop record decide)
			let mut m = rig::manager(sr, 4, rig::caps(4), MainTrackBuilder::new());
			let mut t = m.add_sub_track(TrackBuilder::new().persist_until_sounds_finish(true)).unwrap();
			let d = ProbeSoundData::new((0.1, 0.0), (0.1, 0.0));
			let p = t.play(d).expect("play");
			cb(&mut m, &mut buf, ctx, "orphaned persisting track");
			drop(t);
			cb(&mut m, &mut buf, ctx, "orphaned persisting track");
			p.finished.store(true, Ordering::SeqCst);
			for _ in 0..3 {
				cb(&mut m, &mut buf, ctx, "orphaned persisting track");
			}
			if p.dropped_in_callback.load(Ordering::SeqCst) {
				ctx.fail("resource destroyed on the audio thread :: sound finishing on a persisting track whose handle was dropped", "");
			}
			if m.num_sub_tracks() != 0 {
				ctx.fail("a persisting track is not removed after its last sound finished :: orphaned persisting track", format!("num_sub_tracks {}", m.num_sub_tracks()));
			}
			// the gameplay thread reclaims everything when it next creates a track
			let _ = m.add_sub_track(TrackBuilder::new());
		}
		6 => {
			// parent with two children; the parent's handle is dropped first, then one child's: that child is removed from a
			// storage nobody will ever drain - it must still not be destroyed on the audio thread
			let mut m = rig::manager(sr, 4, rig::caps(4), MainTrackBuilder::new());
			let mut parent = m.add_sub_track(TrackBuilder::new()).unwrap();
			let mut a = parent.add_sub_track(TrackBuilder::new()).unwrap();
			let b = parent.add_sub_track(TrackBuilder::new()).unwrap();
			let pa = a.play(ProbeSoundData::new((0.1, 0.0), (0.1, 0.0))).expect("play");
			cb(&mut m, &mut buf, ctx, "orphaned parent");
			drop(parent);
			cb(&mut m, &mut buf, ctx, "orphaned parent");
			drop(a);
			for _ in 0..3 {
				cb(&mut m, &mut buf, ctx, "orphaned parent");
			}
			if pa.dropped_in_callback.load(Ordering::SeqCst) {
				ctx.fail("resource destroyed on the audio thread :: child of a parent whose handle was dropped earlier", "");
			}
			if m.num_sub_tracks() != 1 {
				ctx.fail("a parent track is removed while a child track is alive (or counted twice) :: orphaned parent", format!("num_sub_tracks {}", m.num_sub_tracks()));
			}
			drop(b);
			for _ in 0..2 {
				cb(&mut m, &mut buf, ctx, "orphaned parent");
			}
			if m.num_sub_tracks() != 0 {
				ctx.fail("a parent track is not removed after its last child :: orphaned parent", format!("num_sub_tracks {}", m.num_sub_tracks()));
			}
			let _ = m.add_sub_track(TrackBuilder::new());
			if pa.dropped_in_callback.load(Ordering::SeqCst) {
				ctx.fail("resource destroyed on the audio thread :: child of a parent whose handle was dropped earlier", "");
			}
		}
		7 => {
			// several things added to an adopted track in ONE interval, some of them removable at once, then the track's own
			// handle dropped: the track lives on exactly as long as something pending or adopted under it is alive, and
			// everything alive is wired to the output. All subsets of 3 children / 3 sounds that leave at least one alive.
			for persisting_sounds in [false, true] {
				for alive_mask in 1u32..8 {
					for adopted_first in [true, false] {
						let mut m = rig::manager(sr, 4, rig::caps(4), MainTrackBuilder::new());
						let mut parent = m.add_sub_track(TrackBuilder::new().persist_until_sounds_finish(persisting_sounds).sub_track_capacity(4).sound_capacity(4)).unwrap();
						if adopted_first {
							cb(&mut m, &mut buf, ctx, "pending siblings");
						}
						let mut keep: Vec<Box<dyn Any>> = vec![];
						let mut probes = vec![];
						for i in 0..3 {
							let alive = alive_mask & (1 << i) != 0;
							if persisting_sounds {
								let d = ProbeSoundData::new((0.1, 0.0), (0.1, 0.0));
								d.shared.finished.store(!alive, Ordering::SeqCst);
								let p = parent.play(d).expect("play");
								if alive {
									probes.push(p);
								}
							} else {
								let mut c = parent.add_sub_track(TrackBuilder::new()).unwrap();
								if alive {
									probes.push(c.play(ProbeSoundData::new((0.1, 0.0), (0.1, 0.0))).expect("play"));
									keep.push(Box::new(c));
								}
							}
						}
						drop(parent);
						for _ in 0..3 {
							cb(&mut m, &mut buf, ctx, "pending siblings");
						}
						let what = format!(
							"{} on a track that {}; alive (bit mask, in creation order) {:03b}; all added in one interval, then the track's handle dropped, then 3 callbacks",
							if persisting_sounds { "3 sounds (persist_until_sounds_finish)" } else { "3 child tracks, a looping probe sound on each live one" },
							if adopted_first { "was adopted one callback earlier" } else { "was created in the same interval" },
							alive_mask
						);
						if m.num_sub_tracks() != 1 {
							ctx.fail("a track is removed (or miscounted) although something pending under it is alive :: pending siblings", format!("{}: num_sub_tracks {} expected 1", what, m.num_sub_tracks()));
						}
						if let Some(i) = probes.iter().position(|p| p.frames_emitted.load(Ordering::SeqCst) == 0) {
							ctx.fail("a live sound / child track added together with removable siblings is never processed :: pending siblings", format!("{}: live probe #{} emitted no frame", what, i));
						}
						if probes.iter().any(|p| p.dropped_in_callback.load(Ordering::SeqCst)) {
							ctx.fail("resource destroyed on the audio thread :: pending siblings", what.clone());
						}
						// and the whole family goes away once nothing is alive
						for p in &probes {
							p.finished.store(true, Ordering::SeqCst);
						}
						keep.clear();
						for _ in 0..4 {
							cb(&mut m, &mut buf, ctx, "pending siblings");
						}
						if m.num_sub_tracks() != 0 {
							ctx.fail("a track is not removed after everything under it is gone :: pending siblings", format!("{}: num_sub_tracks {}", what, m.num_sub_tracks()));
						}
						ctx.transitions += 8;
						ctx.nontrivial(hash64(&("siblings", persisting_sounds, alive_mask, adopted_first)));
					}
				}
			}
		}
		8 => {
			// a sound that can never resume (it waits for a time of a clock that no longer exists) finishes: it is unloaded, its
			// slot is free again, and a persisting track that only waited for it goes away too
			for persisting_host in [false, true] {
				let mut m = rig::manager(sr, 4, rig::caps(2), MainTrackBuilder::new().sound_capacity(1));
				let mut host = if persisting_host { Some(m.add_sub_track(TrackBuilder::new().persist_until_sounds_finish(true).sound_capacity(1)).unwrap()) } else { None };
				let mut clock = m.add_clock(ClockSpeed::TicksPerSecond(1.0)).unwrap();
				clock.start();
				let data = dc_loop();
				let mut h = match host.as_mut() {
					Some(t) => t.play(data).unwrap(),
					None => m.play(data).unwrap(),
				};
				cb(&mut m, &mut buf, ctx, "resume on a removed clock");
				h.pause(Tween { duration: Duration::ZERO, ..Default::default() });
				h.resume_at(StartTime::ClockTime(ClockTime { clock: clock.id(), ticks: 1000, fraction: 0.0 }), Tween::default());
				cb(&mut m, &mut buf, ctx, "resume on a removed clock");
				drop(clock);
				let had_host = host.is_some();
				drop(host.take());
				for _ in 0..4 {
					cb(&mut m, &mut buf, ctx, "resume on a removed clock");
				}
				let what = format!("sound on {}: pause(instant); resume_at(tick 1000 of a clock); clock handle dropped{}; 4 callbacks", if had_host { "a persist_until_sounds_finish(true) track" } else { "the main track" }, if had_host { " and the track's handle too" } else { "" });
				if h.state() != PlaybackState::Stopped {
					ctx.fail("a sound waiting to resume on a removed clock does not finish (it can never resume) :: resume on a removed clock", format!("{}: state {:?}", what, h.state()));
				}
				let n = if had_host { m.num_sub_tracks() } else { m.main_track().num_sounds() };
				if n != 0 {
					ctx.fail("a sound waiting to resume on a removed clock is never unloaded (its slot / its persisting track leaks) :: resume on a removed clock", format!("{}: {} still counted", what, n));
				}
				if !had_host && m.play(dc_loop()).is_err() {
					ctx.fail("the slot of a sound that could never resume is not free again :: resume on a removed clock", what.clone());
				}
				ctx.transitions += 6;
				ctx.nontrivial(hash64(&("resume on removed clock", persisting_host)));
			}
			// stop() from every playback state: whatever the sound was doing, a stopped sound finishes, is unloaded, frees its slot,
			// and a persisting track that only waited for it goes away
			const PRE: [&str; 8] = ["playing", "pausing (2 s fade in progress)", "paused (instant pause, one callback)", "paused (8-frame fade, three callbacks)", "waiting to resume (resume_at Delayed 1000 s)", "resuming (2 s fade in progress)", "waiting for a delayed start (1000 s)", "pause and stop in the same interval"];
			for pre in 0..PRE.len() {
				for stop_frames in [0u64, 8] {
					for persisting_host in [false, true] {
						let mut m = rig::manager(sr, 4, rig::caps(2), MainTrackBuilder::new().sound_capacity(1));
						let mut host = if persisting_host { Some(m.add_sub_track(TrackBuilder::new().persist_until_sounds_finish(true).sound_capacity(1)).unwrap()) } else { None };
						let data = if pre == 6 { dc_loop().start_time(StartTime::Delayed(Duration::from_secs(1000))) } else { dc_loop() };
						let mut h = match host.as_mut() {
							Some(t) => t.play(data).unwrap(),
							None => m.play(data).unwrap(),
						};
						let tag = "stop from every state";
						cb(&mut m, &mut buf, ctx, tag);
						let instant = Tween { duration: Duration::ZERO, ..Default::default() };
						let long = Tween { start_time: StartTime::Immediate, duration: Duration::from_secs(2), easing: Easing::Linear };
						let short = Tween { start_time: StartTime::Immediate, duration: Duration::from_secs(1), easing: Easing::Linear };
						match pre {
							1 => {
								h.pause(long);
								cb(&mut m, &mut buf, ctx, tag);
							}
							2 => {
								h.pause(instant);
								cb(&mut m, &mut buf, ctx, tag);
							}
							3 => {
								h.pause(short);
								for _ in 0..3 {
									cb(&mut m, &mut buf, ctx, tag);
								}
							}
							4 => {
								h.pause(instant);
								h.resume_at(StartTime::Delayed(Duration::from_secs(1000)), instant);
								cb(&mut m, &mut buf, ctx, tag);
							}
							5 => {
								h.pause(instant);
								cb(&mut m, &mut buf, ctx, tag);
								h.resume(long);
								cb(&mut m, &mut buf, ctx, tag);
							}
							7 => h.pause(instant),
							_ => {}
						}
						let before = h.state();
						h.stop(Tween { start_time: StartTime::Immediate, duration: Duration::from_secs_f64(stop_frames as f64 / sr as f64), easing: Easing::Linear });
						let had_host = host.is_some();
						drop(host.take());
						for _ in 0..4 {
							cb(&mut m, &mut buf, ctx, tag);
						}
						let what = format!("looping sound on {}, {} (state {:?}); stop({} frames){}; 4 callbacks of 8 frames", if had_host { "a persist_until_sounds_finish(true) track" } else { "the main track" }, PRE[pre], before, stop_frames, if had_host { "; the track's handle dropped" } else { "" });
						if h.state() != PlaybackState::Stopped {
							ctx.fail("a stopped sound never becomes Stopped :: stop from every playback state", format!("{}: state {:?}", what, h.state()));
						}
						let n = if had_host { m.num_sub_tracks() } else { m.main_track().num_sounds() };
						if n != 0 {
							ctx.fail("a stopped sound is never unloaded (its slot / its persisting track leaks) :: stop from every playback state", format!("{}: {} still counted", what, n));
						} else if !had_host && m.play(dc_loop()).is_err() {
							ctx.fail("the slot of a stopped sound is not free again :: stop from every playback state", what.clone());
						}
						ctx.transitions += 6;
						ctx.nontrivial(hash64(&("stop from state", pre, stop_frames, persisting_host)));
					}
				}
			}
			// a streaming sound whose decoder fails while the sound is not audible (paused / waiting for its start time): it
			// becomes Stopped and is unloaded all the same - its slot is free again
			for state in 0..3 {
				crate::pacer::set_mode(crate::pacer::Mode::Pacer);
				let mut m = rig::manager(sr, 4, rig::caps(2), MainTrackBuilder::new().sound_capacity(1));
				let first = crate::pacer::count();
				let (mut dec, stats) = crate::probes::ScriptedDecoder::new(rig::dc_frames(4096, 0.25), sr, vec![4], 1);
				// the 6th packet cannot be decoded
				dec.fail_decode_at = Some(6);
				dec.fail_forever = true;
				let mut data = kira::sound::streaming::StreamingSoundData::from_decoder(dec);
				if state == 2 {
					data = data.start_time(StartTime::Delayed(Duration::from_secs(1000)));
				}
				let mut h = m.play(data).map_err(|_| ()).expect("play");
				// two packets are delivered and heard
				crate::pacer::step(first, 8);
				cb(&mut m, &mut buf, ctx, "decoder failure while not audible");
				if state == 1 {
					h.pause(Tween { duration: Duration::ZERO, ..Default::default() });
					cb(&mut m, &mut buf, ctx, "decoder failure while not audible");
				}
				// the decoder runs on into the failing packet
				crate::pacer::step(first, 40);
				for _ in 0..4 {
					cb(&mut m, &mut buf, ctx, "decoder failure while not audible");
				}
				let what = format!("streaming sound ({}) whose decoder fails at its 6th packet; 4 callbacks after the failure", ["playing", "paused", "waiting for a delayed start"][state]);
				let err = h.pop_error();
				if err.is_none() {
					ctx.fail("machinery: the scripted decoder failure did not reach the handle :: decoder failure while not audible", what.clone());
				}
				if h.state() != PlaybackState::Stopped {
					ctx.fail("a streaming sound whose decoder failed does not become Stopped :: decoder failure while not audible", format!("{}: state {:?}", what, h.state()));
				}
				if m.main_track().num_sounds() != 0 {
					ctx.fail("a streaming sound whose decoder failed is never unloaded (its slot leaks) :: decoder failure while not audible", format!("{}: num_sounds {}", what, m.main_track().num_sounds()));
				} else if m.play(dc_loop()).is_err() {
					ctx.fail("the slot of a failed streaming sound is not free again :: decoder failure while not audible", what.clone());
				}
				ctx.transitions += 6;
				ctx.nontrivial(hash64(&("decoder failure", state)));
				drop(m);
				crate::probes::reap_decoder(first, &stats);
			}
			// a track whose handle is dropped while something keeps it alive, and whose playback state changes AFTER the drop
			// (a pause fade that ends later, a pause / resume issued just before the drop): it is still removed once nothing
			// keeps it alive
			for keeper in 0..2 {
				for cmd in 0..3 {
					let mut m = rig::manager(sr, 4, rig::caps(4), MainTrackBuilder::new());
					let mut t = m.add_sub_track(TrackBuilder::new().persist_until_sounds_finish(keeper == 0).sub_track_capacity(2).sound_capacity(2)).unwrap();
					let mut child = None;
					let probe = if keeper == 0 {
						t.play(ProbeSoundData::new((0.1, 0.0), (0.1, 0.0))).expect("play")
					} else {
						let mut c = t.add_sub_track(TrackBuilder::new()).unwrap();
						let p = c.play(ProbeSoundData::new((0.1, 0.0), (0.1, 0.0))).expect("play");
						child = Some(c);
						p
					};
					cb(&mut m, &mut buf, ctx, "state change after drop");
					let fade = Tween { start_time: StartTime::Immediate, duration: Duration::from_secs(2), easing: Easing::Linear };
					match cmd {
						0 => t.pause(fade),
						1 => {
							t.pause(Tween { duration: Duration::ZERO, ..fade });
							cb(&mut m, &mut buf, ctx, "state change after drop");
							t.resume(fade);
						}
						_ => {
							t.pause(fade);
							t.resume(fade);
						}
					}
					drop(t);
					// the fades (16 frames) end two callbacks later: Pausing -> Paused / Resuming -> Playing after the drop
					for _ in 0..4 {
						cb(&mut m, &mut buf, ctx, "state change after drop");
					}
					let before = m.num_sub_tracks();
					probe.finished.store(true, Ordering::SeqCst);
					drop(child);
					for _ in 0..4 {
						cb(&mut m, &mut buf, ctx, "state change after drop");
					}
					let what = format!(
						"{}; {}; drop(handle); 4 callbacks of 8 frames; then {}; 4 callbacks",
						["persist_until_sounds_finish(true) track with a sound", "track with a live child track"][keeper],
						["pause(2 s fade)", "pause(instant), one callback, resume(2 s fade)", "pause(2 s fade); resume(2 s fade) in one interval"][cmd],
						["the sound finishes", "the sound finishes and the child's handle is dropped"][keeper]
					);
					if before != 1 {
						ctx.fail("a dropped track is removed (or miscounted) although something keeps it alive :: state change after the drop", format!("{}: num_sub_tracks {} before the keeper went away, expected 1", what, before));
					}
					if m.num_sub_tracks() != 0 {
						ctx.fail("a dropped track whose playback state changed after the drop is never removed :: state change after the drop", format!("{}: num_sub_tracks {} at the end, expected 0", what, m.num_sub_tracks()));
					}
					// and the slots are usable again
					let again: Vec<_> = (0..4).map(|_| m.add_sub_track(TrackBuilder::new())).collect();
					if again.iter().any(|r| r.is_err()) {
						ctx.fail("sub-track slots are not free again after everything was removed :: state change after the drop", what.clone());
					}
					ctx.transitions += 10;
					ctx.nontrivial(hash64(&("state after drop", keeper, cmd)));
				}
			}
		}
		_ => {
			// sub-track slot reuse: sounds of a removed track are gone, the new track in the slot is empty
			let mut t = m.add_sub_track(TrackBuilder::new()).unwrap();
			let _s = t.play(dc_loop()).unwrap();
			let with = cb(&mut m, &mut buf, ctx, "track");
			drop(t);
			cb(&mut m, &mut buf, ctx, "track");
			let _t2 = m.add_sub_track(TrackBuilder::new()).expect("slot of the removed track is reusable");
			let mut after = vec![];
			for _ in 0..3 {
				after = cb(&mut m, &mut buf, ctx, "track");
			}
			if !with.iter().any(|f| f.0 != 0.0) || after.iter().any(|f| f.0 != 0.0) {
				ctx.fail("removed track still audible / new track in its slot inherits sounds", format!("with {:?} after {:?}", with, after));
			}
		}
	}
	ctx.transitions += 8;
	ctx.state(hash64(&("stale", which)));
	ctx.nontrivial(hash64(&("stale", which)));
	ctx.outcome(100 + which);
}

// ---------------------------------------------------------------------------------------------
// E2: the gameplay thread's create path || the audio thread's remove-and-add step

pub fn e2_name(i: u64) -> String {
	if i >= E2_CASES + E2N_CASES {
		let j = i - E2_CASES - E2N_CASES;
		return format!(
			"long race, {} capacity {}: game(3 x create-something-that-is-removable-at-once) || audio(4 callbacks); switches between two operations of a thread are free, preemptions inside an operation are bounded; only the resource-controller steps (reserve, drain unused, push new, pop new, push unused) are scheduling points",
			["sounds on the main track", "sub-tracks"][(j % 2) as usize],
			[1, 2][(j / 2) as usize]
		);
	}
	if i >= E2_CASES {
		return e2n_name(i - E2_CASES);
	}
	let kind = ["sounds on the main track (ResourceStorage)", "clocks (SelfReferentialResourceStorage)", "sub-tracks (ResourceStorage)"][(i % 3) as usize];
	let cap = [1, 2][((i / 3) % 2) as usize];
	format!("{} capacity {}: game(create; create) || audio(2 callbacks, the first removes a finished/dropped resource), then a sequential epilogue", kind, cap)
}

fn e2_create_vs_remove(tier: Tier, which: u64, ctx: &mut Ctx) {
	use crate::sched::{self, Config, Exec};
	use std::sync::Mutex;
	fn filt(s: &'static str) -> bool {
		s.starts_with("res.") || s.starts_with("rtrb.") || s.starts_with("arena.") || s.ends_with(".removed.load") || s.ends_with(".removed.store")
	}
	let kind = which % 3;
	let cap = [1usize, 2][((which / 3) % 2) as usize];
	let cfg = Config {
		filter: filt,
		horizon: 3000,
		max_spin_rounds: 8,
		record_sites: true,
		..Default::default()
	};
	#[derive(Debug, Clone, Default, PartialEq)]
	struct Obs {
		created: Vec<bool>,
		panics: Vec<String>,
		epilogue: Vec<String>,
	}
	let mut body = |prefix: &[u8]| -> (sched::RunResult, Obs) {
		let caps = Capacities {
			sub_track_capacity: if kind == 2 { cap } else { 4 },
			send_track_capacity: 1,
			clock_capacity: if kind == 1 { cap } else { 1 },
			modulator_capacity: 1,
			listener_capacity: 1,
		};
		let mut m = rig::manager(8, 2, caps, MainTrackBuilder::new().sound_capacity(if kind == 0 { cap } else { 4 }));
		let mut buf = vec![0.0f32; 8];
		// fill to capacity, adopt, then mark the first one for removal
		let mut probes: Vec<Arc<ProbeShared>> = vec![];
		let mut others: Vec<Box<dyn Any + Send>> = vec![];
		for _ in 0..cap {
			match kind {
				0 => {
					let d = ProbeSoundData::new((0.1, 0.0), (0.1, 0.0));
					probes.push(m.play(d).expect("fill"));
				}
				1 => others.push(Box::new(m.add_clock(ClockSpeed::TicksPerSecond(1.0)).expect("fill"))),
				_ => others.push(Box::new(m.add_sub_track(TrackBuilder::new()).expect("fill"))),
			}
		}
		rig::callback(&mut m, &mut buf, 2, 2);
		if kind == 0 {
			probes[0].finished.store(true, Ordering::SeqCst);
		} else {
			others.remove(0);
		}
		let mut renderer = m.backend_mut().renderer.take().unwrap();
		let obs = Arc::new(Mutex::new(Obs::default()));
		let back = Arc::new(Mutex::new(None));
		let keep: Arc<Mutex<Option<(Manager, Vec<Arc<ProbeShared>>, Vec<Box<dyn Any + Send>>)>>> = Arc::new(Mutex::new(None));
		let mut ex = Exec::begin(&cfg, prefix);
		{
			let (obs, keep) = (obs.clone(), keep.clone());
			ex.spawn("game", move || {
				for _ in 0..2 {
					let ok = match kind {
						0 => {
							let d = ProbeSoundData::new((0.1, 0.0), (0.1, 0.0));
							match m.play(d) {
								Ok(p) => {
									probes.push(p);
									true
								}
								Err(_) => false,
							}
						}
						1 => match m.add_clock(ClockSpeed::TicksPerSecond(1.0)) {
							Ok(c) => {
								others.push(Box::new(c));
								true
							}
							Err(_) => false,
						},
						_ => match m.add_sub_track(TrackBuilder::new()) {
							Ok(t) => {
								others.push(Box::new(t));
								true
							}
							Err(_) => false,
						},
					};
					obs.lock().unwrap().created.push(ok);
				}
				*keep.lock().unwrap() = Some((m, probes, others));
			});
		}
		{
			let (obs, back) = (obs.clone(), back.clone());
			ex.spawn("audio", move || {
				let mut buf = [0.0f32; 4];
				for _ in 0..2 {
					// the full callback monitors apply to the explored callbacks too (panic, allocation / free on the
					// audio thread, well-formed samples)
					let rep = rig::callback_on(&mut renderer, &mut buf, 2, 2);
					if let Some(p) = rep.panic {
						obs.lock().unwrap().panics.push(p);
						break;
					}
					if rep.allocs + rep.frees > 0 {
						obs.lock().unwrap().panics.push(format!("allocation/free on the audio thread (allocs {} frees {})", rep.allocs, rep.frees));
					}
				}
				*back.lock().unwrap() = Some(renderer);
			});
		}
		let res = ex.run();
		let mut o = obs.lock().unwrap().clone();
		// ---- sequential epilogue: everything is finished / dropped; after two callbacks the arena must be empty
		// and `cap` fresh resources must be creatable; then remove those too (this is where a corrupted
		// unused-ring invariant shows)
		let taken = keep.lock().unwrap().take();
		let renderer = back.lock().unwrap().take();
		if let (Some((mut m, probes, mut others)), Some(r), true) = (taken, renderer, o.panics.is_empty()) {
			m.backend_mut().renderer = Some(r);
			let mut buf = vec![0.0f32; 8];
			let live_before = match kind {
				0 => probes.iter().filter(|p| !p.finished.load(Ordering::SeqCst)).count(),
				_ => others.len(),
			};
			let reported = match kind {
				0 => m.main_track().num_sounds(),
				1 => m.num_clocks(),
				_ => m.num_sub_tracks(),
			};
			if reported > cap {
				o.epilogue.push(format!("count {} above capacity {}", reported, cap));
			}
			let _ = live_before;
			for round in 0..3 {
				for p in &probes {
					p.finished.store(true, Ordering::SeqCst);
				}
				others.clear();
				for _ in 0..2 {
					let rep = rig::callback(&mut m, &mut buf, 2, 2);
					if let Some(p) = rep.panic {
						o.epilogue.push(format!("audio-thread panic in the epilogue (round {}): {}", round, p));
						break;
					}
					if rep.allocs + rep.frees > 0 {
						o.epilogue.push("allocation/free on the audio thread in the epilogue".to_string());
					}
				}
				if !o.epilogue.is_empty() {
					break;
				}
				let n = match kind {
					0 => m.main_track().num_sounds(),
					1 => m.num_clocks(),
					_ => m.num_sub_tracks(),
				};
				if n != 0 {
					o.epilogue.push(format!("round {}: {} resource(s) still counted two callbacks after everything was finished/dropped", round, n));
					break;
				}
				let mut made = 0;
				let mut new_probes = vec![];
				for _ in 0..cap {
					let ok = match kind {
						0 => match m.play(ProbeSoundData::new((0.1, 0.0), (0.1, 0.0))) {
							Ok(p) => {
								new_probes.push(p);
								true
							}
							Err(_) => false,
						},
						1 => match m.add_clock(ClockSpeed::TicksPerSecond(1.0)) {
							Ok(c) => {
								others.push(Box::new(c));
								true
							}
							Err(_) => false,
						},
						_ => match m.add_sub_track(TrackBuilder::new()) {
							Ok(t) => {
								others.push(Box::new(t));
								true
							}
							Err(_) => false,
						},
					};
					if ok {
						made += 1;
					}
				}
				if made != cap {
					o.epilogue.push(format!("round {}: only {} of {} slots reusable although nothing is alive", round, made, cap));
					break;
				}
				rig::callback(&mut m, &mut buf, 2, 2);
				for p in new_probes {
					p.finished.store(true, Ordering::SeqCst);
				}
			}
			for p in &probes {
				if p.dropped_in_callback.load(Ordering::SeqCst) {
					o.epilogue.push("resource destroyed on the audio thread".to_string());
				}
			}
		}
		(res, o)
	};
	let mut outcomes = std::collections::HashSet::new();
	let mut fails: Vec<(String, String)> = vec![];
	let mut nontrivial = 0u64;
	let kname = ["sounds", "clocks", "sub-tracks"][kind as usize];
	let mut judge = |res: &sched::RunResult, o: &Obs, choices: &[u8]| {
		outcomes.insert(hash64(&format!("{:?}", o)));
		if choices.iter().any(|c| *c != 0) {
			nontrivial += 1;
		}
		for p in res.panics.iter().chain(o.panics.iter()) {
			fails.push((format!("panic while the create path races the audio thread's remove-and-add: {} :: E2 {}", p, kname), sched::fmt_schedule(res)));
		}
		for e in &o.epilogue {
			let generic = if e.contains("panic") {
				format!("after a create racing a removal: {} :: E2 {}", crate::rig::normalize_panic(e), kname)
			} else {
				format!("after a create racing a removal: {} :: E2 {}", crate::rig::normalize_panic(e), kname)
			};
			fails.push((generic, format!("{:?}; {}", o, sched::fmt_schedule(res))));
		}
		// with capacity c, c resources alive of which one is being removed: at most one of the two creates can succeed
		// before the removal, and never more than the capacity are alive
		let ok = o.created.iter().filter(|x| **x).count();
		if ok > 1 {
			// the second success needs a second free slot: only possible if capacity 2 and ... no: one removal frees one slot
			fails.push((format!("more creations succeed than slots were freed :: E2 {}", kname), format!("{:?}; {}", o, sched::fmt_schedule(res))));
		}
	};
	let stats = sched::explore(tier.pick(Some(2), Some(3)), 3_000_000, &mut body, &mut judge);
	sched::report(ctx, &stats);
	if let Some(e) = stats.error {
		ctx.fail(format!("MACHINERY: scheduler error: {}", e), "");
	}
	ctx.schedules += stats.schedules;
	ctx.evals += stats.schedules;
	ctx.traces += stats.schedules;
	ctx.transitions += stats.schedules * stats.max_points as u64;
	ctx.count(&format!("e2_schedules[{} cap {}]", kname, cap), stats.schedules);
	ctx.count(&format!("e2_max_points[{} cap {}]", kname, cap), stats.max_points as u64);
	ctx.count("e2_capped", stats.capped as u64);
	for o in outcomes {
		ctx.outcome(o);
		ctx.state(o);
	}
	ctx.nontrivial_extra += nontrivial;
	for (s, d) in fails {
		ctx.fail(s, d);
	}
}

// E2 (long race): several creates against several callbacks, every created resource removable at once, so that the
// unused-resource ring and the slot accounting are exercised over more than one removal per drain. Scheduling points
// are the resource-controller steps only; a switch between two operations of a thread (site "boundary:") is free.
pub fn e2_long(tier: Tier, which: u64, ctx: &mut Ctx) {
	use crate::sched::{self, Config, Exec};
	use std::sync::Mutex;
	fn filt(s: &'static str) -> bool {
		s.starts_with("res.")
	}
	let kind = which % 2; // 0 sounds, 1 sub-tracks
	let cap = [1usize, 2][(which / 2) as usize];
	if cap == 2 && tier == Tier::Quick {
		// (capacity 2 roughly doubles the schedules: thorough tier only)
		ctx.count("e2_long_capacity_2_left_to_the_thorough_tier", 1);
		return;
	}
	let cfg = Config { filter: filt, horizon: 3000, max_spin_rounds: 8, record_sites: true, ..Default::default() };
	#[derive(Debug, Clone, Default, PartialEq)]
	struct Obs {
		created: Vec<bool>,
		panics: Vec<String>,
		epilogue: Vec<String>,
	}
	let mut body = |prefix: &[u8]| -> (sched::RunResult, Obs) {
		let caps = Capacities { sub_track_capacity: if kind == 1 { cap } else { 4 }, send_track_capacity: 1, clock_capacity: 1, modulator_capacity: 1, listener_capacity: 1 };
		let mut m = rig::manager(8, 2, caps, MainTrackBuilder::new().sound_capacity(if kind == 0 { cap } else { 4 }));
		let mut buf = vec![0.0f32; 8];
		let gone = || {
			let d = ProbeSoundData::new((0.1, 0.0), (0.1, 0.0));
			d.shared.finished.store(true, Ordering::SeqCst);
			d
		};
		// fill to capacity with resources that are removable at once, adopt them
		for _ in 0..cap {
			if kind == 0 {
				m.play(gone()).expect("fill");
			} else {
				drop(m.add_sub_track(TrackBuilder::new()).expect("fill"));
			}
		}
		rig::callback(&mut m, &mut buf, 2, 2);
		let mut renderer = m.backend_mut().renderer.take().unwrap();
		let obs = Arc::new(Mutex::new(Obs::default()));
		let back = Arc::new(Mutex::new(None));
		let keep: Arc<Mutex<Option<Manager>>> = Arc::new(Mutex::new(None));
		let mut ex = Exec::begin(&cfg, prefix);
		{
			let (obs, keep) = (obs.clone(), keep.clone());
			ex.spawn("game", move || {
				for _ in 0..3 {
					let ok = if kind == 0 {
						let d = ProbeSoundData::new((0.1, 0.0), (0.1, 0.0));
						d.shared.finished.store(true, Ordering::SeqCst);
						m.play(d).is_ok()
					} else {
						m.add_sub_track(TrackBuilder::new()).map(drop).is_ok()
					};
					obs.lock().unwrap().created.push(ok);
					kira::verif::sync_point("boundary:game");
				}
				*keep.lock().unwrap() = Some(m);
			});
		}
		{
			let (obs, back) = (obs.clone(), back.clone());
			ex.spawn("audio", move || {
				let mut buf = [0.0f32; 4];
				for _ in 0..4 {
					let rep = rig::callback_on(&mut renderer, &mut buf, 2, 2);
					if let Some(p) = rep.panic {
						obs.lock().unwrap().panics.push(p);
						break;
					}
					if rep.allocs + rep.frees > 0 {
						obs.lock().unwrap().panics.push(format!("allocation/free on the audio thread (allocs {} frees {})", rep.allocs, rep.frees));
					}
					kira::verif::sync_point("boundary:audio");
				}
				*back.lock().unwrap() = Some(renderer);
			});
		}
		let res = ex.run();
		let mut o = obs.lock().unwrap().clone();
		// sequential epilogue: two callbacks later nothing is counted, `cap` new resources fit, twice over
		let taken = keep.lock().unwrap().take();
		let renderer = back.lock().unwrap().take();
		if let (Some(mut m), Some(r), true) = (taken, renderer, o.panics.is_empty()) {
			m.backend_mut().renderer = Some(r);
			let mut buf = vec![0.0f32; 8];
			'rounds: for round in 0..3 {
				for _ in 0..2 {
					let rep = rig::callback(&mut m, &mut buf, 2, 2);
					if let Some(p) = rep.panic {
						o.epilogue.push(format!("audio-thread panic in the epilogue (round {}): {}", round, p));
						break 'rounds;
					}
				}
				let n = if kind == 0 { m.main_track().num_sounds() } else { m.num_sub_tracks() };
				if n != 0 {
					o.epilogue.push(format!("round {}: {} resource(s) still counted two callbacks after everything was finished/dropped", round, n));
					break;
				}
				for k in 0..cap {
					let ok = if kind == 0 { m.play(gone()).is_ok() } else { m.add_sub_track(TrackBuilder::new()).map(drop).is_ok() };
					if !ok {
						o.epilogue.push(format!("round {}: only {} of {} slots reusable although nothing is alive", round, k, cap));
						break 'rounds;
					}
				}
			}
		}
		(res, o)
	};
	let mut outcomes = std::collections::HashSet::new();
	let mut fails: Vec<(String, String)> = vec![];
	let mut nontrivial = 0u64;
	let kname = ["sounds", "sub-tracks"][kind as usize];
	let mut judge = |res: &sched::RunResult, o: &Obs, choices: &[u8]| {
		outcomes.insert(hash64(&format!("{:?}", o)));
		if choices.iter().any(|c| *c != 0) {
			nontrivial += 1;
		}
		for p in res.panics.iter().chain(o.panics.iter()) {
			fails.push((format!("panic while creates race the audio thread's remove-and-add over several callbacks: {} :: E2 long race, {}", crate::rig::normalize_panic(p), kname), sched::fmt_schedule(res)));
		}
		for e in &o.epilogue {
			fails.push((format!("after a long create / remove race: {} :: E2 long race, {}", crate::rig::normalize_panic(e), kname), format!("{:?}; {}", o, sched::fmt_schedule(res))));
		}
	};
	let stats = sched::explore(tier.pick(Some(2), Some(3)), 3_000_000, &mut body, &mut judge);
	sched::report(ctx, &stats);
	if let Some(e) = stats.error {
		ctx.fail(format!("MACHINERY: scheduler error: {}", e), "");
	}
	ctx.schedules += stats.schedules;
	ctx.evals += stats.schedules;
	ctx.traces += stats.schedules;
	ctx.transitions += stats.schedules * stats.max_points as u64;
	ctx.count(&format!("e2_long_schedules[{} cap {}]", kname, cap), stats.schedules);
	ctx.count(&format!("e2_long_max_points[{} cap {}]", kname, cap), stats.max_points as u64);
	for o in outcomes {
		ctx.outcome(o);
		ctx.state(o);
	}
	ctx.nontrivial_extra += nontrivial;
	for (s, d) in fails {
		ctx.fail(s, d);
	}
}

// E2 (nested): the gameplay thread creates something *under* a track and drops that track's handle, while the audio
// thread evaluates the track's removal predicate. A resource whose handle is alive must not be removed.
fn e2n_name(i: u64) -> String {
	[
		"nested: game(child = parent.add_sub_track(); drop(parent)) || audio(2 callbacks); the child must stay wired to the output",
		"nested, persistent parent: game(child = parent.add_sub_track(); drop(parent)) || audio(2 callbacks)",
		"nested, persistent parent: game(sound = parent.play(loop); drop(parent)) || audio(2 callbacks); the sound must play on",
		"nested, depth 2: game(g = child.add_sub_track(); drop(child); drop(parent)) || audio(2 callbacks)",
	][i as usize]
		.to_string()
}

fn e2_nested(tier: Tier, which: u64, ctx: &mut Ctx) {
	use crate::sched::{self, Config, Exec};
	use std::sync::Mutex;
	fn filt(s: &'static str) -> bool {
		s.starts_with("res.") || s.starts_with("rtrb.") || s.starts_with("arena.") || s.ends_with(".removed.load") || s.ends_with(".removed.store")
	}
	let cfg = Config { filter: filt, horizon: 3000, max_spin_rounds: 8, record_sites: true, ..Default::default() };
	#[derive(Debug, Clone, Default, PartialEq)]
	struct Obs {
		created: Option<bool>,
		panics: Vec<String>,
		epilogue: Vec<String>,
	}
	enum Kept {
		Track(TrackHandle),
		Sound(kira::sound::static_sound::StaticSoundHandle),
		Nothing,
	}
	let mut body = |prefix: &[u8]| -> (sched::RunResult, Obs) {
		let mut m = rig::manager(8, 2, rig::caps(4), MainTrackBuilder::new());
		let mut buf = vec![0.0f32; 8];
		let persist = which == 1 || which == 2;
		let mut parent = m.add_sub_track(TrackBuilder::new().persist_until_sounds_finish(persist)).expect("parent");
		let child = if which == 3 { Some(parent.add_sub_track(TrackBuilder::new()).expect("child")) } else { None };
		rig::callback(&mut m, &mut buf, 2, 2);
		let mut renderer = m.backend_mut().renderer.take().unwrap();
		let obs = Arc::new(Mutex::new(Obs::default()));
		let back = Arc::new(Mutex::new(None));
		let keep: Arc<Mutex<Option<Kept>>> = Arc::new(Mutex::new(None));
		let mut ex = Exec::begin(&cfg, prefix);
		{
			let (obs, keep) = (obs.clone(), keep.clone());
			ex.spawn("game", move || {
				let kept = match which {
					0 | 1 => match parent.add_sub_track(TrackBuilder::new()) {
						Ok(c) => Kept::Track(c),
						Err(_) => Kept::Nothing,
					},
					2 => match parent.play(dc_loop()) {
						Ok(s) => Kept::Sound(s),
						Err(_) => Kept::Nothing,
					},
					_ => {
						let mut child = child.unwrap();
						let r = match child.add_sub_track(TrackBuilder::new()) {
							Ok(c) => Kept::Track(c),
							Err(_) => Kept::Nothing,
						};
						drop(child);
						r
					}
				};
				drop(parent);
				obs.lock().unwrap().created = Some(!matches!(kept, Kept::Nothing));
				*keep.lock().unwrap() = Some(kept);
			});
		}
		{
			let (obs, back) = (obs.clone(), back.clone());
			ex.spawn("audio", move || {
				let mut buf = [0.0f32; 4];
				for _ in 0..2 {
					let rep = rig::callback_on(&mut renderer, &mut buf, 2, 2);
					if let Some(p) = rep.panic {
						obs.lock().unwrap().panics.push(p);
						break;
					}
					if rep.allocs + rep.frees > 0 {
						obs.lock().unwrap().panics.push(format!("allocation/free on the audio thread (allocs {} frees {})", rep.allocs, rep.frees));
					}
				}
				*back.lock().unwrap() = Some(renderer);
			});
		}
		let res = ex.run();
		let mut o = obs.lock().unwrap().clone();
		let kept = keep.lock().unwrap().take();
		let renderer = back.lock().unwrap().take();
		if let (Some(kept), Some(r), true) = (kept, renderer, o.panics.is_empty()) {
			m.backend_mut().renderer = Some(r);
			let mut buf = vec![0.0f32; 8];
			for _ in 0..2 {
				rig::callback(&mut m, &mut buf, 2, 2);
			}
			let audible = |m: &mut Manager| -> bool {
				let mut buf = vec![0.0f32; 8];
				rig::callback(m, &mut buf, 4, 2);
				buf.iter().any(|x| x.abs() > 0.2)
			};
			match kept {
				Kept::Track(mut t) => {
					// the handle is alive: the track must still be part of the tree, i.e. a sound played on it is heard
					match t.play(dc_loop()) {
						Ok(mut s) => {
							rig::callback(&mut m, &mut buf, 2, 2);
							if !audible(&mut m) {
								o.epilogue.push("a track whose handle is alive was removed together with its parent (a sound played on it is not heard)".into());
							}
							s.stop(instant());
						}
						Err(e) => o.epilogue.push(format!("play on the surviving track failed: {:?}", e)),
					}
					drop(t);
				}
				Kept::Sound(mut s) => {
					if !audible(&mut m) {
						o.epilogue.push("a sound on a persistent track was cut off when the track's handle was dropped".into());
					}
					s.stop(instant());
				}
				Kept::Nothing => {}
			}
			for _ in 0..3 {
				rig::callback(&mut m, &mut buf, 2, 2);
			}
			// everything is dropped / stopped now: all slots must be free again
			let mut made = vec![];
			for _ in 0..4 {
				if let Ok(t) = m.add_sub_track(TrackBuilder::new()) {
					made.push(t);
				}
			}
			if made.len() != 4 {
				o.epilogue.push(format!("only {} of 4 sub-track slots reusable after everything was dropped", made.len()));
			}
		}
		(res, o)
	};
	let mut outcomes = std::collections::HashSet::new();
	let mut fails: Vec<(String, String)> = vec![];
	let mut nontrivial = 0u64;
	let kname = format!("nested #{}", which);
	let mut judge = |res: &sched::RunResult, o: &Obs, choices: &[u8]| {
		outcomes.insert(hash64(&format!("{:?}", o)));
		if choices.iter().any(|c| *c != 0) {
			nontrivial += 1;
		}
		for p in res.panics.iter().chain(o.panics.iter()) {
			fails.push((format!("panic while a nested create races the parent's removal: {} :: E2 {}", p, kname), sched::fmt_schedule(res)));
		}
		for e in &o.epilogue {
			fails.push((format!("{} :: E2 {}", e, kname), format!("{:?}; {}", o, sched::fmt_schedule(res))));
		}
	};
	let stats = sched::explore(tier.pick(Some(2), Some(3)), 3_000_000, &mut body, &mut judge);
	sched::report(ctx, &stats);
	if let Some(e) = stats.error {
		ctx.fail(format!("MACHINERY: scheduler error: {}", e), "");
	}
	ctx.schedules += stats.schedules;
	ctx.evals += stats.schedules;
	ctx.traces += stats.schedules;
	ctx.transitions += stats.schedules * stats.max_points as u64;
	ctx.count(&format!("e2_schedules[{}]", kname), stats.schedules);
	ctx.count(&format!("e2_max_points[{}]", kname), stats.max_points as u64);
	ctx.count("e2_capped", stats.capped as u64);
	for o in outcomes {
		ctx.outcome(o);
		ctx.state(o);
	}
	ctx.nontrivial_extra += nontrivial;
	for (s, d) in fails {
		ctx.fail(s, d);
	}
}
